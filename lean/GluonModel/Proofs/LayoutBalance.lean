/-
What is true of OpenBlock / CloseBlock in the stream the layout algorithm emits:
   closes emitted + Block contexts on the stack ≤ opens emitted + OpenBlock tokens still pending
at every moment (`Bal`).  Every `CloseBlock` handed to the parser pops exactly one Block context
whose `OpenBlock` was emitted before or is still queued; Block contexts can also disappear
without a `CloseBlock` (a stray `)` pops the top-level block, layout.rs:319-332), which is why
this is an inequality and not the naive "balanced".
-/
import GluonModel.LayoutAlgo
import GluonModel.Proofs.LayoutAlgo
import GluonModel.Proofs.LayoutTotal

namespace GluonModel.LayoutAlgo.Proofs
open GluonModel.LayoutAlgo

def isOB (k : Kind) : Nat := if k = .openBlock then 1 else 0
def isCB (k : Kind) : Nat := if k = .closeBlock then 1 else 0

def cntOB : List Tok → Nat
  | [] => 0
  | t :: r => isOB t.kind + cntOB r

theorem cntOB_append (a b : List Tok) : cntOB (a ++ b) = cntOB a + cntOB b := by
  induction a with
  | nil => simp [cntOB]
  | cons t r ih => simp [cntOB, ih]; omega

/-- OpenBlock tokens still pending (queued by the algorithm, or — for arbitrary streams — not
    yet read). -/
def Q (st : St) : Nat := cntOB st.unproc + cntOB st.input

def blocks : List Offside → Nat
  | [] => 0
  | o :: r => (if o.ctx.isBlock = true then 1 else 0) + blocks r

theorem blocks_tail (l : List Offside) : blocks l.tail ≤ blocks l := by
  cases l <;> simp [blocks]

theorem blocks_setTop (b : Bool) (l : List Offside) : blocks (setTopSemi b l) = blocks l := by
  cases l with
  | nil => rfl
  | cons o r =>
    simp only [setTopSemi, blocks]
    split
    · rename_i hb; simp [hb, Ctx.isBlock]
    · rfl

theorem fetch_Q {st : St} {t : Tok} {st' : St} (h : fetch st = .ok (t, st')) :
    isOB t.kind + cntOB st'.input = cntOB st.input ∧ st'.unproc = st.unproc := by
  unfold fetch at h
  split at h
  · rename_i a rest hin
    split at h
    · cases h
    · cases h; simp [hin, cntOB]
  · rename_i hin
    cases h; simp [hin, cntOB, isOB]

theorem nextToken_Q {st : St} {t : Tok} {st' : St} (h : nextToken st = .ok (t, st')) :
    isOB t.kind + Q st' = Q st := by
  unfold nextToken at h
  split at h
  · rename_i a rest hu
    cases h
    simp [Q, hu, cntOB]; omega
  · rename_i hu
    obtain ⟨h1, h2⟩ := fetch_Q h
    simp [Q, h2, hu, cntOB] at *; omega

theorem peekToken_Q (k : Nat) (st : St) {o : Option Tok} {st' : St}
    (h : peekToken k st = .ok (o, st')) : Q st' = Q st := by
  induction k generalizing st with
  | zero => simp only [peekToken] at h; cases h; rfl
  | succ k ih =>
    simp only [peekToken] at h
    split at h
    · cases h
    · rename_i t st1 hf
      obtain ⟨h1, h2⟩ := fetch_Q hf
      have := ih _ h
      simp only [Q, cntOB_append, cntOB] at this ⊢
      rw [h2] at this
      omega

theorem scanLoop_Q (expected : Kind) (fuel i : Nat) (inAttr : Bool) (first : Tok) (st : St)
    {b : Bool} {st' : St} (h : scanLoop expected fuel i inAttr first st = .done b st') :
    Q st' = Q st := by
  induction fuel generalizing i inAttr st with
  | zero => exact absurd h (by simp [scanLoop])
  | succ fuel ih =>
    unfold scanLoop at h
    simp only at h
    split at h
    · cases h
    · rename_i st1 hp
      cases h
      split at hp
      · cases hp
      · exact peekToken_Q _ _ hp
    · rename_i t st1 hp
      have hs : Q st1 = Q st := by
        split at hp
        · cases hp; rfl
        · exact peekToken_Q _ _ hp
      split at h
      · cases h; exact hs
      · split at h
        · cases h; exact hs
        · rw [ih _ _ _ h, hs]
        · rw [ih _ _ _ h, hs]
        · rw [ih _ _ _ h, hs]
        · split at h
          · rw [ih _ _ _ h, hs]
          · cases h; exact hs

theorem continueBlock_Q (c : Ctx) (tok : Tok) (st : St) {b : Bool} {st' : St}
    (h : continueBlock c tok st = .done b st') : Q st' = Q st := by
  unfold continueBlock at h
  split at h
  · split at h
    · cases h; rfl
    · split at h
      · unfold scanContinueBlock at h
        split at h
        · exact scanLoop_Q _ _ _ _ _ _ h
        · exact scanLoop_Q _ _ _ _ _ _ h
        · cases h; rfl
      · cases h; rfl
  · cases h; rfl

theorem scanForNextBlock_bal {c : Ctx} {st st' : St} (h : scanForNextBlock c st = .ok st') :
    blocks st'.stack + Q st ≤ Q st' + blocks st.stack := by
  unfold scanForNextBlock at h
  split at h
  · cases h
  · rename_i next st1 hn
    have h1 := nextToken_Q hn
    have h2 := nextToken_stack hn
    dsimp only at h
    split at h
    · rename_i hblk
      repeat' split at h
      all_goals
        obtain ⟨p1, p2, p3⟩ := pushCtx_spec h
        rw [p1]
        simp only [blocks, hblk, Q, p2, p3, cntOB, isOB, h2] at *
        simp at *
        omega
    · rename_i hblk
      obtain ⟨p1, p2, p3⟩ := pushCtx_spec h
      rw [p1]
      simp only [blocks, hblk, Q, p2, p3, cntOB, h2] at *
      simp at *
      omega

theorem finish_bal (tok : Tok) (off : Offside) (st : St) (hk : tok.kind ≠ .in_)
    {t' : Tok} {st' : St} (h : finish tok off st = .ret t' st') :
    t' = tok ∧ blocks st'.stack + Q st ≤ Q st' + blocks st.stack := by
  unfold finish at h
  split at h
  · rename_i c hc
    obtain ⟨h1, h2⟩ := ofExcept_ret h
    obtain ⟨p1, p2, p3⟩ := pushCtx_spec h2
    refine ⟨h1, ?_⟩
    have hcb : c.isBlock = false := by
      cases hk2 : tok.kind <;> simp [pushContextOf, hk2] at hc <;> subst hc <;> rfl
    rw [p1]
    have key : ∀ (S0 : St), S0.unproc = st.unproc → S0.input = st.input →
        blocks S0.stack ≤ blocks st.stack → st'.unproc = S0.unproc → st'.input = S0.input →
        (if c.isBlock = true then 1 else 0) + blocks S0.stack + Q st ≤ Q st' + blocks st.stack := by
      intro S0 a1 a2 a3 a4 a5
      simp only [hcb, Q, a4, a5, a1, a2]
      simp; omega
    apply key _ _ _ _ p2 p3
    · split <;> rfl
    · split <;> rfl
    · split
      · exact blocks_tail _
      · exact Nat.le_refl _
  · split at h
    · rename_i hin; exact absurd hin hk
    · obtain ⟨h1, h2⟩ := ofExcept_ret h; exact ⟨h1, scanForNextBlock_bal h2⟩
    · obtain ⟨h1, h2⟩ := ofExcept_ret h; exact ⟨h1, scanForNextBlock_bal h2⟩
    · obtain ⟨h1, h2⟩ := ofExcept_ret h; exact ⟨h1, scanForNextBlock_bal h2⟩
    · obtain ⟨h1, h2⟩ := ofExcept_ret h; exact ⟨h1, scanForNextBlock_bal h2⟩
    · obtain ⟨h1, h2⟩ := ofExcept_ret h; exact ⟨h1, scanForNextBlock_bal h2⟩
    · split at h
      · cases h
      · rename_i next st1 hn
        have n1 := nextToken_Q hn
        have n2 := nextToken_stack hn
        dsimp only at h
        split at h
        · obtain ⟨h1, h2⟩ := ofExcept_ret h
          have q := scanForNextBlock_bal h2
          refine ⟨h1, ?_⟩
          simp only [Q, cntOB, n2] at q n1 ⊢; omega
        · cases h
          refine ⟨rfl, ?_⟩
          simp only [Q, cntOB, n2] at n1 ⊢; omega
    · cases h
      exact ⟨rfl, by simp only [blocks_setTop, Q]; omega⟩
    · cases h
      exact ⟨rfl, by omega⟩

def StepBal (tok : Tok) (st : St) : Step → Prop
  | .cont t' st' =>
    blocks st'.stack + (isOB tok.kind + Q st) ≤ (isOB t'.kind + Q st') + blocks st.stack
  | .ret t' st' =>
    isCB t'.kind + blocks st'.stack + (isOB tok.kind + Q st) ≤ isOB t'.kind + Q st' + blocks st.stack
  | _ => True

def RuleBal (F : St → Prop) (tok : Tok) (st : St) : Rule → Prop
  | .done s => StepBal tok st s
  | .fall st1 => F st1

theorem bb_exists_block {l : List Offside} (h : BottomBlock l) (hne : l ≠ []) :
    ∃ o ∈ l, o.ctx.isBlock = true := by
  induction l with
  | nil => exact absurd rfl hne
  | cons o r ih =>
    cases r with
    | nil => exact ⟨o, by simp, h⟩
    | cons o2 r2 =>
      obtain ⟨x, hx, hb⟩ := ih h (by simp)
      exact ⟨x, by simp at hx ⊢; right; exact hx, hb⟩

theorem closes_block (k : Kind) {c : Ctx} (h : c.isBlock = true) : closes k c = true := by
  cases c <;> simp [Ctx.isBlock] at h
  cases k <;> rfl

/-- When the guard of layout.rs:321 fires, the context just popped was the last Block. -/
theorem guard_popped_block {off : Offside} {rest : List Offside} (hb : BottomBlock (off :: rest))
    {k : Kind} (hg : (rest.all fun o => !closes k o.ctx) = true) : off.ctx.isBlock = true := by
  cases rest with
  | nil => exact hb
  | cons o2 r2 =>
    obtain ⟨x, hx, hxb⟩ := bb_exists_block (l := o2 :: r2) hb (by simp)
    have := List.all_eq_true.mp hg x hx
    simp [closes_block k hxb] at this

theorem closes_nonblock_notCB {k : Kind} {c : Ctx} (h : closes k c = true) (hc : c.isBlock = false) :
    isCB k = 0 := by
  cases c <;> simp [Ctx.isBlock] at hc <;> cases k <;> simp [closes] at h <;> rfl

theorem isCB_le (k : Kind) : isCB k ≤ 1 := by unfold isCB; split <;> omega

theorem closing_bal (tok : Tok) (off : Offside) (rest : List Offside) (st : St)
    (hst : st.stack = off :: rest) (hb : BottomBlock st.stack) :
    RuleBal (fun st1 => tok.kind = .else_ ∧ Q st1 = Q st ∧ blocks st1.stack ≤ blocks st.stack) tok st
      (closing true tok off st) := by
  have hbl : blocks st.stack = (if off.ctx.isBlock = true then 1 else 0) + blocks rest := by
    rw [hst]; rfl
  have htail : st.stack.tail = rest := by rw [hst]; rfl
  have hcb1 := isCB_le tok.kind
  unfold closing
  simp only [htail, Bool.true_and]
  split
  · rename_i hg
    have hblk := guard_popped_block (by rw [← hst]; exact hb) hg
    simp only [RuleBal, StepBal, Q, hbl, hblk, if_true]
    omega
  · have hcont : StepBal tok st (.cont tok { st with stack := rest }) := by
      simp only [StepBal, Q, hbl]; omega
    split
    · rename_i hcl
      split
      · rename_i hif
        rw [hif] at hcl
        exact ⟨closes_if hcl, rfl, by simp only [hbl]; omega⟩
      all_goals first
        | exact hcont
        | (rename_i hctx
           have h0 : isCB tok.kind = 0 := closes_nonblock_notCB hcl (by rw [hctx]; rfl)
           simp only [RuleBal, StepBal, Q, hbl, h0]; omega)
        | skip
      · -- block
        rename_i b hblk
        have hb1 : off.ctx.isBlock = true := by rw [hblk]; rfl
        split
        · simp only [RuleBal, StepBal, Q, hbl, hb1, if_true, blocks_setTop]
          omega
        · simp only [RuleBal, StepBal, layoutToken, Q, hbl, hb1, if_true, cntOB, isCB, isOB]
          simp
          omega
      all_goals
        rename_i hctx
        have h0 : isCB tok.kind = 0 := closes_nonblock_notCB hcl (by rw [hctx]; rfl)
        cases rest with
        | nil => trivial
        | cons top r' =>
          dsimp only
          split
          · trivial
          · rename_i st2 hp
            obtain ⟨p1, p2, p3⟩ := pushCtx_spec hp
            simp only [RuleBal, StepBal]
            have hS : blocks st2.stack ≤ 1 + blocks (top :: r') := by
              rw [p1]
              show (if (Ctx.block false).isBlock = true then 1 else 0) + blocks _ ≤ _
              simp only [Ctx.isBlock, if_true]
              apply Nat.add_le_add_left
              try dsimp only
              split
              · exact Nat.le_trans (blocks_tail _) (Nat.le_of_eq (blocks_setTop _ _))
              · rw [blocks_setTop]; exact Nat.le_refl _
            have hQ : Q { st2 with unproc := { tok with kind := Kind.openBlock } :: st2.unproc } = 1 + Q st := by
              simp only [Q, p2, p3, cntOB, isOB]; simp; omega
            rw [hQ, h0, hbl]
            show 0 + blocks st2.stack + _ ≤ _
            omega
    · exact hcont

def FallBal (st st1 : St) : Prop := Q st1 = Q st ∧ blocks st1.stack ≤ blocks st.stack

theorem implicitIn_bal (tok : Tok) (off : Offside) (rest : List Offside) (st : St)
    (hst : st.stack = off :: rest) :
    RuleBal (FallBal st) tok st (implicitIn tok off st) := by
  have hbl : blocks st.stack = (if off.ctx.isBlock = true then 1 else 0) + blocks rest := by
    rw [hst]; rfl
  unfold implicitIn
  dsimp only
  split
  · split
    · trivial
    · trivial
    · rename_i st1 hcb
      exact ⟨continueBlock_Q _ _ _ hcb, by rw [continueBlock_stack _ _ _ hcb]; exact Nat.le_refl _⟩
    · rename_i st1 hcb
      have hs := continueBlock_stack _ _ _ hcb
      have hq := continueBlock_Q _ _ _ hcb
      have htail : st1.stack.tail = rest := by rw [hs, hst]; rfl
      have hQ' : ∀ S, Q { st1 with stack := S } = Q st := fun _ => hq
      split
      · show blocks st1.stack.tail + (isOB tok.kind + Q st) ≤
          isOB tok.kind + Q { st1 with stack := st1.stack.tail } + blocks st.stack
        rw [htail, hQ', hbl]; omega
      · rw [htail]
        cases rest with
        | nil => trivial
        | cons top r' =>
          dsimp only
          split
          · trivial
          · rename_i st2 hp
            obtain ⟨p1, p2, p3⟩ := pushCtx_spec hp
            simp only [RuleBal, StepBal]
            have hS : blocks st2.stack ≤ 1 + blocks (top :: r') := by
              rw [p1]
              show (if (Ctx.block false).isBlock = true then 1 else 0) + blocks _ ≤ _
              simp only [Ctx.isBlock, if_true]
              apply Nat.add_le_add_left
              try dsimp only
              split
              · exact Nat.le_trans (blocks_tail _) (Nat.le_of_eq (blocks_setTop _ _))
              · rw [blocks_setTop]; exact Nat.le_refl _
            have hQ : Q { st2 with unproc := { tok with kind := Kind.openBlock } :: st2.unproc } =
                1 + isOB tok.kind + Q st := by
              simp only [Q, p2, p3, cntOB, isOB] at hq ⊢; simp; omega
            rw [hQ, hbl]
            show isCB Kind.in_ + blocks st2.stack + _ ≤ isOB Kind.in_ + _ + _
            simp only [isCB, isOB]
            simp
            omega
  · exact ⟨rfl, Nat.le_refl _⟩

theorem offsideRule_bal (tok : Tok) (off : Offside) (rest : List Offside) (st : St)
    (hst : st.stack = off :: rest) :
    RuleBal (FallBal st) tok st (offsideRule tok off st) := by
  have hrefl : FallBal st st := ⟨rfl, Nat.le_refl _⟩
  have hpop : StepBal tok st (.cont tok { st with stack := st.stack.tail }) := by
    have := blocks_tail st.stack
    simp only [StepBal, Q]; omega
  unfold offsideRule
  dsimp only
  split
  · split
    · simp only [RuleBal, StepBal, Q, cntOB, isOB]; simp; omega
    · split
      · split
        · simp only [RuleBal, StepBal, layoutToken, Q, cntOB, isOB, isCB, blocks_setTop]; simp; omega
        · split
          · exact hrefl
          · exact hrefl
          · exact hrefl
          · exact ⟨rfl, by simp only [blocks_setTop]; exact Nat.le_refl _⟩
      · exact hrefl
  · split
    · exact hpop
    · exact hrefl
  · split
    · exact hpop
    · exact hrefl
  · split
    · exact hpop
    · exact hrefl
  · exact implicitIn_bal tok off rest st hst
  · exact implicitIn_bal tok off rest st hst
  · exact hrefl

theorem finish_stepbal (tok : Tok) (off : Offside) (st st1 : St) (hk : tok.kind ≠ .in_)
    (hcb : isCB tok.kind = 0) (hF : FallBal st st1) : StepBal tok st (finish tok off st1) := by
  obtain ⟨f1, f2⟩ := hF
  cases hfin : finish tok off st1 with
  | cont t' st' => exact absurd hfin (finish_not_cont _ _ _ _ _)
  | err e => trivial
  | panic => trivial
  | hang => trivial
  | ret t' st' =>
    obtain ⟨g1, g2⟩ := finish_bal tok off st1 hk hfin
    subst g1
    simp only [StepBal, hcb]
    omega

theorem isCB_nonclosing {k : Kind} (h : isClosingKind k = false) : isCB k = 0 := by
  cases k <;> simp [isClosingKind] at h <;> rfl

theorem step_bal (tok : Tok) (st : St) (hb : BottomBlock st.stack) :
    StepBal tok st (step true tok st) := by
  unfold step
  split
  · rename_i hsb
    simp only [StepBal, hsb, isCB]; simp; omega
  · split
    · rename_i hnil
      split
      · trivial
      · rename_i st1 hp
        obtain ⟨p1, p2, p3⟩ := pushCtx_spec hp
        simp only [layoutToken, StepBal, p1, hnil, blocks, Ctx.isBlock, Q, p2, p3, cntOB, isOB, isCB]
        simp; omega
    · rename_i off rest hst
      split
      · rename_i hcm
        simp only [StepBal, hcm.1, isCB]; simp; omega
      · split
        · have hc := closing_bal tok off rest st hst hb
          split
          · rename_i r hcl; rw [hcl] at hc; exact hc
          · rename_i st1 hcl
            rw [hcl] at hc
            obtain ⟨c1, c2, c3⟩ := hc
            exact finish_stepbal tok off st st1 (by rw [c1]; decide) (by rw [c1]; rfl) ⟨c2, c3⟩
        · rename_i hck
          have hck' : isClosingKind tok.kind = false := by simpa using hck
          have hc := offsideRule_bal tok off rest st hst
          split
          · rename_i r hcl; rw [hcl] at hc; exact hc
          · rename_i st1 hcl
            rw [hcl] at hc
            exact finish_stepbal tok off st st1 (by intro h; rw [h] at hck'; cases hck')
              (isCB_nonclosing hck') hc

def ResBal (tok : Tok) (st : St) : Res → Prop
  | .ret t' st' =>
    isCB t'.kind + blocks st'.stack + (isOB tok.kind + Q st) ≤ isOB t'.kind + Q st' + blocks st.stack
  | _ => True

theorem loop_bal (fuel : Nat) (tok : Tok) (st : St) (hb : BottomBlock st.stack) :
    ResBal tok st (loop true fuel tok st) := by
  induction fuel generalizing tok st with
  | zero => simp [loop, ResBal]
  | succ fuel ih =>
    unfold loop
    have hs := step_bal tok st hb
    have hok := step_ok tok st hb
    split
    · rename_i t' st' h; rw [h] at hs; exact hs
    · rename_i t' st' h
      rw [h] at hs hok
      have := ih t' st' hok
      revert this
      cases loop true fuel t' st' <;> simp only [ResBal, StepBal] at * <;> intro hh
      · omega
      all_goals trivial
    all_goals trivial

/-- One call: what it emits is covered. -/
def CallBal (st : St) : Res → Prop
  | .ret t' st' => isCB t'.kind + blocks st'.stack + Q st ≤ isOB t'.kind + Q st' + blocks st.stack
  | _ => True

theorem enter_bal (tok : Tok) (st0 st1 : St) (hb : BottomBlock st1.stack)
    (h1 : isOB tok.kind + Q st1 = Q st0) (h2 : st1.stack = st0.stack) :
    CallBal st0 (if tok.kind = .eof ∧ st1.stack = [] then Res.ret tok st1
      else loop true (measure tok st1 + 1) tok st1) := by
  split
  · rename_i heof
    simp only [CallBal, heof.1, isCB, isOB, h2] at *
    simp at *
    omega
  · have := loop_bal (measure tok st1 + 1) tok st1 hb
    revert this
    cases loop true (measure tok st1 + 1) tok st1 <;> simp only [ResBal, CallBal] <;> intro hh
    · rw [h2] at hh; omega
    all_goals trivial

theorem layoutNextToken_bal (st : St) (hb : BottomBlock st.stack) :
    CallBal st (layoutNextToken true st) := by
  unfold layoutNextToken
  split
  · trivial
  · rename_i tok st1 hnx
    have h1 := nextToken_Q hnx
    have h2 := nextToken_stack hnx
    have hnorm : (if tok.kind = Kind.eof then { tok with loc := { tok.loc with col := 0 } } else tok) = norm tok := rfl
    simp only [hnorm]
    exact enter_bal (norm tok) st st1 (by rw [h2]; exact hb) (by rw [norm_kind]; exact h1) h2

def cntK (k : Kind) : List Tok → Nat
  | [] => 0
  | t :: r => (if t.kind = k then 1 else 0) + cntK k r

theorem cntK_append (k : Kind) (a b : List Tok) : cntK k (a ++ b) = cntK k a + cntK k b := by
  induction a with
  | nil => simp [cntK]
  | cons t r ih => simp [cntK, ih]; omega

/-- `run` that also gives back the state it stopped in. -/
def runS : Nat → St → List Tok → List Tok × Outcome × St
  | 0, st, acc => (acc.reverse, .fuel, st)
  | fuel + 1, st, acc =>
    match layoutNextToken true st with
    | .ret t st' => if t.kind = .eof then (acc.reverse, .ok, st') else runS fuel st' (t :: acc)
    | .err e => (acc.reverse, .err e, st)
    | .panic => (acc.reverse, .panic, st)
    | .hang => (acc.reverse, .hang, st)
    | .outOfFuel => (acc.reverse, .fuel, st)

theorem runS_run (fuel : Nat) (st : St) (acc : List Tok) :
    ((runS fuel st acc).1, (runS fuel st acc).2.1) = run true fuel st acc := by
  induction fuel generalizing st acc with
  | zero => rfl
  | succ fuel ih =>
    simp only [runS, run]
    cases layoutNextToken true st with
    | ret t st' =>
      dsimp only
      split
      · rfl
      · exact ih _ _
    | err e => rfl
    | panic => rfl
    | hang => rfl
    | outOfFuel => rfl

/-- The invariant: closes emitted + Block contexts ≤ opens emitted + OpenBlocks pending. -/
def Bal (out : List Tok) (st : St) : Prop :=
  cntK .closeBlock out + blocks st.stack ≤ cntK .openBlock out + Q st

theorem runS_bal (fuel : Nat) (st : St) (acc : List Tok) (hb : BottomBlock st.stack)
    (h : Bal acc.reverse st) : Bal (runS fuel st acc).1 (runS fuel st acc).2.2 := by
  induction fuel generalizing st acc with
  | zero => exact h
  | succ fuel ih =>
    unfold runS
    have hc := layoutNextToken_bal st hb
    have hok := layoutNextToken_ok st hb
    split
    · rename_i t st' hl
      rw [hl] at hc hok
      simp only [CallBal] at hc
      split
      · rename_i hk
        simp only [Bal, hk, isCB, isOB] at *
        simp at hc
        omega
      · apply ih st' (t :: acc) hok
        simp only [Bal, List.reverse_cons, cntK_append, cntK, isCB, isOB] at *
        omega
    all_goals exact h

end GluonModel.LayoutAlgo.Proofs
