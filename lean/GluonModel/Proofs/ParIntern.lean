/-
Lemmas about `GluonModel.ParIntern`: atomic lookup-or-insert keeps one pointer per text.
-/
import GluonModel.ParIntern

namespace GluonModel.ParIntern.Proofs
open GluonModel.ParIntern

theorem lookup_some_mem {es : List (String × Nat)} {s : String} {p : Nat}
    (h : lookup es s = some p) : (s, p) ∈ es := by
  induction es with
  | nil => simp [lookup] at h
  | cons e es ih =>
    obtain ⟨k, q⟩ := e
    simp only [lookup] at h
    split at h
    · rename_i hk; subst hk; simp at h; subst h; simp
    · exact List.mem_cons_of_mem _ (ih h)

theorem lookup_none_not_mem {es : List (String × Nat)} {s : String}
    (h : lookup es s = none) : ∀ p, (s, p) ∉ es := by
  induction es with
  | nil => intro p; simp
  | cons e es ih =>
    obtain ⟨k, q⟩ := e
    simp only [lookup] at h
    split at h
    · simp at h
    · rename_i hk
      intro p hp
      rcases List.mem_cons.mp hp with hp | hp
      · simp at hp; exact hk hp.1.symm
      · exact ih h p hp

/-- The invariant of a table that was only ever changed by lookup-or-insert. -/
structure Inv (T : Tab) : Prop where
  /-- what was handed out is what the table says now -/
  got_current : ∀ t s p, (t, s, p) ∈ T.got → lookup T.entries s = some p
  /-- no entry is shadowed: every entry is the one a lookup finds -/
  functional : ∀ s p, (s, p) ∈ T.entries → lookup T.entries s = some p
  /-- pointers are allocated once -/
  below : ∀ s p, (s, p) ∈ T.entries → p < T.next
  injective : ∀ s₁ s₂ p, (s₁, p) ∈ T.entries → (s₂, p) ∈ T.entries → s₁ = s₂

theorem inv_empty : Inv empty :=
  ⟨by simp [empty], by simp [empty], by simp [empty], by simp [empty]⟩

theorem inv_pending (T : Tab) (ps : List (Nat × String)) (h : Inv T) : Inv { T with pending := ps } :=
  ⟨h.got_current, h.functional, h.below, h.injective⟩

theorem inv_internStep (T : Tab) (t : Nat) (s : String) (h : Inv T) : Inv (internStep T t s) := by
  unfold internStep
  cases hl : lookup T.entries s with
  | some p =>
    refine ⟨?_, h.functional, h.below, h.injective⟩
    intro t' s' p' hm
    rcases List.mem_cons.mp hm with hm | hm
    · simp at hm; obtain ⟨_, rfl, rfl⟩ := hm; exact hl
    · exact h.got_current t' s' p' hm
  | none =>
    have hnot := lookup_none_not_mem hl
    refine ⟨?_, ?_, ?_, ?_⟩
    · intro t' s' p' hm
      rcases List.mem_cons.mp hm with hm | hm
      · simp at hm; obtain ⟨_, rfl, rfl⟩ := hm; simp [lookup]
      · have hc := h.got_current t' s' p' hm
        have hne : s ≠ s' := by
          intro e; subst e; rw [hl] at hc; simp at hc
        simp [lookup, hne, hc]
    · intro s' p' hm
      rcases List.mem_cons.mp hm with hm | hm
      · simp at hm; obtain ⟨rfl, rfl⟩ := hm; simp [lookup]
      · have hne : s ≠ s' := by
          intro e; subst e; exact hnot p' hm
        simp [lookup, hne, h.functional s' p' hm]
    · intro s' p' hm
      rcases List.mem_cons.mp hm with hm | hm
      · simp at hm; obtain ⟨rfl, rfl⟩ := hm; simp
      · have := h.below s' p' hm; simp; omega
    · intro s₁ s₂ p hm₁ hm₂
      rcases List.mem_cons.mp hm₁ with hm₁ | hm₁ <;> rcases List.mem_cons.mp hm₂ with hm₂ | hm₂
      · simp at hm₁ hm₂; rw [hm₁.1, hm₂.1]
      · simp at hm₁; obtain ⟨_, rfl⟩ := hm₁
        have := h.below s₂ _ hm₂; omega
      · simp at hm₂; obtain ⟨_, rfl⟩ := hm₂
        have := h.below s₁ _ hm₁; omega
      · exact h.injective s₁ s₂ p hm₁ hm₂

theorem inv_step (T : Tab) (e : Ev) (hs : e.safe = true) (h : Inv T) : Inv (step T e) := by
  cases e with
  | intern t s => exact inv_internStep T t s h
  | lookupS t s =>
    simp only [step]
    cases hl : lookup T.entries s with
    | some p =>
      refine ⟨?_, h.functional, h.below, h.injective⟩
      intro t' s' p' hm
      rcases List.mem_cons.mp hm with hm | hm
      · simp at hm; obtain ⟨_, rfl, rfl⟩ := hm; exact hl
      · exact h.got_current t' s' p' hm
    | none => exact inv_pending T _ h
  | insertS t => simp [Ev.safe] at hs
  | insertRecheck t =>
    simp only [step]
    cases pendingOf T.pending t with
    | none => exact h
    | some s => exact inv_internStep _ t s (inv_pending T _ h)

theorem inv_runFrom (es : List Ev) : ∀ T, (∀ e ∈ es, e.safe = true) → Inv T → Inv (runFrom T es) := by
  induction es with
  | nil => intro T _ h; exact h
  | cons e es ih =>
    intro T hs h
    exact ih (step T e) (fun e' he' => hs e' (List.mem_cons_of_mem _ he'))
      (inv_step T e (hs e (List.mem_cons_self ..)) h)

theorem unique_of_inv (T : Tab) (h : Inv T) (t₁ t₂ : Nat) (s : String) (p₁ p₂ : Nat)
    (h₁ : (t₁, s, p₁) ∈ T.got) (h₂ : (t₂, s, p₂) ∈ T.got) : p₁ = p₂ := by
  have a := h.got_current t₁ s p₁ h₁
  have b := h.got_current t₂ s p₂ h₂
  rw [a] at b
  exact Option.some.inj b

theorem injective_of_inv (T : Tab) (h : Inv T) (t₁ t₂ : Nat) (s₁ s₂ : String) (p : Nat)
    (h₁ : (t₁, s₁, p) ∈ T.got) (h₂ : (t₂, s₂, p) ∈ T.got) : s₁ = s₂ :=
  h.injective s₁ s₂ p (lookup_some_mem (h.got_current t₁ s₁ p h₁)) (lookup_some_mem (h.got_current t₂ s₂ p h₂))

/-- one text ⇒ one pointer, one pointer ⇒ one text: finding a field by pointer is finding it by name -/
theorem lookup_agrees (got : List (Nat × String × Nat))
    (huniq : ∀ t₁ t₂ s p₁ p₂, (t₁, s, p₁) ∈ got → (t₂, s, p₂) ∈ got → p₁ = p₂)
    (hinj : ∀ t₁ t₂ s₁ s₂ p, (t₁, s₁, p) ∈ got → (t₂, s₂, p) ∈ got → s₁ = s₂)
    (fields : List (String × Nat × Int))
    (hf : ∀ f ∈ fields, ∃ t, (t, f.1, f.2.1) ∈ got)
    (t : Nat) (s : String) (p : Nat) (hp : (t, s, p) ∈ got) :
    lookupPtr (fields.map (fun f => (f.2.1, f.2.2))) p = lookupText (fields.map (fun f => (f.1, f.2.2))) s := by
  induction fields with
  | nil => simp [lookupPtr, lookupText]
  | cons f fields ih =>
    obtain ⟨k, q, v⟩ := f
    have ⟨u, hu⟩ := hf (k, q, v) (List.mem_cons_self ..)
    have ih' := ih (fun f hf' => hf f (List.mem_cons_of_mem _ hf'))
    simp only [List.map_cons, lookupPtr, lookupText]
    by_cases hk : k = s
    · subst hk
      have : q = p := huniq u t k q p hu hp
      simp [this]
    · have hq : q ≠ p := by
        intro e; subst e; exact hk (hinj u t k s q hu hp)
      simp [hk, hq, ih']

end GluonModel.ParIntern.Proofs
