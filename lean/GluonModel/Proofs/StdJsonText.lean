import GluonModel.StdJsonText
import GluonModel.Proofs.StdMap
/-! Lemmas about the JSON text layer (`GluonModel.StdJsonText`): printing then parsing is the identity
    on float-free values; the keys of an object are written in the in-order traversal of its tree. -/
namespace GluonModel.StdJsonText
open GluonModel.StdMap

/-! ### digits -/

theorem digitChar_isDigit : ∀ d, d < 10 → isDigit (digitChar d) = true := by decide
theorem digitChar_val : ∀ d, d < 10 → (digitChar d).toNat - 48 = d := by decide
theorem digitChar_zero : ∀ d, d < 10 → digitChar d = '0' → d = 0 := by decide

/-- What may follow a printed number: not a digit, `.`, `e`, `E`. -/
def Fol (rest : List Char) : Prop :=
  ∀ c r, rest = c :: r → isDigit c = false ∧ c ≠ '.' ∧ c ≠ 'e' ∧ c ≠ 'E'

theorem Fol_nil : Fol [] := by intro c r h; cases h

theorem scan_stop {rest : List Char} (h : Fol rest) (a k : Nat) : scanDigits a k rest = (a, k, rest) := by
  cases rest with
  | nil => rfl
  | cons c r => simp [scanDigits, (h c r rfl).1]

theorem scan_natDigits (n : Nat) : ∀ acc k rest,
    scanDigits acc k (natDigits n ++ rest)
      = scanDigits (acc * 10 ^ (natDigits n).length + n) (k + (natDigits n).length) rest := by
  induction n using natDigits.induct with
  | case1 n h =>
    intro acc k rest
    rw [natDigits, if_pos h]
    simp [scanDigits, digitChar_isDigit n h, digitChar_val n h]
  | case2 n h ih =>
    intro acc k rest
    rw [natDigits, if_neg h, List.append_assoc, ih]
    have h10 : n % 10 < 10 := Nat.mod_lt _ (by decide)
    simp only [List.singleton_append, scanDigits, digitChar_isDigit _ h10, digitChar_val _ h10,
      if_true, List.length_append, List.length_cons, List.length_nil]
    congr 1
    · rw [Nat.pow_succ, ← Nat.mul_assoc, Nat.add_mul]
      have := Nat.div_add_mod n 10
      omega

theorem natDigits_head (n : Nat) :
    ∃ c tl, natDigits n = c :: tl ∧ isDigit c = true ∧ (c = '0' → n = 0) := by
  induction n using natDigits.induct with
  | case1 n h =>
    refine ⟨digitChar n, [], ?_, digitChar_isDigit n h, digitChar_zero n h⟩
    rw [natDigits, if_pos h]
  | case2 n h ih =>
    obtain ⟨c, tl, e, hd, hz⟩ := ih
    refine ⟨c, tl ++ [digitChar (n % 10)], ?_, hd, ?_⟩
    · rw [natDigits, if_neg h, e]; rfl
    · intro hc; have := hz hc; omega

theorem natDigits_zero : natDigits 0 = ['0'] := by
  rw [natDigits]; rfl

theorem afterInt_int {rest : List Char} (h : Fol rest) (pos : Bool) (N : Nat) :
    afterInt pos N rest =
      (if N ≤ u64Max then
        if pos then .ok (.int (if N < 2 ^ 63 then (N : Int) else (N : Int) - 2 ^ 64), rest)
        else if N = 0 then .ok (.float signBit, rest)
        else if N ≤ 2 ^ 63 then .ok (.int (-(N : Int)), rest)
        else mkFloat false N 0 rest
      else mkFloat pos N 0 rest) := by
  cases rest with
  | nil => rfl
  | cons c r =>
    obtain ⟨_, h1, h2, h3⟩ := h c r rfl
    simp [afterInt, h1, h2, h3]

theorem parseNumber_natDigits (pos : Bool) (n : Nat) {rest : List Char} (h : Fol rest) :
    parseNumber pos (natDigits n ++ rest) = afterInt pos n rest := by
  obtain ⟨c, tl, e, hd, hz⟩ := natDigits_head n
  have hscan : scanDigits 0 0 (natDigits n ++ rest) = (n, (natDigits n).length, rest) := by
    rw [scan_natDigits, scan_stop h]; simp
  have e' : natDigits n ++ rest = c :: (tl ++ rest) := by rw [e]; rfl
  have hz' : (c = '0' && (match tl ++ rest with | d :: _ => isDigit d | [] => false)) = false := by
    by_cases hc : c = '0'
    · have hn := hz hc
      subst hn
      rw [natDigits_zero] at e
      injection e with _ e2
      subst e2
      cases rest with
      | nil => simp
      | cons c2 r => simp [(h c2 r rfl).1]
    · simp [hc]
  rw [e']
  unfold parseNumber
  simp only [hd, Bool.not_true, Bool.false_eq_true, if_false]
  rw [← e', hscan]
  simp only [Bool.and_eq_true, decide_eq_true_eq]
  rw [if_neg]
  intro ⟨hc, hm⟩
  simp only [hc, decide_true, Bool.true_and] at hz'
  rw [hm] at hz'
  cases hz'

theorem isDigit_not_ws {c : Char} (h : isDigit c = true) : isWs c = false ∧ c ≠ '-' := by
  refine ⟨?_, ?_⟩
  · cases hw : isWs c with
    | false => rfl
    | true =>
      simp only [isWs, Bool.or_eq_true, decide_eq_true_eq] at hw
      rcases hw with ((h' | h') | h') | h' <;> subst h' <;> revert h <;> decide
  · intro h'; subst h'; revert h; decide

/-! ### strings -/

theorem hexVal_hexDigit : ∀ k, k < 16 → hexVal (hexDigit k) = some k := by decide

theorem escChar_ne_nil (c : Char) : 0 < (escChar c).length := by
  unfold escChar
  repeat' split
  all_goals simp

theorem parseStrF_escChar (c : Char) (f : Nat) (acc : Str) (tail : List Char) :
    parseStrF (f + 1) acc (escChar c ++ tail) = parseStrF f (c :: acc) tail := by
  unfold escChar
  split
  · next h => subst h; simp [parseStrF, parseEscape]
  split
  · next h => subst h; simp [parseStrF, parseEscape]
  split
  · next h => subst h; simp [parseStrF, parseEscape]
  split
  · next h => subst h; simp [parseStrF, parseEscape]
  split
  · next h => subst h; simp [parseStrF, parseEscape]
  split
  · next h => subst h; simp [parseStrF, parseEscape]
  split
  · next h => subst h; simp [parseStrF, parseEscape]
  split
  · next h1 h2 _ _ _ _ _ h =>
    have hd1 : c.toNat / 16 < 16 := by omega
    have hd2 : c.toNat % 16 < 16 := by omega
    have h0 : hexVal '0' = some 0 := by decide
    have hv : ((0 * 16 + 0) * 16 + c.toNat / 16) * 16 + c.toNat % 16 = c.toNat := by omega
    simp [parseStrF, parseEscape, parseUnicode, decodeHex, hexVal_hexDigit _ hd1,
      hexVal_hexDigit _ hd2, h0]
    have hv' : c.toNat / 16 * 16 + c.toNat % 16 = c.toNat := by omega
    rw [hv']
    have g1 : ¬ (56320 ≤ c.toNat ∧ c.toNat ≤ 57343) := by omega
    have g2 : c.toNat < 55296 ∨ 56319 < c.toNat := by omega
    rw [if_neg g1, if_pos g2]
    simp
  · next h1 h2 _ _ _ _ _ h =>
    simp [parseStrF, h1, h2, h]

theorem parseStrF_escape (s : Str) : ∀ (f : Nat) (acc : Str) (rest : List Char),
    (escape s).length < f →
    parseStrF f acc (escape s ++ '"' :: rest) = .ok (acc.reverse ++ s, rest) := by
  induction s with
  | nil =>
    intro f acc rest hf
    cases f with
    | zero => simp at hf
    | succ f => simp [escape, parseStrF]
  | cons c s ih =>
    intro f acc rest hf
    cases f with
    | zero => simp at hf
    | succ f =>
      have hp := escChar_ne_nil c
      simp only [escape, List.length_append] at hf
      rw [escape, List.append_assoc, parseStrF_escChar, ih f (c :: acc) rest (by omega)]
      simp

theorem parseStr_prStr (s : Str) (rest : List Char) :
    parseStr (escape s ++ '"' :: rest) = .ok (s, rest) := by
  unfold parseStr
  rw [parseStrF_escape s _ [] rest (by simp; omega)]
  simp

/-! ### values -/

mutual
/-- `Good d t`: `t` has no float, its integers are in the `i64` range, and it nests fewer than `d`
    levels of arrays/objects (`d` = serde_json's `remaining_depth`). -/
def Good : Nat → T → Prop
  | _, .null => True
  | _, .bool _ => True
  | _, .int i => -(2 ^ 63 : Int) ≤ i ∧ i < 2 ^ 63
  | _, .float _ => False
  | _, .str _ => True
  | d, .arr xs => 1 < d ∧ GoodL (d - 1) xs
  | d, .obj es => 1 < d ∧ GoodE (d - 1) es
def GoodL : Nat → List T → Prop
  | _, [] => True
  | d, x :: xs => Good d x ∧ GoodL d xs
def GoodE : Nat → List (Str × T) → Prop
  | _, [] => True
  | d, (_, x) :: es => Good d x ∧ GoodE d es
end

mutual
def cost : T → Nat
  | .arr xs => 1 + costL xs
  | .obj es => 1 + costE es
  | _ => 1
def costL : List T → Nat
  | [] => 1
  | x :: xs => 1 + cost x + costL xs
def costE : List (Str × T) → Nat
  | [] => 1
  | (_, x) :: es => 1 + cost x + costE es
end

/-- every printed value starts with a character that is not whitespace and none of `] , }` -/
def Starts (cs : List Char) : Prop :=
  ∃ c tl, cs = c :: tl ∧ isWs c = false ∧ c ≠ ']' ∧ c ≠ ',' ∧ c ≠ '}'

theorem prInt_starts (i : Int) : Starts (prInt i) := by
  unfold prInt
  split
  · exact ⟨'-', _, rfl, by decide, by decide, by decide, by decide⟩
  · obtain ⟨c, tl, e, hd, _⟩ := natDigits_head i.natAbs
    refine ⟨c, tl, e, (isDigit_not_ws hd).1, ?_, ?_, ?_⟩ <;> (intro h'; subst h'; revert hd; decide)

theorem pr_starts {d : Nat} : ∀ {t : T}, Good d t → Starts (pr t)
  | .null, _ => ⟨'n', _, rfl, by decide, by decide, by decide, by decide⟩
  | .bool true, _ => ⟨'t', _, rfl, by decide, by decide, by decide, by decide⟩
  | .bool false, _ => ⟨'f', _, rfl, by decide, by decide, by decide, by decide⟩
  | .int i, _ => by rw [pr]; exact prInt_starts i
  | .float _, h => by simp [Good] at h
  | .str _, _ => ⟨'"', _, rfl, by decide, by decide, by decide, by decide⟩
  | .arr _, _ => ⟨'[', _, by rw [pr], by decide, by decide, by decide, by decide⟩
  | .obj _, _ => ⟨'{', _, by rw [pr], by decide, by decide, by decide, by decide⟩

theorem skipWs_starts {cs : List Char} (h : Starts cs) (rest : List Char) :
    skipWs (cs ++ rest) = cs ++ rest := by
  obtain ⟨c, tl, e, hw, _⟩ := h
  subst e
  simp [skipWs, hw]

theorem Fol_prElems (xs : List T) (rest : List Char) : Fol (prElems false xs ++ rest) := by
  intro c r h
  cases xs with
  | nil => simp [prElems] at h; obtain ⟨h1, _⟩ := h; subst h1; decide
  | cons x xs => simp [prElems] at h; obtain ⟨h1, _⟩ := h; subst h1; decide

theorem Fol_prMembers (es : List (Str × T)) (rest : List Char) : Fol (prMembers false es ++ rest) := by
  intro c r h
  cases es with
  | nil => simp [prMembers] at h; obtain ⟨h1, _⟩ := h; subst h1; decide
  | cons e es =>
    obtain ⟨k, x⟩ := e
    simp [prMembers] at h; obtain ⟨h1, _⟩ := h; subst h1; decide

theorem parseV_int (f d : Nat) (i : Int) (hi : -(2 ^ 63 : Int) ≤ i ∧ i < 2 ^ 63) {rest : List Char}
    (h : Fol rest) : parseV (f + 1) d (prInt i ++ rest) = .ok (.int i, rest) := by
  unfold prInt
  split
  · next hneg =>
    have hN : i.natAbs ≤ 2 ^ 63 := by omega
    have hN0 : i.natAbs ≠ 0 := by omega
    have hu : i.natAbs ≤ u64Max := by unfold u64Max; omega
    have hv : -(i.natAbs : Int) = i := by omega
    simp [parseV, skipWs, isWs, parseNumber_natDigits false _ h, afterInt_int h, hN, hN0, hu, hv]
  · next hpos =>
    obtain ⟨c, tl, e, hd, _⟩ := natDigits_head i.natAbs
    have hN : i.natAbs < 2 ^ 63 := by omega
    have hu : i.natAbs ≤ u64Max := by unfold u64Max; omega
    have hv : (i.natAbs : Int) = i := by omega
    have hs : skipWs (natDigits i.natAbs ++ rest) = c :: (tl ++ rest) := by
      rw [e]; simp [skipWs, (isDigit_not_ws hd).1]
    have e' : c :: (tl ++ rest) = natDigits i.natAbs ++ rest := by rw [e]; rfl
    unfold parseV
    simp only [hs, (isDigit_not_ws hd).2, hd, if_true, if_false]
    rw [e', parseNumber_natDigits true _ h, afterInt_int h]
    simp [hN, hu, hv]

mutual
theorem parseV_pr : ∀ (t : T) (f d : Nat) (rest : List Char), Good d t → cost t ≤ f → Fol rest →
    parseV f d (pr t ++ rest) = .ok (t, rest)
  | .null, f + 1, d, rest, _, _, _ => by simp [parseV, pr, skipWs, isWs, isDigit, parseIdent]
  | .bool true, f + 1, d, rest, _, _, _ => by simp [parseV, pr, skipWs, isWs, isDigit, parseIdent]
  | .bool false, f + 1, d, rest, _, _, _ => by simp [parseV, pr, skipWs, isWs, isDigit, parseIdent]
  | .int i, f + 1, d, rest, hg, _, hfol => by
    rw [pr]; exact parseV_int f d i (by simpa [Good] using hg) hfol
  | .float _, _, _, _, hg, _, _ => by simp [Good] at hg
  | .str s, f + 1, d, rest, _, _, _ => by
    have : prStr s ++ rest = '"' :: (escape s ++ '"' :: rest) := by simp [prStr]
    rw [pr, this]
    simp [parseV, skipWs, isWs, isDigit, parseStr_prStr]
  | .arr xs, f + 1, d, rest, hg, hc, _ => by
    have hg' : 1 < d ∧ GoodL (d - 1) xs := by simpa [Good] using hg
    have hc' : costL xs ≤ f := by simp [cost] at hc; omega
    have hd : ¬ d ≤ 1 := by omega
    have ih := parseElems_pr xs f (d - 1) true rest hg'.2 hc'
    have : pr (.arr xs) ++ rest = '[' :: (prElems true xs ++ rest) := by rw [pr]; rfl
    rw [this]
    simp [parseV, skipWs, isWs, isDigit, hd, ih]
  | .obj es, f + 1, d, rest, hg, hc, _ => by
    have hg' : 1 < d ∧ GoodE (d - 1) es := by simpa [Good] using hg
    have hc' : costE es ≤ f := by simp [cost] at hc; omega
    have hd : ¬ d ≤ 1 := by omega
    have ih := parseMembers_pr es f (d - 1) true rest hg'.2 hc'
    have : pr (.obj es) ++ rest = '{' :: (prMembers true es ++ rest) := by rw [pr]; rfl
    rw [this]
    simp [parseV, skipWs, isWs, isDigit, hd, ih]
  | .null, 0, _, _, _, hc, _ => by simp [cost] at hc
  | .bool _, 0, _, _, _, hc, _ => by simp [cost] at hc
  | .int _, 0, _, _, _, hc, _ => by simp [cost] at hc
  | .str _, 0, _, _, _, hc, _ => by simp [cost] at hc
  | .arr _, 0, _, _, _, hc, _ => by simp [cost] at hc
  | .obj _, 0, _, _, _, hc, _ => by simp [cost] at hc
theorem parseElems_pr : ∀ (xs : List T) (f d : Nat) (first : Bool) (rest : List Char),
    GoodL d xs → costL xs ≤ f →
    parseElems f d first (prElems first xs ++ rest) = .ok (xs, rest)
  | [], f + 1, d, first, rest, _, _ => by simp [parseElems, prElems, skipWs, isWs]
  | [], 0, _, _, _, _, hc => by simp [costL] at hc
  | x :: xs, 0, _, _, _, _, hc => by simp [costL] at hc
  | x :: xs, f + 1, d, first, rest, hg, hc => by
    have hg' : Good d x ∧ GoodL d xs := by simpa [GoodL] using hg
    have hc1 : cost x ≤ f := by simp [costL] at hc; omega
    have hc2 : costL xs ≤ f := by simp [costL] at hc; omega
    have ihx := parseV_pr x f d (prElems false xs ++ rest) hg'.1 hc1 (Fol_prElems xs rest)
    have ihxs := parseElems_pr xs f d false rest hg'.2 hc2
    have hst := pr_starts hg'.1
    have hsk := skipWs_starts hst (prElems false xs ++ rest)
    obtain ⟨c, tl, e, hw, h1, h2, h3⟩ := hst
    cases first with
    | true =>
      have : prElems true (x :: xs) ++ rest = pr x ++ (prElems false xs ++ rest) := by
        simp [prElems]
      rw [this]
      unfold parseElems
      rw [hsk]
      rw [e] at ihx ⊢
      simp only [List.cons_append, h1, if_false, if_true]
      simp only [List.cons_append] at ihx
      rw [ihx]
      simp only [ihxs]
    | false =>
      have : prElems false (x :: xs) ++ rest = ',' :: (pr x ++ (prElems false xs ++ rest)) := by
        simp [prElems]
      rw [this]
      unfold parseElems
      have hs2 : skipWs (',' :: (pr x ++ (prElems false xs ++ rest)))
          = ',' :: (pr x ++ (prElems false xs ++ rest)) := by simp [skipWs, isWs]
      rw [hs2]
      simp only [hsk]
      rw [e] at ihx ⊢
      simp only [List.cons_append] at ihx ⊢
      simp [h1, ihx, ihxs]
theorem parseMembers_pr : ∀ (es : List (Str × T)) (f d : Nat) (first : Bool) (rest : List Char),
    GoodE d es → costE es ≤ f →
    parseMembers f d first (prMembers first es ++ rest) = .ok (es, rest)
  | [], f + 1, d, first, rest, _, _ => by simp [parseMembers, prMembers, skipWs, isWs]
  | [], 0, _, _, _, _, hc => by simp [costE] at hc
  | (k, x) :: es, 0, _, _, _, _, hc => by simp [costE] at hc
  | (k, x) :: es, f + 1, d, first, rest, hg, hc => by
    have hg' : Good d x ∧ GoodE d es := by simpa [GoodE] using hg
    have hc1 : cost x ≤ f := by simp [costE] at hc; omega
    have hc2 : costE es ≤ f := by simp [costE] at hc; omega
    have ihx := parseV_pr x f d (prMembers false es ++ rest) hg'.1 hc1 (Fol_prMembers es rest)
    have ihes := parseMembers_pr es f d false rest hg'.2 hc2
    have hkey : ∀ tail, parseStr (escape k ++ '"' :: tail) = .ok (k, tail) := parseStr_prStr k
    cases first with
    | true =>
      have : prMembers true ((k, x) :: es) ++ rest
          = '"' :: (escape k ++ '"' :: ':' :: (pr x ++ (prMembers false es ++ rest))) := by
        simp [prMembers, prStr]
      rw [this]
      unfold parseMembers
      simp [skipWs, isWs, hkey, ihx, ihes]
    | false =>
      have : prMembers false ((k, x) :: es) ++ rest
          = ',' :: '"' :: (escape k ++ '"' :: ':' :: (pr x ++ (prMembers false es ++ rest))) := by
        simp [prMembers, prStr]
      rw [this]
      unfold parseMembers
      simp [skipWs, isWs, hkey, ihx, ihes]
end

end GluonModel.StdJsonText
