import GluonModel.StdJsonText
import GluonModel.Proofs.StdMap
/-! Lemmas about the JSON text layer (`GluonModel.StdJsonText`): printing then parsing is the identity
    on float-free values; the keys of an object are written in the in-order traversal of its tree. -/
namespace GluonModel.StdJsonText
open GluonModel.StdMap

/-! ### digits -/

theorem digitChar_isDigit : ∀ d, d < 10 → isDigit (digitChar d) = true := by decide
theorem digitChar_val : ∀ d, d < 10 → (digitChar d).toNat - 48 = d := by decide
theorem digitChar_zero : ∀ d, d < 10 → digitChar d = '0' → d = 0 := by decide

/-- What may follow a printed number: not a digit, `.`, `e`, `E`. -/
def Fol (rest : List Char) : Prop :=
  ∀ c r, rest = c :: r → isDigit c = false ∧ c ≠ '.' ∧ c ≠ 'e' ∧ c ≠ 'E'

theorem Fol_nil : Fol [] := by intro c r h; cases h

theorem scan_stop {rest : List Char} (h : Fol rest) (a k : Nat) : scanDigits a k rest = (a, k, rest) := by
  cases rest with
  | nil => rfl
  | cons c r => simp [scanDigits, (h c r rfl).1]

theorem scan_natDigits (n : Nat) : ∀ acc k rest,
    scanDigits acc k (natDigits n ++ rest)
      = scanDigits (acc * 10 ^ (natDigits n).length + n) (k + (natDigits n).length) rest := by
  induction n using natDigits.induct with
  | case1 n h =>
    intro acc k rest
    rw [natDigits, if_pos h]
    simp [scanDigits, digitChar_isDigit n h, digitChar_val n h]
  | case2 n h ih =>
    intro acc k rest
    rw [natDigits, if_neg h, List.append_assoc, ih]
    have h10 : n % 10 < 10 := Nat.mod_lt _ (by decide)
    simp only [List.singleton_append, scanDigits, digitChar_isDigit _ h10, digitChar_val _ h10,
      if_true, List.length_append, List.length_cons, List.length_nil]
    congr 1
    · rw [Nat.pow_succ, ← Nat.mul_assoc, Nat.add_mul]
      have := Nat.div_add_mod n 10
      omega

theorem natDigits_head (n : Nat) :
    ∃ c tl, natDigits n = c :: tl ∧ isDigit c = true ∧ (c = '0' → n = 0) := by
  induction n using natDigits.induct with
  | case1 n h =>
    refine ⟨digitChar n, [], ?_, digitChar_isDigit n h, digitChar_zero n h⟩
    rw [natDigits, if_pos h]
  | case2 n h ih =>
    obtain ⟨c, tl, e, hd, hz⟩ := ih
    refine ⟨c, tl ++ [digitChar (n % 10)], ?_, hd, ?_⟩
    · rw [natDigits, if_neg h, e]; rfl
    · intro hc; have := hz hc; omega

theorem natDigits_zero : natDigits 0 = ['0'] := by
  rw [natDigits]; rfl

theorem afterInt_int {rest : List Char} (h : Fol rest) (pos : Bool) (N : Nat) :
    afterInt pos N rest =
      (if N ≤ u64Max then
        if pos then .ok (.int (if N < 2 ^ 63 then (N : Int) else (N : Int) - 2 ^ 64), rest)
        else if N = 0 then .ok (.float signBit, rest)
        else if N ≤ 2 ^ 63 then .ok (.int (-(N : Int)), rest)
        else mkFloat false N 0 rest
      else mkFloat pos N 0 rest) := by
  cases rest with
  | nil => rfl
  | cons c r =>
    obtain ⟨_, h1, h2, h3⟩ := h c r rfl
    simp [afterInt, h1, h2, h3]

theorem parseNumber_natDigits (pos : Bool) (n : Nat) {rest : List Char} (h : Fol rest) :
    parseNumber pos (natDigits n ++ rest) = afterInt pos n rest := by
  obtain ⟨c, tl, e, hd, hz⟩ := natDigits_head n
  have hscan : scanDigits 0 0 (natDigits n ++ rest) = (n, (natDigits n).length, rest) := by
    rw [scan_natDigits, scan_stop h]; simp
  have e' : natDigits n ++ rest = c :: (tl ++ rest) := by rw [e]; rfl
  have hz' : (c = '0' && (match tl ++ rest with | d :: _ => isDigit d | [] => false)) = false := by
    by_cases hc : c = '0'
    · have hn := hz hc
      subst hn
      rw [natDigits_zero] at e
      injection e with _ e2
      subst e2
      cases rest with
      | nil => simp
      | cons c2 r => simp [(h c2 r rfl).1]
    · simp [hc]
  rw [e']
  unfold parseNumber
  simp only [hd, hz', Bool.not_true, Bool.false_eq_true, if_false]
  rw [← e', hscan]
  simp [hz']

theorem isDigit_not_ws {c : Char} (h : isDigit c = true) : isWs c = false ∧ c ≠ '-' := by
  refine ⟨?_, ?_⟩
  · cases hw : isWs c with
    | false => rfl
    | true =>
      simp only [isWs, Bool.or_eq_true, decide_eq_true_eq] at hw
      rcases hw with ((h' | h') | h') | h' <;> subst h' <;> revert h <;> decide
  · intro h'; subst h'; revert h; decide

/-! ### strings -/

theorem hexVal_hexDigit : ∀ k, k < 16 → hexVal (hexDigit k) = some k := by decide

theorem escChar_ne_nil (c : Char) : 0 < (escChar c).length := by
  unfold escChar
  repeat' split
  all_goals simp

theorem parseStrF_escChar (c : Char) (f : Nat) (acc : Str) (tail : List Char) :
    parseStrF (f + 1) acc (escChar c ++ tail) = parseStrF f (c :: acc) tail := by
  unfold escChar
  split
  · next h => subst h; simp [parseStrF, parseEscape]
  split
  · next h => subst h; simp [parseStrF, parseEscape]
  split
  · next h => subst h; simp [parseStrF, parseEscape]
  split
  · next h => subst h; simp [parseStrF, parseEscape]
  split
  · next h => subst h; simp [parseStrF, parseEscape]
  split
  · next h => subst h; simp [parseStrF, parseEscape]
  split
  · next h => subst h; simp [parseStrF, parseEscape]
  split
  · next h1 h2 _ _ _ _ _ h =>
    have hd1 : c.toNat / 16 < 16 := by omega
    have hd2 : c.toNat % 16 < 16 := by omega
    have h0 : hexVal '0' = some 0 := by decide
    have hv : ((0 * 16 + 0) * 16 + c.toNat / 16) * 16 + c.toNat % 16 = c.toNat := by omega
    simp [parseStrF, parseEscape, parseUnicode, decodeHex, hexVal_hexDigit _ hd1,
      hexVal_hexDigit _ hd2, h0, hv]
    trace_state
    done
  · next h1 h2 _ _ _ _ _ h =>
    simp [parseStrF, h1, h2, h]

theorem parseStrF_escape (s : Str) : ∀ (f : Nat) (acc : Str) (rest : List Char),
    (escape s).length < f →
    parseStrF f acc (escape s ++ '"' :: rest) = .ok (acc.reverse ++ s, rest) := by
  induction s with
  | nil =>
    intro f acc rest hf
    cases f with
    | zero => simp at hf
    | succ f => simp [escape, parseStrF]
  | cons c s ih =>
    intro f acc rest hf
    cases f with
    | zero => simp at hf
    | succ f =>
      have hp := escChar_ne_nil c
      simp only [escape, List.length_append] at hf
      rw [escape, List.append_assoc, parseStrF_escChar, ih f (c :: acc) rest (by omega)]
      simp

theorem parseStr_prStr (s : Str) (rest : List Char) :
    parseStr (escape s ++ '"' :: rest) = .ok (s, rest) := by
  unfold parseStr
  rw [parseStrF_escape s _ [] rest (by simp; omega)]
  simp

end GluonModel.StdJsonText
