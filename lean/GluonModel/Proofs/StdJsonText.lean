import GluonModel.StdJsonText
import GluonModel.Proofs.StdMap
/-! Lemmas about the JSON text layer (`GluonModel.StdJsonText`): printing then parsing is the identity
    on float-free values; the keys of an object are written in the in-order traversal of its tree. -/
namespace GluonModel.StdJsonText
open GluonModel.StdMap

/-! ### digits -/

theorem digitChar_isDigit : ∀ d, d < 10 → isDigit (digitChar d) = true := by decide
theorem digitChar_val : ∀ d, d < 10 → (digitChar d).toNat - 48 = d := by decide
theorem digitChar_zero : ∀ d, d < 10 → digitChar d = '0' → d = 0 := by decide

/-- What may follow a printed number: not a digit, `.`, `e`, `E`. -/
def Fol (rest : List Char) : Prop :=
  ∀ c r, rest = c :: r → isDigit c = false ∧ c ≠ '.' ∧ c ≠ 'e' ∧ c ≠ 'E'

theorem Fol_nil : Fol [] := by intro c r h; cases h

theorem scan_stop {rest : List Char} (h : Fol rest) (a k : Nat) : scanDigits a k rest = (a, k, rest) := by
  cases rest with
  | nil => rfl
  | cons c r => simp [scanDigits, (h c r rfl).1]

theorem scan_natDigits (n : Nat) : ∀ acc k rest,
    scanDigits acc k (natDigits n ++ rest)
      = scanDigits (acc * 10 ^ (natDigits n).length + n) (k + (natDigits n).length) rest := by
  induction n using natDigits.induct with
  | case1 n h =>
    intro acc k rest
    rw [natDigits, if_pos h]
    simp [scanDigits, digitChar_isDigit n h, digitChar_val n h]
  | case2 n h ih =>
    intro acc k rest
    rw [natDigits, if_neg h, List.append_assoc, ih]
    have h10 : n % 10 < 10 := Nat.mod_lt _ (by decide)
    simp only [List.singleton_append, scanDigits, digitChar_isDigit _ h10, digitChar_val _ h10,
      if_true, List.length_append, List.length_cons, List.length_nil]
    congr 1
    · rw [Nat.pow_succ, ← Nat.mul_assoc, Nat.add_mul]
      have := Nat.div_add_mod n 10
      omega

theorem natDigits_head (n : Nat) :
    ∃ c tl, natDigits n = c :: tl ∧ isDigit c = true ∧ (c = '0' → n = 0) := by
  induction n using natDigits.induct with
  | case1 n h =>
    refine ⟨digitChar n, [], ?_, digitChar_isDigit n h, digitChar_zero n h⟩
    rw [natDigits, if_pos h]
  | case2 n h ih =>
    obtain ⟨c, tl, e, hd, hz⟩ := ih
    refine ⟨c, tl ++ [digitChar (n % 10)], ?_, hd, ?_⟩
    · rw [natDigits, if_neg h, e]; rfl
    · intro hc; have := hz hc; omega

theorem natDigits_zero : natDigits 0 = ['0'] := by
  rw [natDigits]; rfl

theorem afterInt_int {rest : List Char} (h : Fol rest) (pos : Bool) (N : Nat) :
    afterInt pos N rest =
      (if N ≤ u64Max then
        if pos then .ok (.int (if N < 2 ^ 63 then (N : Int) else (N : Int) - 2 ^ 64), rest)
        else if N = 0 then .ok (.float signBit, rest)
        else if N ≤ 2 ^ 63 then .ok (.int (-(N : Int)), rest)
        else mkFloat false N 0 rest
      else mkFloat pos N 0 rest) := by
  cases rest with
  | nil => rfl
  | cons c r =>
    obtain ⟨_, h1, h2, h3⟩ := h c r rfl
    simp [afterInt, h1, h2, h3]

theorem parseNumber_natDigits (pos : Bool) (n : Nat) {rest : List Char} (h : Fol rest) :
    parseNumber pos (natDigits n ++ rest) = afterInt pos n rest := by
  obtain ⟨c, tl, e, hd, hz⟩ := natDigits_head n
  have hscan : scanDigits 0 0 (natDigits n ++ rest) = (n, (natDigits n).length, rest) := by
    rw [scan_natDigits, scan_stop h]; simp
  have e' : natDigits n ++ rest = c :: (tl ++ rest) := by rw [e]; rfl
  rw [e']
  unfold parseNumber
  simp only [hd, Bool.not_true, Bool.false_eq_true, if_false]
  rw [← e', hscan]
  by_cases hc : c = '0'
  · have hn := hz hc
    subst hn
    rw [natDigits_zero] at e
    injection e with _ e2
    subst e2
    cases rest with
    | nil => simp
    | cons c2 r => simp [(h c2 r rfl).1]
  · simp [hc]

theorem isDigit_not_ws {c : Char} (h : isDigit c = true) : isWs c = false ∧ c ≠ '-' := by
  refine ⟨?_, ?_⟩
  · cases hw : isWs c with
    | false => rfl
    | true =>
      simp only [isWs, Bool.or_eq_true, decide_eq_true_eq] at hw
      rcases hw with ((h' | h') | h') | h' <;> subst h' <;> revert h <;> decide
  · intro h'; subst h'; revert h; decide

/-! ### strings -/

theorem hexVal_hexDigit : ∀ k, k < 16 → hexVal (hexDigit k) = some k := by decide

theorem escChar_ne_nil (c : Char) : 0 < (escChar c).length := by
  unfold escChar
  repeat' split
  all_goals simp

theorem parseStrF_escChar (c : Char) (f : Nat) (acc : Str) (tail : List Char) :
    parseStrF (f + 1) acc (escChar c ++ tail) = parseStrF f (c :: acc) tail := by
  unfold escChar
  split
  · next h => subst h; simp [parseStrF, parseEscape]
  split
  · next h => subst h; simp [parseStrF, parseEscape]
  split
  · next h => subst h; simp [parseStrF, parseEscape]
  split
  · next h => subst h; simp [parseStrF, parseEscape]
  split
  · next h => subst h; simp [parseStrF, parseEscape]
  split
  · next h => subst h; simp [parseStrF, parseEscape]
  split
  · next h => subst h; simp [parseStrF, parseEscape]
  split
  · next h1 h2 _ _ _ _ _ h =>
    have hd1 : c.toNat / 16 < 16 := by omega
    have hd2 : c.toNat % 16 < 16 := by omega
    have h0 : hexVal '0' = some 0 := by decide
    have hv : ((0 * 16 + 0) * 16 + c.toNat / 16) * 16 + c.toNat % 16 = c.toNat := by omega
    simp [parseStrF, parseEscape, parseUnicode, decodeHex, hexVal_hexDigit _ hd1,
      hexVal_hexDigit _ hd2, h0]
    have hv' : c.toNat / 16 * 16 + c.toNat % 16 = c.toNat := by omega
    rw [hv']
    have g1 : ¬ (56320 ≤ c.toNat ∧ c.toNat ≤ 57343) := by omega
    have g2 : c.toNat < 55296 ∨ 56319 < c.toNat := by omega
    rw [if_neg g1, if_pos g2]
    simp
  · next h1 h2 _ _ _ _ _ h =>
    simp [parseStrF, h1, h2, h]

theorem parseStrF_escape (s : Str) : ∀ (f : Nat) (acc : Str) (rest : List Char),
    (escape s).length < f →
    parseStrF f acc (escape s ++ '"' :: rest) = .ok (acc.reverse ++ s, rest) := by
  induction s with
  | nil =>
    intro f acc rest hf
    cases f with
    | zero => simp at hf
    | succ f => simp [escape, parseStrF]
  | cons c s ih =>
    intro f acc rest hf
    cases f with
    | zero => simp at hf
    | succ f =>
      have hp := escChar_ne_nil c
      simp only [escape, List.length_append] at hf
      rw [escape, List.append_assoc, parseStrF_escChar, ih f (c :: acc) rest (by omega)]
      simp

theorem parseStr_prStr (s : Str) (rest : List Char) :
    parseStr (escape s ++ '"' :: rest) = .ok (s, rest) := by
  unfold parseStr
  rw [parseStrF_escape s _ [] rest (by simp; omega)]
  simp

/-! ### values -/

mutual
/-- `Good d t`: `t` has no float, its integers are in the `i64` range, and it nests fewer than `d`
    levels of arrays/objects (`d` = serde_json's `remaining_depth`). -/
def Good : Nat → T → Prop
  | _, .null => True
  | _, .bool _ => True
  | _, .int i => -(2 ^ 63 : Int) ≤ i ∧ i < 2 ^ 63
  | _, .float _ => False
  | _, .str _ => True
  | d, .arr xs => 1 < d ∧ GoodL (d - 1) xs
  | d, .obj es => 1 < d ∧ GoodE (d - 1) es
def GoodL : Nat → List T → Prop
  | _, [] => True
  | d, x :: xs => Good d x ∧ GoodL d xs
def GoodE : Nat → List (Str × T) → Prop
  | _, [] => True
  | d, (_, x) :: es => Good d x ∧ GoodE d es
end

mutual
def cost : T → Nat
  | .arr xs => 1 + costL xs
  | .obj es => 1 + costE es
  | _ => 1
def costL : List T → Nat
  | [] => 1
  | x :: xs => 1 + cost x + costL xs
def costE : List (Str × T) → Nat
  | [] => 1
  | (_, x) :: es => 1 + cost x + costE es
end

/-- every printed value starts with a character that is not whitespace and none of `] , }` -/
def Starts (cs : List Char) : Prop :=
  ∃ c tl, cs = c :: tl ∧ isWs c = false ∧ c ≠ ']' ∧ c ≠ ',' ∧ c ≠ '}'

theorem prInt_starts (i : Int) : Starts (prInt i) := by
  unfold prInt
  split
  · exact ⟨'-', _, rfl, by decide, by decide, by decide, by decide⟩
  · obtain ⟨c, tl, e, hd, _⟩ := natDigits_head i.natAbs
    refine ⟨c, tl, e, (isDigit_not_ws hd).1, ?_, ?_, ?_⟩ <;> (intro h'; subst h'; revert hd; decide)

theorem pr_starts {d : Nat} : ∀ {t : T}, Good d t → Starts (pr t)
  | .null, _ => ⟨'n', _, rfl, by decide, by decide, by decide, by decide⟩
  | .bool true, _ => ⟨'t', _, rfl, by decide, by decide, by decide, by decide⟩
  | .bool false, _ => ⟨'f', _, rfl, by decide, by decide, by decide, by decide⟩
  | .int i, _ => by rw [pr]; exact prInt_starts i
  | .float _, h => by simp [Good] at h
  | .str _, _ => ⟨'"', _, rfl, by decide, by decide, by decide, by decide⟩
  | .arr _, _ => ⟨'[', _, by rw [pr], by decide, by decide, by decide, by decide⟩
  | .obj _, _ => ⟨'{', _, by rw [pr], by decide, by decide, by decide, by decide⟩

theorem skipWs_starts {cs : List Char} (h : Starts cs) (rest : List Char) :
    skipWs (cs ++ rest) = cs ++ rest := by
  obtain ⟨c, tl, e, hw, _⟩ := h
  subst e
  simp [skipWs, hw]

theorem Fol_prElems (xs : List T) (rest : List Char) : Fol (prElems false xs ++ rest) := by
  intro c r h
  cases xs with
  | nil => simp [prElems] at h; obtain ⟨h1, _⟩ := h; subst h1; decide
  | cons x xs => simp [prElems] at h; obtain ⟨h1, _⟩ := h; subst h1; decide

theorem Fol_prMembers (es : List (Str × T)) (rest : List Char) : Fol (prMembers false es ++ rest) := by
  intro c r h
  cases es with
  | nil => simp [prMembers] at h; obtain ⟨h1, _⟩ := h; subst h1; decide
  | cons e es =>
    obtain ⟨k, x⟩ := e
    simp [prMembers] at h; obtain ⟨h1, _⟩ := h; subst h1; decide

theorem parseV_int (f d : Nat) (i : Int) (hi : -(2 ^ 63 : Int) ≤ i ∧ i < 2 ^ 63) {rest : List Char}
    (h : Fol rest) : parseV (f + 1) d (prInt i ++ rest) = .ok (.int i, rest) := by
  unfold prInt
  split
  · next hneg =>
    have hN : i.natAbs ≤ 2 ^ 63 := by omega
    have hN0 : i.natAbs ≠ 0 := by omega
    have hu : i.natAbs ≤ u64Max := by unfold u64Max; omega
    have hv : -(i.natAbs : Int) = i := by omega
    simp [parseV, skipWs, isWs, parseNumber_natDigits false _ h, afterInt_int h, hN, hN0, hu, hv]
  · next hpos =>
    obtain ⟨c, tl, e, hd, _⟩ := natDigits_head i.natAbs
    have hN : i.natAbs < 2 ^ 63 := by omega
    have hu : i.natAbs ≤ u64Max := by unfold u64Max; omega
    have hv : (i.natAbs : Int) = i := by omega
    have hs : skipWs (natDigits i.natAbs ++ rest) = c :: (tl ++ rest) := by
      rw [e]; simp [skipWs, (isDigit_not_ws hd).1]
    have e' : c :: (tl ++ rest) = natDigits i.natAbs ++ rest := by rw [e]; rfl
    unfold parseV
    simp only [hs, (isDigit_not_ws hd).2, hd, if_true, if_false]
    rw [e', parseNumber_natDigits true _ h, afterInt_int h]
    simp [hN, hu, hv]

mutual
theorem parseV_pr : ∀ (t : T) (f d : Nat) (rest : List Char), Good d t → cost t ≤ f → Fol rest →
    parseV f d (pr t ++ rest) = .ok (t, rest)
  | .null, f + 1, d, rest, _, _, _ => by simp [parseV, pr, skipWs, isWs, isDigit, parseIdent]
  | .bool true, f + 1, d, rest, _, _, _ => by simp [parseV, pr, skipWs, isWs, isDigit, parseIdent]
  | .bool false, f + 1, d, rest, _, _, _ => by simp [parseV, pr, skipWs, isWs, isDigit, parseIdent]
  | .int i, f + 1, d, rest, hg, _, hfol => by
    rw [pr]; exact parseV_int f d i (by simpa [Good] using hg) hfol
  | .float _, _, _, _, hg, _, _ => by simp [Good] at hg
  | .str s, f + 1, d, rest, _, _, _ => by
    have : prStr s ++ rest = '"' :: (escape s ++ '"' :: rest) := by simp [prStr]
    rw [pr, this]
    simp [parseV, skipWs, isWs, isDigit, parseStr_prStr]
  | .arr xs, f + 1, d, rest, hg, hc, _ => by
    have hg' : 1 < d ∧ GoodL (d - 1) xs := by simpa [Good] using hg
    have hc' : costL xs ≤ f := by simp [cost] at hc; omega
    have hd : ¬ d ≤ 1 := by omega
    have ih := parseElems_pr xs f (d - 1) true rest hg'.2 hc'
    have : pr (.arr xs) ++ rest = '[' :: (prElems true xs ++ rest) := by rw [pr]; rfl
    rw [this]
    simp [parseV, skipWs, isWs, isDigit, hd, ih]
  | .obj es, f + 1, d, rest, hg, hc, _ => by
    have hg' : 1 < d ∧ GoodE (d - 1) es := by simpa [Good] using hg
    have hc' : costE es ≤ f := by simp [cost] at hc; omega
    have hd : ¬ d ≤ 1 := by omega
    have ih := parseMembers_pr es f (d - 1) true rest hg'.2 hc'
    have : pr (.obj es) ++ rest = '{' :: (prMembers true es ++ rest) := by rw [pr]; rfl
    rw [this]
    simp [parseV, skipWs, isWs, isDigit, hd, ih]
  | .null, 0, _, _, _, hc, _ => by simp [cost] at hc
  | .bool _, 0, _, _, _, hc, _ => by simp [cost] at hc
  | .int _, 0, _, _, _, hc, _ => by simp [cost] at hc
  | .str _, 0, _, _, _, hc, _ => by simp [cost] at hc
  | .arr _, 0, _, _, _, hc, _ => by simp [cost] at hc
  | .obj _, 0, _, _, _, hc, _ => by simp [cost] at hc
theorem parseElems_pr : ∀ (xs : List T) (f d : Nat) (first : Bool) (rest : List Char),
    GoodL d xs → costL xs ≤ f →
    parseElems f d first (prElems first xs ++ rest) = .ok (xs, rest)
  | [], f + 1, d, first, rest, _, _ => by simp [parseElems, prElems, skipWs, isWs]
  | [], 0, _, _, _, _, hc => by simp [costL] at hc
  | x :: xs, 0, _, _, _, _, hc => by simp [costL] at hc
  | x :: xs, f + 1, d, first, rest, hg, hc => by
    have hg' : Good d x ∧ GoodL d xs := by simpa [GoodL] using hg
    have hc1 : cost x ≤ f := by simp [costL] at hc; omega
    have hc2 : costL xs ≤ f := by simp [costL] at hc; omega
    have ihx := parseV_pr x f d (prElems false xs ++ rest) hg'.1 hc1 (Fol_prElems xs rest)
    have ihxs := parseElems_pr xs f d false rest hg'.2 hc2
    have hst := pr_starts hg'.1
    have hsk := skipWs_starts hst (prElems false xs ++ rest)
    obtain ⟨c, tl, e, hw, h1, h2, h3⟩ := hst
    cases first with
    | true =>
      have : prElems true (x :: xs) ++ rest = pr x ++ (prElems false xs ++ rest) := by
        simp [prElems]
      rw [this]
      unfold parseElems
      rw [hsk]
      rw [e] at ihx ⊢
      simp only [List.cons_append, h1, if_false, if_true]
      simp only [List.cons_append] at ihx
      rw [ihx]
      simp only [ihxs]
    | false =>
      have : prElems false (x :: xs) ++ rest = ',' :: (pr x ++ (prElems false xs ++ rest)) := by
        simp [prElems]
      rw [this]
      unfold parseElems
      have hs2 : skipWs (',' :: (pr x ++ (prElems false xs ++ rest)))
          = ',' :: (pr x ++ (prElems false xs ++ rest)) := by simp [skipWs, isWs]
      rw [hs2]
      simp only [hsk]
      rw [e] at ihx ⊢
      simp only [List.cons_append] at ihx ⊢
      simp [h1, ihx, ihxs]
theorem parseMembers_pr : ∀ (es : List (Str × T)) (f d : Nat) (first : Bool) (rest : List Char),
    GoodE d es → costE es ≤ f →
    parseMembers f d first (prMembers first es ++ rest) = .ok (es, rest)
  | [], f + 1, d, first, rest, _, _ => by simp [parseMembers, prMembers, skipWs, isWs]
  | [], 0, _, _, _, _, hc => by simp [costE] at hc
  | (k, x) :: es, 0, _, _, _, _, hc => by simp [costE] at hc
  | (k, x) :: es, f + 1, d, first, rest, hg, hc => by
    have hg' : Good d x ∧ GoodE d es := by simpa [GoodE] using hg
    have hc1 : cost x ≤ f := by simp [costE] at hc; omega
    have hc2 : costE es ≤ f := by simp [costE] at hc; omega
    have ihx := parseV_pr x f d (prMembers false es ++ rest) hg'.1 hc1 (Fol_prMembers es rest)
    have ihes := parseMembers_pr es f d false rest hg'.2 hc2
    have hkey : ∀ tail, parseStr (escape k ++ '"' :: tail) = .ok (k, tail) := parseStr_prStr k
    cases first with
    | true =>
      have : prMembers true ((k, x) :: es) ++ rest
          = '"' :: (escape k ++ '"' :: ':' :: (pr x ++ (prMembers false es ++ rest))) := by
        simp [prMembers, prStr]
      rw [this]
      unfold parseMembers
      simp [skipWs, isWs, hkey, ihx, ihes]
    | false =>
      have : prMembers false ((k, x) :: es) ++ rest
          = ',' :: '"' :: (escape k ++ '"' :: ':' :: (pr x ++ (prMembers false es ++ rest))) := by
        simp [prMembers, prStr]
      rw [this]
      unfold parseMembers
      simp [skipWs, isWs, hkey, ihx, ihes]
end

/-! ### the budget of `parse` suffices -/

theorem prInt_length_pos (i : Int) : 0 < (prInt i).length := by
  obtain ⟨c, tl, e, _⟩ := prInt_starts i
  rw [e]; simp

mutual
theorem cost_le {d : Nat} : ∀ (t : T), Good d t → cost t + 1 ≤ 2 * (pr t).length
  | .null, _ => by simp [cost, pr]
  | .bool true, _ => by simp [cost, pr]
  | .bool false, _ => by simp [cost, pr]
  | .int i, _ => by have := prInt_length_pos i; simp [cost, pr]; omega
  | .float _, h => by simp [Good] at h
  | .str s, _ => by simp [cost, pr, prStr]; omega
  | .arr xs, h => by
    have h' : 1 < d ∧ GoodL (d - 1) xs := by simpa [Good] using h
    have := costL_le true xs h'.2
    simp [cost, pr]; omega
  | .obj es, h => by
    have h' : 1 < d ∧ GoodE (d - 1) es := by simpa [Good] using h
    have := costE_le true es h'.2
    simp [cost, pr]; omega
theorem costL_le {d : Nat} (first : Bool) : ∀ (xs : List T), GoodL d xs →
    costL xs ≤ 2 * (prElems first xs).length
  | [], _ => by simp [costL, prElems]
  | x :: xs, h => by
    have h' : Good d x ∧ GoodL d xs := by simpa [GoodL] using h
    have h1 := cost_le x h'.1
    have h2 := costL_le false xs h'.2
    simp [costL, prElems]; omega
theorem costE_le {d : Nat} (first : Bool) : ∀ (es : List (Str × T)), GoodE d es →
    costE es ≤ 2 * (prMembers first es).length
  | [], _ => by simp [costE, prMembers]
  | (k, x) :: es, h => by
    have h' : Good d x ∧ GoodE d es := by simpa [GoodE] using h
    have h1 := cost_le x h'.1
    have h2 := costE_le false es h'.2
    simp [costE, prMembers]; omega
end

theorem parse_pr (t : T) (h : Good 128 t) : parse (pr t) = .ok (t, []) := by
  have hc := cost_le t h
  have := parseV_pr t (2 * (pr t).length + 2) 128 [] h (by omega) Fol_nil
  simpa [parse] using this

theorem pr_injective {t₁ t₂ : T} (h₁ : Good 128 t₁) (h₂ : Good 128 t₂) (h : pr t₁ = pr t₂) :
    t₁ = t₂ := by
  have e₁ := parse_pr t₁ h₁
  have e₂ := parse_pr t₂ h₂
  rw [h, e₂] at e₁
  injection e₁ with e
  injection e with e _
  exact e.symm

/-! ### `Ord String` is lawful -/

theorem toNat_inj {a b : Char} (h : a.toNat = b.toNat) : a = b := by
  rw [← Char.ofNat_toNat a, ← Char.ofNat_toNat b, h]

theorem scmp_lawful : LawfulCmp scmp := by
  refine ⟨?_, ?_, ?_⟩
  · intro a
    induction a with
    | nil => intro b; cases b <;> simp [scmp]
    | cons x xs ih =>
      intro b
      cases b with
      | nil => simp [scmp]
      | cons y ys =>
        simp only [scmp]
        split
        · next h => simp; intro e; subst e; omega
        · split
          · next h1 h2 => subst h2; simp [ih]
          · next h1 h2 => simp [h2]
  · intro a
    induction a with
    | nil => intro b; cases b <;> simp [scmp]
    | cons x xs ih =>
      intro b
      cases b with
      | nil => simp [scmp]
      | cons y ys =>
        simp only [scmp]
        by_cases h1 : x.toNat < y.toNat
        · have h2 : ¬ y.toNat < x.toNat := by omega
          have h3 : ¬ y = x := by intro e; subst e; omega
          simp [h1, h2, h3]
        · by_cases h2 : x = y
          · subst h2; simp [ih]
          · have h3 : y.toNat < x.toNat := by
              have : x.toNat ≠ y.toNat := fun e => h2 (toNat_inj e)
              omega
            simp [h1, h2, h3]
  · intro a
    induction a with
    | nil =>
      intro b c
      cases b <;> cases c <;> simp [scmp]
    | cons x xs ih =>
      intro b c
      cases b with
      | nil => simp [scmp]
      | cons y ys =>
        cases c with
        | nil => simp [scmp]; repeat' split <;> simp
        | cons z zs =>
          simp only [scmp]
          by_cases h1 : x.toNat < y.toNat
          · by_cases h2 : y.toNat < z.toNat
            · have : x.toNat < z.toNat := by omega
              simp [this]
            · by_cases h3 : y = z
              · subst h3; simp [h1]
              · simp [h2, h3]
          · by_cases h2 : x = y
            · subst h2
              by_cases h3 : x.toNat < z.toNat
              · simp [h3]
              · by_cases h4 : x = z
                · subst h4; simpa using ih ys zs
                · simp [h3, h4]
            · simp [h1, h2]

/-! ### the keys of an object are the in-order traversal of its tree -/

section keys
variable {V W : Type}

theorem all_iff_preorder {p : Str → Prop} : ∀ {m : Map Str V}, All p m ↔ ∀ x ∈ preorder m, p x.1
  | .tip => by simp [All, preorder]
  | .bin k v l r => by
    simp only [All, preorder, List.mem_cons, List.mem_append, all_iff_preorder (m := l),
      all_iff_preorder (m := r)]
    constructor
    · rintro ⟨a, b, c⟩ x (h | h | h)
      · subst h; exact a
      · exact b x h
      · exact c x h
    · intro h
      exact ⟨h (k, v) (Or.inl rfl), fun x hx => h x (Or.inr (Or.inl hx)), fun x hx => h x (Or.inr (Or.inr hx))⟩

def ins (m : Map Str V) (e : Str × V) : Map Str V := insert scmp e.1 e.2 m

theorem foldl_ins_lt (k : Str) (v : V) (R : Map Str V) : ∀ (es : List (Str × V)) (L : Map Str V),
    (∀ e ∈ es, scmp e.1 k = .lt) → es.foldl ins (.bin k v L R) = .bin k v (es.foldl ins L) R
  | [], _, _ => rfl
  | e :: es, L, h => by
    have h1 := h e (List.mem_cons_self ..)
    simp only [List.foldl_cons]
    rw [show ins (.bin k v L R) e = .bin k v (ins L e) R by simp [ins, StdMap.insert, h1]]
    exact foldl_ins_lt k v R es _ (fun x hx => h x (List.mem_cons_of_mem _ hx))

theorem foldl_ins_gt (k : Str) (v : V) (L : Map Str V) : ∀ (es : List (Str × V)) (R : Map Str V),
    (∀ e ∈ es, scmp k e.1 = .lt) → es.foldl ins (.bin k v L R) = .bin k v L (es.foldl ins R)
  | [], _, _ => rfl
  | e :: es, R, h => by
    have h1 : scmp e.1 k = .gt := (scmp_lawful.gt_iff _ _).2 (h e (List.mem_cons_self ..))
    simp only [List.foldl_cons]
    rw [show ins (.bin k v L R) e = .bin k v L (ins R e) by simp [ins, StdMap.insert, h1]]
    exact foldl_ins_gt k v L es _ (fun x hx => h x (List.mem_cons_of_mem _ hx))

/-- inserting the entries of a search tree in pre-order rebuilds the same tree -/
theorem rebuild : ∀ {m : Map Str V}, Ordered scmp m → (preorder m).foldl ins .tip = m
  | .tip, _ => rfl
  | .bin k v l r, ⟨a, b, c, d⟩ => by
    simp only [preorder, List.foldl_cons, List.foldl_append]
    rw [show ins (.tip : Map Str V) (k, v) = .bin k v .tip .tip by simp [ins, StdMap.insert]]
    rw [foldl_ins_lt k v .tip _ _ (all_iff_preorder.1 a), rebuild c,
      foldl_ins_gt k v l _ _ (all_iff_preorder.1 b), rebuild d]

theorem insAll_toList : ∀ (es : List (Str × V)) {m : Map Str V}, Ordered scmp m →
    insAll es (toList m) = toList (es.foldl ins m)
  | [], _, _ => rfl
  | e :: es, m, h => by
    simp only [insAll, List.foldl_cons]
    rw [← toList_insert scmp_lawful e.1 e.2 h]
    exact insAll_toList es (insert_ordered scmp_lawful e.1 e.2 h)

theorem insAll_preorder {m : Map Str V} (h : Ordered scmp m) : insAll (preorder m) [] = toList m := by
  have := insAll_toList (preorder m) (m := .tip) trivial
  rw [toList_tip] at this
  rw [this, rebuild h]

theorem all_map {p : Str → Prop} (g : V → W) : ∀ {m : Map Str V}, All p (StdMap.map g m) ↔ All p m
  | .tip => by simp [StdMap.map, All]
  | .bin k v l r => by simp [StdMap.map, All, all_map g (m := l), all_map g (m := r)]

theorem ordered_map (g : V → W) : ∀ {m : Map Str V}, Ordered scmp m → Ordered scmp (StdMap.map g m)
  | .tip, _ => trivial
  | .bin _ _ _ _, ⟨a, b, c, d⟩ =>
    ⟨(all_map g).2 a, (all_map g).2 b, ordered_map g c, ordered_map g d⟩

theorem preorder_map (g : V → W) : ∀ (m : Map Str V),
    preorder (StdMap.map g m) = (preorder m).map (fun kv => (kv.1, g kv.2))
  | .tip => rfl
  | .bin k v l r => by simp [StdMap.map, preorder, preorder_map g l, preorder_map g r]

theorem toList_map (g : V → W) : ∀ (m : Map Str V),
    toList (StdMap.map g m) = (toList m).map (fun kv => (kv.1, g kv.2))
  | .tip => by simp [StdMap.map, toList_tip]
  | .bin k v l r => by simp [StdMap.map, toList_bin, toList_map g l, toList_map g r]

end keys

theorem toTM_eq : ∀ (m : Map Str JVal) (acc : List (Str × T)),
    toTM m acc = insAll ((preorder m).map (fun kv => (kv.1, toT kv.2))) acc
  | .tip, acc => by simp [toTM, preorder, insAll]
  | .bin k v l r, acc => by
    rw [toTM, toTM_eq r, toTM_eq l]
    simp [preorder, insAll, List.foldl_append]

theorem toT_obj_ordered {m : Map Str JVal} (h : Ordered scmp m) :
    toT (.obj m) = .obj ((toList m).map (fun kv => (kv.1, toT kv.2))) := by
  rw [toT, toTM_eq, ← preorder_map, insAll_preorder (ordered_map toT h), toList_map]

end GluonModel.StdJsonText
