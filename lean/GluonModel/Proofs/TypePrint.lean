/-
Lemmas for C18: the grammar model reads back what the printer model prints, on the core fragment
(holes, constructors, generics, `(->)`, explicit and implicit functions, `forall`, applications).
-/
import GluonModel.TypePrint

namespace GluonModel.Proofs.TypePrint
open GluonModel.TypePrint

/-- What may stand in the head position of an application (well-kinded heads). -/
def headLike : Ty → Bool
  | .con _ | .var _ | .app _ _ => true
  | _ => false

/-- The core fragment, with lexically valid names: a constructor name is one the grammar
    classifies as a constructor (upper-case initial), a generic name one it classifies as a
    generic (not `_`, not upper-case). -/
inductive Core : Ty → Prop
  | hole : Core .hole
  | arrow : Core .arrow
  | con (n : String) : classify n = .con n → Core (.con n)
  | var (n : String) : classify n = .var n → Core (.var n)
  | fn (i : Bool) (a r : Ty) : Core a → Core r → Core (.fn i a r)
  | all (v : String) (vs : List String) (b : Ty) : Core b → Core (.all (v :: vs) b)
  | app (f a : Ty) : Core f → headLike f = true → Core a → Core (.app f a)

/-- number of arguments on the application spine -/
def argc : Ty → Nat
  | .app f _ => argc f + 1
  | _ => 0

/-- recursion depth (fuel) sufficient to read the type back -/
def need : Ty → Nat
  | .fn _ a r => max (need a) (need r) + 6
  | .all _ b => need b + 6
  | .app f a => max (need f) (need a + argc f + 2) + 6
  | _ => 4

theorem need_ge (t : Ty) : 4 ≤ need t := by
  cases t <;> simp [need] <;> omega

/-- the next token is not `.` (which would continue a projection `a.b`) -/
def NoDot : List Tok → Prop
  | .dot :: _ => False
  | _ => True

/-- the next token does not start another atomic type (which would continue an application) -/
def NoAtom : List Tok → Prop
  | t :: _ => atomStart t = false
  | [] => True

/-- the next token is not `->` -/
def NoArrow : List Tok → Prop
  | .arrow :: _ => False
  | _ => True

/-- first token is an identifier or `(` -/
def HeadOK : List Tok → Prop
  | .id _ :: _ => True
  | .lparen :: _ => True
  | _ => False

@[simp] theorem print_hole (p : Prec) : print p .hole = [.id "_"] := by simp [print]
@[simp] theorem print_con (p : Prec) (n : String) : print p (.con n) = [.id n] := by simp [print]
@[simp] theorem print_var (p : Prec) (n : String) : print p (.var n) = [.id n] := by simp [print]
@[simp] theorem print_arrow (p : Prec) : print p .arrow = [.lparen, .arrow, .rparen] := by
  simp [print]

theorem print_fn (p : Prec) (i : Bool) (a r : Ty) :
    print p (.fn i a r) = enclose p .function
      ((if i then [.lbracket] ++ print .function a ++ [.rbracket] else print .function a)
        ++ [.arrow] ++ print .top r) := by
  simp [print]

theorem print_all (p : Prec) (vs : List String) (b : Ty) :
    print p (.all vs b) = enclose p .function ([.kwForall] ++ vs.map .id ++ [.dot] ++ print .top b) := by
  simp [print]

theorem print_app (p : Prec) (f a : Ty) :
    print p (.app f a) = enclose p .constructor (print .top f ++ print .constructor a) := by
  simp [print]

@[simp] theorem enclose_top (l : Prec) (d : List Tok) (h : l ≠ .top) : enclose .top l d = d := by
  cases l <;> simp_all [enclose, Prec.rank]

@[simp] theorem enclose_fun_con (d : List Tok) : enclose .function .constructor d = d := by
  simp [enclose, Prec.rank]

@[simp] theorem enclose_fun_fun (d : List Tok) :
    enclose .function .function d = [.lparen] ++ d ++ [.rparen] := by
  simp [enclose, Prec.rank]

@[simp] theorem enclose_con (l : Prec) (d : List Tok) :
    enclose .constructor l d = [.lparen] ++ d ++ [.rparen] := by
  cases l <;> simp [enclose, Prec.rank]

theorem headOK_headLike (f : Ty) (hc : Core f) (hl : headLike f = true) (rest : List Tok) :
    HeadOK (print .top f ++ rest) := by
  induction hc generalizing rest with
  | hole => simp [headLike] at hl
  | arrow => simp [headLike] at hl
  | con n _ => simp [HeadOK]
  | var n _ => simp [HeadOK]
  | fn i a r _ _ _ _ => simp [headLike] at hl
  | all v vs b _ _ => simp [headLike] at hl
  | app f a hf hlf _ ihf _ =>
    rw [print_app, enclose_top _ _ (by decide), List.append_assoc]
    exact ihf hlf _

/-- At `Prec::Function` and `Prec::Constructor` a type starts with an identifier or `(`. -/
theorem headOK_fun (t : Ty) (hc : Core t) (rest : List Tok) :
    HeadOK (print .function t ++ rest) := by
  cases hc with
  | hole => simp [HeadOK]
  | arrow => simp [HeadOK]
  | con n _ => simp [HeadOK]
  | var n _ => simp [HeadOK]
  | fn i a r _ _ => rw [print_fn, enclose_fun_fun]; simp [HeadOK]
  | all v vs b _ => rw [print_all, enclose_fun_fun]; simp [HeadOK]
  | app f a hf hlf ha =>
    rw [print_app, enclose_fun_con, List.append_assoc]
    exact headOK_headLike f hf hlf _

theorem headOK_con (t : Ty) (hc : Core t) (rest : List Tok) :
    HeadOK (print .constructor t ++ rest) := by
  cases hc with
  | hole => simp [HeadOK]
  | arrow => simp [HeadOK]
  | con n _ => simp [HeadOK]
  | var n _ => simp [HeadOK]
  | fn i a r _ _ => rw [print_fn, enclose_con]; simp [HeadOK]
  | all v vs b _ => rw [print_all, enclose_con]; simp [HeadOK]
  | app f a hf hlf ha => rw [print_app, enclose_con]; simp [HeadOK]

theorem HeadOK.noDot {l : List Tok} (h : HeadOK l) : NoDot l := by
  match l, h with
  | .id _ :: _, _ => trivial
  | .lparen :: _, _ => trivial

theorem HeadOK.atom {l : List Tok} (h : HeadOK l) : ∃ t ts, l = t :: ts ∧ atomStart t = true := by
  match l, h with
  | .id s :: ts, _ => exact ⟨_, _, rfl, rfl⟩
  | .lparen :: ts, _ => exact ⟨_, _, rfl, rfl⟩

theorem pProjTail_noDot (l : List Tok) (h : NoDot l) : pProjTail l = ([], l) := by
  match l, h with
  | [], _ => simp [pProjTail]
  | t :: ts, h =>
    cases t <;> simp [NoDot] at h <;> simp [pProjTail]

theorem pIdents_map (vs : List String) (rest : List Tok) :
    pIdents (vs.map .id ++ .dot :: rest) = (vs, .dot :: rest) := by
  induction vs with
  | nil => simp [pIdents]
  | cons v vs ih => simp [pIdents, ih]

/-- `pType` on a token stream that starts with an identifier or `(` goes to `pFunTail`. -/
theorem pType_headOK (F : Nat) (l : List Tok) (h : HeadOK l) : pType (F + 1) l = pFunTail F l := by
  match l, h with
  | .id s :: ts, _ => simp [pType]
  | .lparen :: ts, _ => simp [pType]

theorem pArgs_stop (G : Nat) (h : Ty) (rest : List Tok) (hr : NoAtom rest) :
    pArgs (G + 1) h rest = some (h, rest) := by
  match rest, hr with
  | [], _ => simp [pArgs]
  | t :: ts, hr => simp [NoAtom] at hr; simp [pArgs, hr]

/-- Reading an atomic type whose printed form is a single identifier. -/
theorem pAtomic_id (G : Nat) (s : String) (rest : List Tok) (hd : NoDot rest) :
    pAtomic (G + 1) (.id s :: rest) = some (classify s, rest) := by
  simp [pAtomic, pProjTail_noDot rest hd]

theorem classify_hole : classify "_" = .hole := by simp [classify]

/-- A parenthesised type: `( <Type> )` reads as that type, given that `<Type>` itself reads back. -/
theorem pAtomic_paren (F : Nat) (t : Ty) (body rest : List Tok)
    (hhead : ∃ tok ts, body ++ .rparen :: rest = tok :: ts ∧ typeStart tok = true ∧
      tok ≠ .arrow ∧ tok ≠ .dotdot)
    (hbody : pType F (body ++ .rparen :: rest) = some (t, .rparen :: rest)) :
    pAtomic (F + 2) ([.lparen] ++ body ++ [.rparen] ++ rest) = some (t, rest) := by
  obtain ⟨tok, ts, e, hs, h1, h2⟩ := hhead
  have e' : [Tok.lparen] ++ body ++ [.rparen] ++ rest = .lparen :: tok :: ts := by
    simp [← e]
  rw [e']
  rw [e] at hbody
  have : pCommaTypes (F + 1) (tok :: ts) = some ([t], .rparen :: rest) := by
    simp only [pCommaTypes]
    rw [if_pos hs, hbody]
  cases tok <;> simp_all [pAtomic, typeStart, atomStart]

theorem pApp_of_pAtomic (F : Nat) (l rest : List Tok) (t : Ty)
    (h : pAtomic (F + 1) l = some (t, rest)) (hr : NoAtom rest) :
    pApp (F + 2) l = some (t, rest) := by
  simp only [pApp, h]
  exact pArgs_stop F t rest hr

theorem pFunTail_of_pApp (F : Nat) (l rest : List Tok) (a : Ty)
    (h : pApp F l = some (a, rest)) (hr : NoArrow rest) :
    pFunTail (F + 1) l = some (a, rest) := by
  simp only [pFunTail, h]
  match rest, hr with
  | [], _ => rfl
  | tok :: ts, hr => cases tok <;> simp_all [NoArrow]

theorem pType_of_pApp (F : Nat) (l rest : List Tok) (a : Ty) (hl : HeadOK l)
    (h : pApp F l = some (a, rest)) (hr : NoArrow rest) :
    pType (F + 2) l = some (a, rest) := by
  rw [pType_headOK _ _ hl]
  exact pFunTail_of_pApp F l rest a h hr

theorem noAtom_arrow (l : List Tok) : NoAtom (.arrow :: l) := by simp [NoAtom, atomStart]
theorem noAtom_rparen (l : List Tok) : NoAtom (.rparen :: l) := by simp [NoAtom, atomStart]
theorem noAtom_rbracket (l : List Tok) : NoAtom (.rbracket :: l) := by simp [NoAtom, atomStart]

theorem pType_lbracket (F : Nat) (X ts' rest : List Tok) (a r : Ty) (h : HeadOK X)
    (hq : pType F X = some (a, .rbracket :: .arrow :: ts'))
    (hr : pType F ts' = some (r, rest)) :
    pType (F + 1) (.lbracket :: X) = some (.fn true a r, rest) := by
  match X, h with
  | .id s :: ts, _ => simp only [pType, hq, hr]
  | .lparen :: ts, _ => simp only [pType, hq, hr]

/-- The statement proved by induction: reading back at each of the three precedence levels, and
    the application-spine invariant. -/
def Reads (t : Ty) : Prop :=
  (∀ F rest, need t ≤ F → NoDot rest →
      pAtomic F (print .constructor t ++ rest) = some (t, rest)) ∧
  (∀ F rest, need t ≤ F → NoDot rest → NoAtom rest →
      pApp F (print .function t ++ rest) = some (t, rest)) ∧
  (∀ F rest, need t ≤ F → NoDot rest → NoAtom rest → NoArrow rest →
      pType F (print .top t ++ rest) = some (t, rest)) ∧
  (headLike t = true → ∀ G rest, 1 ≤ G → need t ≤ G + argc t + 5 → NoDot rest →
      pApp (G + argc t + 1) (print .top t ++ rest) = pArgs G t rest)

/-- atoms whose printed form is the same token list `toks` at every precedence and is read by
    `pAtomic` with any fuel ≥ 1 -/
theorem reads_atom (t : Ty) (toks : List Tok) (hp : ∀ p, print p t = toks)
    (hok : ∀ rest, HeadOK (toks ++ rest))
    (hat : ∀ G rest, NoDot rest → pAtomic (G + 1) (toks ++ rest) = some (t, rest))
    (hn : need t = 4) (ha : argc t = 0) : Reads t := by
  have B : ∀ F rest, 2 ≤ F → NoDot rest → NoAtom rest →
      pApp F (toks ++ rest) = some (t, rest) := by
    intro F rest hF hd ha'
    obtain ⟨G, rfl⟩ : ∃ G, F = G + 2 := ⟨F - 2, by omega⟩
    exact pApp_of_pAtomic _ _ _ _ (hat G rest hd) ha'
  refine ⟨?_, ?_, ?_, ?_⟩
  · intro F rest hF hd
    obtain ⟨G, rfl⟩ : ∃ G, F = G + 1 := ⟨F - 1, by omega⟩
    rw [hp]; exact hat G rest hd
  · intro F rest hF hd ha'
    rw [hp]; exact B F rest (by omega) hd ha'
  · intro F rest hF hd ha' har
    obtain ⟨G, rfl⟩ : ∃ G, F = G + 2 := ⟨F - 2, by omega⟩
    rw [hp]
    exact pType_of_pApp _ _ _ _ (hok rest) (B G rest (by omega) hd ha') har
  · intro _ G rest hG _ hd
    obtain ⟨G', rfl⟩ : ∃ G', G = G' + 1 := ⟨G - 1, by omega⟩
    rw [hp, ha]
    simp only [pApp, hat G' rest hd]

/-- compound types that are parenthesised below the top level: everything follows from
    reading back at the top level -/
theorem reads_paren (t : Ty) (hl : headLike t = false)
    (hpf : print .function t = [.lparen] ++ print .top t ++ [.rparen])
    (hpc : print .constructor t = [.lparen] ++ print .top t ++ [.rparen])
    (hhead : ∀ rest, ∃ tok ts, print .top t ++ rest = tok :: ts ∧ typeStart tok = true ∧
      tok ≠ .arrow ∧ tok ≠ .dotdot)
    (hn : 6 ≤ need t)
    (C : ∀ F rest, need t ≤ F + 3 → NoDot rest → NoAtom rest → NoArrow rest →
      pType F (print .top t ++ rest) = some (t, rest)) : Reads t := by
  have A : ∀ F rest, need t ≤ F + 1 → NoDot rest →
      pAtomic F (print .constructor t ++ rest) = some (t, rest) := by
    intro F rest hF hd
    obtain ⟨G, rfl⟩ : ∃ G, F = G + 2 := ⟨F - 2, by omega⟩
    rw [hpc]
    apply pAtomic_paren
    · exact hhead _
    · exact C G (.rparen :: rest) (by omega) trivial (noAtom_rparen _) trivial
  refine ⟨fun F rest hF hd => A F rest (by omega) hd, ?_, ?_, ?_⟩
  · intro F rest hF hd ha'
    obtain ⟨G, rfl⟩ : ∃ G, F = G + 2 := ⟨F - 2, by omega⟩
    apply pApp_of_pAtomic _ _ _ _ _ ha'
    have := A (G + 1) rest (by omega) hd
    rw [hpc] at this; rw [hpf]; exact this
  · intro F rest hF hd ha' har
    exact C F rest (by omega) hd ha' har
  · intro h; rw [hl] at h; cases h

theorem reads_core (t : Ty) (hc : Core t) : Reads t := by
  induction hc with
  | hole =>
    exact reads_atom .hole [.id "_"] (by simp) (by simp [HeadOK])
      (fun G rest hd => by
        simp only [List.singleton_append]; rw [pAtomic_id G "_" rest hd, classify_hole])
      (by simp [need]) (by simp [argc])
  | arrow =>
    exact reads_atom .arrow [.lparen, .arrow, .rparen] (by simp) (by simp [HeadOK])
      (fun G rest _ => by simp [pAtomic]) (by simp [need]) (by simp [argc])
  | con n h =>
    exact reads_atom (.con n) [.id n] (by simp) (by simp [HeadOK])
      (fun G rest hd => by simp only [List.singleton_append]; rw [pAtomic_id G n rest hd, h])
      (by simp [need]) (by simp [argc])
  | var n h =>
    exact reads_atom (.var n) [.id n] (by simp) (by simp [HeadOK])
      (fun G rest hd => by simp only [List.singleton_append]; rw [pAtomic_id G n rest hd, h])
      (by simp [need]) (by simp [argc])
  | fn i a r ha hr iha ihr =>
    obtain ⟨_, Ba, _, _⟩ := iha
    obtain ⟨_, _, Cr, _⟩ := ihr
    have hna := need_ge a
    have hnr := need_ge r
    apply reads_paren
    · rfl
    · rw [print_fn, print_fn, enclose_fun_fun, enclose_top _ _ (by decide)]
    · rw [print_fn, print_fn, enclose_con, enclose_top _ _ (by decide)]
    · intro rest
      rw [print_fn, enclose_top _ _ (by decide)]
      cases i
      · have hok := headOK_fun a ha ([.arrow] ++ (print .top r ++ rest))
        simp only [Bool.false_eq_true, if_false, List.append_assoc]
        match hX : print .function a ++ ([Tok.arrow] ++ (print .top r ++ rest)), hok with
        | .id s :: ts, _ => exact ⟨_, _, rfl, by simp [typeStart, atomStart], by simp, by simp⟩
        | .lparen :: ts, _ => exact ⟨_, _, rfl, by simp [typeStart, atomStart], by simp, by simp⟩
      · simp only [if_true, List.append_assoc, List.cons_append, List.nil_append]
        exact ⟨_, _, rfl, by simp [typeStart, atomStart], by simp, by simp⟩
    · simp [need]
    · intro F rest hF hd hna' har
      simp only [need] at hF
      obtain ⟨G, rfl⟩ : ∃ G, F = G + 2 := ⟨F - 2, by omega⟩
      rw [print_fn, enclose_top _ _ (by decide)]
      cases i
      · -- explicit argument
        simp only [Bool.false_eq_true, if_false, List.append_assoc, List.cons_append,
          List.nil_append]
        rw [pType_headOK _ _ (headOK_fun a ha _)]
        simp only [pFunTail]
        rw [Ba G (.arrow :: (print .top r ++ rest)) (by omega) trivial (noAtom_arrow _)]
        simp only
        rw [Cr G rest (by omega) hd hna' har]
      · -- implicit argument
        simp only [if_true, List.append_assoc, List.cons_append, List.nil_append]
        obtain ⟨G', rfl⟩ : ∃ G', G = G' + 1 := ⟨G - 1, by omega⟩
        have hq : pType (G' + 2) (print .function a ++ .rbracket :: .arrow :: (print .top r ++ rest))
            = some (a, .rbracket :: .arrow :: (print .top r ++ rest)) :=
          pType_of_pApp _ _ _ _ (headOK_fun a ha _)
            (Ba G' (.rbracket :: .arrow :: (print .top r ++ rest)) (by omega) trivial
              (noAtom_rbracket _)) trivial
        exact pType_lbracket _ _ _ _ _ _ (headOK_fun a ha _) hq
          (Cr (G' + 2) rest (by omega) hd hna' har)
  | all v vs b hb ihb =>
    obtain ⟨_, _, Cb, _⟩ := ihb
    apply reads_paren
    · rfl
    · rw [print_all, print_all, enclose_fun_fun, enclose_top _ _ (by decide)]
    · rw [print_all, print_all, enclose_con, enclose_top _ _ (by decide)]
    · intro rest
      rw [print_all, enclose_top _ _ (by decide)]
      simp only [List.append_assoc, List.singleton_append, List.cons_append, List.nil_append]
      exact ⟨_, _, rfl, by simp [typeStart], by simp, by simp⟩
    · simp [need]
    · intro F rest hF hd hna har
      simp only [need] at hF
      obtain ⟨G, rfl⟩ : ∃ G, F = G + 1 := ⟨F - 1, by omega⟩
      rw [print_all, enclose_top _ _ (by decide)]
      have e : [Tok.kwForall] ++ (v :: vs).map Tok.id ++ [.dot] ++ print .top b ++ rest
          = .kwForall :: ((v :: vs).map Tok.id ++ .dot :: (print .top b ++ rest)) := by simp
      rw [e]
      simp only [pType, pIdents_map]
      rw [Cb G rest (by omega) hd hna har]
  | app f a hf hlf ha ihf iha =>
    obtain ⟨_, _, _, Sf⟩ := ihf
    obtain ⟨Aa, _, _, _⟩ := iha
    have hnf := need_ge f
    have hna := need_ge a
    have hcore : Core (.app f a) := Core.app f a hf hlf ha
    have S : ∀ G rest, 1 ≤ G → need (.app f a) ≤ G + argc (.app f a) + 5 → NoDot rest →
        pApp (G + argc (.app f a) + 1) (print .top (.app f a) ++ rest) = pArgs G (.app f a) rest := by
      intro G rest hG1 hG hd
      simp only [need, argc] at hG
      rw [print_app, enclose_top _ _ (by decide), List.append_assoc]
      have e : G + argc (.app f a) + 1 = (G + 1) + argc f + 1 := by simp only [argc]; omega
      rw [e, Sf hlf (G + 1) _ (by omega) (by omega) (headOK_con a ha rest).noDot]
      have hA := Aa G rest (by omega) hd
      have hok := headOK_con a ha rest
      match hX : print .constructor a ++ rest, hok with
      | .id s :: ts, _ => rw [hX] at hA; simp only [pArgs, atomStart, if_true, hA]
      | .lparen :: ts, _ => rw [hX] at hA; simp only [pArgs, atomStart, if_true, hA]
    have B : ∀ F rest, need (.app f a) ≤ F + 4 → NoDot rest → NoAtom rest →
        pApp F (print .top (.app f a) ++ rest) = some (.app f a, rest) := by
      intro F rest hF hd hna'
      have h2 : argc (.app f a) + 3 ≤ F := by simp only [need, argc] at hF ⊢; omega
      obtain ⟨G, rfl⟩ : ∃ G, F = (G + 1) + argc (.app f a) + 1 :=
        ⟨F - argc (.app f a) - 2, by omega⟩
      rw [S (G + 1) rest (by omega) (by omega) hd]
      exact pArgs_stop G _ rest hna'
    have hpt : print .function (.app f a) = print .top (.app f a) := by
      rw [print_app, print_app, enclose_fun_con, enclose_top _ _ (by decide)]
    have C : ∀ F rest, need (.app f a) ≤ F + 2 → NoDot rest → NoAtom rest → NoArrow rest →
        pType F (print .top (.app f a) ++ rest) = some (.app f a, rest) := by
      intro F rest hF hd hna' har
      obtain ⟨G, rfl⟩ : ∃ G, F = G + 2 := ⟨F - 2, by simp only [need] at hF; omega⟩
      exact pType_of_pApp _ _ _ _ (headOK_headLike _ hcore rfl _) (B G rest (by omega) hd hna') har
    refine ⟨?_, ?_, fun F rest hF => C F rest (by omega), fun _ => S⟩
    · intro F rest hF hd
      obtain ⟨G, rfl⟩ : ∃ G, F = G + 2 := ⟨F - 2, by simp only [need] at hF; omega⟩
      rw [print_app, enclose_con]
      apply pAtomic_paren
      · have hok := headOK_headLike _ hcore rfl (.rparen :: rest)
        rw [print_app, enclose_top _ _ (by decide)] at hok
        match hX : print .top f ++ print .constructor a ++ .rparen :: rest, hok with
        | .id s :: ts, _ => exact ⟨_, _, rfl, by simp [typeStart, atomStart], by simp, by simp⟩
        | .lparen :: ts, _ => exact ⟨_, _, rfl, by simp [typeStart, atomStart], by simp, by simp⟩
      · have := C G (.rparen :: rest) (by omega) trivial (noAtom_rparen _) trivial
        rw [print_app, enclose_top _ _ (by decide)] at this
        exact this
    · intro F rest hF hd hna'
      rw [hpt]; exact B F rest (by omega) hd hna'

theorem enclose_length (p l : Prec) (d : List Tok) : d.length ≤ (enclose p l d).length := by
  unfold enclose; split <;> simp; omega

/-- The fuel of the top-level entry points (`fuelFor`) is enough: the recursion depth `need t`
    is bounded by 8 × the number of printed tokens. -/
theorem need_le_tokens (t : Ty) (hc : Core t) :
    need t ≤ 8 * (print .top t).length ∧ argc t + 1 ≤ (print .top t).length ∧
      ∀ p, (print .top t).length ≤ (print p t).length := by
  induction hc with
  | hole => simp [need, argc]
  | arrow => simp [need, argc]
  | con n _ => simp [need, argc]
  | var n _ => simp [need, argc]
  | fn i a r _ _ iha ihr =>
    obtain ⟨ha1, ha2, ha3⟩ := iha
    obtain ⟨hr1, hr2, hr3⟩ := ihr
    have hf := ha3 .function
    refine ⟨?_, ?_, ?_⟩
    · rw [print_fn, enclose_top _ _ (by decide)]
      simp only [need]
      cases i <;> simp <;> omega
    · rw [print_fn, enclose_top _ _ (by decide)]
      cases i <;> simp [argc] <;> omega
    · intro p
      rw [print_fn, print_fn, enclose_top _ _ (by decide)]
      exact enclose_length _ _ _
  | all v vs b _ ihb =>
    obtain ⟨hb1, hb2, hb3⟩ := ihb
    refine ⟨?_, ?_, ?_⟩
    · rw [print_all, enclose_top _ _ (by decide)]
      simp [need]; omega
    · rw [print_all, enclose_top _ _ (by decide)]
      simp [argc]
    · intro p
      rw [print_all, print_all, enclose_top _ _ (by decide)]
      exact enclose_length _ _ _
  | app f a _ _ _ ihf iha =>
    obtain ⟨hf1, hf2, hf3⟩ := ihf
    obtain ⟨ha1, ha2, ha3⟩ := iha
    have hc := ha3 .constructor
    refine ⟨?_, ?_, ?_⟩
    · rw [print_app, enclose_top _ _ (by decide)]
      simp only [need, List.length_append]
      omega
    · rw [print_app, enclose_top _ _ (by decide)]
      simp only [argc, List.length_append]
      omega
    · intro p
      rw [print_app, print_app, enclose_top _ _ (by decide)]
      exact enclose_length _ _ _

end GluonModel.Proofs.TypePrint
