/-
Lemmas for C18: a variant at the top of a type binding (`type T = | A a b | B : a -> T a .. r`)
is read back by `TypeTop` — constructors in simple form (arguments at `Prec::Constructor`) and in
GADT form (`: type`), optional `.. r` tail; argument / constructor types from the fragment `core`.
-/
import GluonModel.TypePrint
import GluonModel.Proofs.TypeRows

namespace GluonModel.Proofs.TypeVariants
open GluonModel.TypePrint GluonModel.Proofs.TypeRows

/-- the type of a simple constructor: `a1 -> … -> an -> <opaque>` (arrows are
    `ArgType::Constructor`/`Explicit`, both `false` in the model), arguments in `core` -/
def ctorOK : Ty → Prop
  | .opaque => True
  | .fn i a r => i = false ∧ core a ∧ ctorOK r
  | _ => False

/-- rows of a variant: constructors named upper-case, each simple or GADT-style (a `core` type
    whose spine has no implicit argument — the grammar would drop the marker), closed or ending
    in a row variable (`.. r`) -/
def vrowOK : Ty → Prop
  | .rnil => True
  | .var n => classify n = .var n
  | .rfield c t rest => startsUpper c = true ∧ (ctorOK t ∨ (core t ∧ ctorize t = t)) ∧ vrowOK rest
  | _ => False

def argsOf : Ty → List Ty
  | .fn _ a r => a :: argsOf r
  | _ => []

theorem isSimple_ctorOK (t : Ty) (h : ctorOK t) : isSimple t = true := by
  induction t <;> simp_all [ctorOK, isSimple]

theorem isSimple_core (t : Ty) (h : core t) : isSimple t = false := by
  induction t <;> simp_all [core, isSimple]

theorem mkCtor_argsOf (t : Ty) (h : ctorOK t) : mkCtor (argsOf t) = t := by
  induction t <;> simp_all [ctorOK, mkCtor, argsOf]

theorem ctorArgs_length (t : Ty) (h : ctorOK t) : (argsOf t).length ≤ (ctorArgs t).length := by
  induction t with
  | fn i a r _ ihr =>
    simp only [ctorOK] at h
    have := ihr h.2.2
    have hl := ((need_le_tokens_all a).1 h.2.1).2.1
    have hl2 := ((need_le_tokens_all a).1 h.2.1).2.2 .constructor
    simp only [argsOf, ctorArgs, List.length_cons, List.length_append]
    omega
  | _ => simp [argsOf]

/-- what may follow a constructor: another constructor, the `.. r` tail, or the end -/
def EndCtor : List Tok → Prop
  | [] => True
  | .pipe :: _ => True
  | .dotdot :: _ => True
  | _ => False

theorem endCtor_follows (l : List Tok) (h : EndCtor l) : NoDot l ∧ NoAtom l ∧ NoArrow l := by
  match l, h with
  | [], _ => simp [NoDot, NoAtom, NoArrow]
  | .pipe :: _, _ => simp [NoDot, NoAtom, NoArrow, atomStart]
  | .dotdot :: _, _ => simp [NoDot, NoAtom, NoArrow, atomStart]

/-- `AtomicType*` reads the arguments of a simple constructor -/
theorem pAtomics_ctorArgs (t : Ty) (h : ctorOK t) (n F : Nat) (rest : List Tok)
    (hn : (argsOf t).length + 1 ≤ n) (hF : need t ≤ F) (he : EndCtor rest) :
    pAtomics n F (ctorArgs t ++ rest) = some (argsOf t, rest) := by
  induction t generalizing n with
  | «opaque» =>
    obtain ⟨m, rfl⟩ : ∃ m, n = m + 1 := ⟨n - 1, by omega⟩
    simp only [ctorArgs, argsOf, List.nil_append]
    match rest, he with
    | [], _ => simp [pAtomics]
    | .pipe :: _, _ => simp [pAtomics, atomStart]
    | .dotdot :: _, _ => simp [pAtomics, atomStart]
  | fn i a r _ ihr =>
    simp only [ctorOK] at h
    obtain ⟨_, ha, hr⟩ := h
    simp only [argsOf, List.length_cons] at hn
    obtain ⟨m, rfl⟩ : ∃ m, n = m + 1 := ⟨n - 1, by omega⟩
    simp only [need] at hF
    simp only [ctorArgs, argsOf, List.append_assoc]
    have hrec := ihr hr m (by omega) (by omega)
    obtain ⟨A, _, _, _⟩ := reads_core a ha
    have hnd : NoDot (ctorArgs r ++ rest) := by
      cases r with
      | fn i' a' r' =>
        simp only [ctorOK] at hr
        simp only [ctorArgs, List.append_assoc]
        exact (headOK_con a' hr.2.1 _).noDot
      | «opaque» => simp only [ctorArgs, List.nil_append]; exact (endCtor_follows rest he).1
      | _ => simp [ctorOK] at hr
    have hA := A F (ctorArgs r ++ rest) (by omega) hnd
    obtain ⟨tok, ts, hX, hs, _⟩ := (headOK_con a ha (ctorArgs r ++ rest)).start
    rw [hX] at hA ⊢
    simp [pAtomics, hs, hA, hrec]
  | _ => simp [ctorOK] at h

def ctors : Ty → Nat
  | .rfield _ _ rest => ctors rest + 1
  | _ => 0

/-- fuel for a variant row: the constructors' types are read with the same fuel -/
def vneed : Ty → Nat
  | .rfield _ t rest => max (need t) (vneed rest)
  | _ => 4

theorem printVariant_end (row : Ty) (h : vrowOK row) : EndCtor (printVariant row) := by
  cases row <;> simp_all [vrowOK, printVariant, EndCtor]

theorem ctorize_mkCtor (t : Ty) (h : ctorOK t) : ctorize t = t := by
  induction t <;> simp_all [ctorOK, ctorize]

/-- `VariantField+ (".." AtomicType)?` reads a printed variant row back, at the end of the input -/
theorem pVariant_print (row : Ty) (h : vrowOK row) (n F : Nat)
    (hrow : ∃ c t rest, row = .rfield c t rest) (hn : ctors row + 1 ≤ n) (hF : vneed row ≤ F)
    (hF4 : 4 ≤ F) :
    pVariant n F (printVariant row) = some (row, []) := by
  induction row generalizing n with
  | rfield c t rest _ ihrest =>
    simp only [vrowOK] at h
    obtain ⟨hup, hty, hrest⟩ := h
    simp only [ctors] at hn
    obtain ⟨m, rfl⟩ : ∃ m, n = m + 1 := ⟨n - 1, by omega⟩
    simp only [vneed] at hF
    obtain ⟨F', rfl⟩ : ∃ F', F = F' + 1 := ⟨F - 1, by omega⟩
    have hend := printVariant_end rest hrest
    -- what the parser does after a constructor, depending on the rest of the row
    have hcont : ∀ ty : Ty,
        (match printVariant rest with
          | .pipe :: _ =>
            match pVariant m (F' + 1) (printVariant rest) with
            | some (row, r') => some (Ty.rfield c ty row, r')
            | none => none
          | .dotdot :: r' =>
            match pAtomic (F' + 1) r' with
            | some (rest, r'') => some (Ty.rfield c ty rest, r'')
            | none => none
          | _ => some (Ty.rfield c ty .rnil, printVariant rest)) = some (Ty.rfield c ty rest, []) := by
      intro ty
      cases rest with
      | rnil => simp [printVariant]
      | var r =>
        simp only [vrowOK] at hrest
        simp [printVariant, pAtomic, pProjTail, hrest]
      | rfield c2 t2 rest2 =>
        have hr := ihrest hrest m ⟨c2, t2, rest2, rfl⟩ (by simp only [ctors] at hn ⊢; omega) (by omega)
        simp [printVariant] at hr ⊢
        simp [hr]
      | _ => simp [vrowOK] at hrest
    rcases hty with hs | ⟨hcore, hcz⟩
    · -- simple form: `| C a1 … an`
      have hsim := isSimple_ctorOK t hs
      simp only [printVariant, hsim, if_true, List.cons_append, List.nil_append, List.append_assoc]
      have hat := pAtomics_ctorArgs t hs ((ctorArgs t ++ printVariant rest).length + 1) (F' + 1)
        (printVariant rest) (by
          have := ctorArgs_length t hs
          simp only [List.length_append]; omega) (by omega) hend
      -- the next token is not `:`
      have hnc : ∀ ts, ctorArgs t ++ printVariant rest ≠ Tok.colon :: ts := by
        intro ts heq
        cases t with
        | fn i a r =>
          simp only [ctorOK] at hs
          obtain ⟨tok, ts', hX, hst, _⟩ := (headOK_con a hs.2.1 (ctorArgs r ++ printVariant rest)).start
          simp only [ctorArgs, List.append_assoc] at heq
          rw [hX] at heq
          cases heq
          simp [atomStart] at hst
        | «opaque» =>
          simp only [ctorArgs, List.nil_append] at heq
          rw [heq] at hend
          simp [EndCtor] at hend
        | _ => simp [ctorOK] at hs
      have hm := mkCtor_argsOf t hs
      match hts : ctorArgs t ++ printVariant rest with
      | [] =>
        rw [hts] at hat
        have : printVariant rest = [] := (List.append_eq_nil_iff.mp hts).2
        simp only [pVariant, hup, hat, hm]
        have hc := hcont t
        rw [this] at hc ⊢
        simpa using hc
      | tok :: ts =>
        rw [hts] at hat
        have hne : tok ≠ .colon := by
          intro e; subst e; exact hnc ts hts
        cases tok <;> simp_all [pVariant] <;> exact hcont t
    · -- GADT form: `| C : type`
      have hsim := isSimple_core t hcore
      simp only [printVariant, hsim, Bool.false_eq_true, if_false, List.cons_append,
        List.nil_append, List.append_assoc]
      obtain ⟨hd, ha, har⟩ := endCtor_follows _ hend
      have hq := (reads_core t hcore).2.2.1 (F' + 1) (printVariant rest) (by omega) hd ha har
      simp only [pVariant, hup, hq, hcz]
      exact hcont t
  | _ => obtain ⟨_, _, _, e⟩ := hrow; cases e

theorem need_ctor_tokens (t : Ty) (h : ctorOK t) : need t ≤ 8 * (ctorArgs t).length + 6 := by
  induction t with
  | fn i a r _ ihr =>
    simp only [ctorOK] at h
    have hr := ihr h.2.2
    obtain ⟨h1, h2, h3⟩ := (need_le_tokens_all a).1 h.2.1
    have hc := h3 .constructor
    simp only [need, ctorArgs, List.length_append]
    omega
  | «opaque» => simp [need]
  | _ => simp [ctorOK] at h

theorem vrow_tokens (row : Ty) (h : vrowOK row) :
    vneed row ≤ 8 * (printVariant row).length + 6 ∧ 2 * ctors row ≤ (printVariant row).length := by
  induction row with
  | rfield c t rest _ ihrest =>
    simp only [vrowOK] at h
    obtain ⟨hr1, hr2⟩ := ihrest h.2.2
    rcases h.2.1 with hs | ⟨hcore, _⟩
    · have := need_ctor_tokens t hs
      simp only [vneed, ctors, printVariant, isSimple_ctorOK t hs, if_true, List.length_append,
        List.length_cons, List.length_nil]
      omega
    · have := need_le_tokens t hcore
      simp only [vneed, ctors, printVariant, isSimple_core t hcore, Bool.false_eq_true, if_false,
        List.length_append, List.length_cons, List.length_nil]
      omega
  | _ => simp [vneed, ctors]

/-- A variant with at least one constructor, at the top of a type binding. -/
theorem parseTop_variant (row : Ty) (h : vrowOK row) (hrow : ∃ c t rest, row = .rfield c t rest) :
    parseTop (print .top (.variant row)) = some (.variant row) := by
  have hp : print .top (.variant row) = printVariant row := by
    simp [print, enclose, Prec.rank]
  obtain ⟨h1, h2⟩ := vrow_tokens row h
  obtain ⟨c, t, rest, rfl⟩ := hrow
  rw [hp]
  have hshape : ∃ ts, printVariant (.rfield c t rest) = .pipe :: ts := by
    simp [printVariant]
  obtain ⟨ts, hts⟩ := hshape
  have hlen : (printVariant (.rfield c t rest)).length = ts.length + 1 := by rw [hts]; simp
  have hv := pVariant_print (.rfield c t rest) h (ts.length + 1)
    (fuelFor (printVariant (.rfield c t rest))) ⟨c, t, rest, rfl⟩
    (by simp only [ctors] at h2 ⊢; omega) (by unfold fuelFor; omega) (by unfold fuelFor; omega)
  unfold parseTop
  rw [hts] at hv ⊢
  simp only [pTop, hv]

/-- The variant that is only a row variable: `.. r`. -/
theorem parseTop_variant_tail (r : String) (h : classify r = .var r) :
    parseTop (print .top (.variant (.var r))) = some (.variant (.var r)) := by
  have hp : print .top (.variant (.var r)) = [.dotdot, .id r] := by
    simp [print, printVariant, enclose, Prec.rank]
  rw [hp]
  simp [parseTop, pTop, fuelFor, pAtomic, pProjTail, h]

end GluonModel.Proofs.TypeVariants
