/-
C20: on a well-nested span tree the position search reports, at the position, exactly the
innermost terminal (`GluonModel.FindPos.spec`).
-/
import GluonModel.FindSpec
import GluonModel.Proofs.FindPos

namespace GluonModel.FindPos.Proofs
open GluonModel.FindPos
variable {α : Type}

theorem isAt_iff (s : Span) (pos : Nat) : isAt s pos = true ↔ s.containment pos = .eq := by
  simp [isAt]

theorem isAt_false_iff (s : Span) (pos : Nat) : isAt s pos = false ↔ s.containment pos ≠ .eq := by
  simp [isAt]

theorem isAt_wf (s : Span) (pos : Nat) (h : s.lo ≤ s.hi) :
    isAt s pos = true ↔ s.lo ≤ pos ∧ pos ≤ s.hi := by
  rw [isAt_iff, containment_eq_iff]; omega

/-- a well-formed span inside a span that does not contain `pos` does not contain it either -/
theorem not_at_inside (outer inner : Span) (pos : Nat)
    (h1 : outer.lo ≤ inner.lo) (h2 : inner.lo ≤ inner.hi) (h3 : inner.hi ≤ outer.hi)
    (h : isAt outer pos = false) : isAt inner pos = false := by
  cases hi : isAt inner pos with
  | false => rfl
  | true =>
    rw [isAt_wf _ _ h2] at hi
    have : isAt outer pos = true := by rw [isAt_wf _ _ (by omega)]; omega
    rw [h] at this; cases this

/-! ### `chain` -/

theorem chain_mem (span : α → Span) :
    ∀ (xs : List α) (lo hi : Nat), chain lo hi (xs.map span) = true →
      ∀ x ∈ xs, lo ≤ (span x).lo ∧ (span x).lo ≤ (span x).hi ∧ (span x).hi ≤ hi := by
  intro xs
  induction xs with
  | nil => intro lo hi _ x hx; simp at hx
  | cons y ys ih =>
    intro lo hi h x hx
    simp only [List.map, chain, Bool.and_eq_true, decide_eq_true_eq] at h
    simp at hx
    rcases hx with rfl | hx
    · omega
    · have := ih _ _ h.2 x hx; omega

theorem chain_weaken : ∀ (ss : List Span) (lo lo' hi : Nat), lo' ≤ lo → chain lo hi ss = true →
    chain lo' hi ss = true := by
  intro ss
  cases ss with
  | nil => intro _ _ _ _ _; rfl
  | cons s rest =>
    intro lo lo' hi hle h
    simp only [chain, Bool.and_eq_true, decide_eq_true_eq] at h ⊢
    refine ⟨⟨⟨by omega, h.1.1.2⟩, h.1.2⟩, h.2⟩

theorem chain_pairwise (span : α → Span) :
    ∀ (xs : List α) (lo hi : Nat), chain lo hi (xs.map span) = true →
      xs.Pairwise (fun a b => (span a).hi < (span b).lo) := by
  intro xs
  induction xs with
  | nil => intro _ _ _; exact List.Pairwise.nil
  | cons y ys ih =>
    intro lo hi h
    simp only [List.map, chain, Bool.and_eq_true, decide_eq_true_eq] at h
    refine List.Pairwise.cons ?_ (ih _ _ h.2)
    intro b hb
    have := chain_mem span ys _ _ h.2 b hb
    omega

theorem chain_append_left : ∀ (ss ts : List Span) (lo hi : Nat), chain lo hi (ss ++ ts) = true →
    chain lo hi ss = true := by
  intro ss
  induction ss with
  | nil => intro _ _ _ _; rfl
  | cons s rest ih =>
    intro ts lo hi h
    simp only [List.cons_append, chain, Bool.and_eq_true, decide_eq_true_eq] at h ⊢
    exact ⟨h.1, ih _ _ _ h.2⟩

/-- the last span of a chain `ss ++ [t]` lies after every span of `ss` -/
theorem chain_append_last : ∀ (ss : List Span) (t : Span) (lo hi : Nat),
    chain lo hi (ss ++ [t]) = true →
      (lo ≤ t.lo ∧ t.lo ≤ t.hi ∧ t.hi ≤ hi) ∧ ∀ s ∈ ss, s.hi < t.lo := by
  intro ss
  induction ss with
  | nil =>
    intro t lo hi h
    simp only [List.nil_append, chain, Bool.and_eq_true, decide_eq_true_eq] at h
    exact ⟨by omega, by simp⟩
  | cons s rest ih =>
    intro t lo hi h
    simp only [List.cons_append, chain, Bool.and_eq_true, decide_eq_true_eq] at h
    have := ih t _ _ h.2
    refine ⟨by omega, ?_⟩
    intro s' hs'
    simp at hs'
    rcases hs' with rfl | hs'
    · omega
    · exact this.2 s' hs'

/-! ### `select_spanned` on a chain -/

theorem selectGo_chain_hit (span : α → Span) (pos : Nat) :
    ∀ (xs : List α) (lo hi : Nat), chain lo hi (xs.map span) = true →
      ∀ x ∈ xs, isAt (span x) pos = true →
        ∀ prev, selectGo span pos prev xs = (false, some x) := by
  intro xs
  induction xs with
  | nil => intro _ _ _ x hx; simp at hx
  | cons y ys ih =>
    intro lo hi h x hx hat prev
    simp only [List.map, chain, Bool.and_eq_true, decide_eq_true_eq] at h
    simp at hx
    rcases hx with rfl | hx
    · rw [isAt_iff] at hat
      simp [selectGo, hat]
    · have hxin := chain_mem span ys _ _ h.2 x hx
      rw [isAt_wf _ _ hxin.2.1] at hat
      have hgt : (span y).containment pos = .gt := by
        rw [containment_gt_iff]; omega
      simp only [selectGo, hgt]
      exact ih _ _ h.2 x hx (by rw [isAt_wf _ _ hxin.2.1]; exact hat) _

/-- On a chain the selection is decided by "the first element containing `pos`": either that
    element is selected (flag `false`), or no element contains `pos` and a non-containing
    neighbour (or, on the empty list, nothing) is selected with flag `true`. -/
theorem select_cases (span : α → Span) (pos : Nat) (xs : List α) (lo hi : Nat)
    (hc : chain lo hi (xs.map span) = true) :
    (∃ x, xs.find? (fun x => isAt (span x) pos) = some x ∧
        selectSpanned span pos xs = (false, some x) ∧ x ∈ xs ∧ isAt (span x) pos = true) ∨
    (xs.find? (fun x => isAt (span x) pos) = none ∧
      ∃ r, selectSpanned span pos xs = (true, r) ∧
        (∀ y, r = some y → y ∈ xs ∧ isAt (span y) pos = false) ∧ (r = none → xs = [])) := by
  cases hf : xs.find? (fun x => isAt (span x) pos) with
  | some x =>
    left
    have hmem := List.mem_of_find?_eq_some hf
    have hat : isAt (span x) pos = true := by
      have := List.find?_some hf; simpa using this
    exact ⟨x, rfl, selectGo_chain_hit span pos xs lo hi hc x hmem hat none, hmem, hat⟩
  | none =>
    right
    refine ⟨rfl, ?_⟩
    rw [List.find?_eq_none] at hf
    cases hsel : selectSpanned span pos xs with
    | mk b r =>
      cases b with
      | false =>
        exfalso
        obtain ⟨y, _, hy, hyc⟩ := selectGo_false span pos xs none r hsel
        have := hf y hy
        rw [← isAt_iff] at hyc
        simp [hyc] at this
      | true =>
        refine ⟨r, rfl, ?_, ?_⟩
        · intro y hy
          subst hy
          have hm : y ∈ xs := select_mem span pos xs y (by rw [hsel])
          have := hf y hm
          exact ⟨hm, by simpa using this⟩
        · intro hr
          subst hr
          cases xs with
          | nil => rfl
          | cons z zs =>
            exfalso
            exact select_total span pos (z :: zs) (by simp) (by rw [hsel])

/-! ### Facts about `wn` and `spec` -/

theorem Pat.wn_wf (p : Pat) (h : p.wn = true) : p.span.lo ≤ p.span.hi := by
  cases p with
  | fieldShort nsp b => simp [Pat.wn] at h
  | fieldVal nsp v => simp [Pat.wn] at h
  | leaf sp b => simpa [Pat.wn, Pat.span, Span.wf] using h
  | tuple sp ps => simp only [Pat.wn, Pat.span, Span.wf, Bool.and_eq_true, decide_eq_true_eq] at h ⊢; omega
  | ctor sp l ps => simp only [Pat.wn, Pat.span, Span.wf, Bool.and_eq_true, decide_eq_true_eq] at h ⊢; omega
  | as_ sp b q => simp only [Pat.wn, Pat.span, Span.wf, Bool.and_eq_true, decide_eq_true_eq] at h ⊢; omega
  | record sp fs => simp only [Pat.wn, Pat.span, Span.wf, Bool.and_eq_true, decide_eq_true_eq] at h ⊢; omega

theorem Expr.wn_wf (e : Expr) (h : e.wn = true) : e.span.lo ≤ e.span.hi := by
  cases e <;> unfold Expr.wn at h <;> simp only [Expr.span, Span.wf, Bool.and_eq_true, decide_eq_true_eq] at h ⊢ <;> omega

theorem Pat.spec_none (pos : Nat) (p : Pat) (h : isAt p.span pos = false) : p.spec pos = none := by
  cases p <;> simp only [Pat.span] at h <;> simp [Pat.spec, h]

theorem Expr.spec_none (pos : Nat) (e : Expr) (h : isAt e.span pos = false) : e.spec pos = none := by
  cases e <;> unfold Expr.spec <;> simp only [Expr.span] at h <;> simp [h]

theorem wnList_mem {ps : List Pat} (h : Pat.wn.wnList ps = true) : ∀ p ∈ ps, p.wn = true := by
  induction ps with
  | nil => simp
  | cons q qs ih =>
    simp only [Pat.wn.wnList, Bool.and_eq_true] at h
    intro p hp
    simp at hp
    rcases hp with rfl | hp
    · exact h.1
    · exact ih h.2 p hp

theorem wnExprs_mem {cs : List Expr} (h : wnExprs cs = true) : ∀ c ∈ cs, c.wn = true := by
  induction cs with
  | nil => simp
  | cons q qs ih =>
    simp only [wnExprs, Bool.and_eq_true] at h
    intro p hp
    simp at hp
    rcases hp with rfl | hp
    · exact h.1
    · exact ih h.2 p hp

theorem specList_find (pos : Nat) (ps : List Pat) :
    Pat.spec.specList pos ps =
      match ps.find? (fun p => isAt p.span pos) with
      | some p => p.spec pos
      | none => none := by
  induction ps with
  | nil => rfl
  | cons q qs ih =>
    simp only [Pat.spec.specList, List.find?]
    cases h : isAt q.span pos <;> simp [ih]

theorem specExprs_find (pos : Nat) (cs : List Expr) :
    specExprs pos cs =
      match cs.find? (fun c => isAt c.span pos) with
      | some c => c.spec pos
      | none => none := by
  induction cs with
  | nil => rfl
  | cons q qs ih =>
    simp only [specExprs, List.find?]
    cases h : isAt q.span pos <;> simp [ih]

/-- a well-nested record pattern has fields only, each well formed -/
theorem wnFields_mem {fs : List Pat} (h : Pat.wn.wnFields fs = true) :
    ∀ x ∈ fs, (∃ nsp b, x = .fieldShort nsp b ∧ nsp.lo ≤ nsp.hi) ∨
      (∃ nsp v, x = .fieldVal nsp v ∧ nsp.lo ≤ nsp.hi ∧ nsp.hi < v.span.lo ∧ v.wn = true) := by
  induction fs with
  | nil => simp
  | cons q qs ih =>
    intro x hx
    simp at hx
    cases q with
    | fieldShort nsp b =>
      simp only [Pat.wn.wnFields, Span.wf, Bool.and_eq_true, decide_eq_true_eq] at h
      rcases hx with rfl | hx
      · exact Or.inl ⟨nsp, b, rfl, h.1⟩
      · exact ih h.2 x hx
    | fieldVal nsp v =>
      simp only [Pat.wn.wnFields, Span.wf, Bool.and_eq_true, decide_eq_true_eq] at h
      rcases hx with rfl | hx
      · exact Or.inr ⟨nsp, v, rfl, h.1.1.1, h.1.1.2, h.1.2⟩
      · exact ih h.2 x hx
    | leaf _ _ => simp [Pat.wn.wnFields] at h
    | tuple _ _ => simp [Pat.wn.wnFields] at h
    | ctor _ _ _ => simp [Pat.wn.wnFields] at h
    | as_ _ _ _ => simp [Pat.wn.wnFields] at h
    | record _ _ => simp [Pat.wn.wnFields] at h

/-- what is at `pos` inside a field whose span contains `pos` -/
def fieldSpec (pos : Nat) : Pat → Option M
  | .fieldShort nsp _ => some ⟨.ident, nsp, .plain⟩
  | .fieldVal nsp v =>
    if isAt nsp pos then some ⟨.ident, nsp, .plain⟩
    else if isAt v.span pos then v.spec pos else none
  | _ => none

theorem specFieldsP_find (pos : Nat) (fs : List Pat) (h : Pat.wn.wnFields fs = true) :
    Pat.spec.specFieldsP pos fs =
      match fs.find? (fun p => isAt p.span pos) with
      | some p => fieldSpec pos p
      | none => none := by
  induction fs with
  | nil => rfl
  | cons q qs ih =>
    cases q with
    | fieldShort nsp b =>
      simp only [Pat.wn.wnFields, Bool.and_eq_true] at h
      simp only [Pat.spec.specFieldsP, List.find?_cons, Pat.span]
      cases isAt nsp pos
      · simpa using ih h.2
      · simp [fieldSpec]
    | fieldVal nsp v =>
      simp only [Pat.wn.wnFields, Bool.and_eq_true] at h
      simp only [Pat.spec.specFieldsP, List.find?_cons, Pat.span]
      cases isAt ⟨nsp.lo, v.span.hi⟩ pos
      · simpa using ih h.2
      · simp [fieldSpec]
    | leaf _ _ => simp [Pat.wn.wnFields] at h
    | tuple _ _ => simp [Pat.wn.wnFields] at h
    | ctor _ _ _ => simp [Pat.wn.wnFields] at h
    | as_ _ _ _ => simp [Pat.wn.wnFields] at h
    | record _ _ => simp [Pat.wn.wnFields] at h

/-! ### State bookkeeping -/

@[simp] theorem enter_found (m : M) (pos : Nat) (st : St) : (enter m pos st).found = st.found := by
  unfold enter; split <;> rfl

@[simp] theorem hook_found (fx : Bool) (pos : Nat) (st : St) (sp : Span) (ids : List Nat) :
    (hook fx pos st sp ids).found = st.found := by
  unfold hook; split <;> rfl

@[simp] theorem hitOf_foundIfAt (m : M) (pos : Nat) (st : St) :
    hitOf pos (foundIfAt m pos st) = if isAt m.span pos then some m else none := by
  unfold hitOf foundIfAt setFound isAt
  by_cases h : m.span.containment pos = .eq <;> simp [h]

@[simp] theorem hitOf_setFound_found (m : M) (pos : Nat) (st : St) :
    hitOf pos (setFound st (.found m)) = if isAt m.span pos then some m else none := rfl

@[simp] theorem hitOf_setFound_empty (pos : Nat) (st : St) :
    hitOf pos (setFound st .empty) = none := rfl

theorem hitOf_notFound (pos : Nat) (st : St) (h : st.found = .notFound) : hitOf pos st = none := by
  unfold hitOf; rw [h]

theorem isAt_of (s : Span) (pos : Nat) (h1 : s.lo ≤ pos) (h2 : pos ≤ s.hi) : isAt s pos = true := by
  rw [isAt_wf _ _ (by omega)]; omega

theorem isAt_lt (s : Span) (pos : Nat) (hw : s.lo ≤ s.hi) (h : pos < s.lo) : isAt s pos = false := by
  cases h' : isAt s pos with
  | false => rfl
  | true => rw [isAt_wf _ _ hw] at h'; omega

theorem isAt_gt (s : Span) (pos : Nat) (hw : s.lo ≤ s.hi) (h : s.hi < pos) : isAt s pos = false := by
  cases h' : isAt s pos with
  | false => rfl
  | true => rw [isAt_wf _ _ hw] at h'; omega

theorem cont_lt (s : Span) (pos : Nat) (hw : s.lo ≤ s.hi) (h : pos < s.lo) : s.containment pos = .lt := by
  rw [containment_lt_iff]; omega

theorem cont_gt (s : Span) (pos : Nat) (hw : s.lo ≤ s.hi) (h : s.hi < pos) : s.containment pos = .gt := by
  rw [containment_gt_iff]; omega

theorem cont_eq (s : Span) (pos : Nat) (h1 : s.lo ≤ pos) (h2 : pos ≤ s.hi) : s.containment pos = .eq := by
  rw [containment_eq_iff]; omega

/-! ### One step preserves "what is at the position" -/

/-- what one step from a well-nested node yields, relative to the target `t` = `spec` of the node -/
def StepSpec (pos : Nat) (t : Option M) : Next → Prop
  | .done (.ok st') => hitOf pos st' = t
  | .done _ => True
  | .go n' st1 => Node.wn n' = true ∧ st1.found = .notFound ∧ Node.spec pos n' = t

theorem step_spec_pat (fx : Bool) (pos : Nat) (p : Pat) (st : St)
    (hw : p.wn = true) (hf : st.found = .notFound) :
    StepSpec pos (p.spec pos) (step fx pos (.pat p) st) := by
  cases p with
  | leaf sp b => simp [step, StepSpec, Pat.spec]
  | as_ sp b q =>
    simp only [Pat.wn, Span.wf, Bool.and_eq_true, decide_eq_true_eq] at hw
    simp only [step, StepSpec, Node.wn, Node.spec, enter_found, Pat.spec]
    refine ⟨hw.2, hf, ?_⟩
    cases h : isAt sp pos with
    | true => simp
    | false =>
      simp only [Bool.false_eq_true, ↓reduceIte]
      exact Pat.spec_none pos q (not_at_inside sp q.span pos hw.1.1.2 (Pat.wn_wf q hw.2) hw.1.2 h)
  | tuple sp ps =>
    simp only [Pat.wn, Span.wf, Bool.and_eq_true, decide_eq_true_eq] at hw
    obtain ⟨⟨hwf, hch⟩, hwl⟩ := hw
    simp only [step]
    rcases select_cases Pat.span pos ps sp.lo sp.hi hch with ⟨x, hfind, hsel, hm, hat⟩ | ⟨hfind, r, hsel, hr, hnil⟩
    · rw [hsel]
      simp only [StepSpec, Node.wn, Node.spec, enter_found]
      refine ⟨wnList_mem hwl x hm, hf, ?_⟩
      have hin := chain_mem Pat.span ps _ _ hch x hm
      have hsp : isAt sp pos = true := by
        rw [isAt_wf _ _ hwf]; rw [isAt_wf _ _ hin.2.1] at hat; omega
      cases ps with
      | nil => simp at hm
      | cons q qs => simp [Pat.spec, hsp, specList_find, hfind]
    · rw [hsel]
      cases r with
      | none =>
        have := hnil rfl
        subst this
        simp [StepSpec, Pat.spec]
      | some y =>
        obtain ⟨hym, hyn⟩ := hr y rfl
        simp only [StepSpec, Node.wn, Node.spec, enter_found]
        refine ⟨wnList_mem hwl y hym, hf, ?_⟩
        rw [Pat.spec_none pos y hyn]
        cases ps with
        | nil => simp at hym
        | cons q qs =>
          cases isAt sp pos <;> simp [Pat.spec, specList_find, hfind]
  | ctor sp len ps =>
    simp only [Pat.wn, Bool.and_eq_true, decide_eq_true_eq] at hw
    obtain ⟨⟨hlen, hch⟩, hwl⟩ := hw
    simp only [step]
    split
    · rename_i hid
      have hidAt : isAt ⟨sp.lo, sp.lo + len⟩ pos = true := by rw [isAt_iff]; exact hid
      have hsp : isAt sp pos = true := by
        rw [isAt_wf _ _ (by omega)]
        rw [isAt_wf _ _ (by simp)] at hidAt
        simp at hidAt; omega
      simp [StepSpec, Pat.spec, hsp, hidAt]
    · rename_i hid
      have hidAt : isAt ⟨sp.lo, sp.lo + len⟩ pos = false := by rw [isAt_false_iff]; exact hid
      rcases select_cases Pat.span pos ps _ sp.hi hch with ⟨x, hfind, hsel, hm, hat⟩ | ⟨hfind, r, hsel, hr, hnil⟩
      · rw [hsel]
        simp only [StepSpec, Node.wn, Node.spec, enter_found]
        refine ⟨wnList_mem hwl x hm, hf, ?_⟩
        have hin := chain_mem Pat.span ps _ _ hch x hm
        have hsp : isAt sp pos = true := by
          rw [isAt_wf _ _ (by omega)]; rw [isAt_wf _ _ hin.2.1] at hat; omega
        simp [Pat.spec, hsp, hidAt, specList_find, hfind]
      · rw [hsel]
        cases r with
        | none => cases isAt sp pos <;> simp [StepSpec, Pat.spec, hidAt, specList_find, hfind]
        | some y =>
          obtain ⟨hym, hyn⟩ := hr y rfl
          simp only [StepSpec, Node.wn, Node.spec, enter_found]
          refine ⟨wnList_mem hwl y hym, hf, ?_⟩
          rw [Pat.spec_none pos y hyn]
          cases isAt sp pos <;> simp [Pat.spec, hidAt, specList_find, hfind]

  | fieldShort nsp b => simp [Pat.wn] at hw
  | fieldVal nsp v => simp [Pat.wn] at hw
  | record sp fs =>
    simp only [Pat.wn, Span.wf, Bool.and_eq_true, decide_eq_true_eq] at hw
    obtain ⟨⟨hwf, hch⟩, hwl⟩ := hw
    simp only [step]
    rcases select_cases Pat.span pos fs sp.lo sp.hi hch with ⟨x, hfind, hsel, hm, hat⟩ | ⟨hfind, r, hsel, hr, hnil⟩
    · rw [hsel]
      have hin := chain_mem Pat.span fs _ _ hch x hm
      have hsp : isAt sp pos = true := by
        rw [isAt_wf _ _ hwf]; rw [isAt_wf _ _ hin.2.1] at hat; omega
      have hspec : (Pat.record sp fs).spec pos = fieldSpec pos x := by
        simp [Pat.spec, hsp, specFieldsP_find pos fs hwl, hfind]
      rw [hspec]
      rcases wnFields_mem hwl x hm with ⟨nsp, b, rfl, hn⟩ | ⟨nsp, v, rfl, hn1, hn2, hvw⟩
      · have : isAt nsp pos = true := hat
        simp [StepSpec, fieldSpec, this]
      · simp only
        have hvwf := Pat.wn_wf v hvw
        have hat' : isAt ⟨nsp.lo, v.span.hi⟩ pos = true := hat
        rw [isAt_wf _ _ (by simp; omega)] at hat'
        simp at hat'
        by_cases c1 : pos ≤ nsp.hi
        · have hc := cont_eq nsp pos hat'.1 c1
          have ha := isAt_of nsp pos hat'.1 c1
          simp [hc, StepSpec, fieldSpec, ha]
        · have hc := cont_gt nsp pos hn1 (by omega)
          have ha := isAt_gt nsp pos hn1 (by omega)
          simp only [hc, StepSpec, Node.wn, Node.spec, enter_found, fieldSpec, ha]
          refine ⟨hvw, hf, ?_⟩
          cases hv : isAt v.span pos
          · simp [Pat.spec_none pos v hv]
          · simp
    · rw [hsel]
      have : (Pat.record sp fs).spec pos = none := by
        cases isAt sp pos <;> simp [Pat.spec, specFieldsP_find pos fs hwl, hfind]
      rw [this]
      simp [StepSpec]

theorem step_spec_variant (fx : Bool) (pos : Nat) (v : Option Variant) (st : St)
    (hw : Node.wn (.variant v) = true) (hf : st.found = .notFound) :
    StepSpec pos (Node.spec pos (.variant v)) (step fx pos (.variant v) st) := by
  cases v with
  | none => simp [step, StepSpec, Node.spec]
  | some x =>
    cases x with
    | pat p => exact ⟨hw, hf, rfl⟩
    | ident a => simp [step, StepSpec, Node.spec, Variant.spec]
    | field sp => simp [step, StepSpec, Node.spec, Variant.spec]
    | expr e => exact ⟨hw, hf, rfl⟩

theorem step_spec_expr_simple (fx : Bool) (pos : Nat) (e : Expr) (st : St)
    (hw : e.wn = true) (hf : st.found = .notFound) :
    (∀ sp l op r, e ≠ .infix sp l op r) → (∀ sp a b, e ≠ .lambda sp a b) →
    (∀ sp r bs b, e ≠ .letb sp r bs b) → (∀ sp s as, e ≠ .matchE sp s as) →
    (∀ sp fs b, e ≠ .record sp fs b) →
    StepSpec pos (e.spec pos) (step fx pos (.expr e) st) := by
  intro h1 h2 h3 h4 h5
  cases e with
  | leaf sp => simp [step, StepSpec, Expr.spec, Expr.m, Expr.span, Expr.tag]
  | emptyNode sp => simp [step, StepSpec, Expr.spec, Expr.m, Expr.span, Expr.tag]
  | error sp => simp [step, StepSpec, Expr.spec, hitOf_notFound, hf]
  | «infix» sp l op r => exact absurd rfl (h1 sp l op r)
  | lambda sp a b => exact absurd rfl (h2 sp a b)
  | letb sp r bs b => exact absurd rfl (h3 sp r bs b)
  | matchE sp s as => exact absurd rfl (h4 sp s as)
  | record sp fs b => exact absurd rfl (h5 sp fs b)
  | one sp cs =>
    simp only [Expr.wn, Span.wf, Bool.and_eq_true, decide_eq_true_eq] at hw
    obtain ⟨⟨hwf, hch⟩, hwl⟩ := hw
    simp only [step]
    rcases select_cases Expr.span pos cs sp.lo sp.hi hch with ⟨x, hfind, hsel, hm, hat⟩ | ⟨hfind, r, hsel, hr, hnil⟩
    · rw [hsel]
      simp only [StepSpec, Node.wn, Node.spec, enter_found]
      refine ⟨wnExprs_mem hwl x hm, hf, ?_⟩
      have hin := chain_mem Expr.span cs _ _ hch x hm
      have hsp : isAt sp pos = true := by
        rw [isAt_wf _ _ hwf]; rw [isAt_wf _ _ hin.2.1] at hat; omega
      simp [Expr.spec, hsp, specExprs_find, hfind]
    · rw [hsel]
      cases r with
      | none => simp [StepSpec]
      | some y =>
        obtain ⟨hym, hyn⟩ := hr y rfl
        simp only [StepSpec, Node.wn, Node.spec, enter_found]
        refine ⟨wnExprs_mem hwl y hym, hf, ?_⟩
        rw [Expr.spec_none pos y hyn]
        cases isAt sp pos <;> simp [Expr.spec, specExprs_find, hfind]
  | annotated sp e =>
    simp only [Expr.wn, Span.wf, Bool.and_eq_true, decide_eq_true_eq] at hw
    obtain ⟨⟨hwf, hsame⟩, hwe⟩ := hw
    simp only [step, StepSpec, Node.wn, Node.spec, enter_found, Expr.spec]
    refine ⟨hwe, hf, ?_⟩
    cases h : isAt sp pos with
    | true => simp
    | false =>
      simp only [Bool.false_eq_true, ↓reduceIte]
      exact Expr.spec_none pos e (by rw [hsame]; exact h)
  | proj sp e =>
    simp only [Expr.wn, Span.wf, Bool.and_eq_true, decide_eq_true_eq] at hw
    obtain ⟨⟨⟨hwf, hlo⟩, hhi⟩, hwe⟩ := hw
    have hewf := Expr.wn_wf e hwe
    simp only [step]
    split
    · rename_i hgt
      have hnotat : isAt e.span pos = false := by simp [isAt, hgt]
      have hgt' : (e.span.containment pos == Ordering.gt) = true := by simp [hgt]
      simp [StepSpec, Expr.spec, hnotat, hgt']
    · rename_i hgt
      simp only [StepSpec, Node.wn, Node.spec, enter_found]
      refine ⟨hwe, hf, ?_⟩
      have hgt' : (e.span.containment pos == Ordering.gt) = false := by simp [hgt]
      cases h : isAt sp pos with
      | true =>
        cases he : isAt e.span pos with
        | true => simp [Expr.spec, h, he]
        | false => simp [Expr.spec, h, he, hgt', Expr.spec_none pos e he]
      | false =>
        simp [Expr.spec, h]
        exact Expr.spec_none pos e (not_at_inside sp e.span pos hlo hewf hhi h)

theorem step_spec_infix (fx : Bool) (pos : Nat) (sp : Span) (l : Expr) (op : Span) (r : Expr) (st : St)
    (hw : (Expr.infix sp l op r).wn = true) (hf : st.found = .notFound) :
    StepSpec pos ((Expr.infix sp l op r).spec pos) (step fx pos (.expr (.infix sp l op r)) st) := by
  simp only [Expr.wn, Span.wf, chain, Bool.and_eq_true, decide_eq_true_eq] at hw
  obtain ⟨⟨⟨hwf, hch⟩, hwl⟩, hwr⟩ := hw
  obtain ⟨⟨⟨h1, h2⟩, h3⟩, ⟨⟨⟨h4, h5⟩, h6⟩, ⟨⟨⟨h7, h8⟩, h9⟩, _⟩⟩⟩ := hch
  simp only [step]
  by_cases c1 : pos < l.span.lo
  · have hl := cont_lt l.span pos h2 c1
    have hr := cont_lt r.span pos h8 (by omega)
    simp only [hl, hr, StepSpec, Node.wn, Node.spec, enter_found]
    refine ⟨hwl, hf, ?_⟩
    have a1 := isAt_lt l.span pos h2 c1
    have a2 := isAt_lt r.span pos h8 (by omega)
    have a3 := isAt_lt op pos h5 (by omega)
    rw [Expr.spec_none pos l a1]
    cases isAt sp pos <;> simp [Expr.spec, a1, a2, a3]
  · by_cases c2 : pos ≤ l.span.hi
    · have hl := cont_eq l.span pos (by omega) c2
      have hr := cont_lt r.span pos h8 (by omega)
      simp only [hl, hr, StepSpec, Node.wn, Node.spec, enter_found]
      refine ⟨hwl, hf, ?_⟩
      have a1 := isAt_of l.span pos (by omega) c2
      have a0 := isAt_of sp pos (by omega) (by omega)
      simp [Expr.spec, a0, a1]
    · by_cases c3 : pos < r.span.lo
      · have hl := cont_gt l.span pos h2 (by omega)
        have hr := cont_lt r.span pos h8 c3
        simp only [hl, hr, StepSpec, hitOf_setFound_found]
        have a1 := isAt_gt l.span pos h2 (by omega)
        have a2 := isAt_lt r.span pos h8 c3
        cases a3 : isAt op pos with
        | true =>
          rw [isAt_wf _ _ h5] at a3
          have a0 := isAt_of sp pos (by omega) (by omega)
          have a3' := isAt_of op pos a3.1 a3.2
          simp [Expr.spec, a0, a1, a2, a3']
        | false => cases isAt sp pos <;> simp [Expr.spec, a1, a2, a3]
      · by_cases c4 : pos ≤ r.span.hi
        · have hl := cont_gt l.span pos h2 (by omega)
          have hr := cont_eq r.span pos (by omega) c4
          simp only [hl, hr, StepSpec, Node.wn, Node.spec, enter_found]
          refine ⟨hwr, hf, ?_⟩
          have a1 := isAt_gt l.span pos h2 (by omega)
          have a2 := isAt_of r.span pos (by omega) c4
          have a0 := isAt_of sp pos (by omega) (by omega)
          simp [Expr.spec, a0, a1, a2]
        · have hl := cont_gt l.span pos h2 (by omega)
          have hr := cont_gt r.span pos h8 (by omega)
          simp only [hl, hr, StepSpec, Node.wn, Node.spec, enter_found]
          refine ⟨hwr, hf, ?_⟩
          have a1 := isAt_gt l.span pos h2 (by omega)
          have a2 := isAt_gt r.span pos h8 (by omega)
          have a3 := isAt_gt op pos h5 (by omega)
          rw [Expr.spec_none pos r a2]
          cases isAt sp pos <;> simp [Expr.spec, a1, a2, a3]

theorem specArgs_find (pos : Nat) (args : List Arg) :
    specArgs pos args = (args.find? (fun a => isAt a.sp pos)).map (fun a => ⟨.ident, a.sp, .plain⟩) := by
  unfold specArgs; cases args.find? (fun a => isAt a.sp pos) <;> rfl

theorem step_spec_lambda (fx : Bool) (pos : Nat) (sp : Span) (args : List Arg) (body : Expr) (st : St)
    (hw : (Expr.lambda sp args body).wn = true) (hf : st.found = .notFound) :
    StepSpec pos ((Expr.lambda sp args body).spec pos) (step fx pos (.expr (.lambda sp args body)) st) := by
  simp only [Expr.wn, Span.wf, Bool.and_eq_true, decide_eq_true_eq] at hw
  obtain ⟨⟨hwf, hch⟩, hwb⟩ := hw
  have hcha := chain_append_left _ _ _ _ hch
  have hlast := chain_append_last _ _ _ _ hch
  simp only [step]
  rcases select_cases Arg.sp pos args sp.lo sp.hi hcha with ⟨x, hfind, hsel, hm, hat⟩ | ⟨hfind, r, hsel, hr, hnil⟩
  · rw [hsel]
    have hin := chain_mem Arg.sp args _ _ hcha x hm
    have hsp : isAt sp pos = true := by
      rw [isAt_wf _ _ hwf]; rw [isAt_wf _ _ hin.2.1] at hat; omega
    simp [StepSpec, Expr.spec, hsp, specArgs_find, hfind, optOr, hat]
  · rw [hsel]
    simp only [StepSpec, Node.wn, Node.spec, enter_found, hook_found]
    refine ⟨hwb, hf, ?_⟩
    cases hb : isAt body.span pos with
    | true =>
      have hsp : isAt sp pos = true := by
        rw [isAt_wf _ _ hwf]; rw [isAt_wf _ _ hlast.1.2.1] at hb; omega
      simp [Expr.spec, hsp, specArgs_find, hfind, optOr, hb]
    | false =>
      rw [Expr.spec_none pos body hb]
      cases isAt sp pos <;> simp [Expr.spec, specArgs_find, hfind, optOr, hb]

/-! ### `visit_any` lists -/

theorem Variant.spec_none (pos : Nat) (v : Variant) (h : isAt v.span pos = false) :
    v.spec pos = none := by
  cases v with
  | pat p => exact Pat.spec_none pos p h
  | ident a => simp only [Variant.span] at h; simp [Variant.spec, h]
  | field sp => simp only [Variant.span] at h; simp [Variant.spec, h]
  | expr e => exact Expr.spec_none pos e h

theorem variants_spec (pos : Nat) (vs : List Variant) (lo hi : Nat)
    (hc : chain lo hi (vs.map Variant.span) = true) :
    Node.spec pos (.variant (selectSpanned Variant.span pos vs).2) =
      match vs.find? (fun v => isAt v.span pos) with
      | some v => v.spec pos
      | none => none := by
  rcases select_cases Variant.span pos vs lo hi hc with ⟨x, hfind, hsel, _, _⟩ | ⟨hfind, r, hsel, hr, _⟩
  · rw [hsel, hfind]; rfl
  · rw [hsel, hfind]
    cases r with
    | none => rfl
    | some y => exact Variant.spec_none pos y (hr y rfl).2

theorem variants_wn (pos : Nat) (vs : List Variant) (h : ∀ v ∈ vs, Variant.wn v = true) :
    Node.wn (.variant (selectSpanned Variant.span pos vs).2) = true := by
  cases hsel : (selectSpanned Variant.span pos vs).2 with
  | none => rfl
  | some x => exact h x (select_mem _ _ _ _ hsel)

@[simp] theorem Variant.span_field (sp : Span) : (Variant.field sp).span = sp := rfl
@[simp] theorem Variant.span_expr (e : Expr) : (Variant.expr e).span = e.span := rfl
@[simp] theorem Variant.span_pat (p : Pat) : (Variant.pat p).span = p.span := rfl
@[simp] theorem Variant.span_ident (a : Arg) : (Variant.ident a).span = a.sp := rfl

theorem recordVariants_nil (base : Option Expr) :
    recordVariants [] base = (match base with | none => [] | some b => [Variant.expr b]) := by
  cases base <;> simp [recordVariants]

theorem recordVariants_cons_none (sp : Span) (fs : List Field) (base : Option Expr) :
    recordVariants (.mk sp none :: fs) base = .field sp :: recordVariants fs base := by
  simp [recordVariants]

theorem recordVariants_cons_some (sp : Span) (e : Expr) (fs : List Field) (base : Option Expr) :
    recordVariants (.mk sp (some e) :: fs) base = .field sp :: .expr e :: recordVariants fs base := by
  simp [recordVariants]

/-- `specFields` followed by a default = "first variant containing `pos`" on the variant list
    whose tail `tl` has the default as its own answer -/
theorem record_spec_find (pos : Nat) (fs : List Field) (base : Option Expr) (d : Option M)
    (hd : d = match (recordVariants [] base).find? (fun v => isAt v.span pos) with
      | some v => v.spec pos
      | none => none) :
    orElse (specFields pos fs) d =
      match (recordVariants fs base).find? (fun v => isAt v.span pos) with
      | some v => v.spec pos
      | none => none := by
  induction fs with
  | nil => simp only [specFields, orElse]; exact hd
  | cons f fs ih =>
    cases f with | mk sp val =>
    cases val with
    | none =>
      rw [recordVariants_cons_none, List.find?_cons]
      simp only [specFields, Variant.span_field]
      cases h : isAt sp pos
      · simpa using ih
      · simp [orElse, Variant.spec, h]
    | some e =>
      rw [recordVariants_cons_some, List.find?_cons, List.find?_cons]
      simp only [specFields, Variant.span_field, Variant.span_expr]
      cases h : isAt sp pos
      · cases he : isAt e.span pos
        · simpa using ih
        · simp [orElse, Variant.spec]
      · simp [orElse, Variant.spec, h]

theorem recordVariants_wn (fs : List Field) (base : Option Expr)
    (hf : wnFields fs = true) (hb : ∀ b, base = some b → b.wn = true)
    (hsp : ∀ v ∈ recordVariants fs base, v.span.lo ≤ v.span.hi) :
    ∀ v ∈ recordVariants fs base, Variant.wn v = true := by
  induction fs with
  | nil =>
    rw [recordVariants_nil]
    cases base with
    | none => simp
    | some b => intro v hv; simp at hv; subst hv; exact hb b rfl
  | cons f fs ih =>
    cases f with | mk sp val =>
    cases val with
    | none =>
      rw [recordVariants_cons_none] at hsp ⊢
      simp only [wnFields] at hf
      intro v hv
      simp only [List.mem_cons] at hv
      rcases hv with rfl | hv
      · have := hsp (.field sp) (by simp)
        simpa [Variant.wn, Span.wf, Variant.span] using this
      · exact ih hf (fun v hv => hsp v (by simp [hv])) v hv
    | some e =>
      rw [recordVariants_cons_some] at hsp ⊢
      simp only [wnFields, Bool.and_eq_true] at hf
      intro v hv
      simp only [List.mem_cons] at hv
      rcases hv with rfl | rfl | hv
      · have := hsp (.field sp) (by simp)
        simpa [Variant.wn, Span.wf, Variant.span] using this
      · exact hf.1
      · exact ih hf.2 (fun v hv => hsp v (by simp [hv])) v hv

theorem step_spec_record (fx : Bool) (pos : Nat) (sp : Span) (fs : List Field) (base : Option Expr)
    (st : St) (hw : (Expr.record sp fs base).wn = true) (hf : st.found = .notFound) :
    StepSpec pos ((Expr.record sp fs base).spec pos) (step fx pos (.expr (.record sp fs base)) st) := by
  unfold Expr.wn at hw
  simp only [Span.wf, Bool.and_eq_true, decide_eq_true_eq] at hw
  obtain ⟨⟨⟨hwf, hch⟩, hwfs⟩, hwb⟩ := hw
  have hin := chain_mem Variant.span (recordVariants fs base) _ _ hch
  simp only [step, StepSpec, enter_found]
  refine ⟨?_, hf, ?_⟩
  · apply variants_wn
    apply recordVariants_wn fs base hwfs
    · intro b hb; subst hb; simpa using hwb
    · intro v hv; exact (hin v hv).2.1
  · rw [variants_spec pos _ _ _ hch]
    unfold Expr.spec
    rw [record_spec_find pos fs base _ (by
      rw [recordVariants_nil]
      cases base with
      | none => rfl
      | some b =>
        simp only [List.find?_cons, Variant.span_expr]
        cases isAt b.span pos <;> rfl)]
    cases hsp : isAt sp pos with
    | true => simp
    | false =>
      simp only [Bool.false_eq_true, ↓reduceIte]
      have : (recordVariants fs base).find? (fun v => isAt v.span pos) = none := by
        rw [List.find?_eq_none]
        intro v hv
        have := hin v hv
        simp [not_at_inside sp v.span pos this.1 this.2.1 this.2.2 hsp]
      rw [this]

/-! ### `let` -/

theorem bindVariants_spans (b : LBind) :
    (bindVariants b).map Variant.span = b.name.span :: (b.args.map Arg.sp ++ [b.expr.span]) := by
  simp [bindVariants, List.map_map, Function.comp_def]

theorem wnBinds_mem {bs : List LBind} (h : wnBinds bs = true) :
    ∀ b ∈ bs, chain b.name.span.lo b.expr.span.hi
        (b.name.span :: (b.args.map Arg.sp ++ [b.expr.span])) = true ∧
      b.name.wn = true ∧ b.expr.wn = true := by
  induction bs with
  | nil => simp
  | cons q qs ih =>
    cases q with | mk n a e =>
    simp only [wnBinds, Bool.and_eq_true] at h
    intro b hb
    simp at hb
    rcases hb with rfl | hb
    · exact ⟨h.1.1.1, h.1.1.2, h.1.2⟩
    · exact ih h.2 b hb

/-- what is at `pos` inside a binding that contains `pos` -/
def bindSpec (pos : Nat) (b : LBind) : Option M :=
  if isAt b.name.span pos then b.name.spec pos
  else optOr (specArgs pos b.args) (if isAt b.expr.span pos then b.expr.spec pos else none)

@[simp] theorem LBind.span_mk (n : Pat) (a : List Arg) (e : Expr) :
    (LBind.mk n a e).span = ⟨n.span.lo, e.span.hi⟩ := rfl

theorem specBinds_find (pos : Nat) (bs : List LBind) :
    specBinds pos bs = (bs.find? (fun b => isAt b.span pos)).map (bindSpec pos) := by
  induction bs with
  | nil => rfl
  | cons q qs ih =>
    cases q with | mk n a e =>
    simp only [specBinds, List.find?_cons, LBind.span_mk]
    cases h : isAt ⟨n.span.lo, e.span.hi⟩ pos
    · simpa using ih
    · simp only [↓reduceIte, Option.map_some]; rfl

theorem args_find (pos : Nat) (args : List Arg) (tl : List Variant) :
    (args.map Variant.ident ++ tl).find? (fun v => isAt v.span pos) =
      match args.find? (fun a => isAt a.sp pos) with
      | some a => some (.ident a)
      | none => tl.find? (fun v => isAt v.span pos) := by
  induction args with
  | nil => rfl
  | cons a as ih =>
    simp only [List.map_cons, List.cons_append, List.find?_cons, Variant.span_ident]
    cases isAt a.sp pos
    · simpa using ih
    · rfl

theorem bindSpec_find (pos : Nat) (b : LBind) :
    bindSpec pos b =
      match (bindVariants b).find? (fun v => isAt v.span pos) with
      | some v => v.spec pos
      | none => none := by
  unfold bindSpec bindVariants
  rw [List.find?_cons]
  simp only [Variant.span_pat]
  cases hn : isAt b.name.span pos
  · simp only [Bool.false_eq_true, ↓reduceIte]
    rw [args_find, specArgs_find]
    cases hfa : b.args.find? (fun a => isAt a.sp pos) with
    | some a =>
      have : isAt a.sp pos = true := by have := List.find?_some hfa; simpa using this
      simp [optOr, Variant.spec, this]
    | none =>
      simp only [Option.map_none, optOr, List.find?_cons, Variant.span_expr]
      cases isAt b.expr.span pos <;> simp [Variant.spec]
  · simp [Variant.spec]

theorem step_spec_letb (fx : Bool) (pos : Nat) (sp : Span) (isRec : Bool) (bs : List LBind)
    (body : Expr) (st : St)
    (hw : (Expr.letb sp isRec bs body).wn = true) (hf : st.found = .notFound) :
    StepSpec pos ((Expr.letb sp isRec bs body).spec pos)
      (step fx pos (.expr (.letb sp isRec bs body)) st) := by
  simp only [Expr.wn, Span.wf, Bool.and_eq_true, decide_eq_true_eq] at hw
  obtain ⟨⟨⟨hwf, hch⟩, hwbs⟩, hwb⟩ := hw
  have hcha := chain_append_left _ _ _ _ hch
  have hlast := chain_append_last _ _ _ _ hch
  simp only [step]
  rcases select_cases LBind.span pos bs sp.lo sp.hi hcha with ⟨b, hfind, hsel, hm, hat⟩ | ⟨hfind, r, hsel, hr, hnil⟩
  · rw [hsel]
    obtain ⟨hbch, hbn, hbe⟩ := wnBinds_mem hwbs b hm
    have hbch' : chain b.span.lo b.span.hi ((bindVariants b).map Variant.span) = true := by
      rw [bindVariants_spans]; exact hbch
    have hin := chain_mem LBind.span bs _ _ hcha b hm
    have hsp : isAt sp pos = true := by
      rw [isAt_wf _ _ hwf]; rw [isAt_wf _ _ hin.2.1] at hat; omega
    simp only [StepSpec]
    refine ⟨?_, ?_, ?_⟩
    · apply variants_wn
      intro v hv
      have hvin := chain_mem Variant.span (bindVariants b) _ _ hbch' v hv
      simp only [bindVariants, List.mem_cons, List.mem_append, List.mem_map,
        List.not_mem_nil, or_false] at hv
      rcases hv with rfl | ⟨a, _, rfl⟩ | rfl
      · exact hbn
      · simpa [Variant.wn, Span.wf] using hvin.2.1
      · exact hbe
    · cases isRec <;> simp [hf]
    · rw [variants_spec pos _ _ _ hbch', ← bindSpec_find]
      simp [Expr.spec, hsp, specBinds_find, hfind, orElse]
  · rw [hsel]
    simp only [StepSpec, Node.wn, Node.spec]
    refine ⟨hwb, ?_, ?_⟩
    · cases isRec <;> simp [hf]
    · cases hb : isAt body.span pos with
      | true =>
        have hsp : isAt sp pos = true := by
          rw [isAt_wf _ _ hwf]; rw [isAt_wf _ _ hlast.1.2.1] at hb; omega
        simp [Expr.spec, hsp, specBinds_find, hfind, orElse, hb]
      | false =>
        rw [Expr.spec_none pos body hb]
        cases isAt sp pos <;> simp [Expr.spec, specBinds_find, hfind, orElse, hb]

/-! ### `match` -/

/-- the span function of lib.rs:537 -/
def itemSpan : Expr ⊕ Alt → Span := fun x => match x with | .inl e => e.span | .inr a => a.span
/-- the span function of lib.rs:549 -/
def item2Span : Pat ⊕ Expr → Span := fun x => match x with | .inl p => p.span | .inr e => e.span

@[simp] theorem Alt.span_mk (p : Pat) (e : Expr) : (Alt.mk p e).span = ⟨p.span.lo, e.span.hi⟩ := rfl

theorem items_spans (s : Expr) (alts : List Alt) :
    (Sum.inl s :: alts.map Sum.inr).map itemSpan = s.span :: alts.map Alt.span := by
  simp [itemSpan, List.map_map, Function.comp_def]

theorem wnAlts_mem {as : List Alt} (h : wnAlts as = true) :
    ∀ a ∈ as, chain a.pat.span.lo a.expr.span.hi [a.pat.span, a.expr.span] = true ∧
      a.pat.wn = true ∧ a.expr.wn = true := by
  induction as with
  | nil => simp
  | cons q qs ih =>
    cases q with | mk p e =>
    simp only [wnAlts, Bool.and_eq_true] at h
    intro a ha
    simp at ha
    rcases ha with rfl | ha
    · exact ⟨h.1.1.1, h.1.1.2, h.1.2⟩
    · exact ih h.2 a ha

def altSpec (pos : Nat) (a : Alt) : Option M :=
  if isAt a.pat.span pos then a.pat.spec pos
  else if isAt a.expr.span pos then a.expr.spec pos else none

theorem specAlts_find (pos : Nat) (as : List Alt) :
    specAlts pos as =
      match as.find? (fun a => isAt a.span pos) with
      | some a => altSpec pos a
      | none => none := by
  induction as with
  | nil => rfl
  | cons q qs ih =>
    cases q with | mk p e =>
    simp only [specAlts, List.find?_cons, Alt.span_mk]
    cases h : isAt ⟨p.span.lo, e.span.hi⟩ pos
    · simpa using ih
    · simp only [↓reduceIte]; rfl

theorem items_find (pos : Nat) (s : Expr) (alts : List Alt) :
    (Sum.inl s :: alts.map Sum.inr).find? (fun x => isAt (itemSpan x) pos) =
      if isAt s.span pos then some (Sum.inl s)
      else (alts.find? (fun a => isAt a.span pos)).map Sum.inr := by
  rw [List.find?_cons]
  have : itemSpan (Sum.inl s) = s.span := rfl
  rw [this]
  cases isAt s.span pos
  · simp only [Bool.false_eq_true, ↓reduceIte]
    rw [List.find?_map]
    rfl
  · rfl

theorem step_spec_match (fx : Bool) (pos : Nat) (sp : Span) (s : Expr) (alts : List Alt) (st : St)
    (hw : (Expr.matchE sp s alts).wn = true) (hf : st.found = .notFound) :
    StepSpec pos ((Expr.matchE sp s alts).spec pos)
      (step fx pos (.expr (.matchE sp s alts)) st) := by
  simp only [Expr.wn, Span.wf, Bool.and_eq_true, decide_eq_true_eq] at hw
  obtain ⟨⟨⟨hwf, hch⟩, hws⟩, hwa⟩ := hw
  have hch' : chain sp.lo sp.hi ((Sum.inl s :: alts.map Sum.inr).map itemSpan) = true := by
    rw [items_spans]; exact hch
  have hinI := chain_mem itemSpan _ _ _ hch'
  simp only [step]
  change StepSpec pos _ (match (selectSpanned itemSpan pos (Sum.inl s :: alts.map Sum.inr)).2 with
    | none => Next.done Out.panic
    | some (Sum.inl e) => _
    | some (Sum.inr a) => _)
  -- facts about an alternative that was selected
  have inner : ∀ a ∈ alts, ∀ st1 : St, st1.found = .notFound →
      StepSpec pos (altSpec pos a)
        (match (selectSpanned item2Span pos [Sum.inl a.pat, Sum.inr a.expr]).2 with
          | none => Next.done Out.panic
          | some (Sum.inl p) => Next.go (Node.pat p) st1
          | some (Sum.inr e) => Next.go (Node.expr e) st1) := by
    intro a ha st1 hf1
    obtain ⟨hach, hap, hae⟩ := wnAlts_mem hwa a ha
    have hach' : chain a.pat.span.lo a.expr.span.hi
        (([Sum.inl a.pat, Sum.inr a.expr] : List (Pat ⊕ Expr)).map item2Span) = true := hach
    rcases select_cases item2Span pos _ _ _ hach' with ⟨x, hfind, hsel, hm, hat⟩ | ⟨hfind, r, hsel, hr, hnil⟩
    · rw [hsel]
      simp only [List.find?_cons] at hfind
      cases x with
      | inl p =>
        have hp : isAt a.pat.span pos = true ∧ p = a.pat := by
          have e1 : item2Span (Sum.inl a.pat) = a.pat.span := rfl
          rw [e1] at hfind
          cases h : isAt a.pat.span pos
          · rw [h] at hfind
            have e2 : item2Span (Sum.inr a.expr) = a.expr.span := rfl
            rw [e2] at hfind
            cases h2 : isAt a.expr.span pos <;> rw [h2] at hfind <;> simp at hfind
          · rw [h] at hfind; simp at hfind; exact ⟨rfl, hfind.symm⟩
        obtain ⟨hp1, rfl⟩ := hp
        exact ⟨hap, hf1, by simp [Node.spec, altSpec, hp1]⟩
      | inr e =>
        have he : isAt a.pat.span pos = false ∧ isAt a.expr.span pos = true ∧ e = a.expr := by
          have e1 : item2Span (Sum.inl a.pat) = a.pat.span := rfl
          rw [e1] at hfind
          cases h : isAt a.pat.span pos
          · rw [h] at hfind
            have e2 : item2Span (Sum.inr a.expr) = a.expr.span := rfl
            rw [e2] at hfind
            cases h2 : isAt a.expr.span pos <;> rw [h2] at hfind <;> simp at hfind
            exact ⟨rfl, rfl, hfind.symm⟩
          · rw [h] at hfind; simp at hfind
        obtain ⟨he1, he2, rfl⟩ := he
        exact ⟨hae, hf1, by simp [Node.spec, altSpec, he1, he2]⟩
    · rw [hsel]
      have hnp : isAt a.pat.span pos = false := by
        have := List.find?_eq_none.mp hfind (Sum.inl a.pat) (by simp)
        simpa [item2Span] using this
      have hne : isAt a.expr.span pos = false := by
        have := List.find?_eq_none.mp hfind (Sum.inr a.expr) (by simp)
        simpa [item2Span] using this
      cases r with
      | none => simp [StepSpec]
      | some y =>
        obtain ⟨hym, _⟩ := hr y rfl
        simp at hym
        rcases hym with rfl | rfl
        · exact ⟨hap, hf1, by simp [Node.spec, altSpec, hnp, hne, Pat.spec_none pos a.pat hnp]⟩
        · exact ⟨hae, hf1, by simp [Node.spec, altSpec, hnp, hne, Expr.spec_none pos a.expr hne]⟩
  rcases select_cases itemSpan pos _ _ _ hch' with ⟨x, hfind, hsel, hm, hat⟩ | ⟨hfind, r, hsel, hr, hnil⟩
  · rw [hsel]
    have hin := hinI x hm
    have hsp : isAt sp pos = true := by
      rw [isAt_wf _ _ hwf]; rw [isAt_wf _ _ hin.2.1] at hat; omega
    rw [items_find] at hfind
    cases x with
    | inl e =>
      cases hs : isAt s.span pos
      · rw [hs] at hfind
        simp only [Bool.false_eq_true, ↓reduceIte] at hfind
        cases alts.find? (fun a => isAt a.span pos) <;> simp at hfind
      · rw [hs] at hfind
        simp at hfind
        subst hfind
        exact ⟨hws, by simp [hf], by simp [Node.spec, Expr.spec, hsp, hs]⟩
    | inr a =>
      cases hs : isAt s.span pos
      · rw [hs] at hfind
        simp only [Bool.false_eq_true, ↓reduceIte] at hfind
        cases hfa : alts.find? (fun a => isAt a.span pos) with
        | none => rw [hfa] at hfind; simp at hfind
        | some a' =>
          rw [hfa] at hfind
          simp at hfind
          subst hfind
          have ham : a' ∈ alts := List.mem_of_find?_eq_some hfa
          have := inner a' ham (hook fx pos (enter (Expr.matchE sp s alts).m pos st) a'.span a'.pat.binders)
            (by simp [hf])
          have e : (Expr.matchE sp s alts).spec pos = altSpec pos a' := by
            simp [Expr.spec, hsp, hs, specAlts_find, hfa]
          rw [e]
          exact this
      · rw [hs] at hfind; simp at hfind
  · rw [hsel]
    rw [items_find] at hfind
    have hs : isAt s.span pos = false := by
      cases h : isAt s.span pos
      · rfl
      · rw [h] at hfind; simp at hfind
    rw [hs] at hfind
    simp only [Bool.false_eq_true, ↓reduceIte, Option.map_eq_none_iff] at hfind
    have e : (Expr.matchE sp s alts).spec pos = none := by
      cases isAt sp pos <;> simp [Expr.spec, hs, specAlts_find, hfind]
    rw [e]
    cases r with
    | none => simp [StepSpec]
    | some y =>
      obtain ⟨hym, hyn⟩ := hr y rfl
      cases y with
      | inl e' =>
        simp at hym
        subst hym
        exact ⟨hws, by simp [hf], by simp [Node.spec, Expr.spec_none pos e' hs]⟩
      | inr a =>
        simp at hym
        have hyn' : isAt a.span pos = false := hyn
        obtain ⟨hach, hap, hae⟩ := wnAlts_mem hwa a hym
        simp only [chain, Bool.and_eq_true, decide_eq_true_eq] at hach
        have hnp : isAt a.pat.span pos = false :=
          not_at_inside a.span a.pat.span pos (by simp [Alt.span]) (by omega) (by simp [Alt.span]; omega) hyn'
        have hne : isAt a.expr.span pos = false :=
          not_at_inside a.span a.expr.span pos (by simp [Alt.span]; omega) (by omega) (by simp [Alt.span]) hyn'
        have := inner a hym (hook fx pos (enter (Expr.matchE sp s alts).m pos st) a.span a.pat.binders)
          (by simp [hf])
        have e2 : altSpec pos a = none := by simp [altSpec, hnp, hne]
        rw [e2] at this
        exact this

/-! ### The whole search -/

theorem step_spec (fx : Bool) (pos : Nat) (n : Node) (st : St)
    (hw : Node.wn n = true) (hf : st.found = .notFound) :
    StepSpec pos (Node.spec pos n) (step fx pos n st) := by
  cases n with
  | pat p => exact step_spec_pat fx pos p st hw hf
  | variant v => exact step_spec_variant fx pos v st hw hf
  | expr e =>
    cases e with
    | «infix» sp l op r => exact step_spec_infix fx pos sp l op r st hw hf
    | lambda sp a b => exact step_spec_lambda fx pos sp a b st hw hf
    | letb sp r bs b => exact step_spec_letb fx pos sp r bs b st hw hf
    | matchE sp s as => exact step_spec_match fx pos sp s as st hw hf
    | record sp fs b => exact step_spec_record fx pos sp fs b st hw hf
    | leaf sp => exact step_spec_expr_simple fx pos _ st hw hf (by simp) (by simp) (by simp) (by simp) (by simp)
    | emptyNode sp => exact step_spec_expr_simple fx pos _ st hw hf (by simp) (by simp) (by simp) (by simp) (by simp)
    | error sp => exact step_spec_expr_simple fx pos _ st hw hf (by simp) (by simp) (by simp) (by simp) (by simp)
    | one sp cs => exact step_spec_expr_simple fx pos _ st hw hf (by simp) (by simp) (by simp) (by simp) (by simp)
    | proj sp e => exact step_spec_expr_simple fx pos _ st hw hf (by simp) (by simp) (by simp) (by simp) (by simp)
    | annotated sp e => exact step_spec_expr_simple fx pos _ st hw hf (by simp) (by simp) (by simp) (by simp) (by simp)

/-- On a well-nested tree, whatever the fuel: if the search answers, what it reports AT the
    position is exactly the innermost terminal there (`none`: the position is in a gap, and
    then the reported match — if any — does not contain the position). -/
theorem run_spec (fx : Bool) (pos : Nat) :
    ∀ (fuel : Nat) (n : Node) (st st' : St), Node.wn n = true → st.found = .notFound →
      run fx pos fuel n st = .ok st' → hitOf pos st' = Node.spec pos n := by
  intro fuel
  induction fuel with
  | zero => intro n st st' _ _ h; simp [run] at h
  | succ k ih =>
    intro n st st' hw hf h
    have hs := step_spec fx pos n st hw hf
    rw [run] at h
    split at h
    · rename_i o ho
      rw [ho] at hs
      subst h
      exact hs
    · rename_i n' st1 ho
      rw [ho] at hs
      obtain ⟨hw', hf', hsp⟩ := hs
      rw [← hsp]
      exact ih n' st1 st' hw' hf' h

end GluonModel.FindPos.Proofs
