/-
Model of /repo/std/map.glu (the ordered map of the standard library).

`std.map` is a plain (unbalanced) binary search tree:
    type Map k a = | Tip | Bin k a (Map k a) (Map k a)              -- std/map.glu:14-16
Every function below is a line-by-line transcription; the comparison function `cmp` stands for the
`compare` of the `Ord k` dictionary that gluon passes implicitly.
-/
namespace GluonModel.StdMap

inductive Map (K V : Type) where
  | tip
  | bin (k : K) (v : V) (l r : Map K V)
  deriving Repr, Inhabited

variable {K V B : Type}

/-- std/map.glu:19 `empty`, :22 `singleton`. -/
def empty : Map K V := .tip
def singleton (k : K) (v : V) : Map K V := .bin k v .tip .tip

/-- std/map.glu:40-48 `find`. -/
def find (cmp : K → K → Ordering) (k : K) : Map K V → Option V
  | .tip => none
  | .bin k2 v l r =>
    match cmp k k2 with
    | .lt => find cmp k l
    | .eq => some v
    | .gt => find cmp k r

/-- std/map.glu:51-59 `insert`. Note the `EQ` branch stores the *new* key. -/
def insert (cmp : K → K → Ordering) (k : K) (v : V) : Map K V → Map K V
  | .tip => .bin k v .tip .tip
  | .bin k2 v2 l r =>
    match cmp k k2 with
    | .lt => .bin k2 v2 (insert cmp k v l) r
    | .eq => .bin k v l r
    | .gt => .bin k2 v2 l (insert cmp k v r)

/-- std/map.glu:61-64 `map` (the Functor instance). -/
def map (f : V → B) : Map K V → Map K B
  | .tip => .tip
  | .bin k x l r => .bin k (f x) (map f l) (map f r)

/-- std/map.glu:72-75 `foldr`. -/
def foldr (f : V → B → B) (z : B) : Map K V → B
  | .tip => z
  | .bin _ x l r => foldr f (f x (foldr f z r)) l

/-- std/map.glu:77-80 `foldl`. -/
def foldl (f : B → V → B) (z : B) : Map K V → B
  | .tip => z
  | .bin _ x l r => foldl f (f (foldl f z l) x) r

/-- std/map.glu:82-85 `foldr_with_key`. -/
def foldrWithKey (f : K → V → B → B) (z : B) : Map K V → B
  | .tip => z
  | .bin k v l r => foldrWithKey f (f k v (foldrWithKey f z r)) l

/-- std/map.glu:113 `append l r = foldr_with_key insert l r`: the entries of `r` are inserted into `l`. -/
def append (cmp : K → K → Ordering) (l r : Map K V) : Map K V :=
  foldrWithKey (insert cmp) l r

/-- std/map.glu:122-123 `to_list`. -/
def toList (m : Map K V) : List (K × V) :=
  foldrWithKey (fun k v acc => (k, v) :: acc) [] m

/-- std/map.glu:126 `keys`, :129 `values`. -/
def keys (m : Map K V) : List K := foldrWithKey (fun k _ acc => k :: acc) [] m
def values (m : Map K V) : List V := foldr (fun v acc => v :: acc) [] m

/-- The derived `Eq (Map k a)` (std/map.glu:13, vm/src/derive/eq.rs): structural on the tree. -/
def eqMap (keq : K → K → Bool) (veq : V → V → Bool) : Map K V → Map K V → Bool
  | .tip, .tip => true
  | .bin k v l r, .bin k' v' l' r' => keq k k' && veq v v' && eqMap keq veq l l' && eqMap keq veq r r'
  | _, _ => false

/-- The derived `Show (Map k a)` (vm/src/derive/show.rs:44-72): constructor name, then every
    argument as `" (" ++ show arg ++ ")"`. -/
def showMap (ks : K → String) (vs : V → String) : Map K V → String
  | .tip => "Tip"
  | .bin k v l r =>
    "Bin" ++ " (" ++ ks k ++ ")" ++ " (" ++ vs v ++ ")" ++ " (" ++ showMap ks vs l ++ ")"
      ++ " (" ++ showMap ks vs r ++ ")"

/-- gluon's `compare` on `Int` (std/int.glu → Rust `i64::cmp`). -/
def icmp (a b : Int) : Ordering := if a < b then .lt else if a = b then .eq else .gt

/-! ### The abstract finite map: an association list sorted by key -/

/-- Insert into a key-sorted association list, replacing an equal key. -/
def insertSorted (cmp : K → K → Ordering) (k : K) (v : V) : List (K × V) → List (K × V)
  | [] => [(k, v)]
  | (k2, v2) :: rest =>
    match cmp k k2 with
    | .lt => (k, v) :: (k2, v2) :: rest
    | .eq => (k, v) :: rest
    | .gt => (k2, v2) :: insertSorted cmp k v rest

def lookup (cmp : K → K → Ordering) (k : K) : List (K × V) → Option V
  | [] => none
  | (k2, v2) :: rest => if cmp k k2 = .eq then some v2 else lookup cmp k rest

end GluonModel.StdMap
