/-
Model of `parser/src/infix.rs` `reparse` (lines 322–453): the operator-precedence re-balancing
of a chain `a₀ op₁ a₁ op₂ … opₙ aₙ` that the grammar delivers right-nested.

The Rust loop keeps an argument stack and an operator stack and re-queues the incoming operator
after a reduction (`infixes.next_op = Some(next_op)`).  Here the re-queueing is the recursive
call of `pushOp` on the shorter operator stack, so the model is structurally recursive; the
operator metadata lookup `operators.get_at` is carried by `Op.info` (`none` = no entry, the
`UndefinedFixity` error; the incoming operator is looked up first, as in the code).
-/
namespace GluonModel.Infix

inductive Fixity where
  | left | right
  deriving DecidableEq, Repr, Inhabited

structure OpMeta where
  prec : Int
  fix : Fixity
  deriving DecidableEq, Repr, Inhabited

/-- One operator occurrence of the chain, with the result of the table lookup. -/
structure Op where
  name : String
  info : Option OpMeta
  deriving DecidableEq, Repr, Inhabited

inductive Tree where
  | leaf (a : Nat)
  | node (l : Tree) (op : Op) (r : Tree)
  deriving DecidableEq, Repr, Inhabited

inductive Err where
  /-- `ConflictingFixities((stack_op, meta), (next_op, meta))` -/
  | conflict (stackOp nextOp : Op)
  /-- `UndefinedFixity(name)` -/
  | undefined (op : Op)
  /-- an `unwrap`/`assert_eq!` of the Rust code would fail (proved unreachable) -/
  | internal
  deriving DecidableEq, Repr, Inhabited

inductive Action where
  | reduce | shift | conflict
  deriving DecidableEq, Repr

/-- The `match i32::cmp(next.precedence, stack.precedence)` of infix.rs:388–430. -/
def action (next stack : OpMeta) : Action :=
  if next.prec < stack.prec then .reduce
  else if stack.prec < next.prec then .shift
  else match next.fix, stack.fix with
    | .left, .left => .reduce
    | .right, .right => .shift
    | _, _ => .conflict

/-- Handling of `InfixToken::Op(next)`: pop the operator stack; shift, reduce-and-requeue, or
    fail. `args`/`ops` have their top at the head. -/
def pushOp (next : Op) : List Tree → List Op → Except Err (List Tree × List Op)
  | args, [] => .ok (args, [next])
  | args, s :: ops =>
    match next.info with
    | none => .error (.undefined next)
    | some nm =>
      match s.info with
      | none => .error (.undefined s)
      | some sm =>
        match action nm sm with
        | .shift => .ok (args, next :: s :: ops)
        | .conflict => .error (.conflict s next)
        | .reduce =>
          match args with
          | r :: l :: args' => pushOp next (Tree.node l s r :: args') ops
          | _ => .error .internal

/-- The final `for op in op_stack.into_iter().rev()` loop plus `assert_eq!(arg_stack.len(), 1)`. -/
def finish : List Tree → List Op → Except Err Tree
  | [t], [] => .ok t
  | r :: l :: args, op :: ops => finish (Tree.node l op r :: args) ops
  | _, _ => .error .internal

def run (args : List Tree) (ops : List Op) : List (Op × Nat) → Except Err Tree
  | [] => finish args ops
  | (o, a) :: rest =>
    match pushOp o args ops with
    | .error e => .error e
    | .ok (args', ops') => run (Tree.leaf a :: args') ops' rest

/-- `reparse` on the chain `first op₁ a₁ …`. -/
def reparse (first : Nat) (rest : List (Op × Nat)) : Except Err Tree :=
  run [Tree.leaf first] [] rest

/-! ### Specification side -/

/-- In-order flattening of a tree back into a chain. -/
def flatten : Tree → Nat × List (Op × Nat)
  | .leaf a => (a, [])
  | .node l o r => ((flatten l).1, (flatten l).2 ++ (o, (flatten r).1) :: (flatten r).2)

def rootMeta : Tree → Option OpMeta
  | .leaf _ => none
  | .node _ o _ => o.info

/-- A child operator may sit to the *left* of `parent`. -/
def okLeft (parent child : OpMeta) : Prop :=
  parent.prec < child.prec ∨ (parent.prec = child.prec ∧ parent.fix = .left ∧ child.fix = .left)

/-- A child operator may sit to the *right* of `parent`. -/
def okRight (parent child : OpMeta) : Prop :=
  parent.prec < child.prec ∨ (parent.prec = child.prec ∧ parent.fix = .right ∧ child.fix = .right)

instance (p c : OpMeta) : Decidable (okLeft p c) := by unfold okLeft; infer_instance
instance (p c : OpMeta) : Decidable (okRight p c) := by unfold okRight; infer_instance

/-- "Grouped exactly as the fixities dictate": every operator has metadata, every operator at
    the root of a left operand binds tighter than its parent or is equally tight with both
    left-associative, and symmetrically on the right. -/
def WF : Tree → Prop
  | .leaf _ => True
  | .node l o r =>
    WF l ∧ WF r ∧
    match o.info with
    | none => False
    | some m =>
      (match l with
        | .leaf _ => True
        | .node _ lo _ => match lo.info with | none => False | some lm => okLeft m lm) ∧
      (match r with
        | .leaf _ => True
        | .node _ ro _ => match ro.info with | none => False | some rm => okRight m rm)

instance decWF : (t : Tree) → Decidable (WF t)
  | .leaf _ => isTrue trivial
  | .node l o r => by
    unfold WF
    have := decWF l
    have := decWF r
    cases o.info <;> cases l <;> cases r <;> simp only <;> try infer_instance
    all_goals (split <;> try split) <;> infer_instance

end GluonModel.Infix
