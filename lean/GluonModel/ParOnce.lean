/-
`Once` — the logic of a memoised module evaluation requested by many threads at once.

What it mirrors (gluon at /repo):
* `import! m` expands to a query `import(m)` → `global(m)` → `global_inner(m)` on a forked
  snapshot of the one compiler database (src/import.rs:545-559 `macros.userdata.fork(..)`,
  src/query.rs:155 `CompilerDatabase::fork`, src/query.rs:379-445 the `Compilation` query group,
  src/query.rs:707-771 `global_inner`: typecheck, compile, `call_thunk_top` = run the module
  body, deep-clone the value into the global heap).
* salsa memoises `global_inner(m)`: the first requester finds no memo (`absent`), marks the query
  in progress and becomes its owner; a requester arriving meanwhile is parked on the in-progress
  entry (`inProgress owner waiters`); when the owner finishes, the value is stored (`done v`) and
  the parked requesters are woken one by one and read the stored value; later requesters read it
  directly.
The scheduler (which requester runs when) is NOT modelled: the theorems quantify over every
event sequence, events that are not enabled in the current state being no-ops.

`body k` is the value the k-th evaluation of the body yields (a second evaluation may yield a
different value — a fresh allocation, a new side effect); the theorems show only `body 1` is ever
handed out.
-/
namespace GluonModel.ParOnce

inductive Cell where
  | absent
  | inProgress (owner : Nat) (waiters : List Nat)
  | done (v : Int) (waiters : List Nat)
  deriving Repr, DecidableEq

structure St where
  cell : Cell
  /-- how many times the module body was started -/
  evals : Nat
  /-- (requester, value it obtained), newest first -/
  got : List (Nat × Int)
  deriving Repr, DecidableEq

def init : St := ⟨.absent, 0, []⟩

inductive Ev where
  | request (t : Nat)
  | finish
  | wake (t : Nat)
  deriving Repr, DecidableEq

def step (body : Nat → Int) (s : St) : Ev → St
  | .request t =>
    match s.cell with
    | .absent => { s with cell := .inProgress t [], evals := s.evals + 1 }
    | .inProgress o ws =>
      -- the owner and the parked requesters are blocked: they cannot request again
      if t = o ∨ t ∈ ws then s else { s with cell := .inProgress o (t :: ws) }
    | .done v ws =>
      if t ∈ ws then s else { s with got := (t, v) :: s.got }
  | .finish =>
    match s.cell with
    | .inProgress o ws => { s with cell := .done (body s.evals) ws, got := (o, body s.evals) :: s.got }
    | _ => s
  | .wake t =>
    match s.cell with
    | .done v ws => if t ∈ ws then { s with cell := .done v (ws.erase t), got := (t, v) :: s.got } else s
    | _ => s

def runFrom (body : Nat → Int) (s : St) (es : List Ev) : St := es.foldl (step body) s

def run (body : Nat → Int) (es : List Ev) : St := runFrom body init es

/-- requesters parked on the cell -/
def waiters (s : St) : List Nat :=
  match s.cell with
  | .absent => []
  | .inProgress _ ws => ws
  | .done _ ws => ws

/-- let the owner finish and wake every parked requester -/
def drain (body : Nat → Int) (s : St) : St :=
  let s1 := step body s .finish
  runFrom body s1 ((waiters s1).map .wake)

/-- the value requester `t` obtained last (none: it is still blocked / never asked) -/
def obtained (s : St) (t : Nat) : Option Int :=
  (s.got.find? (fun p => p.1 == t)).map (·.2)

/-! ### several modules (what the driver runs): one cell per module -/

/-- module sources: constant + imported modules (indices of earlier modules) -/
abbrev Mods := List (Int × List Nat)

/-- the value of module `m`: its constant plus the values of its imports -/
def modVal (mods : Mods) : Nat → Nat → Int
  | 0, _ => 0
  | fuel + 1, m =>
    match mods[m]? with
    | none => 0
    | some (c, deps) => c + (deps.map (modVal mods fuel)).foldl (· + ·) 0

inductive MEv where
  | request (m t : Nat)
  | finish (m : Nat)
  | wake (m t : Nat)
  deriving Repr

def mstep (mods : Mods) (cells : List St) : MEv → List St
  | .request m t => cells.modify m (fun s => step (fun _ => modVal mods (mods.length + 1) m) s (.request t))
  | .finish m => cells.modify m (fun s => step (fun _ => modVal mods (mods.length + 1) m) s .finish)
  | .wake m t => cells.modify m (fun s => step (fun _ => modVal mods (mods.length + 1) m) s (.wake t))

def mrun (mods : Mods) (es : List MEv) : List St :=
  es.foldl (mstep mods) (mods.map (fun _ => init))

/-! ### generated programs (harness/src/bin/c14.rs `prog_text`) -/

inductive Role where
  | plain
  | prod (chan : Nat) (k : Int)
  | cons (chan : Nat) (k : Int)
  deriving Repr

structure Prog where
  imports : List Nat
  alloc : Int
  reps : Int
  role : Role
  deriving Repr

/-- `sum (build n Nil) 0` = n + (n-1) + … + 1 -/
def tri (n : Int) : Int := n * (n + 1) / 2

/-- value of the program of thread `t` from the module values it obtained through the cells;
    `none` if some import never delivered a value (the thread is stuck) -/
def progValue (cells : List St) (t : Nat) (p : Prog) : Option Int :=
  let vals := p.imports.map (fun m => (cells[m]?).bind (fun s => obtained s t))
  if vals.all Option.isSome then
    let base := p.reps * tri p.alloc + (vals.map (fun v => v.getD 0)).foldl (· + ·) 0
    match p.role with
    | .plain => some base
    | .prod _ _ => some base
    | .cons _ k => some (k * base + k * (k + 1))
  else none


/-! ### runs in which some threads failed

The schedule of a real run is not controllable, and in the scenario classes with a listed race
(std imports, channel traffic) a run may fail in every repetition.  Such a run is still compared
with the model on what the failure leaves determined: the threads that did NOT fail must have the
model's values, and every module one of them requested must have been evaluated as often as the
model says.  A module requested only by failed threads may or may not have been reached before
the failure: its count is not determined (`?`).  With no failed thread nothing is masked
(`undetermined_nil`). -/

/-- the modules reachable from `ms` through the imports of the module sources -/
def reach (mods : Mods) : Nat → List Nat → List Nat
  | 0, ms => ms
  | fuel + 1, ms =>
    reach mods fuel (ms ++ ms.flatMap (fun m => match mods[m]? with
      | some (_, deps) => deps.filter (fun d => !ms.contains d)
      | none => [])).eraseDups

/-- the modules the program of a thread requests (its imports, transitively) -/
def requests (mods : Mods) (p : Prog) : List Nat := reach mods mods.length p.imports

/-- module `m` was requested by some failed thread and by no thread that ran to its end -/
def undetermined (mods : Mods) (progs : List Prog) (failed : List Nat) (m : Nat) : Bool :=
  let tp := (List.range progs.length).zip progs
  tp.any (fun (t, p) => failed.contains t && (requests mods p).contains m) &&
    !(tp.any (fun (t, p) => !failed.contains t && (requests mods p).contains m))

theorem undetermined_nil (mods : Mods) (progs : List Prog) (m : Nat) :
    undetermined mods progs [] m = false := by
  simp [undetermined]

end GluonModel.ParOnce
