/-
`Dce`: the passes of gluon's active optimisation pipeline (vm/src/core/optimize.rs:284-330 with
`const INLINE: bool = false`), transcribed:

* `ua`            optimize.rs:198-282  `RecognizeUnnecessaryAllocation` / `optimize_unnecessary_allocation`
* `usedBindings`  dead_code.rs:116-347 `DepGraph` (scopes, `add_node` over a `ScopedMap`, `bind_pattern`,
                  the `Call` rule, match scrutinee scopes, the Constructor/Literal-pattern rule,
                  depth-first reachability from `<top>`)
* `dce`           dead_code.rs:17-114  `dead_code_elimination`
* `optimize`      optimize.rs:289-297  their composition

The purity analysis (purity.rs), `cycles` and `analyze_costs` are computed by `optimize` but read
only by the inliner arm (`Generated.OptPipeline.onlyReadByInliner`), which is switched off; they do
not change the expression and are not modelled.
-/
import GluonModel.OptCore

namespace GluonModel.Dce
open GluonModel.OptCore

/-! ### dead_code_elimination (dead_code.rs:17) -/

/-- dead_code.rs:83-97: a match with exactly one alternative whose pattern is a record none of
    whose binders is used is replaced by the alternative's body. -/
def dropMatch (used : String → Bool) : Alts → Bool
  | .cons (.record fields) _ .nil => !(fields.any fun f => used f.2)
  | _ => false

mutual
def dce (used : String → Bool) : Expr → Expr
  | .const l => .const l
  | .ident x => .ident x
  | .call f args => .call (dce used f) (dceList used args)
  | .data c rows args => .data c rows (dceList used args)
  -- dead_code.rs:59-66
  | .letE x e body => if used x then .letE x (dce used e) (dce used body) else dce used body
  -- dead_code.rs:41-57, 75-79
  | .letRec cs body =>
    match dceClosures used cs with
    | .nil => dce used body
    | cs' => .letRec cs' (dce used body)
  -- dead_code.rs:83-99
  | .matchE s alts =>
    if dropMatch used alts then dceFirstBody used alts
    else .matchE (dce used s) (dceAlts used alts)
  | .cast e => .cast (dce used e)
def dceList (used : String → Bool) : Exprs → Exprs
  | .nil => .nil
  | .cons e es => .cons (dce used e) (dceList used es)
def dceAlts (used : String → Bool) : Alts → Alts
  | .nil => .nil
  | .cons p e rest => .cons p (dce used e) (dceAlts used rest)
/-- `alts[0].expr`, optimised -/
def dceFirstBody (used : String → Bool) : Alts → Expr
  | .nil => .const (.int 0)
  | .cons _ e _ => dce used e
def dceClosures (used : String → Bool) : Closures → Closures
  | .nil => .nil
  | .cons n a b rest =>
    if used n then .cons n a (dce used b) (dceClosures used rest) else dceClosures used rest
end

/-! ### The dependency graph (dead_code.rs:116-347) -/

/-- State of the graph construction.  `Scope::Symbol(name)` = `some name`, `Scope::Match(_)` =
    `none`.  The stack `currents` of the Rust code is not part of the state: it is passed down the
    recursion (`cur`, innermost first; `true` = `BindType::Expr`, `false` = `BindType::Closure`),
    which is what the balanced `push`/`pop` of `scope_idx` (dead_code.rs:144-155) amounts to. -/
structure St where
  nodes : Array (Option String) := #[]
  edges : List (Nat × Nat) := []
  /-- `symbol_map: ScopedMap<Scope, NodeIndex>` (base/src/scoped_map.rs): innermost scope first -/
  frames : List (List (String × Nat)) := [[]]

def frameLookup : List (List (String × Nat)) → String → Option Nat
  | [], _ => none
  | f :: fs, x =>
    match f.find? (fun p => p.1 == x) with
    | some p => some p.2
    | none => frameLookup fs x

/-- dead_code.rs:157 `add_node`: the visible node of the symbol, or a new node registered in the
    current scope (`ScopedMap::entry(..).or_insert_with`). -/
def addNode (st : St) (x : String) : St × Nat :=
  match frameLookup st.frames x with
  | some i => (st, i)
  | none =>
    let i := st.nodes.size
    let frames := match st.frames with
      | [] => [[(x, i)]]
      | f :: fs => ((x, i) :: f) :: fs
    ({ st with nodes := st.nodes.push (some x), frames := frames }, i)

def addEdge (st : St) (a b : Nat) : St := { st with edges := (a, b) :: st.edges }

def addEdges (st : St) (es : List (Nat × Nat)) : St := { st with edges := es ++ st.edges }

/-- `enter_scope` / `exit_scope` of the symbol map. -/
def pushFrame (st : St) : St := { st with frames := [] :: st.frames }
def popFrame (st : St) : St := { st with frames := st.frames.drop 1 }

/-- `graph.add_node(Scope::Match(_))`: a node outside the symbol map. -/
def pushNone (st : St) : St := { st with nodes := st.nodes.push none }

def curNode : List (Bool × Nat) → Nat
  | [] => 0
  | c :: _ => c.2

/-- dead_code.rs:268-275: edges parent→child along the stack of scopes, from the innermost
    outwards for as long as the child is an `Expr` binding. -/
def callEdges : List (Bool × Nat) → List (Nat × Nat)
  | (isE, n) :: (b, p) :: rest => if isE then (p, n) :: callEdges ((b, p) :: rest) else []
  | _ => []

/-- The `Call` rule: which callees make the call count as effectful.  `ruleNow` is the guard at
    dead_code.rs:262-266; `ruleOld` is the guard before the `fix:` commit 7751831 (D2). -/
def ruleNow : Expr → Bool
  | .ident x => !isBuiltinName x
  | _ => true

def ruleOld : Expr → Bool
  | .ident x => !isBuiltinName x
  | _ => false

def patBinders : Pat → List String
  | .ctor _ args => args
  | .record fs => fs.map (·.2)
  | .ident x => [x]
  | .lit _ => []

/-- dead_code.rs:166 `bind_pattern`: a node per binder, with an edge binder → scrutinee. -/
def bindNames (scrut : Nat) : List String → St → St
  | [], st => st
  | x :: xs, st => bindNames scrut xs (addEdge (addNode st x).1 (addNode st x).2 scrut)

def altsHaveCtorOrLit : Alts → Bool
  | .nil => false
  | .cons (.ctor _ _) _ _ => true
  | .cons (.lit _) _ _ => true
  | .cons _ _ rest => altsHaveCtorOrLit rest

def bindAlts (scrut : Nat) : Alts → St → St
  | .nil, st => st
  | .cons p _ rest, st => bindAlts scrut rest (bindNames scrut (patBinders p) st)

def closureNames : Closures → List String
  | .nil => []
  | .cons n _ _ rest => n :: closureNames rest

def addNodes : List String → St → St
  | [], st => st
  | x :: xs, st => addNodes xs (addNode st x).1

mutual
/-- dead_code.rs:250 `DepGraph::visit_expr` -/
def visit (rule : Expr → Bool) : Expr → List (Bool × Nat) → St → St
  | .const _, _, st => st
  -- dead_code.rs:252-258
  | .ident x, cur, st => addEdge (addNode st x).1 (curNode cur) (addNode st x).2
  -- dead_code.rs:262-278, else the default arm 338 (walk_expr: callee then arguments)
  | .call f args, cur, st =>
    visitList rule args cur
      (visit rule f cur (if rule f then addEdges st (callEdges cur) else st))
  | .data _ _ args, cur, st => visitList rule args cur st
  -- dead_code.rs:280-308
  | .letE x e body, cur, st =>
    popFrame (visit rule body cur
      (visit rule e ((true, (addNode (pushFrame st) x).2) :: cur) (addNode (pushFrame st) x).1))
  | .letRec cs body, cur, st =>
    popFrame (visit rule body cur
      (visitClosures rule cs cur (addNodes (closureNames cs) (pushFrame st))))
  -- dead_code.rs:310-336
  | .matchE s alts, cur, st =>
    let scrut := st.nodes.size
    let st1 := visit rule s ((true, scrut) :: cur) (bindAlts scrut alts (pushNone st))
    visitAlts rule alts cur
      (if altsHaveCtorOrLit alts then addEdge st1 (curNode cur) scrut else st1)
  | .cast e, cur, st => visit rule e cur st
def visitList (rule : Expr → Bool) : Exprs → List (Bool × Nat) → St → St
  | .nil, _, st => st
  | .cons e es, cur, st => visitList rule es cur (visit rule e cur st)
def visitAlts (rule : Expr → Bool) : Alts → List (Bool × Nat) → St → St
  | .nil, _, st => st
  | .cons _ e rest, cur, st => visitAlts rule rest cur (visit rule e cur st)
def visitClosures (rule : Expr → Bool) : Closures → List (Bool × Nat) → St → St
  | .nil, _, st => st
  | .cons n _ b rest, cur, st =>
    visitClosures rule rest cur (visit rule b ((false, (addNode st n).2) :: cur) (addNode st n).1)
end

/-- One round of propagation along the edges; `changed` reports whether a node was added. -/
def reachStep (edges : List (Nat × Nat)) (marks : Array Bool) : Array Bool × Bool :=
  edges.foldl (fun (acc : Array Bool × Bool) e =>
    if acc.1.getD e.1 false && !(acc.1.getD e.2 true) then (acc.1.setIfInBounds e.2 true, true) else acc)
    (marks, false)

def reachLoop (edges : List (Nat × Nat)) : Nat → Array Bool → Array Bool
  | 0, m => m
  | n + 1, m =>
    let (m', ch) := reachStep edges m
    if ch then reachLoop edges n m' else m'

/-- The marked set is closed under the edges. -/
def closedUnder (edges : List (Nat × Nat)) (marks : Array Bool) : Bool :=
  edges.all fun e => !(marks.getD e.1 true) || marks.getD e.2 true

def topName : String := "<top>"

/-- State after dead_code.rs:220-230. -/
def graphOf (rule : Expr → Bool) (e : Expr) : St :=
  visit rule e [(true, 0)] { nodes := #[some topName], edges := [], frames := [[(topName, 0)]] }

/-- The nodes reachable from `<top>` (node 0): propagation to a fixpoint, one round per node at
    most.  The result is *checked* to be closed and to contain `<top>`; should the bounded loop
    ever stop early every node counts as reachable (sound, and the correspondence would show
    it) — so closedness holds by construction. -/
def reachRaw (st : St) : Array Bool :=
  reachLoop st.edges (st.nodes.size + 1)
    ((Array.replicate st.nodes.size false).setIfInBounds 0 true)

def reachable (st : St) : Array Bool :=
  let m := reachRaw st
  if closedUnder st.edges m && m.getD 0 true then m else Array.replicate st.nodes.size true

/-- dead_code.rs:220 `DepGraph::used_bindings`: names of the `Symbol` scopes reachable from
    `<top>` (with `<top>` itself, as in the code). -/
def usedWith (rule : Expr → Bool) (e : Expr) : List String :=
  let st := graphOf rule e
  let marks := reachable st
  (List.range st.nodes.size).filterMap fun i =>
    if marks.getD i true then (st.nodes.getD i none) else none

def usedBindings (e : Expr) : List String := usedWith ruleNow e

def inList (l : List String) (x : String) : Bool := l.contains x

/-! ### optimize_unnecessary_allocation (optimize.rs:198-282) -/

def dummyName (k : Nat) : String := "dummy%" ++ toString k

/-- optimize.rs:213-223: the binder of the pattern field named like the row field, else a fresh
    `dummy` symbol. -/
def fieldBinder (fields : List (String × String)) (row : String) (k : Nat) : String × Nat :=
  match fields.find? (fun f => f.1 == row) with
  | some f => (f.2, k)
  | none => (dummyName k, k + 1)

/-- optimize.rs:252-262: `rows.zip(exprs)` folded from the right into nested lets. -/
def makeLets (fields : List (String × String)) : List String → Exprs → Expr → Nat → Expr × Nat
  | r :: rows, .cons e es, body, k =>
    let (b, k) := fieldBinder fields r k
    let (rest, k) := makeLets fields rows es body k
    (.letE b e rest, k)
  | _, _, body, k => (body, k)

/-- optimize.rs:247-249: `Match(Data(id, exprs), [Record pattern alternative])`. -/
def uaTarget : Expr → Alts → Option (List String × Exprs × List (String × String) × Expr)
  | .data _ rows args, .cons (.record fields) body .nil => some (rows, args, fields, body)
  | _, _ => none

mutual
/-- The rewritten node is not visited further (optimize.rs:252 returns without walking). -/
def ua : Expr → Nat → Expr × Nat
  | .const l, k => (.const l, k)
  | .ident x, k => (.ident x, k)
  | .call f args, k =>
    let (f', k) := ua f k
    let (args', k) := uaList args k
    (.call f' args', k)
  | .data c rows args, k =>
    let (args', k) := uaList args k
    (.data c rows args', k)
  | .letE x e body, k =>
    let (e', k) := ua e k
    let (body', k) := ua body k
    (.letE x e' body', k)
  | .letRec cs body, k =>
    let (cs', k) := uaClosures cs k
    let (body', k) := ua body k
    (.letRec cs' body', k)
  | .matchE s alts, k =>
    match uaTarget s alts with
    | some (rows, args, fields, body) => makeLets fields rows args body k
    | none =>
      let (s', k) := ua s k
      let (alts', k) := uaAlts alts k
      (.matchE s' alts', k)
  | .cast e, k =>
    let (e', k) := ua e k
    (.cast e', k)
def uaList : Exprs → Nat → Exprs × Nat
  | .nil, k => (.nil, k)
  | .cons e es, k =>
    let (e', k) := ua e k
    let (es', k) := uaList es k
    (.cons e' es', k)
def uaAlts : Alts → Nat → Alts × Nat
  | .nil, k => (.nil, k)
  | .cons p e rest, k =>
    let (e', k) := ua e k
    let (rest', k) := uaAlts rest k
    (.cons p e' rest', k)
def uaClosures : Closures → Nat → Closures × Nat
  | .nil, k => (.nil, k)
  | .cons n a b rest, k =>
    let (b', k) := ua b k
    let (rest', k) := uaClosures rest k
    (.cons n a b' rest', k)
end

def unnecessaryAlloc (e : Expr) : Expr := (ua e 0).1

/-- optimize.rs:289-297 with INLINE = false: the expression `optimize` returns. -/
def optimize (e : Expr) : Expr :=
  let e1 := unnecessaryAlloc e
  dce (inList (usedBindings e1)) e1

/-- The passes `optimize` is made of, in the order the model applies them (the analyses that do
    not change the expression are listed where the code calls them). -/
def modelledPasses : List String :=
  ["optimize_unnecessary_allocation", "purity", "used_bindings", "cycles", "dead_code_elimination",
   "analyze_costs"]

/-! ### The hypotheses of the soundness theorem, as checkable predicates -/

mutual
/-- No call of a non-builtin function is made when the expression is evaluated (closure bodies
    are not evaluated by creating the closure). -/
def pureE : Expr → Bool
  | .const _ => true
  | .ident _ => true
  | .call f args => (builtinCallee f).isSome && pureList args
  | .data _ _ args => pureList args
  | .letE _ e body => pureE e && pureE body
  | .letRec _ body => pureE body
  | .matchE s alts => pureE s && pureAlts alts
  | .cast e => pureE e
def pureList : Exprs → Bool
  | .nil => true
  | .cons e es => pureE e && pureList es
def pureAlts : Alts → Bool
  | .nil => true
  | .cons _ e rest => pureE e && pureAlts rest
end

mutual
/-- `used` is closed for `e`: what `dce used` removes is pure, and what it keeps only reads
    identifiers in `used`. -/
def kept (used : String → Bool) : Expr → Bool
  | .const _ => true
  | .ident x => used x
  | .call f args => kept used f && keptList used args
  | .data _ _ args => keptList used args
  | .letE x e body => (if used x then kept used e else pureE e) && kept used body
  | .letRec cs body => keptClosures used cs && kept used body
  | .matchE s alts =>
    if dropMatch used alts then pureE s && keptFirstBody used alts
    else kept used s && keptAlts used alts
  | .cast e => kept used e
def keptList (used : String → Bool) : Exprs → Bool
  | .nil => true
  | .cons e es => kept used e && keptList used es
def keptAlts (used : String → Bool) : Alts → Bool
  | .nil => true
  | .cons _ e rest => kept used e && keptAlts used rest
def keptFirstBody (used : String → Bool) : Alts → Bool
  | .nil => true
  | .cons _ e _ => kept used e
def keptClosures (used : String → Bool) : Closures → Bool
  | .nil => true
  | .cons n _ b rest => (if used n then kept used b else true) && keptClosures used rest
end

mutual
/-- The expression defines no closures (the fragment of `dce_correct_partial`). -/
def noRec : Expr → Bool
  | .const _ => true
  | .ident _ => true
  | .call f args => noRec f && noRecList args
  | .data _ _ args => noRecList args
  | .letE _ e body => noRec e && noRec body
  | .letRec _ _ => false
  | .matchE s alts => noRec s && noRecAlts alts
  | .cast e => noRec e
def noRecList : Exprs → Bool
  | .nil => true
  | .cons e es => noRec e && noRecList es
def noRecAlts : Alts → Bool
  | .nil => true
  | .cons _ e rest => noRec e && noRecAlts rest
end

/-! ### Hypotheses of `usedBindings_kept`, as checkable predicates -/

mutual
/-- Names bound by `let`, by a recursive group, or by a pattern, anywhere in the expression. -/
def allBinders : Expr → List String
  | .const _ => []
  | .ident _ => []
  | .call f args => allBinders f ++ allBindersList args
  | .data _ _ args => allBindersList args
  | .letE x e body => x :: (allBinders e ++ allBinders body)
  | .letRec cs body => closureNames cs ++ (allBindersClosures cs ++ allBinders body)
  | .matchE s alts => allBinders s ++ allBindersAlts alts
  | .cast e => allBinders e
def allBindersList : Exprs → List String
  | .nil => []
  | .cons e es => allBinders e ++ allBindersList es
def allBindersAlts : Alts → List String
  | .nil => []
  | .cons p e rest => patBinders p ++ (allBinders e ++ allBindersAlts rest)
def allBindersClosures : Closures → List String
  | .nil => []
  | .cons _ _ b rest => allBinders b ++ allBindersClosures rest
end

/-- The body of a field projection `match s with { f = b } -> b`. -/
def projBody (fields : List (String × String)) : Expr → Bool
  | .ident b => fields.any fun f => f.2 == b
  | _ => false

def singleRecordOK (scrutPure : Bool) : Alts → Bool
  | .cons (.record fields) b .nil => scrutPure || projBody fields b
  | _ => false

mutual
/-- What the translation to core IR guarantees about matches (vm/src/core/mod.rs:1966-1995
    `translate_top` binds a non-identifier scrutinee to `match_pattern` first; a projection is a
    single record alternative returning its field): every match has a constructor or literal
    alternative, or is a single record alternative whose scrutinee makes no call or whose body is
    one of its binders. -/
def shapeOK : Expr → Bool
  | .const _ => true
  | .ident _ => true
  | .call f args => shapeOK f && shapeOKList args
  | .data _ _ args => shapeOKList args
  | .letE _ e body => shapeOK e && shapeOK body
  | .letRec cs body => shapeOKClosures cs && shapeOK body
  | .matchE s alts =>
    (altsHaveCtorOrLit alts || singleRecordOK (pureE s) alts) && (shapeOK s && shapeOKAlts alts)
  | .cast e => shapeOK e
def shapeOKList : Exprs → Bool
  | .nil => true
  | .cons e es => shapeOK e && shapeOKList es
def shapeOKAlts : Alts → Bool
  | .nil => true
  | .cons _ e rest => shapeOK e && shapeOKAlts rest
def shapeOKClosures : Closures → Bool
  | .nil => true
  | .cons _ _ b rest => shapeOK b && shapeOKClosures rest
end

/-- Indices of the graph nodes carrying symbol `x`. -/
def nodesNamed (st : St) (x : String) : List Nat :=
  (List.range st.nodes.size).filter fun i => st.nodes.getD i none == some x

/-- Symbols are unique (check/src/rename.rs) and referenced only inside their scope: no bound
    symbol has two nodes in the dependency graph. -/
def bindersUnique (e : Expr) : Bool :=
  (allBinders e).all fun x => (nodesNamed (graphOf ruleNow e) x).length ≤ 1

/-- Weaker than uniqueness (the pattern-match compiler duplicates sub-trees, so a symbol can be
    bound at several places and get several nodes): all graph nodes of one bound symbol are
    reachable together. -/
def bindersCoherent (e : Expr) : Bool :=
  let st := graphOf ruleNow e
  let m := reachable st
  (allBinders e).all fun x =>
    (nodesNamed st x).all (fun i => m.getD i true) || (nodesNamed st x).all (fun i => !(m.getD i true))

/-! ### Hypotheses of `unnecessaryAlloc_correct_partial` -/

def isDummy (x : String) : Bool := ("dummy%".toList).isPrefixOf x.toList

mutual
/-- Every identifier occurrence in the expression satisfies `P`. -/
def idsIn (P : String → Bool) : Expr → Bool
  | .const _ => true
  | .ident x => P x
  | .call f args => idsIn P f && idsInList P args
  | .data _ _ args => idsInList P args
  | .letE _ e body => idsIn P e && idsIn P body
  | .letRec cs body => idsInClosures P cs && idsIn P body
  | .matchE s alts => idsIn P s && idsInAlts P alts
  | .cast e => idsIn P e
def idsInList (P : String → Bool) : Exprs → Bool
  | .nil => true
  | .cons e es => idsIn P e && idsInList P es
def idsInAlts (P : String → Bool) : Alts → Bool
  | .nil => true
  | .cons _ e rest => idsIn P e && idsInAlts P rest
def idsInClosures (P : String → Bool) : Closures → Bool
  | .nil => true
  | .cons _ _ b rest => idsIn P b && idsInClosures P rest
end

def lengthE : Exprs → Nat
  | .nil => 0
  | .cons _ es => lengthE es + 1

def nodupB : List String → Bool
  | [] => true
  | x :: xs => !(xs.contains x) && nodupB xs

/-- A rewritten node `match { r₁ = a₁, … } with { f = b } -> body` as the translation produces
    it for a projection out of a record literal: one pattern field, present in the record type,
    whose binder is fresh (check/src/rename.rs) for the field expressions; no symbol of the
    program looks like the optimiser's `dummy`. -/
def targetOK (rows : List String) (args : Exprs) (fields : List (String × String)) (body : Expr) :
    Bool :=
  match fields with
  | [(f, b)] =>
    (findIdx rows f).isSome && nodupB rows && rows.length == lengthE args && !isDummy b &&
      idsInList (fun x => x != b && !isDummy x) args && idsIn (fun x => !isDummy x) body
  | _ => false

mutual
def uaOK : Expr → Bool
  | .const _ => true
  | .ident _ => true
  | .call f args => uaOK f && uaOKList args
  | .data _ _ args => uaOKList args
  | .letE _ e body => uaOK e && uaOK body
  | .letRec cs body => uaOKClosures cs && uaOK body
  | .matchE s alts =>
    match uaTarget s alts with
    | some (rows, args, fields, body) => targetOK rows args fields body
    | none => uaOK s && uaOKAlts alts
  | .cast e => uaOK e
def uaOKList : Exprs → Bool
  | .nil => true
  | .cons e es => uaOK e && uaOKList es
def uaOKAlts : Alts → Bool
  | .nil => true
  | .cons _ e rest => uaOK e && uaOKAlts rest
def uaOKClosures : Closures → Bool
  | .nil => true
  | .cons _ _ b rest => uaOK b && uaOKClosures rest
end

end GluonModel.Dce
