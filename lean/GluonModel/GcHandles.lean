/-
Host-held value handles on top of the heap machine (C05, wave 2).

A `RootedValue` / `OpaqueValue` the host holds is ONE entry of `Thread::rooted_values` of the
handle's thread (vm/src/thread.rs:245-256 `RootedValue::new` pushes the value; `Clone` (:185-193)
pushes another entry for the same object; `Drop` → `unroot_` (:320-329) removes the first entry that
is the same OBJECT — `Value::obj_eq`, value.rs:523: pointer identity for every heap value — by
`swap_remove`). `rooted_values` is traced as a root by every collection that covers the thread
(thread.rs:986). So the host roots of a thread are a multiset keyed by object identity.

The host-level operations expand to steps of `GluonModel.GcMachine`:
  mk      evaluate an expression that builds a fresh value and keep the handle
          (`alloc`* then `root`)
  clone   `root` of the same object
  drop    `unroot` of the handle's object
  field   `RootedValue::get(k)` (thread.rs:283): `root` of the k-th field
  reroot  `RootedValue::re_root` (thread.rs:229): `transfer` into the other thread
  collect `Thread::collect`
No imports but the model.
-/
import GluonModel.GcMachine

namespace GluonModel.GcHeap

inductive HOp where
  /-- shape 0 / 1: one leaf object (a string / an array of ints); 2: a record of a fresh string
      and a fresh array; 3: a record holding the SAME fresh string in both fields -/
  | mk (t : HeapId) (shape : Nat)
  | clone (h : Nat)
  | drop (h : Nat)
  | field (h k : Nat)
  | reroot (h : Nat) (t : HeapId)
  | collect (t : HeapId)
  deriving Repr

structure HState where
  s : State
  /-- handle number ↦ (thread that roots it, object); `none` once dropped / never created -/
  handles : List (Option (HeapId × Nat))

def HState.handle (hs : HState) (h : Nat) : Option (HeapId × Nat) :=
  match hs.handles[h]? with
  | some x => x
  | none => none

/-- The machine steps that build a value of the given shape in heap `t`; the value is the LAST
    object allocated. `n` = the next free id. -/
def mkOps (t : HeapId) (n : Nat) : Nat → List Op
  | 2 => [.alloc t .plain [], .alloc t .plain [], .alloc t .plain [n, n + 1]]
  | 3 => [.alloc t .plain [], .alloc t .plain [n, n]]
  | _ => [.alloc t .plain []]

def setNone : List (Option (HeapId × Nat)) → Nat → List (Option (HeapId × Nat))
  | [], _ => []
  | _ :: r, 0 => none :: r
  | x :: r, h + 1 => x :: setNone r h

def hstep (hs : HState) : HOp → HState
  | .mk t shape =>
    let s1 := run false hs.s (mkOps t hs.s.next shape)
    let v := s1.next - 1
    ⟨step false s1 (.root t v), hs.handles ++ [some (t, v)]⟩
  | .clone h =>
    match hs.handle h with
    | some (t, r) => ⟨step false hs.s (.root t r), hs.handles ++ [some (t, r)]⟩
    | none => ⟨hs.s, hs.handles ++ [none]⟩
  | .drop h =>
    match hs.handle h with
    | some (t, r) => ⟨step false hs.s (.unroot t r), setNone hs.handles h⟩
    | none => hs
  | .field h k =>
    match hs.handle h with
    | some (t, r) =>
      match (succs hs.s r)[k]? with
      | some e => ⟨step false hs.s (.root t e), hs.handles ++ [some (t, e)]⟩
      | none => ⟨hs.s, hs.handles ++ [none]⟩
    | none => ⟨hs.s, hs.handles ++ [none]⟩
  | .reroot h dst =>
    match hs.handle h with
    | some (t, r) =>
      if holds hs.s t r then
        match transfer hs.s true t dst false r with
        | some (s', r') => ⟨s', hs.handles ++ [some (dst, r')]⟩
        | none => ⟨hs.s, hs.handles ++ [none]⟩
      else ⟨hs.s, hs.handles ++ [none]⟩
    | none => ⟨hs.s, hs.handles ++ [none]⟩
  | .collect t => ⟨step false hs.s (.collect t), hs.handles⟩

def hrun (hs : HState) (ops : List HOp) : HState := ops.foldl hstep hs

/-- A fresh VM plus the given threads (parent path, index), no handles. -/
def hinit (threads : List (HeapId × Nat)) : HState :=
  ⟨run false init (threads.map fun (p, i) => Op.spawn p i), []⟩

/-! ### Observations -/

def insertSorted (x : Nat) : List Nat → List Nat
  | [] => [x]
  | y :: r => if x ≤ y then x :: y :: r else y :: insertSorted x r

def sortNat (l : List Nat) : List Nat := l.foldr insertSorted []

/-- The host roots of thread `t`: the entries of its root list that are not child `Thread`
    objects, as a sorted multiset. -/
def hostRoots (s : State) (t : HeapId) : List Nat :=
  sortNat ((s.ids.flatMap fun i =>
    match s.obj i with
    | some o => if o.kind = .thread ∧ o.home = t then o.edges else []
    | none => []).filter fun r => !isThreadObj s r)

/-- The live non-thread objects of the heaps a collection of `t` sweeps. -/
def aliveIn (s : State) (t : HeapId) : List Nat :=
  s.ids.filter fun i =>
    match s.obj i with
    | some o => o.kind != .thread && t.isPrefixOf o.owner
    | none => false

/-- Number of entries for object `x` in the root list of the `Thread` object `i`. -/
def rootCount (s : State) (i x : Nat) : Nat :=
  match s.obj i with
  | some o => o.edges.count x
  | none => 0

/-- `i` is the `Thread` object of thread `t`. -/
def isThreadOf (s : State) (i : Nat) (t : HeapId) : Prop :=
  ∃ o, s.obj i = some o ∧ o.kind = .thread ∧ o.home = t

end GluonModel.GcHeap
