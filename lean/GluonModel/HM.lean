/-
C03 model — Hindley–Milner inference with Gluon's ordered records, row-polymorphic field access,
tuples (records `_0 …`), arrays and the constructors of one declared variant type.

What is mirrored from /repo (file:line of the behaviour each definition reproduces):

* `unify`      first-order unification with occurs check — check/src/unify.rs (`Unifier::try_match`),
               check/src/substitution.rs:`union` (occurs check `occurs`), check/src/unify_type.rs:382
               `do_zip_match` (constructor cases).
* rows         unify_type.rs:470-566: two `ExtendRow`s with the same labels in the same order are
               unified field by field and tail by tail; two *closed* rows are compared positionally
               (records are ordered); everything else goes to `unify_rows` (unify_type.rs:814-928),
               which matches fields BY LABEL, and binds the row variable of the side that lacks fields
               to `{ missing | fresh }`.  `unifyRows` below reproduces it literally — including that
               the fresh tail variables are never related to the other side's tail (lines 880-924:
               `rest = subs.new_var()` twice, nothing is unified with it afterwards).  That is a
               defect of the unchanged code (see Props/C03.lean `unifyRows_unsound_fails`).
* `infer`      algorithm W/J (one threaded substitution = the union-find store, plus the variable
               counter) in the order typecheck.rs visits sub-expressions (typecheck.rs:671
               `typecheck_`: App 701 / 1297, IfElse 720, Tuple 787, Projection 903, Array 951,
               Lambda 967, Record 989, let 1920 `typecheck_let_bindings` + 2363
               `generalize_and_clear_subs`).  The real checker is bidirectional and generalises by
               *level* (typecheck/generalize.rs:80); the model generalises by "free in the type but
               not in the environment", the textbook formulation of the same set.  No value
               restriction (gluon has none: `let p = [] in (p, p) : forall a a0 . (Array a, Array a0)`).
               The `rows` flag switches the by-label path on (`true` = gluon) or off (`false` = plain
               syntactic rows, the algorithm the theorems are first stated for).

Model files import nothing but other model files.
-/
namespace GluonModel.HM

inductive Ty where
  | var (n : Nat)
  | con (c : String)
  | app (f a : Ty)
  | ext (l : String) (t r : Ty)
  | empty
  deriving Repr, DecidableEq, Inhabited

abbrev Subst := Nat → Ty

namespace Ty

def subst (σ : Subst) : Ty → Ty
  | .var n => σ n
  | .con c => .con c
  | .app f a => .app (f.subst σ) (a.subst σ)
  | .ext l t r => .ext l (t.subst σ) (r.subst σ)
  | .empty => .empty

def occurs (a : Nat) : Ty → Bool
  | .var n => n == a
  | .con _ => false
  | .app f x => f.occurs a || x.occurs a
  | .ext _ t r => t.occurs a || r.occurs a
  | .empty => false

def ftv : Ty → List Nat
  | .var n => [n]
  | .con _ => []
  | .app f a => f.ftv ++ a.ftv
  | .ext _ t r => t.ftv ++ r.ftv
  | .empty => []

def size : Ty → Nat
  | .app f a => f.size + a.size + 1
  | .ext _ t r => t.size + r.size + 1
  | _ => 1

end Ty

def tInt : Ty := .con "Int"
def tString : Ty := .con "String"
def tBool : Ty := .con "Bool"
def fn (a b : Ty) : Ty := .app (.app (.con "->") a) b
def tRec (row : Ty) : Ty := .app (.con "Rec") row
def tArr (a : Ty) : Ty := .app (.con "Array") a
def tT (a : Ty) : Ty := .app (.con "T") a

namespace Subst
def id : Subst := Ty.var
/-- apply `σ₁` first, then `σ₂` -/
def comp (σ₂ σ₁ : Subst) : Subst := fun n => (σ₁ n).subst σ₂
def single (a : Nat) (t : Ty) : Subst := fun n => if n = a then t else .var n
end Subst

inductive UErr where
  | clash | occurs | fuel | rows | unbound | badproj
  deriving Repr, DecidableEq, Inhabited

/-- substitution.rs `union`: a variable is bound unless it occurs in the other type. -/
def bindVar (a : Nat) (t : Ty) (n : Nat) : Except UErr (Subst × Nat) :=
  if t = .var a then .ok (Subst.id, n)
  else if t.occurs a then .error .occurs
  else .ok (Subst.single a t, n)

/-! ### rows -/

/-- the fields of a row in order -/
def rowFields : Ty → List (String × Ty)
  | .ext l t r => (l, t) :: rowFields r
  | _ => []

/-- what is left after the fields: `empty` for a closed row, a variable for an open one -/
def rowTail : Ty → Ty
  | .ext _ _ r => rowTail r
  | t => t

def rowBuild (fs : List (String × Ty)) (tail : Ty) : Ty :=
  fs.foldr (fun p acc => .ext p.1 p.2 acc) tail

def lookupField (l : String) : List (String × Ty) → Option Ty
  | [] => none
  | (l', t) :: rest => if l = l' then some t else lookupField l rest

def labels (fs : List (String × Ty)) : List String := fs.map (·.1)

/-- unify_type.rs:482-565: the condition under which `unify_rows` is entered for two rows:
    the label sequences differ and not both rows are closed. -/
def rowsPath (s t : Ty) : Bool :=
  labels (rowFields s) != labels (rowFields t) &&
    !(rowTail s == .empty && rowTail t == .empty)

mutual
/-- First-order unification with occurs check. `n` is the next unused variable (only the by-label
    row path creates variables). The result substitution is idempotent-style: it is to be
    composed after what was known before. -/
def unify (rows : Bool) : Nat → Nat → Ty → Ty → Except UErr (Subst × Nat)
  | 0, _, _, _ => .error .fuel
  | fuel + 1, n, s, t =>
    match s with
    | .var a => bindVar a t n
    | .con c =>
      match t with
      | .var b => bindVar b s n
      | .con d => if c = d then .ok (Subst.id, n) else .error .clash
      | _ => .error .clash
    | .empty =>
      match t with
      | .var b => bindVar b s n
      | .empty => .ok (Subst.id, n)
      | _ => .error .clash
    | .app f a =>
      match t with
      | .var b => bindVar b s n
      | .app g b =>
        match unify rows fuel n f g with
        | .error e => .error e
        | .ok (σ₁, n₁) =>
          match unify rows fuel n₁ (a.subst σ₁) (b.subst σ₁) with
          | .error e => .error e
          | .ok (σ₂, n₂) => .ok (σ₂.comp σ₁, n₂)
      | _ => .error .clash
    | .ext l a r =>
      match t with
      | .var b => bindVar b s n
      | .ext l' a' r' =>
        if rows && rowsPath s t then
          unifyRows rows fuel n s t
        else if l = l' then
          match unify rows fuel n a a' with
          | .error e => .error e
          | .ok (σ₁, n₁) =>
            match unify rows fuel n₁ (r.subst σ₁) (r'.subst σ₁) with
            | .error e => .error e
            | .ok (σ₂, n₂) => .ok (σ₂.comp σ₁, n₂)
        else .error .clash
      | _ => .error .clash

/-- unify the pairs one after the other, threading the substitution -/
def unifyPairs (rows : Bool) : Nat → Nat → List (Ty × Ty) → Except UErr (Subst × Nat)
  | 0, _, _ => .error .fuel
  | _ + 1, n, [] => .ok (Subst.id, n)
  | fuel + 1, n, (a, b) :: rest =>
    match unify rows fuel n a b with
    | .error e => .error e
    | .ok (σ₁, n₁) =>
      match unifyPairs rows fuel n₁ (rest.map fun p => (p.1.subst σ₁, p.2.subst σ₁)) with
      | .error e => .error e
      | .ok (σ₂, n₂) => .ok (σ₂.comp σ₁, n₂)

/-- unify_type.rs:814 `unify_rows`, literally:
    * fields present on both sides are unified (835-839);
    * if the right row lacks fields of the left one: a closed right row is an error (864-879),
      otherwise `rest = new_var()`, and the right tail is unified with `{ missing | rest }` (880-890);
    * the same with the sides exchanged, with ANOTHER `new_var()` (895-924).
    Nothing relates the new `rest` variables to the tail of the side that has the fields, and
    nothing relates the two tails when no field is missing. -/
def unifyRows (rows : Bool) : Nat → Nat → Ty → Ty → Except UErr (Subst × Nat)
  | 0, _, _, _ => .error .fuel
  | fuel + 1, n, s, t =>
    let fs₁ := rowFields s
    let fs₂ := rowFields t
    let both := fs₁.filterMap fun p => (lookupField p.1 fs₂).map fun t₂ => (p.2, t₂)
    let missR := fs₁.filter fun p => !(labels fs₂).contains p.1
    let missL := fs₂.filter fun p => !(labels fs₁).contains p.1
    match unifyPairs rows fuel n both with
    | .error e => .error e
    | .ok (σ₀, n₀) =>
      let stepR : Except UErr (Subst × Nat) :=
        if missR.isEmpty then .ok (σ₀, n₀)
        else if rowTail t == .empty then .error .rows
        else
          match unify rows fuel (n₀ + 1) ((rowBuild missR (.var n₀)).subst σ₀) ((rowTail t).subst σ₀) with
          | .error e => .error e
          | .ok (σ₁, n₁) => .ok (σ₁.comp σ₀, n₁)
      match stepR with
      | .error e => .error e
      | .ok (σ₁, n₁) =>
        if missL.isEmpty then .ok (σ₁, n₁)
        else if rowTail s == .empty then .error .rows
        else
          match unify rows fuel (n₁ + 1) ((rowTail s).subst σ₁) ((rowBuild missL (.var n₁)).subst σ₁) with
          | .error e => .error e
          | .ok (σ₂, n₂) => .ok (σ₂.comp σ₁, n₂)
end

/-! ### expressions -/

inductive Expr where
  | var (x : String)
  | lam (x : String) (b : Expr)
  | app (f a : Expr)
  | letE (x : String) (e b : Expr)
  | int (n : Int)
  | str (s : String)
  | ifE (c t e : Expr)
  | lt (a b : Expr)
  /-- field lists of a record literal (only under `rcd`) -/
  | fnil
  | fcons (l : String) (e : Expr) (rest : Expr)
  | rcd (fields : Expr)
  | proj (e : Expr) (l : String)
  /-- array literals, built left to right -/
  | anil
  | asnoc (init : Expr) (e : Expr)
  | conA
  | conB
  deriving Repr, DecidableEq, Inhabited

structure Scheme where
  vars : List Nat
  ty : Ty
  deriving Repr, DecidableEq, Inhabited

abbrev Env := List (String × Scheme)

def lookup (x : String) : Env → Option Scheme
  | [] => none
  | (y, s) :: rest => if x = y then some s else lookup x rest

def Scheme.mono (t : Ty) : Scheme := ⟨[], t⟩

def Scheme.ftv (s : Scheme) : List Nat := s.ty.ftv.filter fun v => !s.vars.contains v

/-- the variables free in the environment once the current substitution `S` is applied -/
def Env.ftvUnder (S : Subst) (Γ : Env) : List Nat :=
  Γ.flatMap fun p => p.2.ftv.flatMap fun v => (S v).ftv

def indexOf (v : Nat) : List Nat → Nat → Option Nat
  | [], _ => none
  | w :: rest, i => if v = w then some i else indexOf v rest (i + 1)

/-- instantiate the quantified variables with `n, n+1, …` (typecheck.rs:680 `instantiate_sigma`) -/
def inst (s : Scheme) (n : Nat) : Ty × Nat :=
  (s.ty.subst fun v => match indexOf v s.vars 0 with
    | some i => .var (n + i)
    | none => .var v,
   n + s.vars.length)

/-- generalise what is free in the (substituted) type but not in the (substituted) environment
    (typecheck.rs:2363 `generalize_and_clear_subs`; generalize.rs:80 does it by level). -/
def generalize (S : Subst) (Γ : Env) (t : Ty) : Scheme :=
  ⟨(t.subst S).ftv.eraseDups.filter fun v => !(Γ.ftvUnder S).contains v, t.subst S⟩

def unifyFuel : Nat := 4096

/-- unify two types under the current substitution and extend it (the union-find store of
    substitution.rs seen as one composed substitution) -/
def unifyS (rows : Bool) (S : Subst) (n : Nat) (a b : Ty) : Except UErr (Subst × Nat) :=
  match unify rows unifyFuel n (a.subst S) (b.subst S) with
  | .error e => .error e
  | .ok (U, n') => .ok (U.comp S, n')

/-- `some row` for a record type `{ row }` -/
def asRec : Ty → Option Ty
  | .app (.con c) row => if c = "Rec" then some row else none
  | _ => none

def isVar : Ty → Bool
  | .var _ => true
  | _ => false

/-- Type inference with one threaded substitution (the state of the real checker is the
    union-find `Substitution` plus the variable counter `subs.var_id()`): returns the type (NOT yet
    under the substitution), the extended substitution and the next unused variable.  The
    environment is never rewritten; schemes are interpreted under the current substitution. -/
def infer (rows : Bool) : Env → Expr → Subst → Nat → Except UErr (Ty × Subst × Nat)
  | Γ, .var x, S, n =>
    match lookup x Γ with
    | none => .error .unbound
    | some s => let r := inst s n; .ok (r.1, S, r.2)
  | Γ, .lam x b, S, n =>
    match infer rows ((x, Scheme.mono (.var n)) :: Γ) b S (n + 1) with
    | .error e => .error e
    | .ok (τ, S', n') => .ok (fn (.var n) τ, S', n')
  | Γ, .app f a, S, n =>
    match infer rows Γ f S n with
    | .error e => .error e
    | .ok (τf, S₁, n₁) =>
      match infer rows Γ a S₁ n₁ with
      | .error e => .error e
      | .ok (τa, S₂, n₂) =>
        -- typecheck.rs:1360 `subsume_function`: expected = the function's parameter, actual = argument
        match unifyS rows S₂ (n₂ + 1) τf (fn τa (.var n₂)) with
        | .error e => .error e
        | .ok (S₃, n₃) => .ok (.var n₂, S₃, n₃)
  | Γ, .letE x e b, S, n =>
    match infer rows Γ e S n with
    | .error err => .error err
    | .ok (τ₁, S₁, n₁) => infer rows ((x, generalize S₁ Γ τ₁) :: Γ) b S₁ n₁
  | _, .int _, S, n => .ok (tInt, S, n)
  | _, .str _, S, n => .ok (tString, S, n)
  | Γ, .lt a b, S, n =>
    match infer rows Γ a S n with
    | .error e => .error e
    | .ok (τa, S₁, n₁) =>
      match unifyS rows S₁ n₁ tInt τa with
      | .error e => .error e
      | .ok (S₂, n₂) =>
        match infer rows Γ b S₂ n₂ with
        | .error e => .error e
        | .ok (τb, S₃, n₃) =>
          match unifyS rows S₃ n₃ tInt τb with
          | .error e => .error e
          | .ok (S₄, n₄) => .ok (tBool, S₄, n₄)
  | Γ, .ifE c t e, S, n =>
    match infer rows Γ c S n with
    | .error err => .error err
    | .ok (τc, S₁, n₁) =>
      match unifyS rows S₁ n₁ tBool τc with
      | .error err => .error err
      | .ok (S₂, n₂) =>
        match infer rows Γ t S₂ n₂ with
        | .error err => .error err
        | .ok (τt, S₃, n₃) =>
          match infer rows Γ e S₃ n₃ with
          | .error err => .error err
          | .ok (τe, S₄, n₄) =>
            match unifyS rows S₄ n₄ τt τe with
            | .error err => .error err
            | .ok (S₅, n₅) => .ok (τt, S₅, n₅)
  | _, .fnil, S, n => .ok (.empty, S, n)
  | Γ, .fcons l e rest, S, n =>
    match infer rows Γ e S n with
    | .error err => .error err
    | .ok (τ, S₁, n₁) =>
      match infer rows Γ rest S₁ n₁ with
      | .error err => .error err
      | .ok (ρ, S₂, n₂) => .ok (.ext l τ ρ, S₂, n₂)
  | Γ, .rcd fields, S, n =>
    match infer rows Γ fields S n with
    | .error err => .error err
    | .ok (ρ, S', n') => .ok (tRec ρ, S', n')
  | Γ, .proj e l, S, n =>
    match infer rows Γ e S n with
    | .error err => .error err
    | .ok (τ, S₁, n₁) =>
      -- typecheck.rs:914-943: a record that has the field gives the field's type; a variable or a
      -- record without the field is unified with `{ l : φ | ρ }` (new record = expected side)
      let viaUnify : Except UErr (Ty × Subst × Nat) :=
        match unifyS rows S₁ (n₁ + 2) (tRec (.ext l (.var n₁) (.var (n₁ + 1)))) τ with
        | .error err => .error err
        | .ok (S₂, n₂) => .ok (.var n₁, S₂, n₂)
      match asRec (τ.subst S₁) with
      | some row =>
        match lookupField l (rowFields row) with
        | some τl => .ok (τl, S₁, n₁)
        | none => viaUnify
      | none => if isVar (τ.subst S₁) then viaUnify else .error .badproj
  | _, .anil, S, n => .ok (tArr (.var n), S, n + 1)
  | Γ, .asnoc init e, S, n =>
    match infer rows Γ init S n with
    | .error err => .error err
    | .ok (τi, S₁, n₁) =>
      match infer rows Γ e S₁ n₁ with
      | .error err => .error err
      | .ok (τe, S₂, n₂) =>
        -- typecheck.rs:960: every element is checked against the element type so far
        match unifyS rows S₂ n₂ τi (tArr τe) with
        | .error err => .error err
        | .ok (S₃, n₃) => .ok (τi, S₃, n₃)
  | _, .conA, S, n => .ok (fn (.var n) (tT (.var n)), S, n + 1)
  | _, .conB, S, n => .ok (tT (.var n), S, n + 1)

/-! ### canonical renaming (what the harness does to the reported type) -/

def canonGo : Ty → List Nat → Ty × List Nat
  | .var n, m =>
    match indexOf n m 0 with
    | some i => (.var i, m)
    | none => (.var m.length, m ++ [n])
  | .con c, m => (.con c, m)
  | .empty, m => (.empty, m)
  | .app f a, m =>
    let r₁ := canonGo f m
    let r₂ := canonGo a r₁.2
    (.app r₁.1 r₂.1, r₂.2)
  | .ext l t r, m =>
    let r₁ := canonGo t m
    let r₂ := canonGo r r₁.2
    (.ext l r₁.1 r₂.1, r₂.2)

/-- variables numbered by first occurrence -/
def canon (t : Ty) : Ty := (canonGo t []).1

/-- the answer of the model for a closed program -/
def inferTop (rows : Bool) (e : Expr) : Option Ty :=
  match infer rows [] e Subst.id 0 with
  | .ok (τ, S, _) => some (canon (τ.subst S))
  | .error _ => none

/-! ### the declarative system (specification)

Environments map a variable to the SET of its types (`Ty → Prop`): a lambda-bound variable has
exactly one type, a let-bound variable has a NON-EMPTY set of types of its right-hand side (so the
right-hand side must itself be typable) — the semantic
reading of a type scheme `∀ᾱ.τ` as the set of its instances.  This is Hindley–Milner's `let`
rule without binders: no bound type variables, hence no capture side conditions. -/

abbrev SEnv := List (String × (Ty → Prop))

def slookup (x : String) : SEnv → Option (Ty → Prop)
  | [] => none
  | (y, P) :: rest => if x = y then some P else slookup x rest

/-- the row has field `l` of type `t` (first occurrence) -/
inductive HasField : Ty → String → Ty → Prop where
  | here (l : String) (t r : Ty) : HasField (.ext l t r) l t
  | there (l l' : String) (t t' r : Ty) : l ≠ l' → HasField r l t → HasField (.ext l' t' r) l t

inductive HasType : SEnv → Expr → Ty → Prop where
  | var (Δ : SEnv) (x : String) (P : Ty → Prop) (τ : Ty) :
      slookup x Δ = some P → P τ → HasType Δ (.var x) τ
  | lam (Δ : SEnv) (x : String) (b : Expr) (a τ : Ty) :
      HasType ((x, fun t => t = a) :: Δ) b τ → HasType Δ (.lam x b) (fn a τ)
  | app (Δ : SEnv) (f e : Expr) (a τ : Ty) :
      HasType Δ f (fn a τ) → HasType Δ e a → HasType Δ (.app f e) τ
  | letE (Δ : SEnv) (x : String) (e b : Expr) (P : Ty → Prop) (τ : Ty) :
      (∃ τ₁, P τ₁) → (∀ τ₁, P τ₁ → HasType Δ e τ₁) → HasType ((x, P) :: Δ) b τ →
      HasType Δ (.letE x e b) τ
  | int (Δ : SEnv) (n : Int) : HasType Δ (.int n) tInt
  | str (Δ : SEnv) (s : String) : HasType Δ (.str s) tString
  | lt (Δ : SEnv) (a b : Expr) :
      HasType Δ a tInt → HasType Δ b tInt → HasType Δ (.lt a b) tBool
  | ifE (Δ : SEnv) (c t e : Expr) (τ : Ty) :
      HasType Δ c tBool → HasType Δ t τ → HasType Δ e τ → HasType Δ (.ifE c t e) τ
  | fnil (Δ : SEnv) : HasType Δ .fnil .empty
  | fcons (Δ : SEnv) (l : String) (e rest : Expr) (τ ρ : Ty) :
      HasType Δ e τ → HasType Δ rest ρ → HasType Δ (.fcons l e rest) (.ext l τ ρ)
  | rcd (Δ : SEnv) (f : Expr) (ρ : Ty) : HasType Δ f ρ → HasType Δ (.rcd f) (tRec ρ)
  | proj (Δ : SEnv) (e : Expr) (l : String) (ρ τ : Ty) :
      HasType Δ e (tRec ρ) → HasField ρ l τ → HasType Δ (.proj e l) τ
  | anil (Δ : SEnv) (τ : Ty) : HasType Δ .anil (tArr τ)
  | asnoc (Δ : SEnv) (init e : Expr) (τ : Ty) :
      HasType Δ init (tArr τ) → HasType Δ e τ → HasType Δ (.asnoc init e) (tArr τ)
  | conA (Δ : SEnv) (τ : Ty) : HasType Δ .conA (fn τ (tT τ))
  | conB (Δ : SEnv) (τ : Ty) : HasType Δ .conB (tT τ)

/-- the set of instances of a scheme under a substitution `R` of its free variables -/
def Den (s : Scheme) (R : Subst) (τ : Ty) : Prop :=
  ∃ R' : Subst, (∀ v, v ∈ s.ty.ftv → v ∉ s.vars → R' v = R v) ∧ τ = s.ty.subst R'

/-- the semantic environment denoted by a syntactic one under `R` -/
def denote (R : Subst) (Γ : Env) : SEnv := Γ.map fun p => (p.1, Den p.2 R)

end GluonModel.HM
