/-
C03 model — Hindley–Milner inference with Gluon's ordered records, row-polymorphic field access,
tuples (records `_0 …`), arrays and the constructors of one declared variant type.

What is mirrored from /repo (file:line of the behaviour each definition reproduces):

* `unify`      first-order unification with occurs check — check/src/unify.rs (`Unifier::try_match`),
               check/src/substitution.rs:`union` (occurs check `occurs`), check/src/unify_type.rs:382
               `do_zip_match` (constructor cases).
* rows         unify_type.rs:470-566: two `ExtendRow`s with the same labels in the same order are
               unified field by field and tail by tail; two *closed* rows are compared positionally
               (records are ordered); everything else goes to `unify_rows` (unify_type.rs:814-928),
               which matches fields BY LABEL, and binds the row variable of the side that lacks fields
               to `{ missing | fresh }`.  `unifyRows` below reproduces it literally — including that
               the fresh tail variables are never related to the other side's tail (lines 880-924:
               `rest = subs.new_var()` twice, nothing is unified with it afterwards).  That is a
               defect of the unchanged code (see Props/C03.lean `unifyRows_unsound_fails`).
* `infer`      algorithm W in the order typecheck.rs visits sub-expressions (typecheck.rs:671
               `typecheck_`: App 701 / 1297, IfElse 720, Tuple 787, Projection 903, Array 951,
               Lambda 967, Record 989, let 1920 `typecheck_let_bindings` + 2363
               `generalize_and_clear_subs`).  The real checker is bidirectional and generalises by
               *level* (typecheck/generalize.rs:80); the model generalises by "free in the type but
               not in the environment", the textbook formulation of the same set.  No value
               restriction (gluon has none: `let p = [] in (p, p) : forall a a0 . (Array a, Array a0)`).
               The `rows` flag switches the by-label path on (`true` = gluon) or off (`false` = plain
               syntactic rows, the algorithm the theorems are first stated for).

Model files import nothing but other model files.
-/
namespace GluonModel.HM

inductive Ty where
  | var (n : Nat)
  | con (c : String)
  | app (f a : Ty)
  | ext (l : String) (t r : Ty)
  | empty
  deriving Repr, DecidableEq, Inhabited

abbrev Subst := Nat → Ty

namespace Ty

def subst (σ : Subst) : Ty → Ty
  | .var n => σ n
  | .con c => .con c
  | .app f a => .app (f.subst σ) (a.subst σ)
  | .ext l t r => .ext l (t.subst σ) (r.subst σ)
  | .empty => .empty

def occurs (a : Nat) : Ty → Bool
  | .var n => n == a
  | .con _ => false
  | .app f x => f.occurs a || x.occurs a
  | .ext _ t r => t.occurs a || r.occurs a
  | .empty => false

def ftv : Ty → List Nat
  | .var n => [n]
  | .con _ => []
  | .app f a => f.ftv ++ a.ftv
  | .ext _ t r => t.ftv ++ r.ftv
  | .empty => []

def size : Ty → Nat
  | .app f a => f.size + a.size + 1
  | .ext _ t r => t.size + r.size + 1
  | _ => 1

end Ty

def tInt : Ty := .con "Int"
def tString : Ty := .con "String"
def tBool : Ty := .con "Bool"
def fn (a b : Ty) : Ty := .app (.app (.con "->") a) b
def tRec (row : Ty) : Ty := .app (.con "Rec") row
def tArr (a : Ty) : Ty := .app (.con "Array") a
def tT (a : Ty) : Ty := .app (.con "T") a

namespace Subst
def id : Subst := Ty.var
/-- apply `σ₁` first, then `σ₂` -/
def comp (σ₂ σ₁ : Subst) : Subst := fun n => (σ₁ n).subst σ₂
def single (a : Nat) (t : Ty) : Subst := fun n => if n = a then t else .var n
end Subst

inductive UErr where
  | clash | occurs | fuel | rows | unbound | badproj
  deriving Repr, DecidableEq, Inhabited

/-- substitution.rs `union`: a variable is bound unless it occurs in the other type. -/
def bindVar (a : Nat) (t : Ty) (n : Nat) : Except UErr (Subst × Nat) :=
  if t = .var a then .ok (Subst.id, n)
  else if t.occurs a then .error .occurs
  else .ok (Subst.single a t, n)

/-! ### rows -/

/-- the fields of a row in order -/
def rowFields : Ty → List (String × Ty)
  | .ext l t r => (l, t) :: rowFields r
  | _ => []

/-- what is left after the fields: `empty` for a closed row, a variable for an open one -/
def rowTail : Ty → Ty
  | .ext _ _ r => rowTail r
  | t => t

def rowBuild (fs : List (String × Ty)) (tail : Ty) : Ty :=
  fs.foldr (fun p acc => .ext p.1 p.2 acc) tail

def lookupField (l : String) : List (String × Ty) → Option Ty
  | [] => none
  | (l', t) :: rest => if l = l' then some t else lookupField l rest

def labels (fs : List (String × Ty)) : List String := fs.map (·.1)

/-- unify_type.rs:482-565: the condition under which `unify_rows` is entered for two rows:
    the label sequences differ and not both rows are closed. -/
def rowsPath (s t : Ty) : Bool :=
  labels (rowFields s) != labels (rowFields t) &&
    !(rowTail s == .empty && rowTail t == .empty)

mutual
/-- First-order unification with occurs check. `n` is the next unused variable (only the by-label
    row path creates variables). The result substitution is idempotent-style: it is to be
    composed after what was known before. -/
def unify (rows : Bool) : Nat → Nat → Ty → Ty → Except UErr (Subst × Nat)
  | 0, _, _, _ => .error .fuel
  | fuel + 1, n, s, t =>
    match s with
    | .var a => bindVar a t n
    | .con c =>
      match t with
      | .var b => bindVar b s n
      | .con d => if c = d then .ok (Subst.id, n) else .error .clash
      | _ => .error .clash
    | .empty =>
      match t with
      | .var b => bindVar b s n
      | .empty => .ok (Subst.id, n)
      | _ => .error .clash
    | .app f a =>
      match t with
      | .var b => bindVar b s n
      | .app g b =>
        match unify rows fuel n f g with
        | .error e => .error e
        | .ok (σ₁, n₁) =>
          match unify rows fuel n₁ (a.subst σ₁) (b.subst σ₁) with
          | .error e => .error e
          | .ok (σ₂, n₂) => .ok (σ₂.comp σ₁, n₂)
      | _ => .error .clash
    | .ext l a r =>
      match t with
      | .var b => bindVar b s n
      | .ext l' a' r' =>
        if rows && rowsPath s t then
          unifyRows rows fuel n s t
        else if l = l' then
          match unify rows fuel n a a' with
          | .error e => .error e
          | .ok (σ₁, n₁) =>
            match unify rows fuel n₁ (r.subst σ₁) (r'.subst σ₁) with
            | .error e => .error e
            | .ok (σ₂, n₂) => .ok (σ₂.comp σ₁, n₂)
        else .error .clash
      | _ => .error .clash

/-- unify the pairs one after the other, threading the substitution -/
def unifyPairs (rows : Bool) : Nat → Nat → List (Ty × Ty) → Except UErr (Subst × Nat)
  | 0, _, _ => .error .fuel
  | _ + 1, n, [] => .ok (Subst.id, n)
  | fuel + 1, n, (a, b) :: rest =>
    match unify rows fuel n a b with
    | .error e => .error e
    | .ok (σ₁, n₁) =>
      match unifyPairs rows fuel n₁ (rest.map fun p => (p.1.subst σ₁, p.2.subst σ₁)) with
      | .error e => .error e
      | .ok (σ₂, n₂) => .ok (σ₂.comp σ₁, n₂)

/-- unify_type.rs:814 `unify_rows`, literally:
    * fields present on both sides are unified (835-839);
    * if the right row lacks fields of the left one: a closed right row is an error (864-879),
      otherwise `rest = new_var()`, and the right tail is unified with `{ missing | rest }` (880-890);
    * the same with the sides exchanged, with ANOTHER `new_var()` (895-924).
    Nothing relates the new `rest` variables to the tail of the side that has the fields, and
    nothing relates the two tails when no field is missing. -/
def unifyRows (rows : Bool) : Nat → Nat → Ty → Ty → Except UErr (Subst × Nat)
  | 0, _, _, _ => .error .fuel
  | fuel + 1, n, s, t =>
    let fs₁ := rowFields s
    let fs₂ := rowFields t
    let both := fs₁.filterMap fun p => (lookupField p.1 fs₂).map fun t₂ => (p.2, t₂)
    let missR := fs₁.filter fun p => !(labels fs₂).contains p.1
    let missL := fs₂.filter fun p => !(labels fs₁).contains p.1
    match unifyPairs rows fuel n both with
    | .error e => .error e
    | .ok (σ₀, n₀) =>
      let stepR : Except UErr (Subst × Nat) :=
        if missR.isEmpty then .ok (σ₀, n₀)
        else if rowTail t == .empty then .error .rows
        else
          match unify rows fuel (n₀ + 1) ((rowBuild missR (.var n₀)).subst σ₀) ((rowTail t).subst σ₀) with
          | .error e => .error e
          | .ok (σ₁, n₁) => .ok (σ₁.comp σ₀, n₁)
      match stepR with
      | .error e => .error e
      | .ok (σ₁, n₁) =>
        if missL.isEmpty then .ok (σ₁, n₁)
        else if rowTail s == .empty then .error .rows
        else
          match unify rows fuel (n₁ + 1) ((rowTail s).subst σ₁) ((rowBuild missL (.var n₁)).subst σ₁) with
          | .error e => .error e
          | .ok (σ₂, n₂) => .ok (σ₂.comp σ₁, n₂)
end

/-! ### expressions -/

inductive Expr where
  | var (x : String)
  | lam (x : String) (b : Expr)
  | app (f a : Expr)
  | letE (x : String) (e b : Expr)
  | int (n : Int)
  | str (s : String)
  | ifE (c t e : Expr)
  | lt (a b : Expr)
  /-- field lists of a record literal (only under `rcd`) -/
  | fnil
  | fcons (l : String) (e : Expr) (rest : Expr)
  | rcd (fields : Expr)
  | proj (e : Expr) (l : String)
  /-- array literals, built left to right -/
  | anil
  | asnoc (init : Expr) (e : Expr)
  | conA
  | conB
  deriving Repr, DecidableEq, Inhabited

structure Scheme where
  vars : List Nat
  ty : Ty
  deriving Repr, DecidableEq, Inhabited

abbrev Env := List (String × Scheme)

def lookup (x : String) : Env → Option Scheme
  | [] => none
  | (y, s) :: rest => if x = y then some s else lookup x rest

def Scheme.mono (t : Ty) : Scheme := ⟨[], t⟩

def Scheme.subst (σ : Subst) (s : Scheme) : Scheme :=
  ⟨s.vars, s.ty.subst fun n => if n ∈ s.vars then .var n else σ n⟩

def Env.subst (σ : Subst) (Γ : Env) : Env := Γ.map fun p => (p.1, p.2.subst σ)

def Scheme.ftv (s : Scheme) : List Nat := s.ty.ftv.filter fun v => !s.vars.contains v

def Env.ftv (Γ : Env) : List Nat := Γ.flatMap fun p => p.2.ftv

def indexOf (v : Nat) : List Nat → Nat → Option Nat
  | [], _ => none
  | w :: rest, i => if v = w then some i else indexOf v rest (i + 1)

/-- instantiate the quantified variables with `n, n+1, …` (typecheck.rs:680 `instantiate_sigma`) -/
def inst (s : Scheme) (n : Nat) : Ty × Nat :=
  (s.ty.subst fun v => match indexOf v s.vars 0 with
    | some i => .var (n + i)
    | none => .var v,
   n + s.vars.length)

/-- generalise what is free in the type but not in the environment (typecheck.rs:2363
    `generalize_and_clear_subs`; generalize.rs:80 does it by level). -/
def generalize (Γ : Env) (t : Ty) : Scheme :=
  ⟨t.ftv.eraseDups.filter fun v => !Γ.ftv.contains v, t⟩

def unifyFuel : Nat := 4096

/-- Algorithm W. Returns the substitution, the type (already under the substitution) and the next
    unused variable. -/
def infer (rows : Bool) : Env → Expr → Nat → Except UErr (Subst × Ty × Nat)
  | Γ, .var x, n =>
    match lookup x Γ with
    | none => .error .unbound
    | some s => let r := inst s n; .ok (Subst.id, r.1, r.2)
  | Γ, .lam x b, n =>
    match infer rows ((x, Scheme.mono (.var n)) :: Γ) b (n + 1) with
    | .error e => .error e
    | .ok (σ, τ, n') => .ok (σ, fn (σ n) τ, n')
  | Γ, .app f a, n =>
    match infer rows Γ f n with
    | .error e => .error e
    | .ok (σ₁, τf, n₁) =>
      match infer rows (Γ.subst σ₁) a n₁ with
      | .error e => .error e
      | .ok (σ₂, τa, n₂) =>
        -- typecheck.rs:1360 `subsume_function`: expected = the function's parameter, actual = argument
        match unify rows unifyFuel (n₂ + 1) (τf.subst σ₂) (fn τa (.var n₂)) with
        | .error e => .error e
        | .ok (σ₃, n₃) => .ok (σ₃.comp (σ₂.comp σ₁), σ₃ n₂, n₃)
  | Γ, .letE x e b, n =>
    match infer rows Γ e n with
    | .error err => .error err
    | .ok (σ₁, τ₁, n₁) =>
      let Γ₁ := Γ.subst σ₁
      match infer rows ((x, generalize Γ₁ τ₁) :: Γ₁) b n₁ with
      | .error err => .error err
      | .ok (σ₂, τ₂, n₂) => .ok (σ₂.comp σ₁, τ₂, n₂)
  | _, .int _, n => .ok (Subst.id, tInt, n)
  | _, .str _, n => .ok (Subst.id, tString, n)
  | Γ, .lt a b, n =>
    match infer rows Γ a n with
    | .error e => .error e
    | .ok (σ₁, τa, n₁) =>
      match unify rows unifyFuel n₁ tInt τa with
      | .error e => .error e
      | .ok (σ₂, n₂) =>
        let σ₁₂ := σ₂.comp σ₁
        match infer rows (Γ.subst σ₁₂) b n₂ with
        | .error e => .error e
        | .ok (σ₃, τb, n₃) =>
          match unify rows unifyFuel n₃ tInt τb with
          | .error e => .error e
          | .ok (σ₄, n₄) => .ok (σ₄.comp (σ₃.comp σ₁₂), tBool, n₄)
  | Γ, .ifE c t e, n =>
    match infer rows Γ c n with
    | .error err => .error err
    | .ok (σ₁, τc, n₁) =>
      match unify rows unifyFuel n₁ tBool τc with
      | .error err => .error err
      | .ok (σ₂, n₂) =>
        let σ₁₂ := σ₂.comp σ₁
        match infer rows (Γ.subst σ₁₂) t n₂ with
        | .error err => .error err
        | .ok (σ₃, τt, n₃) =>
          let σ₁₃ := σ₃.comp σ₁₂
          match infer rows (Γ.subst σ₁₃) e n₃ with
          | .error err => .error err
          | .ok (σ₄, τe, n₄) =>
            match unify rows unifyFuel n₄ (τt.subst σ₄) τe with
            | .error err => .error err
            | .ok (σ₅, n₅) => .ok (σ₅.comp (σ₄.comp σ₁₃), (τt.subst σ₄).subst σ₅, n₅)
  | _, .fnil, n => .ok (Subst.id, .empty, n)
  | Γ, .fcons l e rest, n =>
    match infer rows Γ e n with
    | .error err => .error err
    | .ok (σ₁, τ, n₁) =>
      match infer rows (Γ.subst σ₁) rest n₁ with
      | .error err => .error err
      | .ok (σ₂, ρ, n₂) => .ok (σ₂.comp σ₁, .ext l (τ.subst σ₂) ρ, n₂)
  | Γ, .rcd fields, n =>
    match infer rows Γ fields n with
    | .error err => .error err
    | .ok (σ, ρ, n') => .ok (σ, tRec ρ, n')
  | Γ, .proj e l, n =>
    match infer rows Γ e n with
    | .error err => .error err
    | .ok (σ₁, τ, n₁) =>
      -- typecheck.rs:914-943: a record that has the field gives the field's type; a variable or a
      -- record without the field is unified with `{ l : φ | ρ }` (new record = expected side)
      let viaUnify : Except UErr (Subst × Ty × Nat) :=
        match unify rows unifyFuel (n₁ + 2) (tRec (.ext l (.var n₁) (.var (n₁ + 1)))) τ with
        | .error err => .error err
        | .ok (σ₂, n₂) => .ok (σ₂.comp σ₁, σ₂ n₁, n₂)
      match τ with
      | .app (.con "Rec") row =>
        match lookupField l (rowFields row) with
        | some τl => .ok (σ₁, τl, n₁)
        | none => viaUnify
      | .var _ => viaUnify
      | _ => .error .badproj
  | _, .anil, n => .ok (Subst.id, tArr (.var n), n + 1)
  | Γ, .asnoc init e, n =>
    match infer rows Γ init n with
    | .error err => .error err
    | .ok (σ₁, τi, n₁) =>
      match infer rows (Γ.subst σ₁) e n₁ with
      | .error err => .error err
      | .ok (σ₂, τe, n₂) =>
        -- typecheck.rs:960: every element is checked against the element type so far
        match unify rows unifyFuel n₂ (τi.subst σ₂) (tArr τe) with
        | .error err => .error err
        | .ok (σ₃, n₃) => .ok (σ₃.comp (σ₂.comp σ₁), (τi.subst σ₂).subst σ₃, n₃)
  | _, .conA, n => .ok (Subst.id, fn (.var n) (tT (.var n)), n + 1)
  | _, .conB, n => .ok (Subst.id, tT (.var n), n + 1)

/-! ### canonical renaming (what the harness does to the reported type) -/

def canonGo : Ty → List Nat → Ty × List Nat
  | .var n, m =>
    match indexOf n m 0 with
    | some i => (.var i, m)
    | none => (.var m.length, m ++ [n])
  | .con c, m => (.con c, m)
  | .empty, m => (.empty, m)
  | .app f a, m =>
    let r₁ := canonGo f m
    let r₂ := canonGo a r₁.2
    (.app r₁.1 r₂.1, r₂.2)
  | .ext l t r, m =>
    let r₁ := canonGo t m
    let r₂ := canonGo r r₁.2
    (.ext l r₁.1 r₂.1, r₂.2)

/-- variables numbered by first occurrence -/
def canon (t : Ty) : Ty := (canonGo t []).1

/-- the answer of the model for a closed program -/
def inferTop (rows : Bool) (e : Expr) : Option Ty :=
  match infer rows [] e 0 with
  | .ok (_, τ, _) => some (canon τ)
  | .error _ => none

end GluonModel.HM
