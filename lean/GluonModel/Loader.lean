/-
Resolution of the globals a compiled module refers to, when a deserialised module is turned into
a closure.

Rust source mirrored here: vm/src/vm.rs:53-73 `new_bytecode`

    let globals = module_globals.into_iter().map(|index| {
            env.get_global(index.definition_name())
                .expect("ICE: Global is missing from environment")
                .value
        }).collect::<Vec<_>>();

called from `GlobalVmState::new_global_thunk` (vm/src/vm.rs:614-626, with the `gc` mutex and the
interner lock held) which `Precompiled::run_expr` (src/compiler_pipeline.rs:1024-1060) calls on
the deserialised module. `Option::expect` on `None` panics: that is the `panic` outcome.
-/
import GluonModel.Share

namespace GluonModel.Loader
open GluonModel.Share (lookup)

inductive Outcome where
  | ok (values : List Nat)
  | error
  | panic
  deriving Repr, DecidableEq, Inhabited

/-- The code as it is. -/
def resolveGlobals (env : List (String × Nat)) : List String → Outcome
  | [] => .ok []
  | g :: gs =>
    match lookup g env with
    | none => .panic
    | some v =>
      match resolveGlobals env gs with
      | .ok vs => .ok (v :: vs)
      | o => o

/-- The minimal repair: `ok_or_else(…)?` instead of `expect`. -/
def resolveGlobalsFixed (env : List (String × Nat)) : List String → Outcome
  | [] => .ok []
  | g :: gs =>
    match lookup g env with
    | none => .error
    | some v =>
      match resolveGlobalsFixed env gs with
      | .ok vs => .ok (v :: vs)
      | o => o

end GluonModel.Loader
