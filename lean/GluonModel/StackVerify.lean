/-
C07 model, part (ii): the frame height of a bytecode function.

`CompiledFunction.max_stack_size` (vm/src/compiler.rs:127) is computed while *emitting* code
(`FunctionEnv::emit` 287-308 adds `Instruction::adjust()`, `increase_stack` 310-315 keeps the
maximum, several places patch `stack_size` by hand: 726, 735, 762, 985, 1000).  `add_new_frame`
(vm/src/stack.rs:937) trusts it.  Here the effect of every instruction on the height of the
running frame is transcribed from the interpreter loop (vm/src/thread.rs `execute_`, 2157-2525) —
not from `adjust` — and a verifier checks a function against its declared bound on all paths.

A height certificate gives the frame height before every reachable pc; `check` validates it
locally; `infer` computes one (depth-first, with fuel); `verify = infer ≫ check`.
-/
namespace GluonModel.StackVerify

inductive Instr where
  /-- PushInt/PushByte/PushFloat/PushString/PushUpVar (thread.rs:2171-2182, 2496) -/
  | pushc
  /-- Push(i): copies frame slot i (2158-2170) -/
  | push (i : Nat)
  /-- Call(n): function + n arguments are replaced by the result (2183-2187, return 2549) -/
  | call (n : Nat)
  /-- TailCall(n) (2188-2219): leaves the function -/
  | tailcall (n : Nat)
  /-- ConstructVariant/PolyVariant/Record/Array with `args` operands (2220-2278, 2336-2348) -/
  | construct (args : Nat)
  /-- NewVariant/NewRecord/NewClosure: push an uninitialised object (2279-2315, 2458-2473) -/
  | new
  /-- GetOffset/GetField (2349-2370) -/
  | get
  /-- Split of a value with k fields (2410-2424); k comes from the annotation -/
  | split (k : Nat)
  /-- TestTag/TestPolyTag (2371-2409): pushes the answer, keeps the value -/
  | test
  | jump (t : Nat)
  /-- CJump(t) (2429-2435): pops; falls through on tag 0, jumps otherwise -/
  | cjump (t : Nat)
  | pop (n : Nat)
  /-- Slide(n) (stack.rs:493-498): keep the top, drop n below it -/
  | slide (n : Nat)
  /-- MakeClosure (2441-2457): pops the upvars, pushes the closure -/
  | makeclosure (upvars : Nat)
  /-- CloseClosure(n) (2474-2495): pops n upvars and the pushed copy of the closure -/
  | closeclosure (n : Nat)
  /-- the 18 arithmetic/comparison instructions (2500-2519, `binop` 2859-2875) -/
  | binop
  | ret
  /-- CloseData pops `data.fields.len()` values, which the instruction does not carry: rejected -/
  | closedata
  deriving Repr, DecidableEq, Inhabited

/-- Number of operands the instruction takes from the frame. -/
def Instr.needs : Instr → Nat
  | .pushc => 0 | .push _ => 0 | .call n => n + 1 | .tailcall n => n + 1
  | .construct a => a | .new => 0 | .get => 1 | .split _ => 1 | .test => 1
  | .jump _ => 0 | .cjump _ => 1 | .pop n => n | .slide n => n + 1
  | .makeclosure u => u | .closeclosure n => n + 1 | .binop => 2 | .ret => 1
  | .closedata => 0

/-- The instruction can execute at frame height `h` without touching a slot outside the frame. -/
def Instr.okAt (i : Instr) (h : Nat) : Bool :=
  match i with
  | .push j => j < h
  | .closedata => false
  | i => i.needs ≤ h

/-- Frame height after the instruction (for `call`: after the callee has returned). -/
def Instr.after (i : Instr) (h : Nat) : Nat :=
  match i with
  | .pushc => h + 1 | .push _ => h + 1 | .call n => h - n | .tailcall n => h - n
  | .construct a => h - a + 1 | .new => h + 1 | .get => h | .split k => h - 1 + k
  | .test => h + 1 | .jump _ => h | .cjump _ => h - 1 | .pop n => h - n | .slide n => h - n
  | .makeclosure u => h - u + 1 | .closeclosure n => h - (n + 1) | .binop => h - 1 | .ret => h
  | .closedata => h

/-- Successor pcs inside the function. -/
def Instr.succs (i : Instr) (pc : Nat) : List Nat :=
  match i with
  | .jump t => [t]
  | .cjump t => [pc + 1, t]
  | .tailcall _ => []
  | .ret => []
  | _ => [pc + 1]

structure Fn where
  args : Nat
  max : Nat
  code : List Instr
  deriving Repr, Inhabited

/-- Executions of one activation of `f`, as far as (pc, frame height) goes: it starts at pc 0 with
    its arguments in the frame (`enter_scope(args)`), and every instruction moves as above. -/
inductive Reach (f : Fn) : Nat → Nat → Prop where
  | entry : Reach f 0 f.args
  | step {pc h : Nat} {i : Instr} {pc' : Nat} :
      Reach f pc h → f.code[pc]? = some i → pc' ∈ i.succs pc → Reach f pc' (i.after h)

/-- Local validity of a certificate `hs` (height before each pc; `none` = unreachable). -/
def checkAt (f : Fn) (hs : List (Option Nat)) (pc : Nat) : Bool :=
  match hs[pc]?, f.code[pc]? with
  | some (some h), some i =>
    i.okAt h && decide (h ≤ f.max) && decide (i.after h ≤ f.max) &&
      (i.succs pc).all (fun pc' => pc' < f.code.length && hs[pc']? == some (some (i.after h)))
  | some none, some _ => true
  | _, _ => false

def check (f : Fn) (hs : List (Option Nat)) : Bool :=
  hs.length == f.code.length && decide (0 < f.code.length) && hs[0]? == some (some f.args) &&
    (List.range f.code.length).all (checkAt f hs)

/-- Depth-first propagation of heights from the entry; `none` on a join mismatch, a pc out of
    range or exhausted fuel. -/
def inferLoop (f : Fn) : Nat → List (Nat × Nat) → List (Option Nat) → Option (List (Option Nat))
  | _, [], hs => some hs
  | 0, _ :: _, _ => none
  | fuel + 1, (pc, h) :: todo, hs =>
    match hs[pc]?, f.code[pc]? with
    | some (some h'), some _ => if h' = h then inferLoop f fuel todo hs else none
    | some none, some i =>
      inferLoop f fuel ((i.succs pc).map (fun pc' => (pc', i.after h)) ++ todo) (hs.set pc (some h))
    | _, _ => none

def infer (f : Fn) : Option (List (Option Nat)) :=
  inferLoop f (3 * f.code.length + 3) [(0, f.args)] (List.replicate f.code.length none)

def verify (f : Fn) : Bool :=
  match infer f with
  | some hs => check f hs
  | none => false

/-- Largest height that occurs (before or after an instruction) according to a certificate. -/
def peakOf (f : Fn) (hs : List (Option Nat)) : Nat :=
  (List.range f.code.length).foldl (fun acc pc =>
    match hs[pc]?, f.code[pc]? with
    | some (some h), some i => max acc (max h (i.after h))
    | _, _ => acc) f.args

/-- All control transfers inside a function go forward (true of everything the compiler emits:
    match alternatives and `&&`/`||` only jump ahead). -/
def forward (f : Fn) : Bool :=
  (List.range f.code.length).all (fun pc =>
    match f.code[pc]? with
    | some i => (i.succs pc).all (fun pc' => pc < pc')
    | none => true)

/-- A run of `n` instruction steps inside one activation. -/
inductive Steps (f : Fn) : Nat → Nat → Nat → Prop where
  | refl (pc : Nat) : Steps f pc pc 0
  | cons {pc pc' pc'' n : Nat} {i : Instr} :
      f.code[pc]? = some i → pc' ∈ i.succs pc → Steps f pc' pc'' n → Steps f pc pc'' (n + 1)

end GluonModel.StackVerify
