/-
`Locks` — which locks the VM operations take, in which order, and what that means for deadlock.

The locks (vm/src/thread.rs:456-480 `struct Thread`): per Gluon thread `t`
  `ctx t`       `Thread.context : Mutex<Context>`            (thread.rs:480)
  `children t`  `Thread.child_threads : RwLock<ThreadSlab>`  (thread.rs:474)
  `rooted t`    `Thread.rooted_values : RwLock<Vec<Value>>`  (thread.rs:468)
and per VM `globalGc` (`GlobalVmState.gc`, vm/src/vm.rs:201) and `db` (`Import.compiler`,
src/import.rs:210).  Every lock is modelled as an exclusive mutex (an `RwLock` read is treated as
exclusive: this only adds blocking; the hierarchy theorem therefore covers the real locks too).
Guards are RAII values: when an operation ends all its guards are dropped (`norm`).

The acquisition orders are *read from the code* (file:line at each definition below), they are
not extracted mechanically; the harness ties them to the implementation behaviourally (scenarios
for which the model finds a reachable deadlock hang on the real VM and the others do not).
-/
namespace GluonModel.ParLocks

inductive Lock where
  | ctx (t : Nat)
  | children (t : Nat)
  | rooted (t : Nat)
  | globalGc
  | db
  deriving Repr, DecidableEq

inductive Op where
  | acq (l : Lock)
  | rel (l : Lock)
  deriving Repr, DecidableEq

/-- one OS thread: the guards it holds and the lock operations it still has to perform -/
structure Th where
  held : List Lock
  prog : List Op
  deriving Repr, DecidableEq

abbrev Sys := List Th

def heldBy (s : Sys) (l : Lock) : Bool := s.any (fun th => th.held.contains l)

/-- RAII: at the end of the operation every guard is dropped -/
def norm (th : Th) : Th :=
  match th.prog with
  | [] => ⟨[], []⟩
  | _ :: _ => th

def stepTh (s : Sys) (th : Th) : Option Th :=
  match th.prog with
  | [] => none
  | .acq l :: rest => if heldBy s l then none else some (norm ⟨l :: th.held, rest⟩)
  | .rel l :: rest => some (norm ⟨th.held.erase l, rest⟩)

/-- OS thread `i` performs its next lock operation (`none`: finished, blocked, or no such thread) -/
def stepAt (s : Sys) (i : Nat) : Option Sys :=
  match s[i]? with
  | none => none
  | some th =>
    match stepTh s th with
    | none => none
    | some th' => some (s.set i th')

def runSched (s : Sys) : List Nat → Option Sys
  | [] => some s
  | i :: is =>
    match stepAt s i with
    | none => none
    | some s' => runSched s' is

def allDone (s : Sys) : Bool := s.all (fun th => th.prog.isEmpty)

/-- the lock thread `th` is about to acquire -/
def wants (th : Th) : Option Lock :=
  match th.prog with
  | .acq l :: _ => some l
  | _ => none

/-! ### the operations of the VM -/

def acqAll (ls : List Lock) : List Op := ls.map .acq
def relAll (ls : List Lock) : List Op := ls.map .rel

/-- `RootedValue::re_root` of a value owned by `src` into `dst`
    (thread.rs:229-241 → `deep_clone_value` thread.rs:1274-1284: `self.owned_context()` = ctx dst,
    held to the end of the function; `can_share_values_with` thread.rs:1286-1302: returns early
    for the same thread, otherwise `other.context.lock()` = ctx src as a temporary;
    `root_value_with_self` → `RootedValue::new` thread.rs:244-256 `rooted_values.write()`;
    back in `re_root`: the temporary root is dropped (`unroot_`, rooted dst), the new root is
    pushed (rooted dst); the caller eventually drops the result (rooted dst)). -/
def rerootProg (dst src : Nat) : List Op :=
  [.acq (.ctx dst)] ++
  (if dst = src then [] else [.acq (.ctx src), .rel (.ctx src)]) ++
  [.acq (.rooted dst), .rel (.rooted dst), .rel (.ctx dst),
   .acq (.rooted dst), .rel (.rooted dst),
   .acq (.rooted dst), .rel (.rooted dst),
   .acq (.rooted dst), .rel (.rooted dst)]

/-- The repaired order (suggested fix): read the other thread's generation *before* taking the
    own context, so that no thread ever holds two contexts. -/
def rerootFixedProg (dst src : Nat) : List Op :=
  (if dst = src then [] else [.acq (.ctx src), .rel (.ctx src)]) ++
  [.acq (.ctx dst), .acq (.rooted dst), .rel (.rooted dst), .rel (.ctx dst),
   .acq (.rooted dst), .rel (.rooted dst),
   .acq (.rooted dst), .rel (.rooted dst),
   .acq (.rooted dst), .rel (.rooted dst)]

/-- The descendants' locks taken by `Roots::mark_child_roots` (thread.rs:395-436): an explicit
    stack (`Vec::pop` takes the *last* pushed child first), for every thread not yet locked:
    `thread.context.lock()` (419), `thread.child_threads.read()` (421), trace (rooted_values.read,
    thread.rs:986).  `kids t` = the slab of `t` in slab order.  The stack is a list, top first. -/
def markChildRoots (kids : Nat → List Nat) : Nat → List Nat → List Nat → List (Nat)
  | 0, _, _ => []
  | _ + 1, [], _ => []
  | fuel + 1, t :: stack, locked =>
    if locked.contains t then markChildRoots kids fuel stack locked
    else t :: markChildRoots kids fuel ((kids t).reverse ++ stack) (t :: locked)

/-- the locks held from `mark_child_roots` until after the sweep, in acquisition order -/
def collectInner (kids : Nat → List Nat) (fuel t : Nat) : List Op :=
  let ds := markChildRoots kids fuel (kids t).reverse []
  [.acq (.rooted t), .rel (.rooted t), .acq (.children t)] ++
  ds.flatMap (fun d => [.acq (.ctx d), .acq (.children d), .acq (.rooted d), .rel (.rooted d)]) ++
  [.rel (.children t)] ++
  ds.flatMap (fun d => [.rel (.children d), .rel (.ctx d)])

/-- `Thread::collect` (thread.rs:924-934): own context, then `with_roots` → `Roots::scope`
    (thread.rs:376-392). -/
def collectProg (kids : Nat → List Nat) (fuel t : Nat) : List Op :=
  [.acq (.ctx t)] ++ collectInner kids fuel t ++ [.rel (.ctx t)]

/-- Calling a function of thread `c` with an argument that is a `RootedValue` owned by thread `o`
    (`Function::call` → `RootedValue::vm_push`, vm/src/api/mod.rs:1575-1585: the active context of
    `c` is held, `can_share_values_with(.., self.vm())` locks ctx `o` unless `o = c`); cloning the
    argument first pushes a root (rooted o); then the call runs holding ctx c. -/
def pushProg (c o : Nat) : List Op :=
  [.acq (.rooted o), .rel (.rooted o), .acq (.ctx c)] ++
  (if c = o then [] else [.acq (.ctx o), .rel (.ctx o)]) ++
  [.rel (.ctx c), .acq (.ctx c), .rel (.ctx c), .acq (.rooted o), .rel (.rooted o)]

/-- `Thread::new_thread` (thread.rs:757-786): `self.owned_context()` for `new_child_gc` (temporary),
    then `self.context()`, `alloc_owned` (may collect: gc.rs `alloc_and_collect` under
    `with_roots`), `self.child_threads.write()`. -/
def newThreadProg (kids : Nat → List Nat) (fuel p : Nat) : List Op :=
  [.acq (.ctx p), .rel (.ctx p), .acq (.ctx p)] ++ collectInner kids fuel p ++
  [.acq (.children p), .rel (.children p), .rel (.ctx p)]

/-- running a program on thread `t`: the context is held while the interpreter runs; storing a
    module value takes the global heap (src/query.rs:759) and the database mutex is taken for
    every snapshot/fork (src/import.rs:296-306), neither while holding anything else but ctx t -/
def runProg (t : Nat) : List Op :=
  [.acq .db, .rel .db, .acq (.ctx t), .rel (.ctx t), .acq .globalGc, .rel .globalGc,
   .acq (.ctx t), .rel (.ctx t)]

/-! ### exhaustive search of the interleavings (what the driver runs) -/

def successors (s : Sys) : List Sys := (List.range s.length).filterMap (stepAt s)

/-- a state in which nobody can move although somebody is not finished -/
def deadlocked (s : Sys) : Bool := !allDone s && (successors s).isEmpty

/-- states are identified by the remaining program lengths (the programs are fixed) -/
def key (s : Sys) : List Nat := s.map (fun th => th.prog.length)

/-- worklist search; `true` = a deadlocked state is reachable (within the fuel) -/
def explore : Nat → List Sys → List (List Nat) → Bool
  | 0, _, _ => false
  | _ + 1, [], _ => false
  | fuel + 1, s :: rest, seen =>
    if seen.contains (key s) then explore fuel rest seen
    else if deadlocked s then true
    else explore fuel (successors s ++ rest) (key s :: seen)

def mkSys (progs : List (List Op)) : Sys := progs.map (fun p => norm ⟨[], p⟩)

def canDeadlock (progs : List (List Op)) : Bool := explore 200000 [mkSys progs] []

/-! ### the scenarios of the harness: thread 0 is the root, 1..n-1 are its children -/

inductive Scen where
  | reroot (d s : Nat)
  | collect (t : Nat)
  | push (c o : Nat)
  | newthread (p : Nat)
  deriving Repr

def flatKids (n : Nat) (t : Nat) : List Nat := if t = 0 then (List.range n).drop 1 else []

def scenProg (n : Nat) : Scen → List Op
  | .reroot d s => rerootProg d s
  | .collect t => collectProg (flatKids n) (n + 1) t
  | .push c o => pushProg c o
  | .newthread p => newThreadProg (flatKids n) (n + 1) p

/-- every OS thread repeats its operation; two rounds reach every relative position -/
def scenSys (n : Nat) (ops : List Scen) : List (List Op) :=
  ops.map (fun o => scenProg n o ++ scenProg n o)

end GluonModel.ParLocks
