/-
Kind annotations of type-alias parameters: the formatter's printer and the parser's grammar.

Printer (format/src/pretty_print.rs:416-438, `pretty_kind` :1119-1141):
  * parameter `p` with kind `K`: `p` if `K` is `Type` or `Hole`, else `(p : <pretty_kind(Top, K)>)`;
  * `pretty_kind(prec, K)`: `Type`, `Row`, `_`, and for `Function(a, r)` the flat document
    `pretty_kind(Function, a) ++ " -> " ++ pretty_kind(Top, r)`, enclosed in parentheses iff
    `prec = Function`.
Parser (parser/src/grammar.lalrpop:262-299):
  AtomicKind := "Type" | "Row" | "_" | "(" Kind ")"
  Kind       := AtomicKind | AtomicKind "->" Kind
  TypeParam  := Ident (kind = Hole) | "(" Ident ":" Kind ")"
-/
namespace GluonModel.KindSyntax

inductive Kind where
  | type | row | hole
  | fn (a r : Kind)
  deriving DecidableEq, Repr

/-- `ident` is the parameter name. -/
inductive Tok where
  | ty | row | hole | arrow | lp | rp | colon | ident
  deriving DecidableEq, Repr

/-- Token sequence printed by `pretty_kind`; `atomic = true` is `Prec::Function` (a function kind
    is parenthesised), `false` is `Prec::Top`. -/
def Kind.toks : Bool → Kind → List Tok
  | _, .type => [.ty]
  | _, .row => [.row]
  | _, .hole => [.hole]
  | false, .fn a r => a.toks true ++ .arrow :: r.toks false
  | true, .fn a r => .lp :: (a.toks true ++ .arrow :: r.toks false) ++ [.rp]

/-- Printer rule for one type parameter. -/
def paramToks (k : Kind) : List Tok :=
  if k = .type ∨ k = .hole then [.ident] else [.lp, .ident, .colon] ++ k.toks false ++ [.rp]

/-! ### The same printer as text (flat layout) -/

def Tok.text : Tok → List Char
  | .ty => "Type".toList
  | .row => "Row".toList
  | .hole => "_".toList
  | .arrow => "->".toList
  | .lp => "(".toList
  | .rp => ")".toList
  | .colon => ":".toList
  | .ident => "p".toList

/-- `pretty_kind` laid out flat, as characters: `a -> r`, parenthesised at `Prec::Function`. -/
def Kind.text : Bool → Kind → List Char
  | _, .type => Tok.ty.text
  | _, .row => Tok.row.text
  | _, .hole => Tok.hole.text
  | false, .fn a r => a.text true ++ [' '] ++ Tok.arrow.text ++ [' '] ++ r.text false
  | true, .fn a r =>
    Tok.lp.text ++ (a.text true ++ [' '] ++ Tok.arrow.text ++ [' '] ++ r.text false) ++ Tok.rp.text

/-- `p` or `(p : <kind>)`. -/
def paramText (k : Kind) : List Char :=
  if k = .type ∨ k = .hole then Tok.ident.text
  else Tok.lp.text ++ Tok.ident.text ++ [' '] ++ Tok.colon.text ++ [' '] ++ k.text false ++ Tok.rp.text

/-- Separator between two adjacent tokens: nothing after `(` or before `)`, one space elsewhere. -/
def sep (t u : Tok) : List Char := if t = .lp ∨ u = .rp then [] else [' ']

def renderAfter : Tok → List Tok → List Char
  | _, [] => []
  | p, u :: ts => sep p u ++ u.text ++ renderAfter u ts

/-- Tokens laid out flat. -/
def render : List Tok → List Char
  | [] => []
  | t :: ts => t.text ++ renderAfter t ts

/-! ### Recursive-descent parser (fuel = structural argument) -/

mutual
def parseAtomic : Nat → List Tok → Option (Kind × List Tok)
  | 0, _ => none
  | _ + 1, .ty :: ts => some (.type, ts)
  | _ + 1, .row :: ts => some (.row, ts)
  | _ + 1, .hole :: ts => some (.hole, ts)
  | n + 1, .lp :: ts =>
    match parseKind n ts with
    | some (k, .rp :: ts') => some (k, ts')
    | _ => none
  | _ + 1, _ => none
def parseKind : Nat → List Tok → Option (Kind × List Tok)
  | 0, _ => none
  | n + 1, ts =>
    match parseAtomic n ts with
    | none => none
    | some (a, .arrow :: ts') =>
      match parseKind n ts' with
      | some (r, ts'') => some (.fn a r, ts'')
      | none => none
    | some (a, ts') => some (a, ts')
end

/-- `TypeParam`. -/
def parseParam : List Tok → Option (Kind × List Tok)
  | .ident :: ts => some (.hole, ts)
  | .lp :: .ident :: .colon :: ks =>
    match parseKind (ks.length + 1) ks with
    | some (k, .rp :: ts) => some (k, ts)
    | _ => none
  | _ => none

/-! ### Lemmas -/

theorem toks_true_fn (a r : Kind) :
    (Kind.fn a r).toks true = .lp :: (Kind.fn a r).toks false ++ [.rp] := by
  simp [Kind.toks]

theorem toks_false_fn (a r : Kind) :
    (Kind.fn a r).toks false = a.toks true ++ .arrow :: r.toks false := by
  simp [Kind.toks]

/-- When the atomic kind is not followed by `->`, `Kind` is just that atomic kind. -/
theorem parseKind_of_atomic {n : Nat} {ts rest : List Tok} {k : Kind}
    (h : parseAtomic n ts = some (k, rest)) (hr : rest.head? ≠ some .arrow) :
    parseKind (n + 1) ts = some (k, rest) := by
  rw [parseKind, h]
  cases rest with
  | nil => rfl
  | cons t ts' => cases t <;> simp_all

theorem parseKind_of_arrow {n : Nat} {ts ts' rest : List Tok} {a r : Kind}
    (h : parseAtomic n ts = some (a, .arrow :: ts'))
    (h' : parseKind n ts' = some (r, rest)) :
    parseKind (n + 1) ts = some (.fn a r, rest) := by
  rw [parseKind, h]; simp [h']

theorem parseAtomic_paren {n : Nat} {ts rest : List Tok} {k : Kind}
    (h : parseKind n ts = some (k, .rp :: rest)) :
    parseAtomic (n + 1) (.lp :: ts) = some (k, rest) := by
  rw [parseAtomic, h]

/-- Both precedence levels at once, with explicit sufficient fuel (the number of printed
    tokens, plus one at the `Kind` level). -/
theorem parse_toks (k : Kind) :
    (∀ n rest, rest.head? ≠ some .arrow → (k.toks false).length + 1 ≤ n →
        parseKind n (k.toks false ++ rest) = some (k, rest)) ∧
    (∀ n rest, (k.toks true).length ≤ n →
        parseAtomic n (k.toks true ++ rest) = some (k, rest)) := by
  induction k with
  | type =>
    refine ⟨fun n rest hr hn => ?_, fun n rest hn => ?_⟩
    · obtain ⟨m, rfl⟩ : ∃ m, n = m + 2 := ⟨n - 2, by simp [Kind.toks] at hn; omega⟩
      exact parseKind_of_atomic (by simp [Kind.toks, parseAtomic]) hr
    · obtain ⟨m, rfl⟩ : ∃ m, n = m + 1 := ⟨n - 1, by simp [Kind.toks] at hn; omega⟩
      simp [Kind.toks, parseAtomic]
  | row =>
    refine ⟨fun n rest hr hn => ?_, fun n rest hn => ?_⟩
    · obtain ⟨m, rfl⟩ : ∃ m, n = m + 2 := ⟨n - 2, by simp [Kind.toks] at hn; omega⟩
      exact parseKind_of_atomic (by simp [Kind.toks, parseAtomic]) hr
    · obtain ⟨m, rfl⟩ : ∃ m, n = m + 1 := ⟨n - 1, by simp [Kind.toks] at hn; omega⟩
      simp [Kind.toks, parseAtomic]
  | hole =>
    refine ⟨fun n rest hr hn => ?_, fun n rest hn => ?_⟩
    · obtain ⟨m, rfl⟩ : ∃ m, n = m + 2 := ⟨n - 2, by simp [Kind.toks] at hn; omega⟩
      exact parseKind_of_atomic (by simp [Kind.toks, parseAtomic]) hr
    · obtain ⟨m, rfl⟩ : ∃ m, n = m + 1 := ⟨n - 1, by simp [Kind.toks] at hn; omega⟩
      simp [Kind.toks, parseAtomic]
  | fn a r iha ihr =>
    have top : ∀ n rest, rest.head? ≠ some .arrow → ((Kind.fn a r).toks false).length + 1 ≤ n →
        parseKind n ((Kind.fn a r).toks false ++ rest) = some (Kind.fn a r, rest) := by
      intro n rest hr hn
      rw [toks_false_fn] at hn ⊢
      simp only [List.length_append, List.length_cons] at hn
      obtain ⟨m, rfl⟩ : ∃ m, n = m + 1 := ⟨n - 1, by omega⟩
      have e : (a.toks true ++ Tok.arrow :: r.toks false) ++ rest
          = a.toks true ++ (Tok.arrow :: (r.toks false ++ rest)) := by simp
      rw [e]
      exact parseKind_of_arrow (iha.2 m _ (by omega)) (ihr.1 m rest hr (by omega))
    refine ⟨top, fun n rest hn => ?_⟩
    rw [toks_true_fn] at hn ⊢
    simp only [List.length_append, List.length_cons, List.length_nil] at hn
    obtain ⟨m, rfl⟩ : ∃ m, n = m + 1 := ⟨n - 1, by omega⟩
    have e : (Tok.lp :: (Kind.fn a r).toks false ++ [Tok.rp]) ++ rest
        = Tok.lp :: ((Kind.fn a r).toks false ++ (Tok.rp :: rest)) := by simp
    rw [e]
    exact parseAtomic_paren (top m _ (by simp) (by omega))

theorem parseKind_toks (k : Kind) (rest : List Tok) (h : rest.head? ≠ some .arrow)
    (n : Nat) (hn : (k.toks false).length + 1 ≤ n) :
    parseKind n (k.toks false ++ rest) = some (k, rest) :=
  (parse_toks k).1 n rest h hn

theorem parseParam_annotated (k : Kind) :
    parseParam ([.lp, .ident, .colon] ++ k.toks false ++ [.rp]) = some (k, []) := by
  have h := parseKind_toks k [Tok.rp] (by simp) ((k.toks false).length + 1 + 1) (by omega)
  simp [parseParam, h]

theorem parseParam_paramToks (k : Kind) (h : k ≠ .type) :
    parseParam (paramToks k) = some (k, []) := by
  by_cases hh : k = .hole
  · subst hh; rfl
  · unfold paramToks
    rw [if_neg (by simp [h, hh])]
    exact parseParam_annotated k

theorem toks_false_injective {k₁ k₂ : Kind} (h : k₁.toks false = k₂.toks false) : k₁ = k₂ := by
  have h₁ := parseKind_toks k₁ [] (by simp) _ (Nat.le_refl _)
  have h₂ := parseKind_toks k₂ [] (by simp) _ (Nat.le_refl _)
  rw [h] at h₁
  rw [h₁] at h₂
  simpa using h₂

/-! ### The text is the flat layout of the tokens -/

theorem renderAfter_toks (k : Kind) : ∀ b, ∃ l, l ≠ Tok.lp ∧ ∀ prev rest,
    renderAfter prev (k.toks b ++ rest)
      = (if prev = Tok.lp then [] else [' ']) ++ k.text b ++ renderAfter l rest := by
  induction k with
  | type => intro b; exact ⟨.ty, by decide, fun prev rest => by simp [Kind.toks, Kind.text, renderAfter, sep]⟩
  | row => intro b; exact ⟨.row, by decide, fun prev rest => by simp [Kind.toks, Kind.text, renderAfter, sep]⟩
  | hole => intro b; exact ⟨.hole, by decide, fun prev rest => by simp [Kind.toks, Kind.text, renderAfter, sep]⟩
  | fn a r iha ihr =>
    obtain ⟨la, hla, ha⟩ := iha true
    obtain ⟨lr, hlr, hr⟩ := ihr false
    have top : ∀ prev rest, renderAfter prev ((Kind.fn a r).toks false ++ rest)
        = (if prev = Tok.lp then [] else [' ']) ++ (Kind.fn a r).text false ++ renderAfter lr rest := by
      intro prev rest
      have e : (Kind.fn a r).toks false ++ rest
          = a.toks true ++ (Tok.arrow :: (r.toks false ++ rest)) := by simp [Kind.toks]
      rw [e, ha, renderAfter, hr]
      simp [Kind.text, sep, hla]
    intro b
    cases b with
    | false => exact ⟨lr, hlr, top⟩
    | true =>
      refine ⟨.rp, by decide, fun prev rest => ?_⟩
      have e : (Kind.fn a r).toks true ++ rest
          = Tok.lp :: ((Kind.fn a r).toks false ++ (Tok.rp :: rest)) := by simp [Kind.toks]
      rw [e, renderAfter, top, renderAfter]
      simp [Kind.text, sep]

/-- The text the formatter prints for a parameter is the flat layout of the tokens it prints. -/
theorem render_paramToks (k : Kind) : render (paramToks k) = paramText k := by
  unfold paramToks paramText
  split
  · rfl
  · obtain ⟨l, _, hl⟩ := renderAfter_toks k false
    simp [render, renderAfter, hl, sep]

end GluonModel.KindSyntax
