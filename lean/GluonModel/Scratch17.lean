import GluonModel.Chan
import GluonModel.Proofs.ChanProgram
namespace GluonModel.Props.C17S
open GluonModel.Chan

/-- In the observation log of ANY program (any thread bodies and schedule) every logged `load` of cell
    `r` shows the value of the latest `store` into `r` logged before it (the initial value if none),
    whichever threads did the two. -/
theorem program_ref_last_write (d : Decls) (cells : Nat → Int) (th : Nat → TSt) (fuel tid : Nat)
    (ops : List Op) (r : Nat) :
    let s := (runOps d fuel tid ops { p := PState.init cells, th := th, log := [] }).1
    LoadsOk r (cells r) s.log ∧ s.p.cells r = lastStoreLog r (cells r) s.log := by
  have h0 : RefInv cells { p := PState.init cells, th := th, log := [] } := by
    intro r; simp [PState.init, lastStoreLog, LoadsOk]
  have := runOps_refInv d cells fuel tid ops _ h0 r
  exact ⟨this.2, this.1⟩

/-- In the observation log of ANY program, all values reported by forces of the same lazy agree. -/
theorem program_forces_agree (d : Decls) (cells : Nat → Int) (th : Nat → TSt) (fuel tid : Nat)
    (ops : List Op) (k : Nat) (e₁ e₂ : Ev)
    (h₁ : e₁ ∈ (runOps d fuel tid ops { p := PState.init cells, th := th, log := [] }).1.log)
    (h₂ : e₂ ∈ (runOps d fuel tid ops { p := PState.init cells, th := th, log := [] }).1.log)
    (k₁ : e₁.kind = 8) (k₂ : e₂.kind = 8) (a₁ : e₁.a = (k : Int)) (a₂ : e₂.a = (k : Int)) :
    e₁.b = e₂.b := by
  have h0 : ForcesInv { p := PState.init cells, th := th, log := [] } := by
    intro e he; simp at he
  have hi := runOps_forcesInv d fuel tid ops _ h0
  have v₁ := hi e₁ h₁ k₁ k a₁
  have v₂ := hi e₂ h₂ k₂ k a₂
  rw [v₁] at v₂
  exact (LState.value.inj v₂)

end GluonModel.Props.C17S
