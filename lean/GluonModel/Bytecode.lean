/-
`Bytecode`: mirror of vm/src/types.rs:59 `Instruction` and of the interpreter of
vm/src/thread.rs (`execute_` :2130, `do_call` :2752, `call_function_with_upvars` :2699) over
the value stack and frames of vm/src/stack.rs (`Frame {offset, state, excess}`, `slide` :493).

The machine is factored the way the code is: `stepLocal` is one turn of the `loop` of
`execute_` on the *frame-local view* of the stack (`StackFrame`, all indices relative to
`frame.offset`); `step` adds what happens at `Call` / `TailCall` / `Return` on the global
stack and the frame list.

Values are `Core.Val`. Objects that the code mutates after allocation (closures from
`NewClosure`/`CloseClosure`, data from `NewRecord`/`NewVariant`/`CloseData`) live in a heap and are
referenced by `cref`/`dref`; everything else is a tree. The stack is a list with its top at the
END (like the `Vec<Value>` of stack.rs:424).
-/
import GluonModel.Core
import GluonModel.Generated.InstrTable
namespace GluonModel.Bytecode
open GluonModel.Core

/-- vm/src/types.rs:59. Operand order as in the Rust declaration. -/
inductive Instr where
  | pushInt (n : Int)
  | pushByte (n : Nat)
  | pushFloat (bits : Nat)
  | pushString (i : Nat)
  | pushUpVar (i : Nat)
  | push (i : Nat)
  | call (n : Nat)
  | tailCall (n : Nat)
  | constructVariant (tag args : Nat)
  | constructPolyVariant (tag args : Nat)
  | newVariant (tag args : Nat)
  | newRecord (record args : Nat)
  | closeData (index : Nat)
  | constructRecord (record args : Nat)
  | constructArray (n : Nat)
  | getOffset (i : Nat)
  | getField (i : Nat)
  | split
  | testTag (t : Nat)
  | testPolyTag (i : Nat)
  | jump (i : Nat)
  | cJump (i : Nat)
  | pop (n : Nat)
  | slide (n : Nat)
  | makeClosure (functionIndex upvars : Nat)
  | newClosure (functionIndex upvars : Nat)
  | closeClosure (n : Nat)
  | addInt | subtractInt | multiplyInt | divideInt | intLT | intEQ
  | addByte | subtractByte | multiplyByte | divideByte | byteLT | byteEQ
  | addFloat | subtractFloat | multiplyFloat | divideFloat | floatLT | floatEQ
  | ret
  deriving DecidableEq, Repr, Inhabited

/-- vm/src/types.rs:188 `Instruction::adjust` (hand-written; `Props.C01b.instr_adjust_agrees`
    proves it equal to the table generated from the Rust source). -/
def Instr.adjust : Instr → Int
  | .pushInt _ | .pushByte _ | .pushFloat _ | .pushString _ | .push _ => 1
  | .call n => -(n : Int)
  | .tailCall n => -(n : Int)
  | .constructVariant _ args | .constructPolyVariant _ args | .constructRecord _ args
  | .constructArray args => 1 - (args : Int)
  | .getField _ | .getOffset _ => 0
  | .split => -1
  | .testTag _ | .testPolyTag _ => 1
  | .jump _ => 0
  | .cJump _ => -1
  | .pop n => -(n : Int)
  | .slide n => -(n : Int)
  | .newVariant _ _ => 1
  | .newRecord _ _ => 1
  | .closeData _ => 0
  | .makeClosure _ _ => 1
  | .newClosure _ _ => 1
  | .closeClosure _ => -1
  | .pushUpVar _ => 1
  | .addInt | .subtractInt | .multiplyInt | .divideInt | .intLT | .intEQ | .addFloat | .addByte
  | .subtractByte | .multiplyByte | .divideByte | .byteLT | .byteEQ | .subtractFloat
  | .multiplyFloat | .divideFloat | .floatLT | .floatEQ => -1
  | .ret => 0

def Instr.name : Instr → String
  | .pushInt _ => "PushInt" | .pushByte _ => "PushByte" | .pushFloat _ => "PushFloat"
  | .pushString _ => "PushString" | .pushUpVar _ => "PushUpVar" | .push _ => "Push"
  | .call _ => "Call" | .tailCall _ => "TailCall" | .constructVariant _ _ => "ConstructVariant"
  | .constructPolyVariant _ _ => "ConstructPolyVariant" | .newVariant _ _ => "NewVariant"
  | .newRecord _ _ => "NewRecord" | .closeData _ => "CloseData"
  | .constructRecord _ _ => "ConstructRecord" | .constructArray _ => "ConstructArray"
  | .getOffset _ => "GetOffset" | .getField _ => "GetField" | .split => "Split"
  | .testTag _ => "TestTag" | .testPolyTag _ => "TestPolyTag" | .jump _ => "Jump"
  | .cJump _ => "CJump" | .pop _ => "Pop" | .slide _ => "Slide"
  | .makeClosure _ _ => "MakeClosure" | .newClosure _ _ => "NewClosure"
  | .closeClosure _ => "CloseClosure"
  | .addInt => "AddInt" | .subtractInt => "SubtractInt" | .multiplyInt => "MultiplyInt"
  | .divideInt => "DivideInt" | .intLT => "IntLT" | .intEQ => "IntEQ"
  | .addByte => "AddByte" | .subtractByte => "SubtractByte" | .multiplyByte => "MultiplyByte"
  | .divideByte => "DivideByte" | .byteLT => "ByteLT" | .byteEQ => "ByteEQ"
  | .addFloat => "AddFloat" | .subtractFloat => "SubtractFloat"
  | .multiplyFloat => "MultiplyFloat" | .divideFloat => "DivideFloat"
  | .floatLT => "FloatLT" | .floatEQ => "FloatEQ"
  | .ret => "Return"

def Instr.operands : Instr → List Int
  | .pushInt n => [n] | .pushByte n => [n] | .pushFloat n => [n] | .pushString n => [n]
  | .pushUpVar n => [n] | .push n => [n] | .call n => [n] | .tailCall n => [n]
  | .constructVariant a b => [a, b] | .constructPolyVariant a b => [a, b]
  | .newVariant a b => [a, b] | .newRecord a b => [a, b] | .closeData a => [a]
  | .constructRecord a b => [a, b] | .constructArray a => [a] | .getOffset a => [a]
  | .getField a => [a] | .testTag a => [a] | .testPolyTag a => [a] | .jump a => [a]
  | .cJump a => [a] | .pop a => [a] | .slide a => [a] | .makeClosure a b => [a, b]
  | .newClosure a b => [a, b] | .closeClosure a => [a]
  | _ => []

/-- the variant of the Rust enum (generated from vm/src/types.rs) an instruction belongs to -/
def Instr.gname : Instr → Generated.InstrName
  | .pushInt _ => .pushInt | .pushByte _ => .pushByte | .pushFloat _ => .pushFloat
  | .pushString _ => .pushString | .pushUpVar _ => .pushUpVar | .push _ => .push
  | .call _ => .call | .tailCall _ => .tailCall | .constructVariant _ _ => .constructVariant
  | .constructPolyVariant _ _ => .constructPolyVariant | .newVariant _ _ => .newVariant
  | .newRecord _ _ => .newRecord | .closeData _ => .closeData
  | .constructRecord _ _ => .constructRecord | .constructArray _ => .constructArray
  | .getOffset _ => .getOffset | .getField _ => .getField | .split => .split
  | .testTag _ => .testTag | .testPolyTag _ => .testPolyTag | .jump _ => .jump
  | .cJump _ => .cJump | .pop _ => .pop | .slide _ => .slide
  | .makeClosure _ _ => .makeClosure | .newClosure _ _ => .newClosure
  | .closeClosure _ => .closeClosure
  | .addInt => .addInt | .subtractInt => .subtractInt | .multiplyInt => .multiplyInt
  | .divideInt => .divideInt | .intLT => .intLT | .intEQ => .intEQ
  | .addByte => .addByte | .subtractByte => .subtractByte | .multiplyByte => .multiplyByte
  | .divideByte => .divideByte | .byteLT => .byteLT | .byteEQ => .byteEQ
  | .addFloat => .addFloat | .subtractFloat => .subtractFloat
  | .multiplyFloat => .multiplyFloat | .divideFloat => .divideFloat
  | .floatLT => .floatLT | .floatEQ => .floatEQ
  | .ret => .return_

/-- one instruction of every variant, in the declaration order of the Rust enum -/
def Instr.samples : List Instr :=
  [.pushInt 0, .pushByte 0, .pushFloat 0, .pushString 0, .pushUpVar 0, .push 0, .call 0,
   .tailCall 0, .constructVariant 0 0, .constructPolyVariant 0 0, .newVariant 0 0,
   .newRecord 0 0, .closeData 0, .constructRecord 0 0, .constructArray 0, .getOffset 0,
   .getField 0, .split, .testTag 0, .testPolyTag 0, .jump 0, .cJump 0, .pop 0, .slide 0,
   .makeClosure 0 0, .newClosure 0 0, .closeClosure 0,
   .addInt, .subtractInt, .multiplyInt, .divideInt, .intLT, .intEQ,
   .addByte, .subtractByte, .multiplyByte, .divideByte, .byteLT, .byteEQ,
   .addFloat, .subtractFloat, .multiplyFloat, .divideFloat, .floatLT, .floatEQ, .ret]

def Instr.primOp? : Instr → Option PrimOp
  | .addInt => some .addInt | .subtractInt => some .subInt | .multiplyInt => some .mulInt
  | .divideInt => some .divInt | .intLT => some .intLT | .intEQ => some .intEQ
  | .addByte => some .addByte | .subtractByte => some .subByte | .multiplyByte => some .mulByte
  | .divideByte => some .divByte | .byteLT => some .byteLT | .byteEQ => some .byteEQ
  | .addFloat => some .addFloat | .subtractFloat => some .subFloat
  | .multiplyFloat => some .mulFloat | .divideFloat => some .divFloat
  | .floatLT => some .floatLT | .floatEQ => some .floatEQ
  | _ => none

def PrimOp.instr : PrimOp → Instr
  | .addInt => .addInt | .subInt => .subtractInt | .mulInt => .multiplyInt | .divInt => .divideInt
  | .intLT => .intLT | .intEQ => .intEQ
  | .addByte => .addByte | .subByte => .subtractByte | .mulByte => .multiplyByte
  | .divByte => .divideByte | .byteLT => .byteLT | .byteEQ => .byteEQ
  | .addFloat => .addFloat | .subFloat => .subtractFloat | .mulFloat => .multiplyFloat
  | .divFloat => .divideFloat | .floatLT => .floatLT | .floatEQ => .floatEQ

/-- vm/src/compiler.rs:124 `CompiledFunction` (what the interpreter reads of it; record field
    lists as symbols, the VM uses their names, vm.rs:109). -/
structure Fn where
  args : Nat
  instrs : List Instr
  strings : List String
  records : List (List Sym)
  inner : List Fn
  deriving Repr, Inhabited

/-- objects that are allocated first and filled in later -/
structure Heap where
  clos : List (Fn × List Val)
  data : List (Nat × List Val × List String)
  deriving Inhabited

def setAt {α} (l : List α) (i : Nat) (a : α) : List α :=
  match l, i with
  | [], _ => []
  | _ :: xs, 0 => a :: xs
  | x :: xs, i + 1 => x :: setAt xs i a

/-- the last `n` values (the operands of an instruction) -/
def lastN (stk : List Val) (n : Nat) : List Val := stk.drop (stk.length - n)
/-- `pop_many` (stack.rs:481) -/
def popN (stk : List Val) (n : Nat) : List Val := stk.take (stk.length - n)

/-- `Data` or `Tag` (value.rs `ValueRepr`), through a heap reference if need be -/
def asData (h : Heap) : Val → Option (Nat × List Val × List String)
  | .data t fs ns => some (t, fs, ns)
  | .dref id => h.data[id]?
  | _ => none

inductive LocalOut where
  | next (pc : Nat) (stk : List Val) (h : Heap)
  /-- `Call(args)`: the frame's instruction index has been set to `pc` -/
  | call (args : Nat) (pc : Nat)
  | tailCall (args : Nat)
  | ret
  | err (e : Err)

def dummy : Val := .int 0

/-- One turn of the interpreter loop, thread.rs:2144-2526, on the frame-local stack `stk` of a
    closure of `fn` with upvalues `upv`. -/
def stepInstr (fn : Fn) (upv : List Val) (i : Instr) (pc : Nat) (stk : List Val) (h : Heap) :
    LocalOut :=
  match i with
  | .push k => match stk[k]? with               -- :2158
    | some v => .next (pc + 1) (stk ++ [v]) h
    | none => .err (.wrong "push-out-of-bounds")
  | .pushInt n => .next (pc + 1) (stk ++ [.int n]) h
  | .pushByte n => .next (pc + 1) (stk ++ [.byte n]) h
  | .pushFloat b => .next (pc + 1) (stk ++ [.float b]) h
  | .pushString k => match fn.strings[k]? with  -- :2177
    | some s => .next (pc + 1) (stk ++ [.str s]) h
    | none => .err (.wrong "string-index")
  | .pushUpVar k => match upv[k]? with          -- :2496
    | some v => .next (pc + 1) (stk ++ [v]) h
    | none => .err (.wrong "upvar-index")
  | .call n => .call n (pc + 1)                 -- :2183
  | .tailCall n => .tailCall n                  -- :2188
  | .constructVariant tag args =>               -- :2220
    if stk.length < args then .err (.wrong "stack-underflow")
    else .next (pc + 1)
      (popN stk args ++ [if args = 0 then tagVal tag else .data tag (lastN stk args) []]) h
  | .constructPolyVariant _ _ => .err (.wrong "polyvariant")
  | .constructRecord record args =>             -- :2258
    if stk.length < args then .err (.wrong "stack-underflow")
    else if args = 0 then .next (pc + 1) (stk ++ [tagVal 0]) h
    else match fn.records[record]? with
      | some names =>
        .next (pc + 1) (popN stk args ++ [.data 0 (lastN stk args) (names.map (·.name))]) h
      | none => .err (.wrong "record-index")
  | .constructArray n =>                        -- :2336
    if stk.length < n then .err (.wrong "stack-underflow")
    else .next (pc + 1) (popN stk n ++ [.arr (lastN stk n)]) h
  | .newVariant tag args =>                     -- :2279
    if args = 0 then .next (pc + 1) (stk ++ [tagVal tag]) h
    else .next (pc + 1) (stk ++ [.dref h.data.length])
      { h with data := h.data ++ [(tag, List.replicate args dummy, [])] }
  | .newRecord record args =>                   -- :2297
    if args = 0 then .next (pc + 1) (stk ++ [tagVal 0]) h
    else match fn.records[record]? with
      | some names => .next (pc + 1) (stk ++ [.dref h.data.length])
          { h with data := h.data ++ [(0, List.replicate args dummy, names.map (·.name))] }
      | none => .err (.wrong "record-index")
  | .closeData index =>                         -- :2316
    match stk[index]? with
    | some (.dref id) => match h.data[id]? with
      | some (t, fs, ns) =>
        if stk.length < fs.length then .err (.wrong "stack-underflow")
        else .next (pc + 1) (popN stk fs.length)
          { h with data := setAt h.data id (t, lastN stk fs.length, ns) }
      | none => .err (.wrong "dangling")
    | _ => .err (.wrong "CloseData")
  | .getOffset k => match stk.getLast? with     -- :2349
    | some v => match asData h v with
      | some (_, fs, _) => match fs[k]? with
        | some f => .next (pc + 1) (popN stk 1 ++ [f]) h
        | none => .err (.wrong "field-index")
      | none => .err (.wrong "GetOffset on")
    | none => .err (.wrong "stack-underflow")
  | .getField k => match stk.getLast?, fn.strings[k]? with   -- :2356
    | some v, some name => match asData h v with
      | some (_, fs, ns) => match (indexOf? ns name).bind (fs[·]?) with
        | some f => .next (pc + 1) (popN stk 1 ++ [f]) h
        | none => .err (.wrong "no-such-field")
      | none => .err (.wrong "GetField on")
    | _, _ => .err (.wrong "stack-underflow")
  | .split => match stk.getLast? with           -- :2410
    | some v => match asData h v with
      | some (_, fs, _) => .next (pc + 1) (popN stk 1 ++ fs) h
      | none => .err (.wrong "Split on non data")
    | none => .err (.wrong "stack-underflow")
  | .testTag t => match stk.getLast? with       -- :2371
    | some v => match asData h v with
      | some (t', _, _) => .next (pc + 1) (stk ++ [boolVal (t' = t)]) h
      | none => .err (.wrong "TestTag on non data")
    | none => .err (.wrong "stack-underflow")
  | .testPolyTag _ => .err (.wrong "polyvariant")
  | .jump k => .next k stk h                    -- :2425
  | .cJump k => match stk.getLast? with         -- :2429
    | some v => if isFalse v then .next (pc + 1) (popN stk 1) h else .next k (popN stk 1) h
    | none => .err (.wrong "stack-underflow")
  | .pop n =>
    if stk.length < n then .err (.wrong "stack-underflow") else .next (pc + 1) (popN stk n) h
  | .slide n => match stk.getLast? with         -- :2437, stack.rs:493
    | some v =>
      if stk.length < n + 1 then .err (.wrong "stack-underflow")
      else .next (pc + 1) (popN stk (n + 1) ++ [v]) h
    | none => .err (.wrong "stack-underflow")
  | .makeClosure fi n => match fn.inner[fi]? with   -- :2441
    | some f =>
      if stk.length < n then .err (.wrong "stack-underflow")
      else .next (pc + 1) (popN stk n ++ [.cref h.clos.length])
        { h with clos := h.clos ++ [(f, lastN stk n)] }
    | none => .err (.wrong "function-index")
  | .newClosure fi n => match fn.inner[fi]? with    -- :2458
    | some f => .next (pc + 1) (stk ++ [.cref h.clos.length])
        { h with clos := h.clos ++ [(f, List.replicate n dummy)] }
    | none => .err (.wrong "function-index")
  | .closeClosure n =>                          -- :2474
    if stk.length < n + 1 then .err (.wrong "stack-underflow")
    else match stk[stk.length - n - 1]? with
      | some (.cref id) => match h.clos[id]? with
        | some (f, ups) =>
          if stk.length < ups.length + 1 then .err (.wrong "stack-underflow")
          else .next (pc + 1) (popN stk (ups.length + 1))
            { h with clos := setAt h.clos id (f, lastN stk ups.length) }
        | none => .err (.wrong "dangling")
      | _ => .err (.wrong "CloseClosure")
  | .ret => .ret                                -- :2521
  | i => match i.primOp? with                   -- :2500-2519, `binop` :2859
    | some op =>
      if stk.length < 2 then .err (.wrong "stack-underflow")
      else match lastN stk 2 with
        | [l, r] => match primApply op l r with
          | .ok v => .next (pc + 1) (popN stk 2 ++ [v]) h
          | .error e => .err e
        | _ => .err (.wrong "stack-underflow")
    | none => .err (.wrong "instruction")

/-- fetch + execute; running off the end cannot happen (every function ends in `Return`,
    compiler.rs:237) -/
def stepLocal (fn : Fn) (upv : List Val) (pc : Nat) (stk : List Val) (h : Heap) : LocalOut :=
  match fn.instrs[pc]? with
  | some i => stepInstr fn upv i pc stk h
  | none => .err (.wrong "pc-out-of-range")

/-- Iterate `stepLocal` while it stays inside the frame. -/
def runLocal (fn : Fn) (upv : List Val) : Nat → Nat → List Val → Heap → LocalOut
  | 0, pc, stk, h => .next pc stk h
  | n + 1, pc, stk, h =>
    match stepLocal fn upv pc stk h with
    | .next pc' stk' h' => runLocal fn upv n pc' stk' h'
    | out => out

/-! ### Frames -/

/-- stack.rs `Frame<ClosureState>`: `offset`, `excess`, the running closure, its instruction
    index -/
structure Frame where
  offset : Nat
  excess : Bool
  clos : Nat
  pc : Nat
  deriving Repr, Inhabited

/-- `frames`: innermost first; below the last one is the `State::Unknown` base frame of the
    thread. `stack` is the whole value stack. -/
structure State where
  stack : List Val
  frames : List Frame
  heap : Heap
  deriving Inhabited

inductive Outcome where
  | running (s : State)
  | done (v : Val) (h : Heap)
  | err (e : Err)

def insertAt (l : List Val) (i : Nat) (xs : List Val) : List Val := l.take i ++ xs ++ l.drop i

/-- The interpreted extern functions (`std.prim.error` primitives.rs:389 returns `Status::Error`,
    thread.rs:1915 turns the string on top of the stack into `Error::Panic`). -/
def callExtern (name : String) (args : List Val) : Res :=
  if name = "std.prim.error" then
    match args with
    | [.str m] => .error (.user m)
    | _ => .error (.wrong "error-arg")
  else if name = "std.prim.string_eq" then
    match args with
    | [.str a, .str b] => .ok (boolVal (a = b))
    | _ => .error (.wrong "string_eq-args")
  else .error (.wrong ("extern " ++ name))

/-- what `call_function_with_upvars` needs to know about a callee -/
inductive Callee where
  | closure (id : Nat) (fn : Fn)
  | extern (name : String) (arity : Nat)

def calleeOf (h : Heap) : Val → Option Callee
  | .cref id => (h.clos[id]?).map fun (f, _) => .closure id f
  | .ext n a => some (.extern n a)
  | _ => none

def Callee.args : Callee → Nat
  | .closure _ f => f.args
  | .extern _ a => a

/-- thread.rs:2699 `call_function_with_upvars`; the callee sits at `stack[len - 1 - args]`. -/
def callWith (s : State) (fv : Val) (c : Callee) (args : Nat) : Outcome :=
  let stk := s.stack
  let required := c.args
  if args < required then
    -- partial application :2712
    .running { s with stack := popN stk (args + 1) ++ [.pap fv (lastN stk args)] }
  else
    match c with
    | .closure id _ =>
      if args = required then
        .running { s with frames := { offset := stk.length - required, excess := false, clos := id, pc := 0 } :: s.frames }
      else
        -- excess arguments :2722: packed into a data value stored *below* the callee
        let excess := args - required
        let d := Val.data 0 (lastN stk excess) []
        let stk₁ := popN stk excess
        let stk₂ := insertAt stk₁ (stk₁.length - required - 1) [d]
        .running { s with stack := stk₂,
                          frames := { offset := stk₂.length - required, excess := true, clos := id, pc := 0 } :: s.frames }
    | .extern name _ =>
      if args = required then
        -- `execute_function` :1886: the result replaces function and arguments
        match callExtern name (lastN stk args) with
        | .ok v => .running { s with stack := popN stk (args + 1) ++ [v] }
        | .error e => .err e
      else
        -- excess arguments (:2722, then `enter_extern`): the function runs on its own
        -- arguments first; only its failing is modelled (`error msg x y` in a default
        -- alternative of function type) — `execute_function` does not look at `frame.excess`
        match callExtern name ((lastN stk args).take required) with
        | .ok _ => .err (.wrong "extern-excess")
        | .error e => .err e

/-- thread.rs:2752 `do_call` -/
def doCall (s : State) (args : Nat) : Outcome :=
  let stk := s.stack
  if stk.length < args + 1 then .err (.wrong "stack-underflow") else
  match stk[stk.length - 1 - args]? with
  | some (.pap g args₀) =>
    -- :2777: the stored arguments are inserted before the new ones
    match calleeOf s.heap g with
    | some c =>
      callWith { s with stack := insertAt stk (stk.length - args) args₀ } g c (args₀.length + args)
    | none => .err (.wrong "Cannot call")
  | some fv =>
    match calleeOf s.heap fv with
    | some c => callWith s fv c args
    | none => .err (.wrong "Cannot call")
  | none => .err (.wrong "stack-underflow")

/-- One machine step: `stepLocal` on the innermost frame, then what `Call`, `TailCall` and
    `Return` do with frames (thread.rs:2183, :2188, :2527). -/
def step (s : State) : Outcome :=
  match s.frames with
  | [] => match s.stack.getLast? with
    | some v => .done v s.heap
    | none => .err (.wrong "empty-stack")
  | fr :: rest =>
    match s.heap.clos[fr.clos]? with
    | none => .err (.wrong "dangling")
    | some (fn, upv) =>
      let loc := s.stack.drop fr.offset
      let below := s.stack.take fr.offset
      match stepLocal fn upv fr.pc loc s.heap with
      | .err e => .err e
      | .next pc' loc' h' =>
        .running { stack := below ++ loc', frames := { fr with pc := pc' } :: rest, heap := h' }
      | .call args pc' =>
        doCall { s with frames := { fr with pc := pc' } :: rest } args
      | .tailCall args =>
        -- :2188
        if loc.length < args + 1 then .err (.wrong "stack-underflow") else
        let amount := loc.length - args
        let r : Option (List Val × Nat × Nat) :=
          if fr.excess then
            match s.stack[fr.offset - 2]? with
            | some (.data _ fs _) => some (s.stack ++ fs, args + fs.length, amount + 1)
            | _ => none
          else some (s.stack, args, amount)
        match r with
        | none => .err (.wrong "excess-args")
        | some (stk, args, amount) =>
          let end_ := stk.length - args - 1
          let stk' := stk.take (end_ - amount) ++ stk.drop end_
          doCall { s with stack := stk', frames := rest } args
      | .ret =>
        -- :2527
        let len := loc.length
        if s.stack.length < len + 1 then .err (.wrong "stack-underflow") else
        match s.stack.getLast? with
        | none => .err (.wrong "empty-stack")
        | some v =>
          let stk := popN s.stack (len + 1) ++ [v]        -- `slide(len)`
          if fr.excess then
            match stk[stk.length - 2]? with
            | some (.data _ fs _) =>
              let stk₂ := popN stk 2 ++ [v] ++ fs          -- `slide(1)`, `extend`
              doCall { s with stack := stk₂, frames := rest } fs.length
            | _ => .err (.wrong "excess-args")
          else .running { s with stack := stk, frames := rest }

def run : Nat → State → Except Err (Val × Heap)
  | 0, _ => .error .fuel
  | n + 1, s =>
    match step s with
    | .running s' => run n s'
    | .done v h => .ok (v, h)
    | .err e => .error e

/-- `call_thunk` (thread.rs:1204): push the module's closure, enter a frame with no arguments. -/
def initState (main : Fn) (globals : List Val) : State :=
  { stack := [.cref 0],
    frames := [{ offset := 1, excess := false, clos := 0, pc := 0 }],
    heap := { clos := [(main, globals)], data := [] } }

def runModule (fuel : Nat) (main : Fn) (globals : List Val) : Except Err (Val × Heap) :=
  run fuel (initState main globals)

end GluonModel.Bytecode
