/-
Model for C17: channels, references, lazy values and coroutine threads.

Mirrors (gluon /repo):
  * vm/src/channel.rs:39-85    `Sender.send` = `queue.push_back`, `Receiver.try_recv` = `queue.pop_front().ok_or(())`
  * vm/src/channel.rs:165-178  `recv` / `send` primitives (never block; empty queue ⇒ `Err ()`)
  * vm/src/reference.rs:52-79  `set` overwrites the cell, `get` reads it, `make_ref` initialises it
  * vm/src/lazy.rs:65-72       `Lazy_ { Blackhole(owner, waiters), Thunk, Value }`
  * vm/src/lazy.rs:98-187      `force` (blackholing, `<<loop>>` for the owner, oneshot wait for other threads,
                               and the FAILURE BRANCH lazy.rs:146 that leaves the `Blackhole` in place)
  * vm/src/channel.rs:180-193  `resume` (Pending ⇒ `Ok ()`, `Error::Dead` ⇒ `Err`, other error ⇒ IO exception)
  * vm/src/channel.rs:195-207  `yield`
  * vm/src/channel.rs:209-266  `spawn` (creates the coroutine, does not run it)
  * vm/src/thread.rs:1249-1272 `Thread::resume` (one frame left ⇒ `Dead`; otherwise `execute`)

Maps are total functions `Nat → α` (object id ↦ state) so that the proofs need no index arithmetic;
everything is executable (the driver builds the maps from the request).
-/
namespace GluonModel.Chan

/-- Point update of a total map. -/
def upd {α : Type} (f : Nat → α) (k : Nat) (x : α) : Nat → α := fun i => if i = k then x else f i

@[simp] theorem upd_same {α : Type} (f : Nat → α) (k : Nat) (x : α) : upd f k x k = x := by simp [upd]
theorem upd_other {α : Type} (f : Nat → α) (k i : Nat) (x : α) (h : i ≠ k) : upd f k x i = f i := by
  simp [upd, h]

/-! ## Lazy values (vm/src/lazy.rs) -/

/-- Body of a thunk of the generated programs: a constant, `error "boom"`, or `n + force L_k`
    (which may be the lazy itself or a lazy that depends on it: self-dependency). -/
inductive TExpr where
  | val (v : Int)
  | boom
  | add (k : Nat) (n : Int)
  deriving Repr, DecidableEq, Inhabited

/-- Error class of a failed force: the message contains `<<loop>>` or the thunk's own `boom`. -/
inductive FErr where
  | loop
  | boom
  deriving Repr, DecidableEq, Inhabited

/-- `Lazy_` (lazy.rs:65-75). `blackhole owner waiters`: `waiters` = the `Option<oneshot>` is `Some`.
    `failed e`: `Failed(String)`, the recorded error (only its class is modelled). -/
inductive LState where
  | thunk
  | blackhole (owner : Nat) (waiters : Bool)
  | value (v : Int)
  | failed (e : FErr)
  deriving Repr, DecidableEq, Inhabited

/-- Result of a force. `pending`: the future waits on a oneshot of another thread (lazy.rs:166-191).
    `nofuel` is an artefact of the explicit fuel and never occurs with fuel > number of lazies + 1
    (`force_fuel_enough`). -/
inductive FRes where
  | ok (v : Int)
  | err (e : FErr)
  | pending
  | nofuel
  deriving Repr, DecidableEq, Inhabited

abbrev Decls := Nat → TExpr

/-- All lazies of a program plus the list of thunk bodies started so far (newest first). -/
structure LS where
  st : Nat → LState
  runs : List Nat

/-- The tail of the `Thunk` branch for a body `n + force L_j`: `p` is what the inner force gave.
    Success stores `Value` (lazy.rs:134-150); failure goes through `fail` (lazy.rs:121-131, 153):
    the cell becomes `Failed(err)`. -/
def finishAdd (k : Nat) (n : Int) (p : LS × FRes) : LS × FRes :=
  match p.2 with
  | .ok v => ({ st := upd p.1.st k (.value (v + n)), runs := p.1.runs }, .ok (v + n))
  | .err e => ({ st := upd p.1.st k (.failed e), runs := p.1.runs }, .err e)
  | _ => p

/-- lazy.rs:102 `force`, called by green thread `tid` on lazy `k`.
    * `Thunk` (lazy.rs:110-156): the state becomes `Blackhole(tid, None)`, the thunk is called;
      success stores `Value` (and fires the waiters); failure stores `Failed(err)`, fires the waiters
      and returns the error (closure `fail`, lazy.rs:121-131);
    * `Blackhole(owner, _)` with `owner = tid` ⇒ `<<loop>>` (lazy.rs:159-165);
    * `Blackhole(other, w)` ⇒ install the oneshot if absent and wait (lazy.rs:166-191);
    * `Value v` ⇒ `v` (lazy.rs:192-195);
    * `Failed(err)` ⇒ that error (lazy.rs:196-198). -/
def force (d : Decls) : Nat → Nat → Nat → LS → LS × FRes
  | 0, _, _, s => (s, .nofuel)
  | fuel + 1, tid, k, s =>
    match s.st k with
    | .thunk =>
      match d k with
      | .val v => ({ st := upd (upd s.st k (.blackhole tid false)) k (.value v), runs := k :: s.runs }, .ok v)
      | .boom => ({ st := upd (upd s.st k (.blackhole tid false)) k (.failed .boom), runs := k :: s.runs }, .err .boom)
      | .add j n =>
        finishAdd k n (force d fuel tid j { st := upd s.st k (.blackhole tid false), runs := k :: s.runs })
    | .blackhole o _ =>
      if o = tid then (s, .err .loop)
      else ({ st := upd s.st k (.blackhole o true), runs := s.runs }, .pending)
    | .value v => (s, .ok v)
    | .failed e => (s, .err e)

/-! The OLD rule (before /repo commit b4f59e3, defect D8): a failing thunk returned the error and left
    `Blackhole(owner)` in the cell. Kept for the regression theorems `…_old_rule_…`. -/

inductive LStateOld where
  | thunk
  | blackhole (owner : Nat) (waiters : Bool)
  | value (v : Int)
  deriving Repr, DecidableEq, Inhabited

structure LSOld where
  st : Nat → LStateOld
  runs : List Nat

def finishAddOld (k : Nat) (n : Int) (p : LSOld × FRes) : LSOld × FRes :=
  match p.2 with
  | .ok v => ({ st := upd p.1.st k (.value (v + n)), runs := p.1.runs }, .ok (v + n))
  | _ => p

def forceOld (d : Decls) : Nat → Nat → Nat → LSOld → LSOld × FRes
  | 0, _, _, s => (s, .nofuel)
  | fuel + 1, tid, k, s =>
    match s.st k with
    | .thunk =>
      match d k with
      | .val v => ({ st := upd (upd s.st k (.blackhole tid false)) k (.value v), runs := k :: s.runs }, .ok v)
      | .boom => ({ st := upd s.st k (.blackhole tid false), runs := k :: s.runs }, .err .boom)
      | .add j n =>
        finishAddOld k n (forceOld d fuel tid j { st := upd s.st k (.blackhole tid false), runs := k :: s.runs })
    | .blackhole o _ =>
      if o = tid then (s, .err .loop)
      else ({ st := upd s.st k (.blackhole o true), runs := s.runs }, .pending)
    | .value v => (s, .ok v)

/-! ## The primitives as one state machine -/

structure PState where
  chans : Nat → List Int      -- channel.rs:42 `queue` (front = head)
  cells : Nat → Int           -- reference.rs:16 `value`
  lz : LS

inductive POp where
  | send (c : Nat) (v : Int)
  | recv (c : Nat)
  | load (r : Nat)
  | store (r : Nat) (v : Int)
  | force (k : Nat)
  deriving Repr, DecidableEq, Inhabited

inductive PRes where
  | sent
  | got (v : Int)
  | empty
  | loaded (v : Int)
  | stored
  | forced (r : FRes)
  deriving Repr, DecidableEq, Inhabited

/-- Fuel handed to `force` by the primitive step (programs declare at most 3 lazies). -/
def forceFuel : Nat := 8

/-- One primitive call by green thread `tid`. -/
def pstep (d : Decls) (tid : Nat) (op : POp) (s : PState) : PState × PRes :=
  match op with
  | .send c v => ({ s with chans := upd s.chans c (s.chans c ++ [v]) }, .sent)   -- push_back
  | .recv c =>
    match s.chans c with
    | [] => (s, .empty)                                                           -- pop_front = None ⇒ Err ()
    | v :: q => ({ s with chans := upd s.chans c q }, .got v)
  | .load r => (s, .loaded (s.cells r))
  | .store r v => ({ s with cells := upd s.cells r v }, .stored)
  | .force k =>
    let (l, r) := force d forceFuel tid k s.lz
    ({ s with lz := l }, .forced r)

/-- A whole trace of primitive calls (any interleaving of any threads); returns the final state and
    the results in call order. -/
def runTrace (d : Decls) : List (Nat × POp) → PState → PState × List PRes
  | [], s => (s, [])
  | (tid, op) :: rest, s =>
    let (s1, r) := pstep d tid op s
    let (s2, rs) := runTrace d rest s1
    (s2, r :: rs)

def PState.init (cells : Nat → Int) : PState :=
  { chans := fun _ => [], cells := cells, lz := { st := fun _ => .thunk, runs := [] } }

/-! ## Green threads (coroutines) running straight-line programs -/

inductive Op where
  | prim (p : POp)          -- send / recv / load / store / force-inside-`catch`
  | forceU (k : Nat)        -- force outside `catch`: an error kills the thread
  | resume (t : Nat)
  | yield
  deriving Repr, DecidableEq, Inhabited

/-- State of a spawned coroutine as far as `resume` can tell. -/
inductive TSt where
  | ready (ops : List Op)   -- spawned or suspended at a `yield`, remaining operations
  | blocked                 -- inside a `force` future that is never fired (unreachable since b4f59e3)
  | done                    -- body finished: one frame left (thread.rs:1266)
  | failed (e : FErr) (errFrame : Bool)
      -- body ended with an error; frames are left on its stack. `errFrame`: the top frame is the
      -- `std.prim.error` call of a thunk that ran in the fatal force (else: a `force` frame InPoll)
  deriving Repr, Inhabited

/-- An observation: thread, kind, two arguments (the same numbers the harness' `ev` primitive logs). -/
structure Ev where
  tid : Nat
  kind : Nat
  a : Int
  b : Int
  deriving Repr, DecidableEq, Inhabited

structure St where
  p : PState
  th : Nat → TSt
  log : List Ev             -- newest first

/-- How running a thread's operations stopped. -/
inductive Out where
  | fin
  | yielded (rest : List Op)
  | blocked
  | failed (e : FErr) (errFrame : Bool)
  | panic                   -- host panic (none reachable since /repo 4138eeb; kept for the old-rule witness)
  | nofuel
  deriving Repr, Inhabited

def FErr.code : FErr → Int
  | .loop => 1
  | .boom => 2

def St.emit (s : St) (e : Ev) : St := { s with log := e :: s.log }

/-- The thunk bodies started between two `LS` states, newest first. -/
def newRuns (before after : List Nat) : List Nat := after.take (after.length - before.length)

/-- `RUN k` events (kind 10, logged by the thunk itself, which does not know its thread: tid 9). -/
def runEvents (before after : List Nat) : List Ev :=
  (newRuns before after).map (fun (k : Nat) => (⟨9, 10, (k : Int), 0⟩ : Ev))

/-- What a primitive call logs after it returned. `caught = false`: a force outside `catch`, whose
    error kills the thread before anything is logged. -/
def primEvents (tid : Nat) (caught : Bool) (op : POp) (r : PRes) : List Ev :=
  match op, r with
  | .send c v, _ => [⟨tid, 1, c, v⟩]
  | .recv c, .got v => [⟨tid, 3, c, v⟩]
  | .recv c, _ => [⟨tid, 4, c, 0⟩]
  | .load c, .loaded v => [⟨tid, 5, c, v⟩]
  | .load c, _ => [⟨tid, 5, c, 0⟩]
  | .store c v, _ => [⟨tid, 6, c, v⟩]
  | .force k, .forced (.ok v) => [⟨tid, 8, k, v⟩]
  | .force k, .forced (.err e) => if caught then [⟨tid, 9, k, e.code⟩] else []
  | .force _, _ => []

/-- Events logged before the call: a force announces itself (kind 7). -/
def beginEvents (tid : Nat) (op : POp) : List Ev :=
  match op with
  | .force k => [⟨tid, 7, k, 0⟩]
  | _ => []

/-- One primitive call by thread `tid` together with everything it logs. -/
def doPrim (d : Decls) (tid : Nat) (caught : Bool) (op : POp) (s : St) : St × PRes :=
  ({ s with p := (pstep d tid op s.p).1,
            log := primEvents tid caught op (pstep d tid op s.p).2 ++
                   runEvents s.p.lz.runs (pstep d tid op s.p).1.lz.runs ++ beginEvents tid op ++ s.log },
   (pstep d tid op s.p).2)

/-- Did the `error` primitive itself run in this force (a `boom` thunk body was started)? Then the dead
    thread's top frame is that `std.prim.error` call. -/
def errFrame (d : Decls) (before after : List Nat) : Bool :=
  (newRuns before after).any (fun j => decide (d j = .boom))

/-- What `resume t` by `tid` does with the way the child's run ended (channel.rs:180-193):
    continue with an updated thread table and one more event, or stop the whole program. -/
def afterChild (tid t : Nat) (s1 : St) : Out → Except (St × Out) St
  | .fin => .ok ({ s1 with th := upd s1.th t .done }.emit ⟨tid, 11, t, 0⟩)
  | .yielded r => .ok ({ s1 with th := upd s1.th t (.ready r) }.emit ⟨tid, 11, t, 0⟩)
  | .blocked => .ok ({ s1 with th := upd s1.th t .blocked }.emit ⟨tid, 11, t, 0⟩)
  | .failed e f => .ok ({ s1 with th := upd s1.th t (.failed e f) }.emit ⟨tid, 13, t, e.code⟩)
  | .panic => .error (s1, .panic)
  | .nofuel => .error (s1, .nofuel)

/-- Run the operations of thread `tid` (0 = the main thread, which `yield` does not suspend). -/
def runOps (d : Decls) : Nat → Nat → List Op → St → St × Out
  | 0, _, _, s => (s, .nofuel)
  | _ + 1, _, [], s => (s, .fin)
  | fuel + 1, tid, .prim p :: rest, s =>
    match (doPrim d tid true p s).2 with
    | .forced .pending => ((doPrim d tid true p s).1, .blocked)
    | .forced .nofuel => ((doPrim d tid true p s).1, .nofuel)
    | _ => runOps d fuel tid rest (doPrim d tid true p s).1
  | fuel + 1, tid, .forceU k :: rest, s =>
    match (doPrim d tid false (.force k) s).2 with
    | .forced (.ok _) => runOps d fuel tid rest (doPrim d tid false (.force k) s).1
    | .forced (.err e) =>
      ((doPrim d tid false (.force k) s).1,
       .failed e (errFrame d s.p.lz.runs (doPrim d tid false (.force k) s).1.p.lz.runs))
    | .forced .pending => ((doPrim d tid false (.force k) s).1, .blocked)
    | _ => ((doPrim d tid false (.force k) s).1, .nofuel)
  | fuel + 1, tid, .yield :: rest, s =>
    -- the event is logged just before the call of `yield`
    if tid = 0 then runOps d fuel tid rest (s.emit ⟨tid, 14, 0, 0⟩)   -- top level: woken and polled again at once
    else (s.emit ⟨tid, 14, 0, 0⟩, .yielded rest)
  | fuel + 1, tid, .resume t :: rest, s =>
    match s.th t with
    | .done => runOps d fuel tid rest (s.emit ⟨tid, 12, t, 0⟩)          -- Error::Dead ⇒ Err
    | .failed _ true => runOps d fuel tid rest (s.emit ⟨tid, 11, t, 0⟩)   -- before /repo 4138eeb: host panic (stack.rs:457 assert_pop re-ran the `error` frame); now the failed run's frames are gone and resume answers Ok ()
    | .failed _ false => runOps d fuel tid rest (s.emit ⟨tid, 11, t, 0⟩)  -- top frame = `force` InPoll ⇒ execute returns ⇒ Ok ()
    | .blocked => runOps d fuel tid rest (s.emit ⟨tid, 11, t, 0⟩)        -- Pending ⇒ Ok ()
    | .ready ops =>
      match afterChild tid t (runOps d fuel t ops s).1 (runOps d fuel t ops s).2 with
      | .ok s2 => runOps d fuel tid rest s2
      | .error r => r

end GluonModel.Chan
