/-
Model of the document algebra and of the layout algorithm of the `pretty` crate (version
0.10.0, ~/.cargo/registry/src/*/pretty-0.10.0/src/{lib.rs,render.rs}) on which both gluon
printers are built (format/src/pretty_print.rs, base/src/types/pretty_print.rs).

`Doc` mirrors `pretty::Doc` (lib.rs:159-174) without `Annotated` (transparent for rendering),
`Column` and `Nesting` (not used by gluon).  In 0.10 `Doc::Line` is the HARD newline; the
allocator functions are derived forms (lib.rs:708-759):
  `hardline = Line`, `line = FlatAlt(Line, " ")`, `line_ = FlatAlt(Line, Nil)`,
  `softline = Group(line)`, `space = " "`.

`render w d` follows `render::best` (render.rs:277-296, 436-557) and `render::fitting`
(render.rs:329-424): the command stack of the Rust code is the continuation of an in-order
traversal, so `go` is written by structural recursion on the document with the continuation
`rest` (exactly the documents still on `bcmds`, top first) passed along for the look-ahead of
`fitting`.  Text width is the UTF-8 byte length (`str.len()`).  `none` = rendering failed
(`Doc::Fail` reached outside the left side of a `Union`: `Err(out.fail_doc())`).
-/
namespace GluonModel.PrettyDoc

inductive Doc where
  | nil
  | fail
  /-- `Doc::Line`: a hard newline -/
  | line
  | text (s : List Char)
  | append (l r : Doc)
  | group (d : Doc)
  | nest (k : Nat) (d : Doc)
  /-- `FlatAlt(b, f)`: `b` when laid out in break mode, `f` in flat mode -/
  | flatAlt (b f : Doc)
  /-- `Union(l, r)`: `l` if it renders without exceeding the width, otherwise `r` -/
  | union (l r : Doc)
  deriving Repr, Inhabited

namespace Doc
/-- `DocAllocator::line` (lib.rs:719) -/
def softBreak : Doc := .flatAlt .line (.text [' '])
/-- `DocAllocator::line_` (lib.rs:744) -/
def softBreak_ : Doc := .flatAlt .line .nil
/-- `DocAllocator::softline` (lib.rs:750) -/
def softline : Doc := .group softBreak
/-- format/src/pretty_print.rs:46 `trailing_comma` -/
def trailingComma : Doc := .flatAlt (.text [',']) .nil
/-- format/src/pretty_print.rs:991 `arena.fail().flat_alt(arena.nil())` -/
def failUnlessFlat : Doc := .flatAlt .fail .nil
end Doc

inductive Mode where
  | brk
  | flat
  deriving DecidableEq, Repr

/-- `str::len()` -/
def byteLen : List Char → Nat
  | [] => 0
  | c :: cs => c.utf8Size + byteLen cs

/-- Result of scanning one document in `fitting`: decided, or continue at a column. -/
inductive Fit where
  | done (b : Bool)
  | cont (pos : Nat)

/-- The inner loop of `fitting` (render.rs:362-421) for one document: `mode` is `flat` for the
    group under test and `brk` for everything after it.  A newline decides: it "fits" iff it lies
    after the group (`newline_fits = |mode| mode == Break`, render.rs:479); `Union` looks at its
    second side only (render.rs:412-417); `Fail` does not fit. -/
def fitDoc (w : Nat) (mode : Mode) : Doc → Nat → Fit
  | .nil, p => .cont p
  | .fail, _ => .done false
  | .line, _ => .done (mode == .brk)
  | .text s, p => if p + byteLen s > w then .done false else .cont (p + byteLen s)
  | .append l r, p =>
    match fitDoc w mode l p with
    | .done b => .done b
    | .cont p' => fitDoc w mode r p'
  | .group d, p => fitDoc w mode d p
  | .nest _ d, p => fitDoc w mode d p
  | .flatAlt b f, p => match mode with
    | .brk => fitDoc w mode b p
    | .flat => fitDoc w mode f p
  | .union _ r, p => fitDoc w mode r p

/-- The rest of the command stack, in break mode (render.rs:349-357); running out of commands
    means everything fitted. -/
def fitRest (w : Nat) : List Doc → Nat → Bool
  | [], _ => true
  | d :: ds, p =>
    match fitDoc w .brk d p with
    | .done b => b
    | .cont p' => fitRest w ds p'

/-- `fitting(next, bcmds, pos, width)` (render.rs:329). -/
def fitting (w : Nat) (d : Doc) (rest : List Doc) (pos : Nat) : Bool :=
  match fitDoc w .flat d pos with
  | .done b => b
  | .cont p => fitRest w rest p

/-- `Best { pos, .. }`, the output written so far and the `fits` flag of the current `best`
    call (render.rs:447). -/
structure St where
  pos : Nat
  out : List Char
  fits : Bool
  deriving Repr

/-- `write_newline(ind)` (render.rs:300). -/
def newline (ind : Nat) : List Char := '\n' :: List.replicate ind ' '

/-- `Best::best` (render.rs:436-557) for one command `(ind, mode, d)` with `rest` below it on
    the stack. -/
def go (w : Nat) : Nat → Mode → Doc → List Doc → St → Option St
  | _, _, .nil, _, st => some st
  | _, _, .fail, _, _ => none                                                  -- :548
  | ind, _, .line, _, st =>                                                    -- :496-499
    some { st with pos := ind, out := st.out ++ newline ind }
  | _, _, .text s, _, st =>                                                    -- :500-514
    let p := st.pos + byteLen s
    some { pos := p, out := st.out ++ s, fits := st.fits && decide (p ≤ w) }
  | ind, mode, .append l r, rest, st =>                                        -- :455-458
    match go w ind mode l (r :: rest) st with
    | none => none
    | some st' => go w ind mode r rest st'
  | ind, mode, .group d, rest, st =>                                           -- :466-487
    match mode with
    | .flat => go w ind .flat d rest st
    | .brk =>
      if fitting w d rest st.pos then go w ind .flat d rest st
      else go w ind .brk d rest st
  | ind, mode, .nest k d, rest, st => go w (ind + k) mode d rest st            -- :488-491
  | ind, mode, .flatAlt b f, rest, st =>                                       -- :459-465
    match mode with
    | .brk => go w ind .brk b rest st
    | .flat => go w ind .flat f rest st
  | ind, mode, .union l r, rest, st =>                                         -- :521-539
    match go w ind mode l rest { pos := st.pos, out := [], fits := true } with
    | some st' =>
      if st'.fits then some { pos := st'.pos, out := st.out ++ st'.out, fits := st.fits }
      else go w ind mode r rest st
    | none => go w ind mode r rest st

/-- `doc.pretty(width).to_string()`; `none` when rendering fails. -/
def render (w : Nat) (d : Doc) : Option (List Char) :=
  (go w 0 .brk d [] { pos := 0, out := [], fits := true }).map (·.out)

end GluonModel.PrettyDoc
