/-
C11 model — marshalling between Rust and gluon.

Transcribed from
  vm/src/api/mod.rs:815-1440   Pushable / Getable instances of (), u8, the int_impls! types, f32/f64,
                               bool, Ordering, String, char, Vec (Collect), BTreeMap (to_gluon_map /
                               from_gluon_map), Option, Result
  vm/src/api/mod.rs:1633-1699  define_tuple!
  vm/src/value.rs:1478-1503    ArrayDef (array representation taken from the first element)
  vm/src/value.rs:182-188      DataStruct::tag (record bit masked)
  codegen/src/pushable.rs, getable.rs, vm_type.rs   the derive expansions
  vm/src/api/ser.rs:251-581    the serde Serializer (`Ser`)
  std/map.glu:14-56            Map / insert
  vm/src/thread.rs:850-867     get_global; vm/src/value.rs:523-545 obj_eq; thread.rs:320-329 unroot_
No imports besides the protocol-free core: this file is linked into the driver.
-/
namespace GluonModel.Marshal

/-- the `int_impls!` types (api/mod.rs:882); `i8` has no instances. -/
inductive IntTy where
  | i16 | i32 | i64 | u16 | u32 | u64 | usize | isize
  deriving DecidableEq, Repr, Inhabited

/-- Type codes of the Rust types of the family. `vunit/vtuple/vstruct` are the three shapes of an
    enum variant and only occur inside `enum`. -/
inductive TCode where
  | unit | u8 | int (t : IntTy) | f32 | f64 | bool | char | string | ordering
  | option (t : TCode) | result (t e : TCode) | vec (t : TCode)
  | tuple (ts : List TCode) | map (v : TCode)
  | struct (fs : List (String × TCode)) | newtype (t : TCode) | tstruct (ts : List TCode) | ustruct
  | enum (name : String) (vs : List TCode)
  | vunit | vtuple (ts : List TCode) | vstruct (fs : List (String × TCode))
  deriving Repr, Inhabited

/-- Rust values. Floats are bit patterns, chars scalar values, `int` carries the mathematical value. -/
inductive Val where
  | unit | u8 (n : Nat) | int (t : IntTy) (n : Int) | f32 (b : Nat) | f64 (b : Nat)
  | bool (b : Bool) | char (c : Nat) | str (s : String) | ord (o : Nat)
  | none | some (v : Val) | ok (v : Val) | err (v : Val)
  | vec (vs : List Val) | tuple (vs : List Val) | map (kvs : List (String × Val))
  | struct (fs : List (String × Val)) | newtype (v : Val) | tstruct (vs : List Val) | ustruct
  | var (idx : Nat) (payload : Val)
  | vunit | vtuple (vs : List Val) | vstruct (fs : List (String × Val))
  deriving Repr, Inhabited

/-- value.rs:1140 `Repr` (the members reachable from the family). -/
inductive ARepr where
  | byte | int | float | string | array | unknown
  deriving DecidableEq, Repr, Inhabited

/-- gluon values as seen through `ValueRef` (value.rs:395 `ValueRepr`). -/
inductive GV where
  | byte (n : Nat) | int (n : Int) | float (bits : Nat) | str (s : String)
  | tag (t : Nat)
  | data (t : Nat) (fs : List GV)
  | record (names : List String) (fs : List GV)
  | array (r : ARepr) (xs : List GV)
  deriving Repr, Inhabited

/-! ### integer casts (`as`) -/

/-- `x as i64` for a value of any of the integer types: narrower types extend to their
    mathematical value, `u64`/`usize` wrap. -/
def toI64 (n : Int) : Int := (n + 9223372036854775808) % 18446744073709551616 - 9223372036854775808

/-- `i as $id` from an `i64`. -/
def castTo : IntTy → Int → Int
  | .i16, i => (i + 32768) % 65536 - 32768
  | .i32, i => (i + 2147483648) % 4294967296 - 2147483648
  | .i64, i => i
  | .isize, i => i
  | .u16, i => i % 65536
  | .u32, i => i % 4294967296
  | .u64, i => i % 18446744073709551616
  | .usize, i => i % 18446744073709551616

/-- the range of the Rust type -/
def inRange : IntTy → Int → Bool
  | .i16, n => decide (-32768 ≤ n ∧ n ≤ 32767)
  | .i32, n => decide (-2147483648 ≤ n ∧ n ≤ 2147483647)
  | .i64, n => decide (-9223372036854775808 ≤ n ∧ n ≤ 9223372036854775807)
  | .isize, n => decide (-9223372036854775808 ≤ n ∧ n ≤ 9223372036854775807)
  | .u16, n => decide (0 ≤ n ∧ n ≤ 65535)
  | .u32, n => decide (0 ≤ n ∧ n ≤ 4294967295)
  | .u64, n => decide (0 ≤ n ∧ n ≤ 18446744073709551615)
  | .usize, n => decide (0 ≤ n ∧ n ≤ 18446744073709551615)

/-- `char::from_u32(x as u32)` (api/mod.rs:1047): the scalar value, or `none` for `ice!`. -/
def charOfInt (i : Int) : Option Nat :=
  let u := (i % 4294967296).toNat
  if u < 55296 ∨ (57344 ≤ u ∧ u < 1114112) then some u else none

def validChar (c : Nat) : Bool := decide (c < 55296 ∨ (57344 ≤ c ∧ c < 1114112))

/-! ### float casts (`f32 as f64`, `f64 as f32`), on IEEE-754 bit patterns -/

/-- position of the highest set bit (`n > 0`), by halving with fuel. -/
def log2Fuel : Nat → Nat → Nat
  | 0, _ => 0
  | fuel + 1, n => if n ≤ 1 then 0 else log2Fuel fuel (n / 2) + 1

/-- `f32 as f64` (exact; a signalling NaN is quieted, as x86-64 `cvtss2sd` does). -/
def f32to64 (b : Nat) : Nat :=
  let s := b / 2147483648 % 2
  let e := b / 8388608 % 256
  let m := b % 8388608
  let sign := s * 9223372036854775808
  if e = 255 then
    if m = 0 then sign + 9218868437227405312
    else sign + 9218868437227405312 + 2251799813685248 + m * 536870912 % 2251799813685248
  else if e = 0 then
    if m = 0 then sign
    else
      let k := log2Fuel 32 m
      sign + (k + 874) * 4503599627370496 + (m * 2 ^ (52 - k) - 4503599627370496)
  else sign + (e + 896) * 4503599627370496 + m * 536870912

/-- round-to-nearest-even of `sig / 2^sh` -/
def rne (sig sh : Nat) : Nat :=
  let q := sig / 2 ^ sh
  let r := sig % 2 ^ sh
  let half := 2 ^ sh / 2
  if sh = 0 then sig
  else if r > half ∨ (r = half ∧ q % 2 = 1) then q + 1 else q

/-- `f64 as f32` (IEEE round to nearest even, overflow to infinity, NaN quieted with the payload's
    top bits). -/
def f64to32 (b : Nat) : Nat :=
  let s := b / 9223372036854775808 % 2
  let e := b / 4503599627370496 % 2048
  let m := b % 4503599627370496
  let sign := s * 2147483648
  if e = 2047 then
    if m = 0 then sign + 2139095040
    else sign + 2139095040 + 4194304 + m / 536870912 % 4194304
  else if e = 0 then sign
  else
    let sig := m + 4503599627370496
    if e ≥ 897 then
      -- normal range of f32 (or above): exponent field e - 896, hidden bit carried by addition
      let r := (e - 897) * 8388608 + rne sig 29
      if r ≥ 2139095040 then sign + 2139095040 else sign + r
    else
      -- subnormal range of f32
      let sh := 29 + (897 - e)
      if sh > 60 then sign else sign + rne sig sh

def isNaN32 (b : Nat) : Bool := b / 8388608 % 256 = 255 ∧ b % 8388608 ≠ 0
def isNaN64 (b : Nat) : Bool := b / 4503599627370496 % 2048 = 2047 ∧ b % 4503599627370496 ≠ 0

/-! ### helpers on gluon values -/

/-- value.rs:1226 `Repr::from_value` -/
def reprOf : GV → ARepr
  | .byte _ => .byte
  | .int _ => .int
  | .float _ => .float
  | .str _ => .string
  | .array _ _ => .array
  | .tag _ => .unknown
  | .data _ _ => .unknown
  | .record _ _ => .unknown

/-- value.rs:1487 `ArrayDef::initialize`: representation of the first element, `Unknown` if empty. -/
def mkArray (xs : List GV) : GV :=
  match xs with
  | [] => .array .unknown []
  | x :: _ => .array (reprOf x) xs

/-- `ValueRef::Data(d)` then `d.tag()`; `none` for the non-data values (the `ice!` arms). A record's
    tag is the record bit, masked away (value.rs:182). -/
def tagOf : GV → Option Nat
  | .tag t => some t
  | .data t _ => some t
  | .record _ _ => some 0
  | _ => none

def fieldsOf : GV → List GV
  | .data _ fs => fs
  | .record _ fs => fs
  | _ => []

def lookupIdx (n : String) : List String → Nat → Option Nat
  | [], _ => none
  | m :: ms, i => if m = n then some i else lookupIdx n ms (i + 1)

/-- `Data::lookup_field`: by name through the field map; non-records have none. -/
def lookupField (g : GV) (n : String) : Option GV :=
  match g with
  | .record names fs => match lookupIdx n names 0 with
    | some i => fs[i]?
    | none => none
  | _ => none

def tupleNames : Nat → Nat → List String
  | 0, _ => []
  | n + 1, i => ("_" ++ toString i) :: tupleNames n (i + 1)

/-! ### the gluon `Map` (std/map.glu): `Tip` = tag 0, `Bin k v l r` = tag 1 -/

inductive Tree where
  | tip
  | bin (k : String) (v : GV) (l r : Tree)
  deriving Inhabited

/-- std/map.glu:47 `insert` with the `Ord String` instance (byte-wise = code-point order). -/
def Tree.insert (k : String) (v : GV) : Tree → Tree
  | .tip => .bin k v .tip .tip
  | .bin k2 v2 l r =>
    if k < k2 then .bin k2 v2 (Tree.insert k v l) r
    else if k = k2 then .bin k v l r
    else .bin k2 v2 l (Tree.insert k v r)

def Tree.toGV : Tree → GV
  | .tip => .tag 0
  | .bin k v l r => .data 1 [.str k, v, l.toGV, r.toGV]

/-- api/mod.rs:1298 `to_gluon_map`: fold `insert_string` over the map in key order. -/
def buildMap (kvs : List (String × GV)) : Tree :=
  kvs.foldl (fun m kv => Tree.insert kv.1 kv.2 m) .tip

/-- `BTreeMap::extend(Some((k, v)))`: ordered insert, replacing an equal key. -/
def insertSorted (k : String) (v : Val) : List (String × Val) → List (String × Val)
  | [] => [(k, v)]
  | (k2, v2) :: rest =>
    if k < k2 then (k, v) :: (k2, v2) :: rest
    else if k = k2 then (k, v) :: rest
    else (k2, v2) :: insertSorted k v rest

/-- api/mod.rs:1324 `from_gluon_map`: node, then left, then right, each `extend`ed into the map.
    `getv` reads a value; `none` = `ice!` / `expect` failure. -/
def fromMap (getv : GV → Option Val) : GV → List (String × Val) → Option (List (String × Val))
  | .tag _, acc => some acc
  | .record _ _, acc => some acc
  | .data t fs, acc =>
    if t = 1 then
      match fs with
      | [.str k, v, l, r] =>
        match getv v with
        | none => none
        | some x =>
          match fromMap getv l (insertSorted k x acc) with
          | none => none
          | some acc' => fromMap getv r acc'
      | _ => none
    else some acc
  | _, _ => none

/-! ### `Pushable::vm_push` -/

mutual
def push : Val → GV
  | .unit => .int 0                                    -- api/mod.rs:820
  | .u8 n => .byte n                                   -- :838
  | .int _ n => .int (toI64 n)                         -- :863
  | .f32 b => .float (f32to64 b)                       -- :912
  | .f64 b => .float b                                 -- :890
  | .bool b => .tag (if b then 1 else 0)               -- :941
  | .char c => .int c                                  -- :1037
  | .str s => .str s                                   -- :1010
  | .ord o => .tag o                                   -- :969 (Less 0, Equal 1, Greater 2)
  | .none => .tag 0                                    -- :1370
  | .some v => .data 1 [push v]                        -- :1368
  | .ok v => .data 1 [push v]                          -- :1413
  | .err v => .data 0 [push v]                         -- :1417
  | .vec vs => mkArray (pushL vs)                      -- :1778 Collect
  | .tuple vs => .record (tupleNames vs.length 0) (pushL vs)   -- :1670
  | .map kvs => (buildMap (pushKV kvs)).toGV           -- :1298
  | .struct fs => .record (namesOf fs) (pushF fs)      -- codegen/pushable.rs:192 push_new_record
  | .newtype v => push v                               -- pushable.rs:47
  | .tstruct vs => .record (tupleNames vs.length 0) (pushL vs) -- pushable.rs:64 (idents `_i`)
  | .ustruct => .record [] []                          -- push_new_record(0, [])
  | .var i .vunit => .data i []                        -- pushable.rs:104 push_new_data(tag, 0)
  | .var i (.vtuple vs) => .data i (pushL vs)          -- pushable.rs:104
  | .var i (.vstruct fs) => .data i [.record (namesOf fs) (pushF fs)]  -- pushable.rs:94-100
  | .var _ _ => .tag 0
  | .vunit => .tag 0
  | .vtuple _ => .tag 0
  | .vstruct _ => .tag 0
def pushL : List Val → List GV
  | [] => []
  | v :: vs => push v :: pushL vs
def pushF : List (String × Val) → List GV
  | [] => []
  | (_, v) :: fs => push v :: pushF fs
def pushKV : List (String × Val) → List (String × GV)
  | [] => []
  | (k, v) :: fs => (k, push v) :: pushKV fs
def namesOf : List (String × Val) → List String
  | [] => []
  | (n, _) :: fs => n :: namesOf fs
end

/-! ### `Getable::from_value` (`none` = `ice!` / `panic!` / `unwrap` failure) -/

def mapMOpt (f : GV → Option Val) : List GV → Option (List Val)
  | [] => some []
  | x :: xs => match f x with
    | none => none
    | some y => match mapMOpt f xs with
      | none => none
      | some ys => some (y :: ys)

mutual
def get : TCode → GV → Option Val
  | .unit, _ => some .unit                                              -- api/mod.rs:827
  | .u8, .byte n => some (.u8 n)                                        -- :847
  | .u8, _ => none
  | .int t, .int i => some (.int t (castTo t i))                        -- :873
  | .int _, _ => none
  | .f64, .float b => some (.f64 b)                                     -- :899
  | .f64, _ => none
  | .f32, .float b => some (.f32 (f64to32 b))                           -- :922
  | .f32, _ => none
  | .bool, g => match tagOf g with                                      -- :951
    | some t => some (.bool (t == 1))
    | none => none
  | .ordering, g => match tagOf g with                                  -- :982
    | some t => if t ≤ 2 then some (.ord t) else none
    | none => none
  | .string, .str s => some (.str s)                                    -- :1020
  | .string, _ => none
  | .char, .int i => match charOfInt i with                             -- :1047
    | some c => some (.char c)
    | none => none
  | .char, _ => none
  | .option t, g => match tagOf g with                                  -- :1379
    | none => none
    | some 0 => some .none
    | some _ => match (fieldsOf g)[0]? with
      | none => none
      | some x => match get t x with
        | none => none
        | some v => some (.some v)
  | .result t e, g => match tagOf g with                                -- :1431
    | some 0 => match (fieldsOf g)[0]? with
      | none => none
      | some x => match get e x with
        | none => none
        | some v => some (.err v)
    | some 1 => match (fieldsOf g)[0]? with
      | none => none
      | some x => match get t x with
        | none => none
        | some v => some (.ok v)
    | _ => none
  | .vec t, .array _ xs => match mapMOpt (fun x => get t x) xs with      -- :1213, :1830
    | none => none
    | some vs => some (.vec vs)
  | .vec _, _ => none
  | .tuple ts, g => match tagOf g with                                  -- :1655 (assert on the length)
    | none => none
    | some _ => if (fieldsOf g).length = ts.length then
        match getTs ts (fieldsOf g) 0 with
        | none => none
        | some vs => some (.tuple vs)
      else none
  | .map v, g => match fromMap (fun x => get v x) g [] with              -- :1291
    | none => none
    | some kvs => some (.map kvs)
  | .struct fs, g => match tagOf g with                                 -- codegen/getable.rs:48-79
    | none => none
    | some _ => match getFs fs g with
      | none => none
      | some vs => some (.struct vs)
  | .newtype t, g => match get t g with                                 -- getable.rs:90
    | none => none
    | some v => some (.newtype v)
  | .tstruct ts, g => match tagOf g with                                -- getable.rs:102-126
    | none => none
    | some _ => match getTs ts (fieldsOf g) 0 with
      | none => none
      | some vs => some (.tstruct vs)
  | .ustruct, _ => some .ustruct                                        -- getable.rs:42
  | .enum _ vs, g => match tagOf g with                                 -- getable.rs:147-154
    | none => none
    | some tg => match getVariant vs tg g with
      | none => none
      | some p => some (.var tg p)
  | .vunit, _ => none
  | .vtuple _, _ => none
  | .vstruct _, _ => none
/-- fields by index: `data.get_variant(i)` for each declared field -/
def getTs : List TCode → List GV → Nat → Option (List Val)
  | [], _, _ => some []
  | t :: ts, fs, i => match fs[i]? with
    | none => none
    | some x => match get t x with
      | none => none
      | some v => match getTs ts fs (i + 1) with
        | none => none
        | some vs => some (v :: vs)
/-- fields by name: `data.lookup_field(vm, name)` for each declared field -/
def getFs : List (String × TCode) → GV → Option (List (String × Val))
  | [], _ => some []
  | (n, t) :: fs, g => match lookupField g n with
    | none => none
    | some x => match get t x with
      | none => none
      | some v => match getFs fs g with
        | none => none
        | some vs => some ((n, v) :: vs)
/-- the `match data.tag() as usize` of the enum derive: the variant with index `tg` -/
def getVariant : List TCode → Nat → GV → Option Val
  | [], _, _ => none
  | v :: _, 0, g => match v with
    | .vunit => some .vunit                                             -- getable.rs:232
    | .vtuple ts => match getTs ts (fieldsOf g) 0 with                  -- getable.rs:255
      | none => none
      | some vs => some (.vtuple vs)
    | .vstruct fs => match (fieldsOf g)[0]? with                        -- getable.rs:296
      | none => none
      | some inner => match tagOf inner with
        | none => none
        | some _ => match getFs fs inner with
          | none => none
          | some vs => some (.vstruct vs)
    | _ => none
  | _ :: vs, n + 1, g => getVariant vs n g
end

/-! ### the serde bridge: `Ser` (vm/src/api/ser.rs) composed with serde's `Serialize` impls -/

mutual
def ser : Val → GV
  | .unit => .tag 0                                     -- ser.rs:351 serialize_unit
  | .u8 n => .int n                                     -- ser.rs:298 → serialize_u64 → `as isize`
  | .int _ n => .int (toI64 n)                          -- ser.rs:280-312
  | .f32 b => .float (f32to64 b)                        -- ser.rs:314
  | .f64 b => .float b
  | .bool b => .tag (if b then 1 else 0)                -- ser.rs:272
  | .char c => .str (String.singleton (Char.ofNat c))   -- ser.rs:322 (a string!)
  | .str s => .str s
  | .ord o => .tag o
  | .none => .tag 0                                     -- ser.rs:335
  | .some v => ser v                                    -- ser.rs:344 (not wrapped!)
  | .ok v => .data 0 [ser v]                            -- serde: Ok = variant 0 (gluon: Ok = 1)
  | .err v => .data 1 [ser v]                           -- serde: Err = variant 1 (gluon: Err = 0)
  | .vec vs => .data 0 (serL vs)                        -- ser.rs:398,456 (a data value, not an array)
  | .tuple vs => .data 0 (serL vs)                      -- ser.rs:402
  | .map kvs => .data 0 (serF kvs)                      -- ser.rs:424,519-537 (keys dropped)
  | .struct fs => .record (serNames fs) (serF fs)       -- ser.rs:428,556
  | .newtype v => ser v                                 -- ser.rs:372
  | .tstruct vs => .data 0 (serL vs)                    -- ser.rs:406
  | .ustruct => .tag 0                                  -- ser.rs:356
  | .var i .vunit => .tag i                             -- ser.rs:360
  | .var i (.vtuple vs) => .data i (serL vs)            -- ser.rs:384 / :414
  | .var i (.vstruct fs) => .data i [.record (serNames fs) (serF fs)]   -- ser.rs:577-580
  | .var _ _ => .tag 0
  | .vunit => .tag 0
  | .vtuple _ => .tag 0
  | .vstruct _ => .tag 0
def serL : List Val → List GV
  | [] => []
  | v :: vs => ser v :: serL vs
def serF : List (String × Val) → List GV
  | [] => []
  | (_, v) :: fs => ser v :: serF fs
def serNames : List (String × Val) → List String
  | [] => []
  | (n, _) :: fs => n :: serNames fs
end

/-! ### the serde bridge, other direction: `De` (vm/src/api/de.rs) composed with serde's `Deserialize`
    impls and visitors.

    `de c gl v`: deserialize the Rust type `c` from the gluon value `v` whose *gluon* type is the one of
    the type code `gl` (the `typ` field of de.rs's `Deserializer`; initially `gl = c`, they drift apart
    only where the code confuses variants, e.g. `Result`). -/

inductive DeOut where
  | ok (v : Val)
  | err          -- `Err(VmError::Message …)` / a serde `invalid type|value|length` error
  | crash        -- unbounded recursion deserialize_any ↔ deserialize_map (de.rs:298 ↔ :600): stack overflow
  | unmodelled   -- a path the model does not describe (not reachable from pushed values of the family)
  deriving Repr, Inhabited

/-- the gluon type behind a type code, as `resolve::remove_aliases` shows it to de.rs -/
inductive GK where
  | int | byte | float | string | char
  | arr (t : TCode)
  | recd (fs : List (String × TCode))
  | var (ctors : List (List TCode))

def tupleFields : List TCode → Nat → List (String × TCode)
  | [], _ => []
  | t :: ts, i => ("_" ++ toString i, t) :: tupleFields ts (i + 1)

def ctorArgs : TCode → List TCode
  | .vtuple ts => ts
  | .vstruct fs => [.struct fs]
  | _ => []

def glKind : TCode → GK
  | .unit => .recd [] | .ustruct => .recd []
  | .u8 => .byte | .int _ => .int | .f32 => .float | .f64 => .float
  | .string => .string | .char => .char
  | .bool => .var [[], []]
  | .ordering => .var [[], [], []]
  | .option t => .var [[], [t]]
  | .result t e => .var [[e], [t]]                     -- | Err e | Ok t
  | .vec t => .arr t
  | .tuple ts => .recd (tupleFields ts 0)
  | .tstruct ts => .recd (tupleFields ts 0)
  | .map v => .var [[], [.string, v, .map v, .map v]]  -- | Tip | Bin k a (Map k a) (Map k a)
  | .struct fs => .recd fs
  | .newtype t => glKind t
  | .enum _ vars => .var (vars.map ctorArgs)
  | .vunit => .recd [] | .vtuple _ => .recd [] | .vstruct _ => .recd []

def isRecK (gl : TCode) : Bool := match glKind gl with | .recd _ => true | _ => false

/-- de.rs:482 `canonical_alias(… "std.types.Option")` -/
def asOption : TCode → Option TCode
  | .option t => some t
  | .newtype t => asOption t
  | _ => none

/-- `deserialize_any` (de.rs:279) with a visitor that accepts none of the `visit_*` it can reach:
    a `Data` value whose type is a record goes to `deserialize_enum` (→ `visit_enum`, rejected), a
    `Data` value of any other type to `deserialize_map` → `deserialize_any` → … forever. -/
def anyReject (gl : TCode) (v : GV) : DeOut :=
  match tagOf v with
  | some _ => if isRecK gl then .err else .crash
  | none => .err

/-- an integer visitor receiving `n` (serde: `visit_u8` / `visit_i64` with a checked conversion) -/
def intVisit (t : Option IntTy) (n : Int) : DeOut :=
  match t with
  | none => if 0 ≤ n ∧ n ≤ 255 then .ok (.u8 n.toNat) else .err
  | some t => if inRange t n then .ok (.int t n) else .err

/-- `deserialize_u8/i16/…` (de.rs:326-404) for the integer types (`none` = u8) -/
def deInt (t : Option IntTy) (gl : TCode) (v : GV) : DeOut :=
  match v with
  | .byte b => intVisit t b                       -- de.rs:331,341,371,381 or via any → deserialize_u8
  | .int i => match t with
    | some .i32 => .ok (.int .i32 (castTo .i32 i))      -- de.rs:351 `b as i32`
    | some .u32 => .ok (.int .u32 (castTo .u32 i))      -- de.rs:391
    | some .u64 => .ok (.int .u64 (castTo .u64 i))      -- de.rs:401
    | some .usize => .ok (.int .usize (castTo .usize i))
    | _ => intVisit t i                                 -- visit_i64, checked
  | .float _ => .err
  | .str _ => .err
  | .array _ _ => .err
  | _ => anyReject gl v

def natToF64 (n : Nat) : Nat :=
  if n = 0 then 0 else
    let k := log2Fuel 64 n
    (1023 + k) * 4503599627370496 + (n - 2 ^ k) * 2 ^ (52 - k)

def natToF32 (n : Nat) : Nat :=
  if n = 0 then 0 else
    let k := log2Fuel 64 n
    (127 + k) * 8388608 + (n - 2 ^ k) * 2 ^ (23 - k)

def deFloat (is32 : Bool) (gl : TCode) (v : GV) : DeOut :=
  match v with
  | .float b => if is32 then .ok (.f32 (f64to32 b)) else .ok (.f64 b)   -- de.rs:411,421
  | .byte n => if is32 then .ok (.f32 (natToF32 n)) else .ok (.f64 (natToF64 n))  -- any → visit_u8 (serde floats accept integers)
  | .int _ => .unmodelled                                               -- `i as f64` rounding
  | .str _ => .err
  | .array _ _ => .err
  | _ => anyReject gl v

def deChar (gl : TCode) (v : GV) : DeOut :=
  match v with
  | .int i => match glKind gl with                                     -- de.rs:432
    | .char => match charOfInt i with
      | some c => .ok (.char c)
      | none => .err
    | _ => .err
  | .str s => match s.toList with                                      -- any → visit_borrowed_str
    | [c] => .ok (.char c.toNat)
    | _ => .err
  | .byte _ => .err
  | .float _ => .err
  | .array _ _ => .err
  | _ => anyReject gl v

def seqM (f : GV → DeOut) : List GV → List Val → DeOut
  | [], acc => .ok (.vec acc.reverse)
  | x :: xs, acc => match f x with
    | .ok v => seqM f xs (v :: acc)
    | .err => .err
    | .crash => .crash
    | .unmodelled => .unmodelled

def zipM (f : TCode → GV → DeOut) : List GV → List TCode → List Val → DeOut
  | x :: xs, a :: as, acc => match f a x with
    | .ok v => zipM f xs as (v :: acc)
    | .err => .err
    | .crash => .crash
    | .unmodelled => .unmodelled
  | _, _, acc => .ok (.vec acc.reverse)

def assocVal (n : String) : List (String × Val) → Option Val
  | [] => none
  | (m, v) :: rest => if m = n then some v else assocVal n rest

/-- the derived struct visitor's epilogue: every declared field, in declaration order; a missing
    `Option` field is `None`, any other missing field an error -/
def assemble : List (String × TCode) → List (String × Val) → Option (List (String × Val))
  | [], _ => some []
  | (n, t) :: fs, got => match assemble fs got with
    | none => none
    | some rest => match assocVal n got with
      | some v => some ((n, v) :: rest)
      | none => match t with
        | .option _ => some ((n, .none) :: rest)
        | _ => none

/-- de.rs:593-599 / :871-875: walk the fields of the *gluon* record type, `lookup_field` each, hand
    (name, value) to the visitor; `f` deserializes a known field, `none` for an unknown name -/
def mapLoop (f : String → TCode → GV → Option DeOut) (v : GV) :
    List (String × TCode) → List (String × Val) → Option (List (String × Val)) ⊕ DeOut
  | [], acc => .inl (some acc.reverse)
  | (n, gt) :: rest, acc => match lookupField v n with
    | none => mapLoop f v rest acc
    | some x => match f n gt x with
      | none => .inr .unmodelled
      | some (.ok y) => mapLoop f v rest ((n, y) :: acc)
      | some .err => .inr .err
      | some .crash => .inr .crash
      | some .unmodelled => .inr .unmodelled

mutual
def de : TCode → TCode → GV → DeOut
  | .unit, gl, v => match tagOf v with                                  -- de.rs:509
    | some 0 => .ok .unit
    | _ => anyReject gl v
  | .ustruct, gl, v => match tagOf v with                               -- de.rs:519 → :509
    | some 0 => .ok .ustruct
    | _ => anyReject gl v
  | .u8, gl, v => deInt none gl v
  | .int t, gl, v => deInt (some t) gl v
  | .f32, gl, v => deFloat true gl v
  | .f64, gl, v => deFloat false gl v
  | .bool, _, v => match tagOf v with                                   -- de.rs:314
    | some t => .ok (.bool (t != 0))
    | none => .err
  | .char, gl, v => deChar gl v
  | .string, gl, v => match glKind gl, v with                           -- de.rs:441 deserialize_builtin
    | .string, .str s => .ok (.str s)
    | _, _ => .err
  | .ordering, _, _ => .unmodelled                                      -- no serde impls
  | .option t, gl, v => match asOption gl with                          -- de.rs:478
    | some t' => match tagOf v with
      | some 0 => .ok .none
      | some 1 => match (fieldsOf v)[0]? with
        | none => .err
        | some x => match de t t' x with
          | .ok y => .ok (.some y)
          | o => o
      | _ => anyReject gl v
    | none => match de t gl v with
      | .ok y => .ok (.some y)
      | o => o
  | .result t e, gl, v => match tagOf v with                            -- serde Result: 0 ↦ Ok, 1 ↦ Err
    | some 0 => match variantArg gl v 0 with                            --   (de.rs:742 visit_u32(tag))
      | .inr o => o
      | .inl (a, x) => match de t a x with
        | .ok y => .ok (.ok y)
        | o => o
    | some 1 => match variantArg gl v 1 with
      | .inr o => o
      | .inl (a, x) => match de e a x with
        | .ok y => .ok (.err y)
        | o => o
    | _ => .err
  | .vec t, gl, v => match v, glKind gl with                            -- de.rs:542
    | .array _ xs, .arr t' => seqM (fun x => de t t' x) xs []
    | .array _ _, _ => .unmodelled
    | v, .var ctors => match tagOf v with
      | some tg => match ctors[tg]? with
        | some args => zipM (fun a x => de t a x) (fieldsOf v) args []
        | none => anyReject gl v
      | none => .err
    | v, _ => anyReject gl v
  | .tuple ts, gl, v => match deSeq ts gl v with
    | .inl vs => .ok (.tuple vs)
    | .inr o => o
  | .tstruct ts, gl, v => match deSeq ts gl v with
    | .inl vs => .ok (.tstruct vs)
    | .inr o => o
  | .newtype t, gl, v => match de t gl v with                           -- de.rs:535
    | .ok y => .ok (.newtype y)
    | o => o
  | .map _, gl, v => match tagOf v with                                 -- de.rs:587
    | some _ => if isRecK gl then .unmodelled else .crash
    | none => .err
  | .struct fs, gl, v => match deStruct fs gl v with
    | .inl vs => .ok (.struct vs)
    | .inr o => o
  | .enum _ vars, gl, v => match tagOf v with                           -- de.rs:616, :742
    | none => .err
    | some tg => match deVariant vars tg gl v tg with
      | .inl p => .ok (.var tg p)
      | .inr o => o
  | .vunit, _, _ => .unmodelled
  | .vtuple _, _, _ => .unmodelled
  | .vstruct _, _, _ => .unmodelled
/-- `deserialize_seq` (de.rs:542) with a visitor that wants exactly the elements `ts` -/
def deSeq : List TCode → TCode → GV → List Val ⊕ DeOut
  | ts, gl, v => match v, glKind gl with
    | .array _ xs, .arr t' => deElems ts (xs.map (fun x => (x, t')))
    | .array _ _, _ => .inr .unmodelled
    | v, .var ctors => match tagOf v with
      | some tg => match ctors[tg]? with
        | some args => deElems ts ((fieldsOf v).zip args)
        | none => .inr (anyReject gl v)
      | none => .inr .err
    | v, _ => .inr (anyReject gl v)       -- a record-typed value ends in `visit_enum`: rejected
def deElems : List TCode → List (GV × TCode) → List Val ⊕ DeOut
  | [], _ => .inl []
  | _ :: _, [] => .inr .err                         -- invalid length
  | t :: ts, (x, a) :: rest => match de t a x with
    | .ok y => match deElems ts rest with
      | .inl ys => .inl (y :: ys)
      | .inr o => .inr o
    | o => .inr o
/-- `deserialize_struct` → `deserialize_map` (de.rs:587-602) with a derived struct visitor -/
def deStruct : List (String × TCode) → TCode → GV → List (String × Val) ⊕ DeOut
  | fs, gl, v => match tagOf v, glKind gl with
    | some _, .recd gfs => match mapLoop (fun n gt x => deField fs n gt x) v gfs [] with
      | .inr o => .inr o
      | .inl none => .inr .err
      | .inl (some got) => match assemble fs got with
        | some vs => .inl vs
        | none => .inr .err
    | some _, _ => .inr .crash
    | none, _ => match v with
      | .array _ _ => .inr .unmodelled
      | _ => .inr .err
def deField : List (String × TCode) → String → TCode → GV → Option DeOut
  | [], _, _, _ => none
  | (m, t) :: fs, n, gt, x => if m = n then some (de t gt x) else deField fs n gt x
/-- the variant with serde index `i` (counting down in `k`) of a derived enum; `tg` is the tag -/
def deVariant : List TCode → Nat → TCode → GV → Nat → Val ⊕ DeOut
  | [], _, _, _, _ => .inr .err                     -- invalid value: variant index
  | c :: _, 0, gl, v, tg => match c with
    | .vunit => .inl .vunit                                             -- de.rs:796 unit_variant
    | .vtuple [t] => match variantArg gl v tg with                      -- de.rs:800 newtype_variant_seed
      | .inr o => .inr o
      | .inl (a, x) => match de t a x with
        | .ok y => .inl (.vtuple [y])
        | o => .inr o
    | .vtuple ts => match deSeq ts gl v with                            -- de.rs:825 tuple_variant
      | .inl vs => .inl (.vtuple vs)
      | .inr o => .inr o
    | .vstruct fs => match glKind gl with                               -- de.rs:832 struct_variant
      | .var ctors => match ctors[tg]? with
        | none => .inr .err
        | some args => match args.head?, (fieldsOf v)[0]? with
          | some a, some inner => match tagOf inner with
            | none => .inr .err
            | some _ =>
              let gfs := match glKind a with | .recd gfs => gfs | _ => []
              match mapLoop (fun n gt x => deField fs n gt x) inner gfs [] with
              | .inr o => .inr o
              | .inl none => .inr .err
              | .inl (some got) => match assemble fs got with
                | some vs => .inl (.vstruct vs)
                | none => .inr .err
          | _, _ => .inr .err
      | _ => .inr .err
    | _ => .inr .unmodelled
  | _ :: cs, k + 1, gl, v, tg => deVariant cs k gl v tg
/-- de.rs:800-822 `newtype_variant_seed`: the gluon constructor with the value's tag, its first
    argument type and the value's first field -/
def variantArg : TCode → GV → Nat → (TCode × GV) ⊕ DeOut
  | gl, v, _ => match glKind gl, tagOf v with
    | .var ctors, some tg => match ctors[tg]? with
      | some args => match (fieldsOf v)[0]?, args.head? with
        | some x, some a => .inl (a, x)
        | _, _ => .inr .err
      | none => .inr .unmodelled
    | _, _ => .inr .unmodelled
end

/-! ### gluon types and `get_global` (thread.rs:850, check/src/lib.rs:41 `check_signature`,
    check/src/unify_type.rs `zip_match` / `do_zip_match`) -/

inductive Builtin where
  | int | byte | float | string | char
  deriving DecidableEq, Repr, Inhabited

/-- The gluon types `VmType::make_type` produces for the family: builtins, `Array t`
    (`App(Builtin Array, [t])`), applications of a named alias (`std.types.Option/Result/Bool/Ordering`,
    `std.map.Map`, the `vm_type` enums), closed records (unit is the empty record, a tuple the record
    `_0 … _n`). -/
inductive GType where
  | builtin (b : Builtin)
  | array (t : GType)
  | alias (name : String) (args : List GType)
  | record (fs : List (String × GType))
  deriving Repr, Inhabited

mutual
/-- `VmType::make_type` (api/mod.rs impls; codegen/src/vm_type.rs for the derives) -/
def gtypeOf : TCode → GType
  | .unit => .record []                                   -- type_cache.unit()
  | .u8 => .builtin .byte
  | .int _ => .builtin .int                               -- api/mod.rs:858 `type Type = VmInt`
  | .f32 => .builtin .float                               -- vm.rs:596
  | .f64 => .builtin .float
  | .bool => .alias "std.types.Bool" []                   -- api/mod.rs:930
  | .char => .builtin .char
  | .string => .builtin .string
  | .ordering => .alias "std.types.Ordering" []           -- :959
  | .option t => .alias "std.types.Option" [gtypeOf t]    -- :1354
  | .result t e => .alias "std.types.Result" [gtypeOf e, gtypeOf t]   -- :1404 (error type first)
  | .vec t => .array (gtypeOf t)                          -- :1193
  | .tuple ts => .record (gtypeTs ts 0)                   -- :1643
  | .map v => .alias "std.map.Map" [.builtin .string, gtypeOf v]     -- :1263
  | .struct fs => .record (gtypeFs fs)                    -- vm_type.rs:68-84
  | .newtype t => gtypeOf t                               -- vm_type.rs:87-91
  | .tstruct ts => .record (gtypeTs ts 0)                 -- vm_type.rs:93-98
  | .ustruct => .record []                                -- vm_type.rs:101
  | .enum n _ => .alias n []                              -- vm_type.rs:55-64 (`vm_type = "…"`)
  | .vunit => .record [] | .vtuple _ => .record [] | .vstruct _ => .record []
def gtypeTs : List TCode → Nat → List (String × GType)
  | [], _ => []
  | t :: ts, i => ("_" ++ toString i, gtypeOf t) :: gtypeTs ts (i + 1)
def gtypeFs : List (String × TCode) → List (String × GType)
  | [] => []
  | (n, t) :: fs => (n, gtypeOf t) :: gtypeFs fs
end

mutual
/-- `zip_match` on the monomorphic, first-order types of the family.
    * builtins: equal or `TypeMismatch` (unify_type.rs fall-through arm);
    * `App`/`App`: `unify_app` — heads, then arguments pairwise (:426); an alias head only matches the
      same alias (`find_common_alias`; the bodies of different aliases of the family are variant types
      with different constructors, so expanding them cannot make them match);
    * closed records: fields are zipped **in order**, a differing name is `FieldMismatch`, a differing
      length `MissingFields` (:500-560 "HACK For non polymorphic records we need to care about field order"). -/
def unify : GType → GType → Bool
  | .builtin a, .builtin b => a == b
  | .array a, .array b => unify a b
  | .alias n xs, .alias m ys => n == m && unifyL xs ys
  | .record fs, .record gs => unifyF fs gs
  | _, _ => false
def unifyL : List GType → List GType → Bool
  | [], [] => true
  | x :: xs, y :: ys => unify x y && unifyL xs ys
  | _, _ => false
def unifyF : List (String × GType) → List (String × GType) → Bool
  | [], [] => true
  | (n, x) :: xs, (m, y) :: ys => n == m && unify x y && unifyF xs ys
  | _, _ => false
end

inductive GlobalResult where
  | ok | wrongType
  deriving DecidableEq, Repr

/-- thread.rs:856-866: `expected = T::make_type`, `check_signature(expected, actual)`, else
    `Error::WrongType`. -/
def getGlobal (requested actual : TCode) : GlobalResult :=
  if unify (gtypeOf requested) (gtypeOf actual) then .ok else .wrongType

/-! ### rooting (thread.rs:237-251 `RootedValue::new`, :320-329 `unroot_`) -/

/-- value.rs:523 `Value::obj_eq` on the unboxed values (pointers are not modelled: `none`).
    Since fix 5d628f8 floats are compared by bit pattern (value.rs:542). -/
def objEq : GV → GV → Option Bool
  | .tag a, .tag b => some (a == b)
  | .byte a, .byte b => some (a == b)
  | .int a, .int b => some (a == b)
  | .float a, .float b => some (a == b)         -- value.rs:542 `l.to_bits() == r.to_bits()`
  | _, _ => none

/-- `unroot_`: find the value among the rooted ones; `false` = `ice!("Rooted value has already been
    dropped")`. -/
def unrootFinds (rooted : List GV) (v : GV) : Bool :=
  rooted.any (fun p => objEq p v == some true)

/-- the unboxed values (the ones `obj_eq` compares by content) -/
def unboxed : GV → Bool
  | .tag _ => true | .byte _ => true | .int _ => true | .float _ => true | _ => false

/-- IEEE `==` on f64 bit patterns -/
def f64Eq (a b : Nat) : Bool :=
  !isNaN64 a && !isNaN64 b && (a == b || (a % 9223372036854775808 == 0 && b % 9223372036854775808 == 0))

/-- the rule before 5d628f8: floats compared with `==` (a NaN is never found) -/
def objEqOld : GV → GV → Option Bool
  | .float a, .float b => some (f64Eq a b)
  | x, y => objEq x y

def unrootFindsOld (rooted : List GV) (v : GV) : Bool :=
  rooted.any (fun p => objEqOld p v == some true)

end GluonModel.Marshal
