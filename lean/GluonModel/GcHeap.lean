/-
Heap model shared by C05 (GC never frees a reachable value) and C13 (heaps are isolated).

What is modelled (file:line refer to /repo):

* one heap (`Gc`) per thread plus the global heap; `Gc::new_child_gc` gives a child the parent's
  generation + 1 (vm/src/gc.rs:1204, vm/src/thread.rs:673 and :758).  A heap is named by its PATH
  in the thread tree: `[]` = the global heap (generation 0), `[i]` = a root thread (generation 1),
  `[i, j]` its j-th child …  so generation = length and "ancestor or self" = "is a prefix of".
* objects: owner heap, out-edges (the `GcPtr`s a `Trace` impl visits, in order), a `home` heap
  (the heap the out-edges may point into: the thread's own heap for a `Thread` object, the heap of
  `cell.thread` for a `Reference`/`Lazy` — vm/src/reference.rs:16, vm/src/lazy.rs:27 — and the
  owner for everything else) and a kind that selects the `Cloner` rule.
* `Gc::mark` with the generation shortcut (vm/src/gc.rs:1394-1403), the root enumeration of
  `Roots::trace` + `mark_child_roots` (vm/src/thread.rs:352-445: stack, rooted values and child
  list of the collecting thread and of every descendant thread) and the sweep of the collecting
  heap and of every descendant heap (`Roots::scope`, vm/src/thread.rs:377-389).
* `Cloner::deep_clone` (vm/src/value.rs:1549-1775): the generation shortcut
  `receiver_generation.can_contain_values_from` (:1560, gc.rs:178), `force_full_clone` (:1544),
  the `visited` map (:1594-1613), userdata cloning that bypasses it (:1582,
  reference.rs:25-40, lazy.rs:35-55) and the `Repr::String` arm of `deep_clone_array` that copies
  the element pointers verbatim (:1700).
* `can_share_values_with` (vm/src/thread.rs:1328-1358) and the operations built on the cloner:
  `deep_clone_value`/`re_root`/`vm_push` (thread.rs:1316, :229, api/mod.rs:1575), a store into a
  mutable cell (reference.rs:53, lazy.rs:120), the promotion of a module value into the global
  heap (src/query.rs:757-761).

No imports: the driver is linked natively.
-/
namespace GluonModel.GcHeap

abbrev HeapId := List Nat

inductive Kind where
  | plain    -- records, variants, closures, boxed/unboxed arrays, strings
  | thread   -- a `Thread` object: its out-edges are the roots of that thread
  | cell     -- `Reference` / `Lazy` userdata
  | shallow  -- array of `Repr::String`
  | udata    -- userdata without `deep_clone`
  | code     -- the `BytecodeFunction` a closure points to (always in a global heap)
  | aarr     -- array of `Repr::Array` (elements cloned by `deep_clone_array`, value.rs:1705)
  | uarr     -- array of `Repr::Userdata` (elements cloned by `deep_clone_userdata`, value.rs:1711)
  deriving DecidableEq, Repr, Inhabited

structure Obj where
  owner : HeapId
  home : HeapId
  kind : Kind
  edges : List Nat
  deriving Repr, Inhabited, DecidableEq

structure State where
  obj : Nat → Option Obj
  /-- ids `≥ next` are unused -/
  next : Nat
  /-- roots outside every thread: values held by the global table (loaded modules) -/
  groots : List Nat

def State.empty : State := ⟨fun _ => none, 0, []⟩

/-- Allocate object `o` as id `s.next`. -/
def State.push (s : State) (o : Obj) : State :=
  { s with obj := fun i => if i = s.next then some o else s.obj i, next := s.next + 1 }

def State.ofList (os : List Obj) (groots : List Nat := []) : State :=
  { obj := fun i => os[i]?, next := os.length, groots := groots }

/-- Same as `ofList` with constant-time lookup (used by the drivers for large snapshots). -/
def State.ofArray (os : Array Obj) (groots : List Nat := []) : State :=
  { obj := fun i => os[i]?, next := os.size, groots := groots }

def State.setEdges (s : State) (n : Nat) (es : List Nat) : State :=
  { s with obj := fun i => if i = n then (s.obj n).map (fun o => { o with edges := es }) else s.obj i }

def State.ids (s : State) : List Nat := List.range s.next

/-! ## Mark and sweep -/

/-- `Gc::mark` returns "already marked" for an object of an older generation
    (`header.generation().is_parent_of(self.generation())`, gc.rs:1398): it is neither marked nor
    traced. `t` is the collecting heap. -/
def skip (s : State) (t : HeapId) (x : Nat) : Bool :=
  match s.obj x with
  | none => true
  | some o => o.owner.length < t.length

def succs (s : State) (x : Nat) : List Nat :=
  match s.obj x with
  | none => []
  | some o => o.edges

/-- The roots a collection of heap `t` traces: stack / rooted values / child list of thread `t`
    and of every descendant thread (thread.rs:352-445) — i.e. the out-edges of every `Thread`
    object whose thread lives at or below `t`. -/
def rootsOf (s : State) (t : HeapId) : List Nat :=
  s.ids.flatMap fun i =>
    match s.obj i with
    | some o => if o.kind = .thread ∧ t.isPrefixOf o.home then o.edges else []
    | none => []

/-- Worklist form of `GcPtr::trace` (gc.rs:1134-1147): pop `x`; if `mark` says "already marked"
    (older generation or marked) drop it, else mark it and trace its contents. -/
def markGo (s : State) (t : HeapId) : Nat → List Nat → List Nat → Option (List Nat)
  | _, [], vis => some vis
  | 0, _ :: _, _ => none
  | f + 1, x :: w, vis =>
    if skip s t x || vis.contains x then markGo s t f w vis
    else markGo s t f (succs s x ++ w) (x :: vis)

def markFuel (s : State) (t : HeapId) : Nat :=
  (rootsOf s t).length + (s.ids.map fun i => (succs s i).length + 1).sum + 1

def mark (s : State) (t : HeapId) : Option (List Nat) :=
  markGo s t (markFuel s t) (rootsOf s t) []

/-- `Gc::collect` (gc.rs:1373) under `Roots::scope`: mark from the roots, then sweep heap `t` and
    every descendant heap; unmarked objects of those heaps are freed. -/
def sweepObj (s : State) (t : HeapId) (m : List Nat) (i : Nat) : Option Obj :=
  match s.obj i with
  | none => none
  | some o => if t.isPrefixOf o.owner && !m.contains i then none else some o

def collect (s : State) (t : HeapId) : Option State :=
  match mark s t with
  | none => none
  | some m => some { s with obj := sweepObj s t m }

/-! ### Mark bits as state

`Gc::mark` answers "already marked" for an object whose mark bit is set (gc.rs:1398) and does not
look inside it; `sweep` frees the unmarked objects of the heaps it sweeps and clears the bits of
the survivors (gc.rs:1435-1442); the bits of objects of heaps that are NOT swept stay. `marked` is
the set of objects whose bit is set when the collection starts. -/

def markM (s : State) (t : HeapId) (marked : List Nat) : Option (List Nat) :=
  markGo s t (markFuel s t) (rootsOf s t) marked

def inSwept (s : State) (t : HeapId) (i : Nat) : Bool :=
  match s.obj i with
  | some o => t.isPrefixOf o.owner
  | none => false

/-- State and mark bits after a collection that starts with the bits `marked` set. -/
def collectM (s : State) (t : HeapId) (marked : List Nat) : Option (State × List Nat) :=
  match markM s t marked with
  | none => none
  | some m => some ({ s with obj := sweepObj s t m }, m.filter fun i => !inSwept s t i)

def freedByM (s : State) (t : HeapId) (marked : List Nat) : Option (List Nat) :=
  match collectM s t marked with
  | none => none
  | some (s', _) => some (s.ids.filter fun i => (s.obj i).isSome && (s'.obj i).isNone)

/-- ids freed by a collection (what the driver prints). -/
def freedBy (s : State) (t : HeapId) : Option (List Nat) :=
  match collect s t with
  | none => none
  | some s' => some (s.ids.filter fun i => (s.obj i).isSome && (s'.obj i).isNone)

/-! ## Deep clone -/

structure Cl where
  s : State
  vis : List (Nat × Nat)

def lookupVis : List (Nat × Nat) → Nat → Option Nat
  | [], _ => none
  | (a, b) :: r, v => if a = v then some b else lookupVis r v

/-- value.rs:1560 `receiver_generation.can_contain_values_from(value.generation())`, i.e.
    `value.generation <= receiver_generation` (gc.rs:178); `rgen = none` is
    `Generation::disjoint()` = -1 after `force_full_clone`. -/
def shareable (s : State) (rgen : Option Nat) (v : Nat) : Bool :=
  match s.obj v, rgen with
  | some o, some g => o.owner.length ≤ g
  | some _, none => false
  | none, _ => true

/-- Clone the out-edges left to right with continuation `k`. -/
def cloneEdges (k : Cl → Nat → Option (Cl × Nat)) : Cl → List Nat → Option (Cl × List Nat)
  | c, [] => some (c, [])
  | c, e :: es =>
    match k c e with
    | none => none
    | some (c1, e') =>
      match cloneEdges k c1 es with
      | none => none
      | some (c2, es') => some (c2, e' :: es')

/-- `deep_clone_ptr` (value.rs:1594-1613) and its callers: on a `visited` hit return the recorded
    copy; otherwise allocate a copy holding the OLD field values, enter it into `visited`, then
    overwrite each field with its clone (value.rs:1652-1660, :1740-1748, :1763-1771). -/
def viaVisited (k : Cl → Nat → Option (Cl × Nat)) (dst : HeapId) (c : Cl) (v : Nat) (o : Obj)
    (kind : Kind) (home : HeapId) : Option (Cl × Nat) :=
  match lookupVis c.vis v with
  | some n => some (c, n)
  | none =>
    let n := c.s.next
    match cloneEdges k ⟨c.s.push ⟨dst, home, kind, o.edges⟩, (v, n) :: c.vis⟩ o.edges with
    | none => none
    | some (c2, es) => some (⟨c2.s.setEdges n es, c2.vis⟩, n)

/-- value.rs:1700 `Repr::Byte | Repr::Int | Repr::Float | Repr::String => Ok(())`: the copy of
    an array of strings keeps the element pointers of the original. -/
def shallowCopy (dst : HeapId) (c : Cl) (v : Nat) (o : Obj) : Option (Cl × Nat) :=
  match lookupVis c.vis v with
  | some n => some (c, n)
  | none => some (⟨c.s.push ⟨dst, dst, .shallow, o.edges⟩, (v, c.s.next) :: c.vis⟩, c.s.next)

/-- reference.rs:25-40 / lazy.rs:35-55: the contents are cloned and a NEW cell is allocated in the
    cloner's gc with `thread = deep_cloner.thread()`; `visited` is not consulted (value.rs:1582). -/
def cellCopy (k : Cl → Nat → Option (Cl × Nat)) (dst thr : HeapId) (c : Cl) (o : Obj) :
    Option (Cl × Nat) :=
  match cloneEdges k c o.edges with
  | none => none
  | some (c2, es) => some (⟨c2.s.push ⟨dst, thr, .cell, es⟩, c2.vis⟩, c2.s.next)

/-- `Cloner::deep_clone_inner` (value.rs:1556) and the two element paths of `deep_clone_array` that
    bypass its first test. `dst` = the heap of the cloner's `gc`, `thr` = the heap of the cloner's
    `thread` (they differ only in the promotion of module values, query.rs:759-760).

    `ns = true` ("no shortcut at this node") is how an ELEMENT of an array of arrays
    (`deep_clone_array(e)`, value.rs:1705) and an element of an array of userdata
    (`deep_clone_userdata(e)` = `e.deep_clone(self)`, value.rs:1666 and :1711) are cloned: neither
    consults `receiver_generation` (value.rs:1560), so the element is copied even when the receiver
    could share it; below the element the ordinary rule applies again (`Reference::deep_clone`
    calls `deep_cloner.deep_clone(&value)`, reference.rs:32).

    `rgen` is `receiver_generation`: the generation of `dst` when sender and receiver are on one
    ancestor line, `none` (= `Generation::disjoint()`) after `force_full_clone` — NOT the
    generation of the heap `dst` itself (see `Props.C13.heap_generation_shortcut_fails`).

    `fixed = true` is the repaired cloner: string arrays cloned element-wise, userdata cells
    entered into `visited`, every element cloned by the ordinary rule. -/
def cloneVal (dst thr : HeapId) (rgen : Option Nat) (fixed : Bool) :
    Nat → Bool → Cl → Nat → Option (Cl × Nat)
  | 0, _, _, _ => none
  | f + 1, ns, c, v =>
    if !ns && shareable c.s rgen v then some (c, v) else
    match c.s.obj v with
    | none => some (c, v)
    | some o =>
      match o.kind with
      | .udata => none   -- value.rs:44 "Userdata cannot be cloned"
      | .thread => none   -- value.rs:1586 "Threads cannot be deep cloned yet"
      -- value.rs:1722-1726 `ClosureDataDef(&data.function, …)`: the function pointer of a closure
      -- is copied verbatim, also under `force_full_clone`
      | .code => some (c, v)
      | .plain => viaVisited (cloneVal dst thr rgen fixed f false) dst c v o .plain dst
      | .aarr => viaVisited (cloneVal dst thr rgen fixed f (!fixed)) dst c v o .aarr dst
      | .uarr => viaVisited (cloneVal dst thr rgen fixed f (!fixed)) dst c v o .uarr dst
      | .shallow =>
        if fixed then viaVisited (cloneVal dst thr rgen fixed f false) dst c v o .shallow dst
        else shallowCopy dst c v o
      | .cell =>
        if fixed then viaVisited (cloneVal dst thr rgen fixed f false) dst c v o .cell thr
        else cellCopy (cloneVal dst thr rgen fixed f false) dst thr c o

def cloneFuel (s : State) : Nat := s.next + 2

/-- `Cloner::deep_clone` with a fresh `visited` map. -/
def deepClone (s : State) (dst thr : HeapId) (rgen : Option Nat) (fixed : Bool) (v : Nat) :
    Option (State × Nat) :=
  match cloneVal dst thr rgen fixed (cloneFuel s) false ⟨s, []⟩ v with
  | none => none
  | some (c, r) => some (c.s, r)

/-- thread.rs:1328 `can_share_values_with`: the same thread, or the same VM and one thread is an
    ancestor of the other (the parent-pointer walk starts at the younger generation). -/
def canShare (sameVm : Bool) (a b : HeapId) : Bool :=
  a == b || (sameVm && (a.isPrefixOf b || b.isPrefixOf a))

/-- the receiver generation `deep_clone_value` / `vm_push` use (thread.rs:1316-1325). -/
def rgenFor (sameVm : Bool) (src dst : HeapId) : Option Nat :=
  if canShare sameVm dst src then some dst.length else none

/-- Root `r` in thread `t` (push onto `rooted_values`, thread.rs:241-252). -/
def addRootObj (s : State) (t : HeapId) (r : Nat) (i : Nat) : Option Obj :=
  match s.obj i with
  | some o => if o.kind = .thread ∧ o.home = t then some { o with edges := r :: o.edges } else some o
  | none => none

def addRoot (s : State) (t : HeapId) (r : Nat) : State :=
  { s with obj := addRootObj s t r }

/-- `RootedValue::re_root` / `deep_clone_value(owner = src thread)` into thread `dst`. -/
def transfer (s : State) (sameVm : Bool) (src dst : HeapId) (fixed : Bool) (v : Nat) :
    Option (State × Nat) :=
  match deepClone s dst dst (rgenFor sameVm src dst) fixed v with
  | none => none
  | some (s', r) => some (addRoot s' dst r, r)

/-- `r <- v` (reference.rs:53-60) / the write-back of `force` (lazy.rs:120-135): clone into the
    heap of `cell.thread` (= the cell's `home`) with that heap's generation, then overwrite. -/
def storeCell (s : State) (cell v : Nat) (fixed : Bool) : Option State :=
  match s.obj cell with
  | none => none
  | some c =>
    match deepClone s c.home c.home (some c.home.length) fixed v with
    | none => none
    | some (s', r) => some (s'.setEdges cell [r])

/-- src/query.rs:757-761: the value of a freshly evaluated module is cloned into the GLOBAL gc by a
    cloner whose `thread` is the importing thread; the copy is kept by the global table. -/
def promoteGlobal (s : State) (thr : HeapId) (fixed : Bool) (v : Nat) : Option (State × Nat) :=
  match deepClone s [] thr (some 0) fixed v with
  | none => none
  | some (s', r) => some ({ s' with groots := r :: s'.groots }, r)

/-- A new object in heap `t` (fields must be values thread `t` can hold). -/
def alloc (s : State) (t : HeapId) (kind : Kind) (fields : List Nat) : State × Nat :=
  (s.push ⟨t, t, kind, fields⟩, s.next)

/-- `Thread::new_thread` (thread.rs:754-786): the `Thread` object lives in the parent's heap and
    is entered into the parent's `child_threads`. -/
def spawn (s : State) (parent : HeapId) (i : Nat) : State × Nat :=
  let s1 := s.push ⟨parent, parent ++ [i], .thread, []⟩
  (addRoot s1 parent s.next, s.next)

/-! ## Canonical rendering of the graph below a value (driver output) -/

def canonGo (s : State) : Nat → List Nat → List Nat → List Nat
  | 0, _, vis => vis
  | _, [], vis => vis
  | f + 1, x :: w, vis =>
    if vis.contains x then canonGo s f w vis
    else
      match s.obj x with
      | none => canonGo s f w vis
      | some o => canonGo s f (if o.kind = .thread then w else o.edges ++ w) (x :: vis)

/-- Objects below `r` in depth-first discovery order (edges of `Thread` objects not followed). -/
def below (s : State) (r : Nat) : List Nat :=
  (canonGo s ((s.ids.map fun i => (succs s i).length + 1).sum + 2) [r] []).reverse

end GluonModel.GcHeap
