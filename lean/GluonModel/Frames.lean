/-
C06 model, part (ii): the value stack + frame stack of one gluon thread across failed and successful
top-level evaluations (vm/src/stack.rs `Stack { values, frames }`, vm/src/thread.rs:1129-1148
`call_thunk_top`, :1153-1168 `execute_io_top`, :2972-2981 `reset_stack`).

Only the *sizes* matter for the property ("the memory and stack used by the failed run can be reclaimed"):
`values` is the length of `Stack::values`, `frames` the list of frame offsets.
-/
namespace GluonModel.Frames

structure Stack where
  frames : List Nat      -- offsets, innermost first
  values : Nat
  deriving Repr, DecidableEq

/-- A thread at rest: the bottom frame, no values. -/
def Stack.base : Stack := ⟨[0], 0⟩

/-- What a running program does to the stack, as far as sizes go. -/
inductive Op where
  | push (n : Nat)        -- push n values
  | enter (args : Nat)    -- stack.rs:906-960 `add_new_frame`: offset = len - args
  deriving Repr

def Stack.apply (s : Stack) : Op → Stack
  | .push n => { s with values := s.values + n }
  | .enter a => { s with frames := (s.values - a) :: s.frames }

def Stack.run (s : Stack) (ops : List Op) : Stack := ops.foldl Stack.apply s

/-- stack.rs:871-897 `exit_scope`: `stack.frames.pop()` — the values stay where they are. -/
def exitScope (s : Stack) : Stack := { s with frames := s.frames.tail }

/-- thread.rs:2972-2981 `reset_stack(stack, level)`:
    `while stack.get_frames().len() > level { stack = stack.exit_scope()? }`.
    `fuel` bounds the loop (one frame is popped per iteration). -/
def resetLoop (level : Nat) : Nat → Stack → Stack
  | 0, s => s
  | fuel + 1, s => if s.frames.length > level then resetLoop level fuel (exitScope s) else s

def resetStack (level : Nat) (_vlen : Nat) (s : Stack) : Stack := resetLoop level s.frames.length s

/-- The error path of `call_thunk_top` / `execute_io_top` as it is now (thread.rs:1137-1151, :1167-1179):
    `reset_stack(stack, level)`, then `left_over = stack.len().saturating_sub(stack_len)` values are popped
    (`stack_len` = the length recorded at entry).  (`resetStack` alone is the rule of the code before that fix.) -/
def resetFixed (level : Nat) (vlen : Nat) (s : Stack) : Stack :=
  let s' := resetLoop level s.frames.length s
  { s' with values := s'.values - (s'.values - vlen) }

/-- One top-level evaluation on a long-lived thread. `depth` frames and `vals` values are live when it
    ends; a successful run returns through every frame (values popped with them), a failing one leaves
    through the error path of `call_thunk_top`: `level`/`vlen` are recorded at entry. -/
inductive Step where
  | ok (depth vals : Nat)
  | fail (depth vals : Nat)
  /-- the host calls a Gluon function through `Function::call` and the call fails: `call_first`
      (vm/src/api/function.rs:445-484) records `(frames.len(), stack.len())` before pushing the function and on
      `Err` does `reset_stack(level)` + `pop_many(left_over)` — the same error path as `call_thunk_top`.
      (Before /repo dd1aca2 the error was propagated with `?`: nothing reset, see `stepWithOldHost`.) -/
  | hostFail (depth vals : Nat)
  deriving Repr

def runOps (depth vals : Nat) : List Op := .push vals :: List.replicate depth (.enter 0)

def stepWith (reset : Nat → Nat → Stack → Stack) (s : Stack) : Step → Stack
  | .ok _ _ => s
  | .fail d v => reset s.frames.length s.values (s.run (runOps d v))
  | .hostFail d v => reset s.frames.length s.values (s.run (runOps d v))

/-- Old rule (before dd1aca2): a failed host call of a Gluon function was not unwound at all. -/
def stepWithOldHost (reset : Nat → Nat → Stack → Stack) (s : Stack) : Step → Stack
  | .hostFail d v => s.run (runOps d v)
  | st => stepWith reset s st

def runHistoryOldHost (reset : Nat → Nat → Stack → Stack) (steps : List Step) (s : Stack) : Stack :=
  steps.foldl (stepWithOldHost reset) s

def runHistory (reset : Nat → Nat → Stack → Stack) (steps : List Step) (s : Stack) : Stack :=
  steps.foldl (stepWith reset) s

def failLeak : Step → Nat
  | .ok _ _ => 0
  | .fail _ v => v
  | .hostFail _ v => v

/-- top-level evaluations only (`run_expr`): no failing host call of a function -/
def Step.topLevel : Step → Bool
  | .hostFail _ _ => false
  | _ => true

end GluonModel.Frames
