/-
C06 model, part (ii): the value stack + frame stack of one gluon thread across failed and successful
top-level evaluations (vm/src/stack.rs `Stack { values, frames }`, vm/src/thread.rs:1129-1148
`call_thunk_top`, :1153-1168 `execute_io_top`, :2972-2981 `reset_stack`).

Only the *sizes* matter for the property ("the memory and stack used by the failed run can be reclaimed"):
`values` is the length of `Stack::values`, `frames` the list of frame offsets.
-/
namespace GluonModel.Frames

structure Stack where
  frames : List Nat      -- offsets, innermost first
  values : Nat
  deriving Repr, DecidableEq

/-- A thread at rest: the bottom frame, no values. -/
def Stack.base : Stack := ⟨[0], 0⟩

/-- What a running program does to the stack, as far as sizes go. -/
inductive Op where
  | push (n : Nat)        -- push n values
  | enter (args : Nat)    -- stack.rs:906-960 `add_new_frame`: offset = len - args
  deriving Repr

def Stack.apply (s : Stack) : Op → Stack
  | .push n => { s with values := s.values + n }
  | .enter a => { s with frames := (s.values - a) :: s.frames }

def Stack.run (s : Stack) (ops : List Op) : Stack := ops.foldl Stack.apply s

/-- stack.rs:871-897 `exit_scope`: `stack.frames.pop()` — the values stay where they are. -/
def exitScope (s : Stack) : Stack := { s with frames := s.frames.tail }

/-- thread.rs:2972-2981 `reset_stack(stack, level)`:
    `while stack.get_frames().len() > level { stack = stack.exit_scope()? }`.
    `fuel` bounds the loop (one frame is popped per iteration). -/
def resetLoop (level : Nat) : Nat → Stack → Stack
  | 0, s => s
  | fuel + 1, s => if s.frames.length > level then resetLoop level fuel (exitScope s) else s

def resetStack (level : Nat) (_vlen : Nat) (s : Stack) : Stack := resetLoop level s.frames.length s

/-- The error path of `call_thunk_top` / `execute_io_top` as it is now (thread.rs:1137-1151, :1167-1179):
    `reset_stack(stack, level)`, then `left_over = stack.len().saturating_sub(stack_len)` values are popped
    (`stack_len` = the length recorded at entry).  (`resetStack` alone is the rule of the code before that fix.) -/
def resetFixed (level : Nat) (vlen : Nat) (s : Stack) : Stack :=
  let s' := resetLoop level s.frames.length s
  { s' with values := s'.values - (s'.values - vlen) }

/-- One top-level evaluation on a long-lived thread. `depth` frames and `vals` values are live when it
    ends; a successful run returns through every frame (values popped with them), a failing one leaves
    through the error path of `call_thunk_top`: `level`/`vlen` are recorded at entry. -/
inductive Step where
  | ok (depth vals : Nat)
  | fail (depth vals : Nat)
  /-- the host calls a Gluon function through `Function::call` and the call fails: `call_first`
      (vm/src/api/function.rs:445-484) records `(frames.len(), stack.len())` before pushing the function and on
      `Err` does `reset_stack(level)` + `pop_many(left_over)` — the same error path as `call_thunk_top`.
      (Before /repo dd1aca2 the error was propagated with `?`: nothing reset, see `stepWithOldHost`.) -/
  | hostFail (depth vals : Nat)
  /-- a top-level evaluation whose failure surfaces through a FUTURE-RETURNING primitive
      (`primitive!(n, async fn …)`: `lazy.force`, `io.catch`, `io.run_expr`, `io.load_script`, `thread.resume`, …):
      when the future resolves, the primitive's extern frame is still locked (`into_lock`, function.rs:305) -/
  | asyncFail (depth vals : Nat)
  /-- a successful evaluation whose value is an `IO` action run by `execute_io` (thread.rs:1254-1292): the three
      slots `[0, value, 0]` are pushed, the frame is entered with 2 arguments, on success the frame's values are
      cleared and the frame exited — the first dummy slot (an `Int 0`) stays on the value stack -/
  | okIO
  deriving Repr

/-! ### the extern-frame lock (stack.rs `ExternState::locked`, `Lock`, `release_lock`) -/

structure LFrame where
  offset : Nat
  locked : Bool
  deriving Repr, DecidableEq

structure LStack where
  frames : List LFrame
  values : Nat
  deriving Repr, DecidableEq

def Stack.toL (s : Stack) : LStack := ⟨s.frames.map (fun o => ⟨o, false⟩), s.values⟩
def LStack.toStack (s : LStack) : Stack := ⟨s.frames.map (·.offset), s.values⟩

/-- stack.rs:871-897 `exit_scope`: a locked extern frame is NOT popped (`return Err(self.stack)`). -/
def exitScopeL (s : LStack) : Option LStack :=
  match s.frames with
  | [] => none
  | f :: rest => if f.locked then none else some { s with frames := rest }

/-- thread.rs:2989-2998 `reset_stack`: `stack.exit_scope()` failing ⇒ `Err("Attempted to exit scope above current")`. -/
def resetLoopL (level : Nat) : Nat → LStack → LStack × Bool
  | 0, s => (s, true)
  | fuel + 1, s =>
    if s.frames.length > level then
      match exitScopeL s with
      | none => (s, false)
      | some s' => resetLoopL level fuel s'
    else (s, true)

/-- the error path of `call_thunk_top` / `execute_io_top` / `call_first`: `reset_stack(stack, level)?` — on `Err` the
    function returns at once (the host receives THAT error) — then the left-over values are popped. -/
def resetTopL (level vlen : Nat) (s : LStack) : LStack × Bool :=
  match resetLoopL level s.frames.length s with
  | (s', true) => ({ s' with values := s'.values - (s'.values - vlen) }, true)
  | (s', false) => (s', false)

/-- The thread when the future of an async primitive resolves: `d` closure frames of the running program, on top the
    primitive's extern frame, locked by `into_lock` (function.rs:305) until `return_future`'s poll function completes;
    `v` values pushed so far. -/
def asyncPending (s : LStack) (d v : Nat) : LStack :=
  ⟨⟨s.values + v, true⟩ :: (List.replicate d ⟨s.values + v, false⟩ ++ s.frames), s.values + v⟩

def unlockTop (s : LStack) : LStack :=
  match s.frames with
  | [] => s
  | f :: rest => { s with frames := { f with locked := false } :: rest }

/-- thread.rs:1658-1676, the poll function installed by `Context::return_future`, when the future is ready:
    `releaseFirst = true` is the code (`release_lock(lock)`, then `value.vm_push(context)`, its `Err` returned);
    `false` is the other order (`vm_push(..)?` first, `release_lock` afterwards — the `?` skips the release).
    `pushFails`: the future's output is an error (`IO::Exception`, `RuntimeResult::Panic`, `Err(e)`).
    Result: the stack and whether the primitive completed. -/
def completeAsync (releaseFirst pushFails : Bool) (s : LStack) : LStack × Bool :=
  if releaseFirst then
    let s1 := unlockTop s
    if pushFails then (s1, false) else ({ s1 with values := s1.values + 1 }, true)
  else
    if pushFails then (s, false) else (unlockTop { s with values := s.values + 1 }, true)

/-- A top-level run that fails inside an async primitive, then the error path. Returns the thread afterwards and
    whether the host got the script's own error (`false`: it got `Attempted to exit scope above current`). -/
def asyncFailStep (releaseFirst : Bool) (s : Stack) (d v : Nat) : Stack × Bool :=
  let l := s.toL
  let p := (completeAsync releaseFirst true (asyncPending l d v)).1
  let r := resetTopL l.frames.length l.values p
  (r.1.toStack, r.2)

/-- async primitives for which the harness has a failing history step (checked against the generated table by the
    driver's `coverage` request) -/
def asyncStepped : List String :=
  ["std.io.prim.catch", "std.io.prim.run_expr", "std.io.prim.load_script", "std.lazy.prim.force",
   "std.thread.prim.resume", "std.thread.prim.yield", "std.thread.prim.join"]

def runOps (depth vals : Nat) : List Op := .push vals :: List.replicate depth (.enter 0)

def stepWith (reset : Nat → Nat → Stack → Stack) (s : Stack) : Step → Stack
  | .ok _ _ => s
  | .fail d v => reset s.frames.length s.values (s.run (runOps d v))
  | .hostFail d v => reset s.frames.length s.values (s.run (runOps d v))
  | .asyncFail d v => (asyncFailStep true s d v).1
  | .okIO => { s with values := s.values + 1 }

/-- Old rule (before dd1aca2): a failed host call of a Gluon function was not unwound at all. -/
def stepWithOldHost (reset : Nat → Nat → Stack → Stack) (s : Stack) : Step → Stack
  | .hostFail d v => s.run (runOps d v)
  | st => stepWith reset s st

def runHistoryOldHost (reset : Nat → Nat → Stack → Stack) (steps : List Step) (s : Stack) : Stack :=
  steps.foldl (stepWithOldHost reset) s

def runHistory (reset : Nat → Nat → Stack → Stack) (steps : List Step) (s : Stack) : Stack :=
  steps.foldl (stepWith reset) s

def failLeak : Step → Nat
  | .ok _ _ => 0
  | .fail _ v => v
  | .hostFail _ v => v
  | .asyncFail _ _ => 0
  | .okIO => 1

/-- number of dummy slots left by successful IO actions -/
def ioSlots : List Step → Nat
  | [] => 0
  | .okIO :: steps => 1 + ioSlots steps
  | _ :: steps => ioSlots steps

/-- top-level evaluations only (`run_expr`): no failing host call of a function -/
def Step.topLevel : Step → Bool
  | .hostFail _ _ => false
  | _ => true

end GluonModel.Frames
