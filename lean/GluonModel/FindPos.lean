/-
C20 model `FindPos`: the position search of the editor queries.

Mirrors (gluon @ /repo):

* `Span::contains`, `contains_pos`, `containment`, `containment_exclusive`
  (base/src/pos.rs:180-234);
* `FindVisitor::select_spanned` (completion/src/lib.rs:245-271) — including the `prev`/peek logic;
* `FindVisitor::{visit_one, visit_any, visit_pattern, visit_expr}` (completion/src/lib.rs:338-726)
  on the fragment { Ident/Literal, empty Array/Tuple/Block, App/IfElse/Array/Tuple/Block (all go
  through `visit_one`), Match, Infix, LetBindings without type annotation, Projection, Record
  with value fields, Lambda, Annotated, Error } and patterns { Ident/Literal/Error, Tuple, Constructor, As };
* the calls of the `OnFound` hooks (`on_ident`, `on_pattern`, lib.rs:143-204) made on the way, i.e.
  which binders are put on the suggestion stack (`Suggest.stack`), and the part of
  `SuggestionQuery::suggest` (lib.rs:1300-1460) that turns the stack into suggestions when
  `prefix_filter = false`.

Not modelled (the harness keeps such programs out of the correspondence and counts them):
macro-expanded nodes (`VisitUnExpanded`), type bindings, type annotations (`visit_ast_type`),
record patterns, `do`.

Every `visit_*` call of the Rust code is a tail call, so the visitor is written as a step function
(`step`) iterated by `run` with explicit fuel; `findAt` runs it with fuel = height of the tree, which
is always enough (`Proofs.fuel_sufficient`), so `Out.fuel` never shows up.
-/
namespace GluonModel.FindPos

structure Span where
  lo : Nat
  hi : Nat
  deriving DecidableEq, Repr, Inhabited

namespace Span

/-- pos.rs:180 `contains`: `self` fully encloses `other`. -/
def contains (s o : Span) : Bool := decide (s.lo ≤ o.lo) && decide (o.hi ≤ s.hi)

/-- pos.rs:184 `contains_pos`. -/
def containsPos (s : Span) (p : Nat) : Bool := decide (s.lo ≤ p) && decide (p ≤ s.hi)

/-- pos.rs:204 `containment`:
    `match (pos.cmp(&self.start), pos.cmp(&self.end))`. -/
def containment (s : Span) (pos : Nat) : Ordering :=
  match compare pos s.lo, compare pos s.hi with
  | .eq, _ => .eq
  | _, .eq => .eq
  | .gt, .lt => .eq
  | .lt, _ => .lt
  | _, .gt => .gt

/-- pos.rs:228 `containment_exclusive`. -/
def containmentExclusive (s : Span) (pos : Nat) : Ordering :=
  if s.hi = pos then .gt else s.containment pos

end Span

/-- lib.rs:245 `select_spanned`, the loop with `prev` carried along. -/
def selectGo {α : Type} (span : α → Span) (pos : Nat) : Option α → List α → Bool × Option α
  | prev, [] => (true, prev)
  | prev, x :: rest =>
    match (span x).containment pos with
    | .eq => (false, some x)
    | .lt => if prev.isSome then (true, prev) else selectGo span pos (some x) rest
    | .gt => selectGo span pos (some x) rest

/-- lib.rs:245 `select_spanned`: `(on_whitespace, selected)`. -/
def selectSpanned {α : Type} (span : α → Span) (pos : Nat) (xs : List α) : Bool × Option α :=
  selectGo span pos none xs

/-! ### The tree -/

/-- A binder occurrence: its span and the index of its symbol in the name table. -/
structure Arg where
  sp : Span
  id : Nat
  deriving Repr, Inhabited

inductive Pat where
  /-- `Pattern::Ident` (one binder) / `Literal` / `Error` (none) -/
  | leaf (sp : Span) (binder : Option Nat)
  | tuple (sp : Span) (elems : List Pat)
  /-- `idLen` = `id.as_ref().len()` of lib.rs:422 -/
  | ctor (sp : Span) (idLen : Nat) (args : List Pat)
  | as_ (sp : Span) (binder : Nat) (p : Pat)
  /-- `Pattern::Record` with value fields (lib.rs:434); `fields` are `fieldShort`/`fieldVal` -/
  | record (sp : Span) (fields : List Pat)
  /-- `PatternField::Value { name, value: None }`: the shorthand `{ name }`, which binds `name` -/
  | fieldShort (nameSp : Span) (binder : Nat)
  /-- `PatternField::Value { name, value: Some(p) }`: the renaming `{ name = p }` -/
  | fieldVal (nameSp : Span) (value : Pat)
  deriving Inhabited

mutual
inductive Expr where
  /-- `Ident` / `Literal` -/
  | leaf (sp : Span)
  /-- empty `Array` / `Tuple` / `Block` -/
  | emptyNode (sp : Span)
  /-- everything that goes through `visit_one`: `App` (func :: args), `IfElse`, non-empty
      `Array` / `Tuple` / `Block` -/
  | one (sp : Span) (cs : List Expr)
  | infix (sp : Span) (lhs : Expr) (op : Span) (rhs : Expr)
  | proj (sp : Span) (e : Expr)
  | lambda (sp : Span) (args : List Arg) (body : Expr)
  | letb (sp : Span) (isRec : Bool) (binds : List LBind) (body : Expr)
  | matchE (sp : Span) (scrut : Expr) (alts : List Alt)
  | record (sp : Span) (fields : List Field) (base : Option Expr)
  /-- `Expr::Annotated` (inserted by the checker, same span as the wrapped expression) -/
  | annotated (sp : Span) (e : Expr)
  | error (sp : Span)
inductive LBind where
  | mk (name : Pat) (args : List Arg) (expr : Expr)
inductive Alt where
  | mk (pat : Pat) (expr : Expr)
inductive Field where
  | mk (sp : Span) (value : Option Expr)
end

instance : Inhabited Expr := ⟨.error ⟨0, 0⟩⟩

def Pat.span : Pat → Span
  | .leaf sp _ => sp
  | .tuple sp _ => sp
  | .ctor sp _ _ => sp
  | .as_ sp _ _ => sp
  | .record sp _ => sp
  | .fieldShort nsp _ => nsp
  /- lib.rs:442 `Span::new(name.span.start(), value.map_or(name.span.end(), |p| p.span.end()))` -/
  | .fieldVal nsp v => ⟨nsp.lo, v.span.hi⟩

def Expr.span : Expr → Span
  | .leaf sp => sp
  | .emptyNode sp => sp
  | .one sp _ => sp
  | .infix sp _ _ _ => sp
  | .proj sp _ => sp
  | .lambda sp _ _ => sp
  | .letb sp _ _ _ => sp
  | .matchE sp _ _ => sp
  | .record sp _ _ => sp
  | .annotated sp _ => sp
  | .error sp => sp

/-- lib.rs:155 `Suggest::on_pattern`: the binders put on the stack, in order. -/
def Pat.binders : Pat → List Nat
  | .leaf _ none => []
  | .leaf _ (some b) => [b]
  | .tuple _ ps => bindersList ps
  | .ctor _ _ ps => bindersList ps
  | .as_ _ b p => b :: p.binders
  -- lib.rs:167-195: `Value { value: Some(p) }` ⇒ `on_pattern(p)` ONLY; `Value { value: None }` ⇒
  -- the field name is inserted
  | .record _ fs => bindersList fs
  | .fieldShort _ b => [b]
  | .fieldVal _ v => v.binders
where
  bindersList : List Pat → List Nat
    | [] => []
    | p :: ps => p.binders ++ bindersList ps

def LBind.name : LBind → Pat | .mk n _ _ => n
def LBind.args : LBind → List Arg | .mk _ a _ => a
def LBind.expr : LBind → Expr | .mk _ _ e => e
/-- lib.rs:586 `Span::new(b.name.span.start(), b.expr.span.end())` -/
def LBind.span (b : LBind) : Span := ⟨b.name.span.lo, b.expr.span.hi⟩
def Alt.pat : Alt → Pat | .mk p _ => p
def Alt.expr : Alt → Expr | .mk _ e => e
/-- lib.rs:539 `Span::new(alt.pattern.span.start(), alt.expr.span.end())` -/
def Alt.span (a : Alt) : Span := ⟨a.pat.span.lo, a.expr.span.hi⟩

/-! ### Visitor state -/

inductive MKind where
  | expr | pattern | ident
  deriving DecidableEq, Repr

/-- What `suggest` looks at in an enclosing expression. -/
inductive Tag where
  | plain | proj | record
  /-- a record pattern -/
  | recpat
  deriving DecidableEq, Repr

/-- `Match` (lib.rs:45) reduced to kind, span and tag. -/
structure M where
  kind : MKind
  span : Span
  tag : Tag
  deriving DecidableEq, Repr

def Pat.tag : Pat → Tag
  | .record _ _ => .recpat
  | _ => .plain

def Expr.tag : Expr → Tag
  | .proj _ _ => .proj
  | .record _ _ _ => .record
  | _ => .plain

def Expr.m (e : Expr) : M := ⟨.expr, e.span, e.tag⟩

/-- `MatchState` (lib.rs:226). -/
inductive Found where
  | notFound | empty | found (m : M)
  deriving DecidableEq, Repr

/-- `FindVisitor` (lib.rs:232): `enclosing`/`near` have the LAST pushed element at the head;
    `scope` = symbols inserted into `Suggest.stack`, last at the head, each with the span of the
    construct whose hook registered it (lambda / let expression / selected binding / match
    alternative) — the span is bookkeeping for the theorems, the code stores the symbol only. -/
structure St where
  found : Found
  enclosing : List M
  near : List M
  scope : List (Nat × Span)
  deriving Repr

inductive Out where
  | ok (st : St)
  /-- an `unwrap()` on `None` (lib.rs:343, :546, :558) -/
  | panic
  | fuel
  deriving Repr

/-- lib.rs:411-415 / 513-517: push on `enclosing_matches` or `near_matches`. -/
def enter (m : M) (pos : Nat) (st : St) : St :=
  if m.span.containment pos = .eq then { st with enclosing := m :: st.enclosing }
  else { st with near := m :: st.near }

def setFound (st : St) (f : Found) : St := { st with found := f }

/-- "`Found(m)` if the span contains `pos`, else `Empty`" (lib.rs:362, :496, :521). -/
def foundIfAt (m : M) (pos : Nat) (st : St) : St :=
  setFound st (if m.span.containment pos = .eq then .found m else .empty)

def addScope (st : St) (sp : Span) (ids : List Nat) : St :=
  { st with scope := (ids.map (fun i => (i, sp))).reverse ++ st.scope }

/-- The hook calls `on_found.on_ident` / `on_pattern` of a construct with span `sp`.
    `fx = false`: the code as it is (unconditional). `fx = true`: the REPAIRED rule — the hooks
    run only when the construct's span contains the position. -/
def hook (fx : Bool) (pos : Nat) (st : St) (sp : Span) (ids : List Nat) : St :=
  if fx && sp.containment pos != .eq then st else addScope st sp ids

/-- `Variant` (lib.rs:326) without `Type`. -/
inductive Variant where
  | pat (p : Pat)
  | ident (a : Arg)
  | field (sp : Span)
  | expr (e : Expr)

def Variant.span : Variant → Span
  | .pat p => p.span
  | .ident a => a.sp
  | .field sp => sp
  | .expr e => e.span

/-- lib.rs:663-674: the variants of a record expression, in field order, then the base. -/
def recordVariants (fields : List Field) (base : Option Expr) : List Variant :=
  fields.flatMap (fun f => match f with
    | .mk sp none => [Variant.field sp]
    | .mk sp (some e) => [Variant.field sp, Variant.expr e])
  ++ (match base with | none => [] | some b => [Variant.expr b])

/-- lib.rs:593-596 (no type annotation). -/
def bindVariants (b : LBind) : List Variant :=
  Variant.pat b.name :: (b.args.map Variant.ident ++ [Variant.expr b.expr])

/-- What the visitor is looking at: `visit_expr`, `visit_pattern`, or `visit_any` after its
    selection. -/
inductive Node where
  | expr (e : Expr)
  | pat (p : Pat)
  | variant (v : Option Variant)

/-- One call of a `visit_*` function: it either finishes or makes exactly one (tail) call. -/
inductive Next where
  | done (o : Out)
  | go (n : Node) (st : St)

/-- The body of `visit_pattern` (lib.rs:410), `visit_any` after the selection (lib.rs:358) and
    `visit_expr` (lib.rs:505; nodes inside the source span, i.e. not macro expanded), up to the
    recursive call. -/
def step (fx : Bool) (pos : Nat) : Node → St → Next
  | .pat p, st0 =>
    let st := enter ⟨.pattern, p.span, p.tag⟩ pos st0
    match p with
    | .record _ fields =>
      -- lib.rs:434-490 (value fields)
      match selectSpanned Pat.span pos fields with
      | (false, some (.fieldShort nsp _)) => .done (.ok (foundIfAt ⟨.ident, nsp, .plain⟩ pos st))
      | (false, some (.fieldVal nsp v)) =>
        match nsp.containment pos with
        | .eq => .done (.ok (setFound st (.found ⟨.ident, nsp, .plain⟩)))
        | .gt => .go (.pat v) st
        | .lt => .done (.ok (setFound st .empty))
      | _ => .done (.ok (setFound st .empty))
    -- fields are handled by their record; never visited as patterns of their own
    | .fieldShort _ _ => .done (.ok (setFound st .empty))
    | .fieldVal _ _ => .done (.ok (setFound st .empty))
    | .as_ _ _ q => .go (.pat q) st
    | .ctor sp idLen args =>
      if (Span.mk sp.lo (sp.lo + idLen)).containment pos = .eq then
        .done (.ok (setFound st (.found ⟨.pattern, sp, .plain⟩)))
      else match (selectSpanned Pat.span pos args).2 with
        | some q => .go (.pat q) st
        | none => .done (.ok (setFound st .empty))
    | .tuple sp elems =>
      -- lib.rs:491-503 (since the unit-pattern fix `()` is treated like a leaf; before,
      -- `field.unwrap()` panicked here)
      match (selectSpanned Pat.span pos elems).2 with
      | some q => .go (.pat q) st
      | none => .done (.ok (foundIfAt ⟨.pattern, sp, .plain⟩ pos st))
    | .leaf sp _ => .done (.ok (foundIfAt ⟨.pattern, sp, .plain⟩ pos st))
  | .variant v, st =>
    match v with
    | some (.pat p) => .go (.pat p) st
    | some (.ident a) => .done (.ok (foundIfAt ⟨.ident, a.sp, .plain⟩ pos st))
    | some (.field sp) => .done (.ok (foundIfAt ⟨.ident, sp, .plain⟩ pos st))
    | some (.expr e) => .go (.expr e) st
    | none => .done (.ok (setFound st .empty))
  | .expr cur, st0 =>
    let st := enter cur.m pos st0
    match cur with
    | .leaf _ => .done (.ok (foundIfAt cur.m pos st))
    | .emptyNode _ => .done (.ok (setFound st (.found cur.m)))
    | .one _ cs =>
      -- lib.rs:338 `visit_one`
      match (selectSpanned Expr.span pos cs).2 with
      | some c => .go (.expr c) st
      | none => .done .panic
    | .matchE _ scrut alts =>
      -- lib.rs:535-558
      let items : List (Expr ⊕ Alt) := Sum.inl scrut :: alts.map Sum.inr
      let sp : Expr ⊕ Alt → Span := fun x => match x with | .inl e => e.span | .inr a => a.span
      match (selectSpanned sp pos items).2 with
      | none => .done .panic
      | some (.inl e) => .go (.expr e) { st with enclosing := e.m :: st.enclosing }
      | some (.inr a) =>
        let st := hook fx pos st a.span a.pat.binders
        let items2 : List (Pat ⊕ Expr) := [Sum.inl a.pat, Sum.inr a.expr]
        let sp2 : Pat ⊕ Expr → Span := fun x => match x with | .inl p => p.span | .inr e => e.span
        match (selectSpanned sp2 pos items2).2 with
        | none => .done .panic
        | some (.inl p) => .go (.pat p) st
        | some (.inr e) => .go (.expr e) st
    | .infix _ lhs op rhs =>
      -- lib.rs:560-578
      match lhs.span.containment pos, rhs.span.containment pos with
      | .gt, .lt => .done (.ok (setFound st (.found ⟨.ident, op, .plain⟩)))
      | _, .gt => .go (.expr rhs) st
      | _, .eq => .go (.expr rhs) st
      | _, _ => .go (.expr lhs) st
    | .letb sp isRec binds body =>
      -- lib.rs:579-608
      let st := if isRec then hook fx pos st sp (binds.flatMap (fun b => b.name.binders)) else st
      match selectSpanned LBind.span pos binds with
      | (false, some b) =>
        let st := hook fx pos st b.span (b.args.map Arg.id)
        .go (.variant (selectSpanned Variant.span pos (bindVariants b)).2) st
      | _ =>
        let st := if isRec then st else hook fx pos st sp (binds.flatMap (fun b => b.name.binders))
        .go (.expr body) st
    | .proj sp e =>
      -- lib.rs:643-650
      if e.span.containment pos = .gt then
        .done (.ok (setFound { st with enclosing := cur.m :: st.enclosing } (.found ⟨.ident, sp, .plain⟩)))
      else .go (.expr e) st
    | .record _ fields base =>
      -- lib.rs:658-676
      .go (.variant (selectSpanned Variant.span pos (recordVariants fields base)).2) st
    | .lambda sp args body =>
      -- lib.rs:677-693
      let st := hook fx pos st sp (args.map Arg.id)
      match selectSpanned Arg.sp pos args with
      | (false, some a) => .done (.ok (setFound st (.found ⟨.ident, a.sp, .plain⟩)))
      | _ => .go (.expr body) st
    | .annotated _ e =>
      -- lib.rs:733 (since the `Annotated` fix; before: `unimplemented!()`)
      .go (.expr e) st
    | .error _ => .done (.ok st)

/-- The descent: `step` iterated. Every `visit_*` call is a tail call, so the recursion of the
    Rust code is exactly this loop; the explicit fuel bounds the number of calls. -/
def run (fx : Bool) (pos : Nat) : Nat → Node → St → Out
  | 0, _, _ => .fuel
  | fuel + 1, n, st =>
    match step fx pos n st with
    | .done o => o
    | .go n' st' => run fx pos fuel n' st'

/-- lib.rs:410 `visit_pattern`. -/
def visitPat (fx : Bool) (pos fuel : Nat) (p : Pat) (st : St) : Out := run fx pos fuel (.pat p) st
/-- lib.rs:346 `visit_any` after the selection. -/
def visitVariant (fx : Bool) (pos fuel : Nat) (v : Option Variant) (st : St) : Out :=
  run fx pos fuel (.variant v) st
/-- lib.rs:505 `visit_expr`. -/
def visitExpr (fx : Bool) (pos fuel : Nat) (e : Expr) (st : St) : Out := run fx pos fuel (.expr e) st

/-- lib.rs:785 `complete_at`: `enclosing_matches` starts with the root. -/
def completeWith (fx : Bool) (pos : Nat) (fuel : Nat) (root : Expr) : Out :=
  visitExpr fx pos fuel root ⟨.notFound, [root.m], [], []⟩

/-- The code as it is. -/
def complete (pos : Nat) (fuel : Nat) (root : Expr) : Out := completeWith false pos fuel root

/-! ### Suggestions (`SuggestionQuery { prefix_filter: false, .. }`, no globals, no types) -/

def dedup : List Nat → List Nat
  | [] => []
  | x :: xs => if xs.contains x then dedup xs else x :: dedup xs

inductive Sugg where
  /-- the symbols (indices into the name table) that are suggested -/
  | names (ids : List Nat)
  /-- depends on types (field access) or on the record-field filter: not modelled -/
  | skip
  deriving Repr

/-- lib.rs:1312-1458 for this fragment. `Suggest.stack` is a map keyed by symbol, so every
    symbol is suggested once. `suggest.patterns` is empty (no type bindings). -/
def suggest (st : St) : Sugg :=
  match st.found, st.enclosing with
  | .notFound, _ => .names []     -- `complete_at` returned `Err(())`
  | _, [] => .names []            -- unreachable: the root is always there
  | f, last :: _ =>
    if last.tag = .record then .skip else
    let all := Sugg.names (dedup (st.scope.map Prod.fst))
    match f with
    | .notFound => .names []
    | .empty =>
      -- lib.rs:1451-1462: record pattern ⇒ fields of its type, other patterns ⇒ `patterns` (empty)
      if last.kind = .pattern then (if last.tag = .recpat then .skip else .names []) else all
    | .found m =>
      match m.kind with
      | .expr => all
      | .pattern => .names []
      | .ident =>
        -- lib.rs:1404-1420
        if last.kind = .pattern then (if last.tag = .recpat then .skip else .names [])
        else if last.tag = .proj then .skip
        else all

/-! ### Fuel-free search -/

/-- Height of a pattern = fuel `visit_pattern` needs. -/
def Pat.height : Pat → Nat
  | .leaf _ _ => 1
  | .tuple _ ps => heightList ps + 1
  | .ctor _ _ ps => heightList ps + 1
  | .as_ _ _ p => p.height + 1
  | .record _ fs => heightList fs + 1
  | .fieldShort _ _ => 1
  | .fieldVal _ v => v.height + 1
where
  heightList : List Pat → Nat
    | [] => 0
    | p :: ps => max p.height (heightList ps)

mutual
/-- Height of an expression = fuel `visit_expr` needs (`visit_any` costs one step of its own). -/
def Expr.height : Expr → Nat
  | .leaf _ => 1
  | .emptyNode _ => 1
  | .error _ => 1
  | .one _ cs => hList cs + 1
  | .infix _ l _ r => max l.height r.height + 1
  | .proj _ e => e.height + 1
  | .annotated _ e => e.height + 1
  | .lambda _ _ b => b.height + 1
  | .letb _ _ bs b => max (hBinds bs + 1) b.height + 1
  | .matchE _ s alts => max s.height (hAlts alts) + 1
  | .record _ fs base => max (hFields fs) (match base with | none => 0 | some b => b.height) + 2
def hList : List Expr → Nat
  | [] => 0
  | e :: es => max e.height (hList es)
def hBinds : List LBind → Nat
  | [] => 0
  | .mk n _ e :: bs => max (max n.height e.height) (hBinds bs)
def hAlts : List Alt → Nat
  | [] => 0
  | .mk p e :: as => max (max p.height e.height) (hAlts as)
def hFields : List Field → Nat
  | [] => 0
  | .mk _ none :: fs => hFields fs
  | .mk _ (some e) :: fs => max e.height (hFields fs)
end

def Node.height : Node → Nat
  | .expr e => e.height
  | .pat p => p.height
  | .variant (some (.pat p)) => p.height + 1
  | .variant (some (.expr e)) => e.height + 1
  | .variant _ => 1

/-- The position search as a function of the tree alone (fuel = height; by
    `fuel_sufficient`/`fuel_irrelevant` any larger fuel gives the same answer). -/
def findWith (fx : Bool) (pos : Nat) (root : Expr) : Out := completeWith fx pos root.height root

/-- `complete_at` of the code as it is. -/
def findAt (pos : Nat) (root : Expr) : Out := findWith false pos root

/-! ### The shape the AST constructors guarantee -/

mutual
/-- Every `visit_one` node has a child — true of every AST: `App` has `func`, `IfElse` three
    children, `Array`/`Tuple`/`Block` are guarded by `is_empty()` (lib.rs:652/698). -/
def Expr.ok : Expr → Bool
  | .leaf _ => true
  | .emptyNode _ => true
  | .error _ => true
  | .one _ cs => !cs.isEmpty && okList cs
  | .infix _ l _ r => l.ok && r.ok
  | .proj _ e => e.ok
  | .annotated _ e => e.ok
  | .lambda _ _ b => b.ok
  | .letb _ _ bs b => okBinds bs && b.ok
  | .matchE _ s alts => s.ok && okAlts alts
  | .record _ fs base => okFields fs && (match base with | none => true | some b => b.ok)
def okList : List Expr → Bool
  | [] => true
  | e :: es => e.ok && okList es
def okBinds : List LBind → Bool
  | [] => true
  | .mk _ _ e :: bs => e.ok && okBinds bs
def okAlts : List Alt → Bool
  | [] => true
  | .mk _ e :: as => e.ok && okAlts as
def okFields : List Field → Bool
  | [] => true
  | .mk _ none :: fs => okFields fs
  | .mk _ (some e) :: fs => e.ok && okFields fs
end

end GluonModel.FindPos
