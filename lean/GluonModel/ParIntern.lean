/-
`Intern` — the VM-wide string interner shared by all threads.

What it mirrors (gluon at /repo):
* `Interner` (vm/src/interner.rs:98-150): `indexes : FnvMap<&str, InternedStr>`; `intern(gc, s)`
  = look `s` up, on a hit return the stored `InternedStr`, on a miss allocate a new string in the
  gc, `indexes.insert(key, value)` (a `HashMap::insert`: an existing entry for the same text is
  overwritten) and return it.
* `GlobalVmState::intern` (vm/src/vm.rs:705-709): `gc.lock()`, `interner.write()`, then
  `interner.intern(..)` — lookup-or-insert is ONE step under the write lock (`Ev.intern`).
* `InternedStr` equality and hashing are BY POINTER (interner.rs:24-50); record fields are found
  by comparing interned names (`GetField`/`TestPolyTag` in vm/src/thread.rs, `lookup_field`
  vm/src/api/mod.rs:240), so the whole VM relies on: one text ⇒ one pointer.

Pointers are modelled as allocation numbers.  Besides the atomic step the model has the SPLIT
protocol of a tempting "fast path" (lookup under the shared read lock, `Ev.lookupS`; later, under
the write lock, insert WITHOUT looking again, `Ev.insertS`) and its repair (`Ev.insertRecheck`),
so that the theorems say exactly which step order the uniqueness rests on.
-/
namespace GluonModel.ParIntern

structure Tab where
  /-- text ↦ pointer, newest first; a lookup finds the newest entry (HashMap overwrite) -/
  entries : List (String × Nat)
  /-- next allocation -/
  next : Nat
  /-- (thread, text, pointer handed to that thread), newest first -/
  got : List (Nat × String × Nat)
  /-- split protocol: thread has seen a miss for this text and has not inserted yet -/
  pending : List (Nat × String)
  deriving Repr, DecidableEq

def empty : Tab := ⟨[], 0, [], []⟩

def lookup (es : List (String × Nat)) (s : String) : Option Nat :=
  match es with
  | [] => none
  | (k, p) :: rest => if k = s then some p else lookup rest s

/-- lookup-or-insert as one step (interner.rs:129-148 under vm.rs:706-708) -/
def internStep (T : Tab) (t : Nat) (s : String) : Tab :=
  match lookup T.entries s with
  | some p => { T with got := (t, s, p) :: T.got }
  | none => { T with entries := (s, T.next) :: T.entries, next := T.next + 1, got := (t, s, T.next) :: T.got }

def pendingOf (ps : List (Nat × String)) (t : Nat) : Option String :=
  match ps with
  | [] => none
  | (u, s) :: rest => if u = t then some s else pendingOf rest t

def dropPending (ps : List (Nat × String)) (t : Nat) : List (Nat × String) :=
  ps.filter (fun p => p.1 ≠ t)

inductive Ev where
  /-- atomic lookup-or-insert -/
  | intern (t : Nat) (s : String)
  /-- split protocol, first half: lookup only (shared lock); a miss is remembered -/
  | lookupS (t : Nat) (s : String)
  /-- split protocol, second half as in the tempting optimisation: insert, no second look -/
  | insertS (t : Nat)
  /-- split protocol, second half repaired: look again under the write lock -/
  | insertRecheck (t : Nat)
  deriving Repr, DecidableEq

def step (T : Tab) : Ev → Tab
  | .intern t s => internStep T t s
  | .lookupS t s =>
    match lookup T.entries s with
    | some p => { T with got := (t, s, p) :: T.got }
    | none => { T with pending := (t, s) :: dropPending T.pending t }
  | .insertS t =>
    match pendingOf T.pending t with
    | none => T
    | some s =>
      { T with entries := (s, T.next) :: T.entries, next := T.next + 1,
               got := (t, s, T.next) :: T.got, pending := dropPending T.pending t }
  | .insertRecheck t =>
    match pendingOf T.pending t with
    | none => T
    | some s => internStep { T with pending := dropPending T.pending t } t s

def runFrom (T : Tab) (es : List Ev) : Tab := es.foldl step T
def run (es : List Ev) : Tab := runFrom empty es

/-- every event keeps lookup-or-insert atomic w.r.t. the table (no blind insert) -/
def Ev.safe : Ev → Bool
  | .insertS _ => false
  | _ => true

/-! ### records: fields are found by comparing interned names -/

/-- a record value: (pointer of the field name, value) -/
def lookupPtr (fields : List (Nat × Int)) (p : Nat) : Option Int :=
  match fields with
  | [] => none
  | (q, v) :: rest => if q = p then some v else lookupPtr rest p

/-- what the source program means: the field with that NAME -/
def lookupText (fields : List (String × Int)) (s : String) : Option Int :=
  match fields with
  | [] => none
  | (k, v) :: rest => if k = s then some v else lookupText rest s

/-- the pointer thread `t` was handed for `s` most recently -/
def ptrOf (T : Tab) (t : Nat) (s : String) : Option Nat :=
  match T.got.find? (fun g => g.1 = t ∧ g.2.1 = s) with
  | some g => some g.2.2
  | none => none

/-- number of different pointers handed out for `s` -/
def reps (T : Tab) (s : String) : Nat :=
  ((T.got.filter (fun g => g.2.1 = s)).map (·.2.2)).eraseDups.length

/-! ### the `fresh-names` scenario of the harness (what the driver runs)

Round `r`: every thread `t` (value seed `t+1`) builds a record with the `F` field names of the
round, reads them back through an accessor (a second interning of the same names), tests two
variant tags, and the host looks the fields up once more; `K` further names are only interned. -/

def lcg (x : Nat) : Nat := (x * 6364136223846793005 + 1442695040888963407) % 18446744073709551616

/-- a seeded order of the threads -/
def order (n seed : Nat) : List Nat :=
  let keyed := (List.range n).map (fun t => (lcg (seed + 7919 * t + 1) % 1000003, t))
  (keyed.mergeSort (fun a b => a.1 ≤ b.1)).map (·.2)

def fieldName (b r i : Nat) : String := s!"c14b{b}r{r}f{i}"
def tagName (b r : Nat) (c : String) : String := s!"C14b{b}r{r}{c}"
def extraName (b r k : Nat) : String := s!"c14b{b}r{r}n{k}"

def roundNames (b r f k : Nat) : List String :=
  (List.range f).map (fieldName b r) ++ [tagName b r "A", tagName b r "B"] ++ (List.range k).map (extraName b r)

/-- all threads intern `names`, name by name, in a seeded thread order -/
def internAll (T : Tab) (n seed : Nat) (names : List String) : Tab :=
  (names.zipIdx.flatMap (fun (s, j) => (order n (seed + j)).map (fun t => Ev.intern t s))).foldl step T

structure RoundOut where
  ok : Nat
  maxreps : Nat
  checksum : Int

def fieldVal (t r i : Nat) : Int := ((t + 1) * 100 + i + r : Nat)

/-- one round from an empty table (names of different rounds are disjoint) -/
def runRound (n f k b r : Nat) : RoundOut :=
  let names := roundNames b r f k
  -- phase 1: building the records / compiling (first interning), phase 2: the accessor and the
  -- host lookups (later internings of the same names)
  let T1 := internAll empty n (b * 1000003 + r) names
  let built : List (Nat × List (Nat × Int)) := (List.range n).map (fun t =>
    (t, (List.range f).filterMap (fun i => (ptrOf T1 t (fieldName b r i)).map (fun p => (p, fieldVal t r i)))))
  let T2 := internAll T1 n (b * 1000003 + r + 17) names
  let perThread := built.map (fun (t, fields) =>
    let reads := (List.range f).map (fun i => (ptrOf T2 t (fieldName b r i)).bind (lookupPtr fields))
    let tagsOk := ptrOf T1 t (tagName b r "A") == ptrOf T2 t (tagName b r "A") &&
                  ptrOf T1 t (tagName b r "B") == ptrOf T2 t (tagName b r "B")
    if reads.all Option.isSome && tagsOk then
      let total := (reads.map (fun v => v.getD 0)).foldl (· + ·) 0
      some (total + 4 * ((t : Int) + 1) + total)
    else none)
  { ok := (perThread.filter Option.isSome).length,
    maxreps := (names.map (reps T2)).foldl max 0,
    checksum := (perThread.map (fun v => v.getD 0)).foldl (· + ·) 0 }

def runFresh (n rounds f k b : Nat) : RoundOut :=
  (List.range rounds).foldl (fun acc r =>
    let o := runRound n f k b r
    { ok := acc.ok + o.ok, maxreps := max acc.maxreps o.maxreps, checksum := acc.checksum + o.checksum })
    ⟨0, 0, 0⟩

end GluonModel.ParIntern
