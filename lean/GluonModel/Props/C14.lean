/-
C14 — "Several OS threads concurrently compiling and running programs on sibling Gluon threads of
one VM - including programs that import the same modules at the same moment - each obtain the
result they obtain when run alone, every module body is evaluated once, and the system neither
deadlocks nor corrupts memory."

PARTIAL by nature: this is a property of real concurrency.  What is proved here is the *logic*
the property rests on, over two transition systems read from the code:

* `GluonModel.ParOnce`  — a memoised module evaluation requested by any number of threads under
  every interleaving of request / finish / wake (src/import.rs:545, src/query.rs:155,379,707):
  the body runs exactly once, every requester obtains that one value, nobody reads a module that
  is still being evaluated, no requester is lost or left parked.
* `GluonModel.ParLocks` — the lock acquisition orders of `re_root`/`deep_clone_value`, `collect`,
  argument pushing and `new_thread` (vm/src/thread.rs:229,395,757,924,1274,1286;
  vm/src/api/mod.rs:1575): any set of operations that respects one ranking of the locks has no
  wait-for cycle and is never stuck (any number of threads and locks); the orders actually in the
  code do NOT respect a ranking — two concrete reachable deadlocks (`…_fails`, both reproduced on
  the real VM by the harness: known findings) — and the repaired order does.

NOT covered by any theorem (only by the oracle of harness/src/bin/c14.rs on the real code): data
races, memory corruption, the salsa runtime and the OS scheduler, the equality of parallel and
solo results of whole programs.  Full statement (not provable in a model without the real
scheduler and memory):
  ∀ programs p₁ … pₙ (2 ≤ n ≤ 16), ∀ schedule, run_parallel(pᵢ) = run_alone(pᵢ) ∧ every module
  body evaluated once ∧ no deadlock ∧ no memory corruption.
-/
import GluonModel.ParOnce
import GluonModel.ParLocks
import GluonModel.Proofs.ParOnce
import GluonModel.Proofs.ParLocks
import GluonModel.ParIntern
import GluonModel.Proofs.ParIntern

namespace GluonModel.Props.C14
open GluonModel.ParOnce GluonModel.ParLocks

/-! ## Once: a module requested by many threads at the same moment -/

/-- In every interleaving the module body is started at most once. -/
theorem once_body_runs_at_most_once (body : Nat → Int) (es : List Ev) :
    (run body es).evals ≤ 1 := by
  have h := ParOnce.Proofs.inv_run body es
  unfold ParOnce.Proofs.Inv at h
  split at h <;> omega

/-- … and exactly once as soon as anybody asked for the module (any number of requesters, any
    order of events). -/
theorem once_body_runs_exactly_once_partial (body : Nat → Int) (es : List Ev) (t : Nat)
    (hreq : Ev.request t ∈ es) : (run body es).evals = 1 := by
  have h := ParOnce.Proofs.inv_run body es
  have ht := ParOnce.Proofs.tracked_runFrom body t es init (Or.inr hreq)
  unfold ParOnce.Proofs.Inv at h
  unfold ParOnce.Proofs.Tracked at ht
  unfold run at *
  split at h
  · rename_i hc
    rw [hc] at ht
    rcases ht with ⟨x, hx⟩ | hf
    · rw [h.2] at hx; simp at hx
    · exact hf.elim
  · exact h.1
  · exact h.1

/-- Every value any requester ever obtains is the value of the FIRST (only) evaluation, even if a
    second evaluation would have produced something else. -/
theorem once_everybody_obtains_the_one_value_partial (body : Nat → Int) (es : List Ev) :
    ∀ p ∈ (run body es).got, p.2 = body 1 := by
  have h := ParOnce.Proofs.inv_run body es
  unfold ParOnce.Proofs.Inv at h
  intro p hp
  split at h
  · rw [h.2] at hp; simp at hp
  · rw [h.2] at hp; simp at hp
  · exact h.2.2 p hp

/-- Nobody reads a module whose body is still running. -/
theorem once_no_value_before_finish_partial (body : Nat → Int) (es : List Ev) (o : Nat) (ws : List Nat)
    (h : (run body es).cell = .inProgress o ws) : (run body es).got = [] := by
  have hi := ParOnce.Proofs.inv_run body es
  unfold ParOnce.Proofs.Inv at hi
  rw [h] at hi
  exact hi.2

/-- No lost requester, no lost wake-up: whatever happened so far, once the owner finishes and the
    parked requesters are woken, EVERY thread that asked has the one value, nobody is parked any
    more, and the body still ran once. -/
theorem once_all_served_partial (body : Nat → Int) (es : List Ev) (t : Nat) (hreq : Ev.request t ∈ es) :
    (t, body 1) ∈ (drain body (run body es)).got ∧
    (drain body (run body es)).cell = .done (body 1) [] ∧
    (drain body (run body es)).evals = 1 := by
  have hinv := ParOnce.Proofs.inv_run body es
  have ht := ParOnce.Proofs.tracked_runFrom body t es init (Or.inr hreq)
  have hev := once_body_runs_exactly_once_partial body es t hreq
  unfold run at *
  generalize runFrom body init es = s at *
  obtain ⟨cell, evals, got⟩ := s
  simp only at hev
  subst hev
  cases cell with
  | absent =>
    simp [ParOnce.Proofs.Inv] at hinv
  | inProgress o ws =>
    simp only [ParOnce.Proofs.Inv] at hinv
    simp only [ParOnce.Proofs.Tracked] at ht
    have hw := ParOnce.Proofs.wake_all body (body 1) ws ⟨.done (body 1) ws, 1, (o, body 1) :: got⟩ rfl
    obtain ⟨h1, h2, h3, h4, _⟩ := hw
    simp only [drain, step, waiters]
    refine ⟨?_, h1, h2⟩
    rcases ht with ⟨x, hx⟩ | ho | hws
    · rw [hinv.2] at hx; simp at hx
    · subst ho; exact h3 _ (by simp)
    · exact h4 t hws
  | done v ws =>
    simp only [ParOnce.Proofs.Inv] at hinv
    simp only [ParOnce.Proofs.Tracked] at ht
    obtain ⟨_, hv, hgot⟩ := hinv
    subst hv
    have hw := ParOnce.Proofs.wake_all body (body 1) ws ⟨.done (body 1) ws, 1, got⟩ rfl
    obtain ⟨h1, h2, h3, h4, _⟩ := hw
    simp only [drain, step, waiters]
    refine ⟨?_, h1, h2⟩
    rcases ht with ⟨x, hx⟩ | hws
    · have := hgot (t, x) hx
      simp only at this
      subst this
      exact h3 _ hx
    · exact h4 t hws

/-! non-vacuity: three threads ask for one module "at the same moment" -/
example : (run (fun k => 40 + k) [.request 1, .request 2, .request 3, .request 2, .finish, .wake 3]).evals = 1 := by
  decide
example : (run (fun k => 40 + k) [.request 1, .request 2, .request 3, .finish, .wake 3, .request 4]).got
    = [(4, 41), (3, 41), (1, 41)] := by decide
example : (drain (fun k => 40 + k) (run (fun k => 40 + k) [.request 1, .request 2, .request 3])).got
    = [(2, 41), (3, 41), (1, 41)] := by decide

/-! ## Locks: acquisition orders and deadlock -/

/-- Lock hierarchy ⇒ no wait-for cycle.  If every operation acquires locks in strictly increasing
    rank (w.r.t. ONE ranking of all locks), then in no reachable state is there a cycle of threads
    each blocked on a lock the next one holds — for any number of threads, locks, operations and
    any schedule. -/
theorem hierarchy_no_wait_cycle (rank : Lock → Nat) (progs : List (List Op))
    (hord : ∀ p ∈ progs, ParLocks.Proofs.Ordered rank [] p)
    (sched : List Nat) (s : Sys) (hreach : runSched (mkSys progs) sched = some s) :
    ∀ i, ¬ ParLocks.Proofs.WaitPath s i i :=
  fun i => ParLocks.Proofs.no_cycle rank s
    (ParLocks.Proofs.good_runSched rank sched _ s (ParLocks.Proofs.good_mkSys rank progs hord) hreach) i

/-- Lock hierarchy ⇒ no deadlock: every reachable state is finished or has a thread that can
    perform its next lock operation. -/
theorem hierarchy_no_deadlock (rank : Lock → Nat) (progs : List (List Op))
    (hord : ∀ p ∈ progs, ParLocks.Proofs.Ordered rank [] p)
    (sched : List Nat) (s : Sys) (hreach : runSched (mkSys progs) sched = some s) :
    (∀ th ∈ s, th.prog = []) ∨ ∃ i, (stepAt s i).isSome :=
  ParLocks.Proofs.progress rank s
    (ParLocks.Proofs.good_runSched rank sched _ s (ParLocks.Proofs.good_mkSys rank progs hord) hreach)

def waitsForB (s : Sys) (i j : Nat) : Bool :=
  match s[i]?, s[j]? with
  | some a, some b =>
    match wants a with
    | some l => b.held.contains l
    | none => false
  | _, _ => false

theorem waitsFor_of_b (s : Sys) (i j : Nat) (h : waitsForB s i j = true) :
    ParLocks.Proofs.WaitsFor s i j := by
  unfold waitsForB at h
  cases hi : s[i]? with
  | none => simp [hi] at h
  | some a =>
    cases hj : s[j]? with
    | none => simp [hi, hj] at h
    | some b =>
      cases hw : wants a with
      | none => simp [hi, hj, hw] at h
      | some l =>
        simp [hi, hj, hw] at h
        exact ⟨a, b, l, hi, hj, hw, h⟩

/-- the state after each of two opposite transfers has taken its own context -/
def rerootDead : Sys := (runSched (mkSys [rerootProg 1 2, rerootProg 2 1]) [0, 1]).getD []

/-- (`deep_clone_pair_can_deadlock`, defect D11.)  The order of `deep_clone_value` — context of
    the destination, then context of the source (thread.rs:1275 then 1301) — is not ranked: two
    opposite transfers between two threads reach, after two steps, a state in which neither can
    move and each waits for the other.  Reproduced on the real VM (known finding
    `deadlock:deep_clone_value-opposite-transfers`). -/
theorem deep_clone_pair_can_deadlock_fails :
    runSched (mkSys [rerootProg 1 2, rerootProg 2 1]) [0, 1] = some rerootDead ∧
    deadlocked rerootDead = true ∧
    ParLocks.Proofs.WaitPath rerootDead 0 0 := by
  refine ⟨by decide, by decide, ?_⟩
  exact .cons (waitsFor_of_b _ 0 1 (by decide)) (.single (waitsFor_of_b _ 1 0 (by decide)))

/-- hence no ranking of the locks makes the two transfers ordered -/
theorem deep_clone_not_ranked_fails (rank : Lock → Nat) :
    ¬ (∀ p ∈ [rerootProg 1 2, rerootProg 2 1], ParLocks.Proofs.Ordered rank [] p) := by
  intro h
  have := hierarchy_no_wait_cycle rank _ h [0, 1] rerootDead deep_clone_pair_can_deadlock_fails.1 0
  exact this deep_clone_pair_can_deadlock_fails.2.2

/-- the state after a collecting parent (thread 0) took its context and its child (thread 1), about
    to be handed an argument rooted in the parent, took its own -/
def collectPushDead : Sys :=
  (runSched (mkSys [collectProg (flatKids 2) 3 0, pushProg 1 0]) [1, 1, 1, 0, 0, 0, 0]).getD []

/-- A parent that collects (thread.rs:924 → 395-436: own context, then every descendant's
    context) and a child that is handed an argument rooted in the parent (api/mod.rs:1575-1577:
    own context, then the parent's context in `can_share_values_with`) deadlock.  Reproduced on
    the real VM (known findings `deadlock:collect-vs-push-…`, `deadlock:new_thread-vs-push`). -/
theorem collect_vs_push_can_deadlock_fails :
    runSched (mkSys [collectProg (flatKids 2) 3 0, pushProg 1 0]) [1, 1, 1, 0, 0, 0, 0] = some collectPushDead ∧
    deadlocked collectPushDead = true ∧
    ParLocks.Proofs.WaitPath collectPushDead 0 0 := by
  refine ⟨by decide, by decide, ?_⟩
  exact .cons (waitsFor_of_b _ 0 1 (by decide)) (.single (waitsFor_of_b _ 1 0 (by decide)))

/-- the state after an OS thread re-rooting into child 1 took ctx 1 and the collecting root took
    its own context and child 2's (it pops the LAST child first) -/
def collectRerootDead : Sys :=
  (runSched (mkSys [collectProg (flatKids 3) 4 0, rerootProg 1 2]) [1, 0, 0, 0, 0, 0, 0, 0, 0]).getD []

/-- `collect` keeps every child's context, taking them in `Vec::pop` order (last child first,
    thread.rs:409-419); a transfer from the later child into the earlier one takes the same two
    contexts in the opposite order: reachable deadlock.  Predicted by the model before it was
    observed; reproduced on the real VM (10/10 runs hang, the opposite direction 0/10; known
    finding `deadlock:collect-vs-re_root`). -/
theorem collect_vs_reroot_can_deadlock_fails :
    runSched (mkSys [collectProg (flatKids 3) 4 0, rerootProg 1 2]) [1, 0, 0, 0, 0, 0, 0, 0, 0] = some collectRerootDead ∧
    deadlocked collectRerootDead = true ∧
    ParLocks.Proofs.WaitPath collectRerootDead 0 0 := by
  refine ⟨by decide, by decide, ?_⟩
  exact .cons (waitsFor_of_b _ 0 1 (by decide)) (.single (waitsFor_of_b _ 1 0 (by decide)))

def fixedRank : Lock → Nat
  | .ctx _ => 0
  | .rooted _ => 1
  | _ => 2

theorem rerootFixed_ordered (d s : Nat) : ParLocks.Proofs.Ordered fixedRank [] (rerootFixedProg d s) := by
  by_cases h : d = s
  · subst h
    simp [rerootFixedProg, ParLocks.Proofs.Ordered, fixedRank]
  · have h' : ¬ (Lock.ctx s = Lock.ctx d) := by
      intro e; injection e with e; exact h e.symm
    simp [rerootFixedProg, ParLocks.Proofs.Ordered, fixedRank, h]

/-- (`deep_clone_ranked_fixed`.)  With the repaired order — look at the other thread's context
    BEFORE taking the own one, never both — any number of OS threads performing any transfers
    between any threads never deadlock and never form a wait-for cycle. -/
theorem deep_clone_ranked_fixed (pairs : List (Nat × Nat)) (sched : List Nat) (s : Sys)
    (hreach : runSched (mkSys (pairs.map (fun p => rerootFixedProg p.1 p.2))) sched = some s) :
    ((∀ th ∈ s, th.prog = []) ∨ ∃ i, (stepAt s i).isSome) ∧ ∀ i, ¬ ParLocks.Proofs.WaitPath s i i := by
  have hord : ∀ p ∈ pairs.map (fun p => rerootFixedProg p.1 p.2), ParLocks.Proofs.Ordered fixedRank [] p := by
    intro p hp
    simp only [List.mem_map] at hp
    obtain ⟨q, _, rfl⟩ := hp
    exact rerootFixed_ordered q.1 q.2
  exact ⟨hierarchy_no_deadlock fixedRank _ hord sched s hreach,
         hierarchy_no_wait_cycle fixedRank _ hord sched s hreach⟩

/-! non-vacuity -/
-- transfers in ONE direction are ordered (rank the destination's context below the source's)
example : ∀ p ∈ [rerootProg 1 2, rerootProg 1 2],
    ParLocks.Proofs.Ordered (fun l => match l with | .ctx 1 => 0 | .ctx _ => 1 | _ => 2) [] p := by
  intro p hp
  simp at hp
  subst hp
  simp [rerootProg, ParLocks.Proofs.Ordered]
-- and the search finds exactly the two bad pairs among the scenarios the harness runs
example : canDeadlock (scenSys 4 [.reroot 1 2, .reroot 2 1]) = true := by decide +kernel
example : canDeadlock (scenSys 4 [.reroot 1 2, .reroot 1 2]) = false := by decide +kernel
example : deadlocked rerootDead = true := by decide


/-! ## The interleaving search the driver answers with is sound -/

/-- Every `(deadlock true)` the driver prints is backed by a real schedule: if the exhaustive
    search `canDeadlock` reports a deadlock for a set of lock programs, then some schedule of the
    model reaches a state in which somebody is unfinished and nobody can perform his next lock
    operation.  (The converse — a `false` means no schedule deadlocks — is NOT proved: the search
    identifies states by the remaining program lengths and is cut off by fuel.) -/
theorem canDeadlock_sound_partial (progs : List (List Op)) (h : canDeadlock progs = true) :
    ∃ sched s, runSched (mkSys progs) sched = some s ∧
      (¬ ∀ th ∈ s, th.prog = []) ∧ ∀ i, stepAt s i = none := by
  unfold canDeadlock at h
  obtain ⟨s, ⟨sched, hr⟩, hd⟩ := ParLocks.Proofs.explore_sound (mkSys progs) _ _ []
    (fun x hx => by
      simp only [List.mem_singleton] at hx
      subst hx
      exact ParLocks.Proofs.reach_refl _) h
  exact ⟨sched, s, hr, ParLocks.Proofs.deadlocked_spec s hd⟩

/-- Hence on lock programs that respect one ranking the search can only answer `false`. -/
theorem hierarchy_search_finds_nothing (rank : Lock → Nat) (progs : List (List Op))
    (hord : ∀ p ∈ progs, ParLocks.Proofs.Ordered rank [] p) : canDeadlock progs = false := by
  cases h : canDeadlock progs with
  | false => rfl
  | true =>
    obtain ⟨sched, s, hr, hnd, hstuck⟩ := canDeadlock_sound_partial progs h
    rcases hierarchy_no_deadlock rank progs hord sched s hr with hdone | ⟨i, hi⟩
    · exact absurd hdone hnd
    · rw [hstuck i] at hi; simp at hi

/-! non-vacuity: the D11 pair is reported, and the report is a real reachable deadlock -/
example : ∃ sched s, runSched (mkSys (scenSys 4 [.reroot 1 2, .reroot 2 1])) sched = some s ∧
    (¬ ∀ th ∈ s, th.prog = []) ∧ ∀ i, stepAt s i = none :=
  canDeadlock_sound_partial _ (by decide +kernel)

/-! ## Intern: one text, one pointer — what field access by interned name rests on

`GlobalVmState::intern` (vm/src/vm.rs:705-709) performs lookup-or-insert as ONE step under the
interner's write lock.  Every thread compiling a program interns its field names, variant tags
and string literals there; records are searched by comparing those pointers. -/
section Intern
open GluonModel.ParIntern

/-- `intern_unique`: under ANY interleaving of any number of threads interning any strings —
    atomically, or with the lookup first under the shared lock as long as the insert looks again
    (`insertRecheck`) — every string has at most one representation: two requests for the same
    text, by whichever threads and whenever, are handed the same pointer. -/
theorem intern_unique (es : List ParIntern.Ev) (hsafe : ∀ e ∈ es, e.safe = true)
    (t₁ t₂ : Nat) (s : String) (p₁ p₂ : Nat)
    (h₁ : (t₁, s, p₁) ∈ (ParIntern.run es).got) (h₂ : (t₂, s, p₂) ∈ (ParIntern.run es).got) : p₁ = p₂ :=
  ParIntern.Proofs.unique_of_inv _ (ParIntern.Proofs.inv_runFrom es ParIntern.empty hsafe ParIntern.Proofs.inv_empty)
    t₁ t₂ s p₁ p₂ h₁ h₂

/-- … and one pointer stands for one text. -/
theorem intern_pointer_determines_text (es : List ParIntern.Ev) (hsafe : ∀ e ∈ es, e.safe = true)
    (t₁ t₂ : Nat) (s₁ s₂ : String) (p : Nat)
    (h₁ : (t₁, s₁, p) ∈ (ParIntern.run es).got) (h₂ : (t₂, s₂, p) ∈ (ParIntern.run es).got) : s₁ = s₂ :=
  ParIntern.Proofs.injective_of_inv _ (ParIntern.Proofs.inv_runFrom es ParIntern.empty hsafe ParIntern.Proofs.inv_empty)
    t₁ t₂ s₁ s₂ p h₁ h₂

/-- Consequence: a record whose field names were interned by anybody at any time, searched with
    a pointer obtained by anybody at any time for the text `s`, yields exactly the field NAMED `s`
    (lookup by pointer = lookup by text).  This is what `GetField` on a row-polymorphic record,
    `TestPolyTag` and `lookup_field` need in order to mean what the program says. -/
theorem field_lookup_by_pointer_agrees_with_text (es : List ParIntern.Ev) (hsafe : ∀ e ∈ es, e.safe = true)
    (fields : List (String × Nat × Int))
    (hfields : ∀ f ∈ fields, ∃ t, (t, f.1, f.2.1) ∈ (ParIntern.run es).got)
    (t : Nat) (s : String) (p : Nat) (hp : (t, s, p) ∈ (ParIntern.run es).got) :
    lookupPtr (fields.map (fun f => (f.2.1, f.2.2))) p = lookupText (fields.map (fun f => (f.1, f.2.2))) s :=
  ParIntern.Proofs.lookup_agrees (ParIntern.run es).got
    (fun t₁ t₂ s p₁ p₂ => intern_unique es hsafe t₁ t₂ s p₁ p₂)
    (fun t₁ t₂ s₁ s₂ p => intern_pointer_determines_text es hsafe t₁ t₂ s₁ s₂ p)
    fields hfields t s p hp

/-- The split protocol WITHOUT the second look (lookup under the read lock, later a blind insert —
    the shape of a "lock-contention optimisation" of `GlobalVmState::intern`): two threads that
    miss the same fresh string at the same moment are handed two different pointers. -/
theorem split_intern_not_unique_fails :
    (1, "x", 0) ∈ (ParIntern.run [.lookupS 1 "x", .lookupS 2 "x", .insertS 1, .insertS 2]).got ∧
    (2, "x", 1) ∈ (ParIntern.run [.lookupS 1 "x", .lookupS 2 "x", .insertS 1, .insertS 2]).got := by
  decide

/-- … and then the record thread 1 built is searched in vain with the pointer everybody else gets
    for the same name (`Field x does not exist`), although the field named `x` is there. -/
theorem split_field_lookup_disagrees_fails :
    let T := ParIntern.run [.lookupS 1 "x", .lookupS 2 "x", .insertS 1, .insertS 2, .intern 3 "x"]
    ptrOf T 1 "x" = some 0 ∧ ptrOf T 3 "x" = some 1 ∧
    lookupPtr [(0, 42)] 1 = none ∧ lookupText [("x", 42)] "x" = some 42 := by
  decide

/-! non-vacuity -/
example : (ParIntern.run [.intern 1 "x", .lookupS 2 "y", .intern 3 "y", .insertRecheck 2, .intern 2 "x"]).got
    = [(2, "x", 0), (2, "y", 1), (3, "y", 1), (1, "x", 0)] := by decide
example : ∀ e ∈ [ParIntern.Ev.intern 1 "x", .lookupS 2 "y", .intern 3 "y", .insertRecheck 2, .intern 2 "x"], e.safe = true := by
  decide

end Intern

end GluonModel.Props.C14
