/-
C01 — "Running a well-typed Gluon program yields exactly the value that the language's
documented strict, call-by-value semantics assigns to it, or the runtime failure that semantics
assigns."

`GluonModel.Surf.eval` is the reference semantics (the specification side of C01). The theorems
here make that specification well defined and pin down the documented evaluation order, so that
the reference cannot drift silently; the tie to /repo is the differential correspondence of the
real pipeline against `eval` on generated programs (harness/src/bin/c01.rs). The theorems about
the model of the compiler and VM are in `GluonModel.Props.C01b` (imported below).
-/
import GluonModel.Surf
import GluonModel.Proofs.Surf
import GluonModel.Props.C01b

namespace GluonModel.Props.C01
open GluonModel.Surf

/-- The reference semantics assigns at most one outcome to a program: once `eval` answers with
    anything but "out of fuel", every larger fuel gives the same answer. -/
theorem eval_fuel_mono (n m : Nat) (env : Env) (e : Expr) (r : Res)
    (h : eval n env e = r) (hr : r ≠ .error .fuel) (hm : n ≤ m) : eval m env e = r :=
  Proofs.eval_fuel_mono n m env e r h hr hm

/-- Hence "the value the semantics assigns" is a function of the program. -/
theorem eval_deterministic (n m : Nat) (env : Env) (e : Expr) (r₁ r₂ : Res)
    (h₁ : eval n env e = r₁) (h₂ : eval m env e = r₂)
    (hr₁ : r₁ ≠ .error .fuel) (hr₂ : r₂ ≠ .error .fuel) : r₁ = r₂ :=
  Proofs.eval_deterministic n m env e r₁ r₂ h₁ h₂ hr₁ hr₂

/-- Call by value, function first: if evaluating the function position fails, the call fails
    with that failure and no argument is evaluated. -/
theorem app_function_first (n : Nat) (env : Env) (f : Expr) (args : List Expr) (err : Err)
    (h : eval n env f = .error err) : eval (n + 1) env (.app f args) = .error err := by
  simp [eval, h]

/-- Arguments are evaluated left to right, all of them before the call: a failing argument makes
    the call fail with the *first* failure, whatever the callee would have done. -/
theorem app_args_left_to_right (k n : Nat) (env : Env) (f : Expr) (fv : Val)
    (pre : List Expr) (bad : Expr) (post : List Expr) (vs : List Val) (err : Err)
    (hf : eval k env f = .ok fv)
    (hpre : evalList k env pre = .ok vs) (hbad : eval k env bad = .error err)
    (herr : err ≠ .fuel) (hn : k + pre.length + 1 ≤ n) :
    eval (n + 1) env (.app f (pre ++ bad :: post)) = .error err :=
  Proofs.app_args_left_to_right k n env f fv pre bad post vs err hf hpre hbad herr hn

/-- `&&` does not evaluate its right operand when the left one is `False`. -/
theorem and_short_circuit (n : Nat) (env : Env) (a b : Expr) (fs : List Val)
    (h : eval n env a = .ok (.data 0 fs)) :
    eval (n + 1) env (.and_ a b) = .ok (boolVal false) := by
  simp [eval, h]

/-- `||` does not evaluate its right operand when the left one is `True`. -/
theorem or_short_circuit (n : Nat) (env : Env) (a b : Expr) (fs : List Val)
    (h : eval n env a = .ok (.data 1 fs)) :
    eval (n + 1) env (.or_ a b) = .ok (boolVal true) := by
  simp [eval, h]

/-- In a record expression the explicit fields are evaluated (in source order) before the base
    record: a failing field hides whatever the base would do. -/
theorem record_fields_before_base (n : Nat) (env : Env) (fields : List Expr) (base : Expr)
    (layout : List Src) (err : Err) (h : evalList n env fields = .error err) :
    eval (n + 1) env (.record fields (some base) layout) = .error err := by
  simp [eval, h]

/-- Integer arithmetic is checked 64-bit arithmetic: a result is always in range. -/
theorem prim_in_range (op : String) (a b : Int) (k : Int) (h : primOp op a b = .ok (.int k)) :
    minInt ≤ k ∧ k ≤ maxInt :=
  Proofs.prim_in_range op a b k h

/-- Division by zero is a runtime failure, never a value. -/
theorem div_zero_fails (a : Int) : primOp "/" a 0 = .error .arith := by
  simp [primOp]

/-- Application is curried: applying to `xs ++ ys` at once is applying to `xs` and then the
    result to `ys`, for closures taking exactly `xs.length` parameters (over-application). -/
theorem over_application (n : Nat) (params : List String) (body : Expr) (cenv : Env)
    (xs ys : List Val) (hx : xs.length = params.length) (hy : ys ≠ []) :
    apply (n + 1) (.clos params body cenv) (xs ++ ys) =
      (match eval n (bindParams params xs cenv) body with
       | .error e => .error e
       | .ok r => apply n r ys) :=
  Proofs.over_application n params body cenv xs ys hx hy

/-! Non-vacuity -/
example : eval 10 [] (.prim "+" (.int 1) (.int 2)) = .ok (.int 3) := by rfl
example : eval 10 [] (.app (.error "f") [.prim "/" (.int 1) (.int 0)]) = .error (.user "f") := by rfl
example : eval 10 [] (.app (.lam ["x"] (.var "x")) [.prim "/" (.int 1) (.int 0)]) = .error .arith := by rfl


/-! ### Strictness laws checked by the wave-2 family (unused bindings whose right-hand side contains a call) -/

/-- Strictness of `let`: a failing right-hand side makes the whole `let` fail with that failure,
    whatever the pattern binds and whether or not the body uses it — an unused binding is still
    evaluated (the law the C01 family "binding whose right-hand side contains a call" checks on
    the real pipeline with optimisation off AND on). -/
theorem let_rhs_failure_propagates (n : Nat) (env : Env) (p : Pat) (e₁ e₂ : Expr) (err : Err)
    (h : eval n env e₁ = .error err) : eval (n + 1) env (.let_ p e₁ e₂) = .error err := by
  simp [eval, h]

/-- The failure of a call is the failure of the callee's body: it cannot be dropped by looking
    at the call site only. -/
theorem call_failure_is_callee_failure (n : Nat) (params : List String) (body : Expr) (cenv : Env)
    (xs : List Val) (err : Err) (hx : xs ≠ []) (hl : params.length ≤ xs.length)
    (h : eval n (bindParams params (xs.take params.length) cenv) body = .error err) :
    apply (n + 1) (.clos params body cenv) xs = .error err := by
  cases xs with
  | nil => exact absurd rfl hx
  | cons x xs =>
    simp only [apply]
    have hl' : params.length ≤ xs.length + 1 := by simpa using hl
    simp [hl', h]

example : eval 10 [] (.let_ .wild (.app (.lam ["x"] (.error "boom")) [.int 1]) (.int 7))
    = .error (.user "boom") := by rfl
example : eval 10 [] (.let_ (.var "u") (.let_ (.var "t")
    (.app (.lam ["x"] (.prim "/" (.var "x") (.int 0))) [.int 1]) (.int 2)) (.int 7))
    = .error .arith := by rfl

end GluonModel.Props.C01
