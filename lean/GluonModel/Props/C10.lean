/-
C10 — "The formatter preserves meaning and comments and is idempotent."

What is proved here is the part of the statement that rests on *comment recovery*: the
formatter does not keep comments in the AST, it re-reads them from the source text between two
spans with `CommentIter` (base/src/source.rs), forwards (`comments_between(span)`) and
backwards (`.rev()`).  Model: `GluonModel.Comments` (transcription of `next` / `next_back`,
every slice and subtraction checked).  Lemmas: `GluonModel.Proofs.Comments`.

The document construction of format/src/pretty_print.rs (which gaps are looked at at all, the
`pretty` layout algorithm, idempotence, AST preservation) is NOT modelled; it is covered only by
the oracle in harness/src/bin/c10.rs, which finds many violations there (see notes/C10.md).
-/
import GluonModel.Comments
import GluonModel.Proofs.Comments
import GluonModel.PrettyDoc
import GluonModel.Proofs.PrettyDoc
import GluonModel.KindSyntax

namespace GluonModel.Props.C10
open GluonModel.Comments
open GluonModel.Proofs.Comments (AllWs Recon ReconBack nonWs ItemShape)

/-- `CommentIter::next` never panics: no slice index is out of range and the `unwrap` on
    `lines().next()` cannot fire — for every remaining text. -/
theorem next_never_panics (src : List Char) : next src ≠ .panic :=
  Proofs.Comments.next_no_panic src

/-- `CommentIter::next_back` never panics (after fix 9c4447b): `len - newline_len` and
    `len - trimmed.len()` cannot underflow and the cut is on a char boundary. -/
theorem nextBack_never_panics (src : List Char) : nextBack src ≠ .panic :=
  Proofs.Comments.nextBack_no_panic src

/-- Every `Some` consumes at least one character, so iteration terminates. -/
theorem next_consumes (src it r : List Char) (h : next src = .yield it r) :
    r.length < src.length :=
  Proofs.Comments.next_shrinks h

theorem nextBack_consumes (src it r : List Char) (h : nextBack src = .yield it r) :
    r.length < src.length :=
  Proofs.Comments.nextBack_shrinks h

/-- `comments_preserved` (forward): draining `comments_between(span)` always finishes without a
    panic, and the text it was given is exactly
    `ws ++ item₁ ++ ws ++ item₂ ++ … ++ ws ++ rest ++ ws`
    where every `ws` is whitespace only and `rest` is where the iterator stopped: nothing but
    whitespace is skipped, the items are contiguous pieces of the source in source order. -/
theorem forward_total_and_preserves (s : List Char) :
    ∃ items rest, forward s = .done items rest ∧ Recon s items rest :=
  Proofs.Comments.drain_next (s.length + 1) s (Nat.lt_succ_self _)

/-- The same for the reverse iterator, from the end of the text towards `rest`. -/
theorem backward_total_and_preserves (s : List Char) :
    ∃ items rest, backward s = .done items rest ∧ ReconBack s items rest :=
  Proofs.Comments.drain_nextBack (s.length + 1) s (Nat.lt_succ_self _)

/-- Every item the forward iterator yields is a blank-line marker `""`, a `//` (not `///`)
    comment without a newline, or a `/* … */` comment — never a piece of code. -/
theorem forward_items_are_comments (s : List Char) (items : List (List Char)) (rest : List Char)
    (h : forward s = .done items rest) : ∀ it ∈ items, ItemShape it :=
  Proofs.Comments.drain_next_shape _ s items rest h

/-- Corollary: the non-whitespace characters of the text are those of the yielded items followed
    by those of the unconsumed rest, in order — no comment character is lost or invented. -/
theorem forward_keeps_non_whitespace (s : List Char) (items : List (List Char)) (rest : List Char)
    (h : forward s = .done items rest) : nonWs s = nonWs items.flatten ++ nonWs rest := by
  obtain ⟨its, fin, h1, h2⟩ := forward_total_and_preserves s
  rw [h1] at h
  injection h with e1 e2
  subst e1 e2
  exact h2.nonWs

theorem backward_keeps_non_whitespace (s : List Char) (items : List (List Char)) (rest : List Char)
    (h : backward s = .done items rest) :
    nonWs s = nonWs rest ++ nonWs items.reverse.flatten := by
  obtain ⟨its, fin, h1, h2⟩ := backward_total_and_preserves s
  rw [h1] at h
  injection h with e1 e2
  subst e1 e2
  exact h2.nonWs

/-
`rev_is_reverse` (DESIGN.md §6 C10):  `backward gap = reverse (forward gap)` on gaps consisting
of whitespace and comments.  This is FALSE for the code as it is (witnesses below: a leading
blank line is yielded forwards but not backwards; a `//` comment that ends the text without a
newline is yielded forwards but not backwards).  What holds in general is the weaker
`rev_same_text_partial`: whenever both directions consume the whole gap they yield the same
comment text in opposite orders (item boundaries and blank-line markers may differ).  Missing for
the full statement: a characterisation of the gaps on which the item lists coincide; it is
only checked by the correspondence (exhaustively for all strings up to length 4/6 over a
7-letter alphabet, model = code) — see notes/C10.md.
-/
theorem rev_same_text_partial (s : List Char) (f b : List (List Char))
    (hf : forward s = .done f []) (hb : backward s = .done b []) :
    nonWs f.flatten = nonWs b.reverse.flatten := by
  have h1 := forward_keeps_non_whitespace s f [] hf
  have h2 := backward_keeps_non_whitespace s b [] hb
  rw [h1] at h2
  simpa [nonWs] using h2

/-- The reverse iterator is not the reverse of the forward one, even on a gap made only of
    whitespace and one comment line. -/
theorem rev_is_reverse_fails :
    ∃ s items items', forward s = .done items [] ∧ backward s = .done items' ['\n'] ∧
      items'.reverse ≠ items :=
  ⟨"\n// a\n".toList, [[], "// a".toList], ["// a".toList], by decide, by decide, by decide⟩

/-- … and a `//` comment that ends the text without a newline is not seen backwards. -/
theorem rev_misses_unterminated_line_comment_fails :
    forward "// a".toList = .done ["// a".toList] [] ∧
    backward "// a".toList = .done [] "// a".toList :=
  ⟨by decide, by decide⟩

/-! Non-vacuity: concrete gaps. -/

-- the gap between `{` and the first field of a record, with a line and a block comment
example : forward "  // a\n    /* b */\n\n    ".toList =
    .done ["// a".toList, "/* b */".toList, [], []] [] := by decide
-- the reverse direction on the text before a token (stops at the code `x =`)
example : backward "x =\n    // a\n    // b\n\n    ".toList =
    .done [[], "// b".toList, "// a".toList, []] "x =".toList := by decide
-- both directions consume this gap completely (hypotheses of `rev_same_text_partial`)
example : forward "// a\n/* b */\n".toList = .done ["// a".toList, "/* b */".toList, []] [] := by
  decide
example : backward "// a\n/* b */\n".toList = .done [[], "/* b */".toList, "// a".toList] [] := by
  decide
-- CRLF and a multi-byte indentation character (the byte-length cut of `next_back`)
example : backward "　// é\r\n".toList = .done ["// é".toList] [] := by decide
example : Recon "  // a\n x".toList ["// a".toList] "x".toList :=
  ⟨"  ".toList, "\n ".toList, "x".toList, [], by decide, by decide, by decide, by decide,
    [], [], by decide, by decide, by decide⟩

/-! ## The `pretty` layout algorithm both printers render with (also serves C18's "at every
line width")

Model `GluonModel.PrettyDoc`: `Doc` and `render w` following `pretty` 0.10.0 `render::best` /
`render::fitting` (the real look-ahead, `FlatAlt`, `Union` with its `fits` flag and `Fail`). -/

section Layout
open GluonModel.PrettyDoc
open GluonModel.Proofs.PrettyDoc (tok Uniform Safe DropsLayout UnionFree flatText Res)

/-- "token characters": everything but Unicode whitespace. -/
def nonWsChar (c : Char) : Bool := !isWs c
/-- … and additionally not a comma (the trailing comma of records/tuples is the one `FlatAlt`
    of the printers whose two sides differ in visible text). -/
def nonWsNonComma (c : Char) : Bool := !isWs c && c != ','

theorem nonWsChar_dropsLayout : DropsLayout nonWsChar := ⟨by decide, by decide⟩
theorem nonWsNonComma_dropsLayout : DropsLayout nonWsNonComma := ⟨by decide, by decide⟩

/-- `render_tokens_are_leaves`: at EVERY width, whatever the look-ahead decides, the kept
    characters of the rendered text are exactly the kept characters of the document's text
    leaves in order — provided both sides of every `FlatAlt`/`Union` carry the same kept text
    (`Uniform`).  `keep` is any character class that drops the blanks and newlines the renderer
    itself writes. -/
theorem render_tokens_are_leaves (keep : Char → Bool) (hk : DropsLayout keep) (w : Nat) (d : Doc)
    (o : List Char) (hu : Uniform keep d) (h : render w d = some o) :
    o.filter keep = tok keep d :=
  Proofs.PrettyDoc.render_tok hk w d o hu h

/-- For ANY document (no hypothesis): at every width the rendered text is, up to layout
    characters, the text of one *resolution* of the document (one side chosen at every
    `FlatAlt`/`Union`): the renderer never drops, duplicates or reorders a text leaf. For the
    printers this pins the width dependence down to "each trailing comma is there or not". -/
theorem render_is_a_resolution (keep : Char → Bool) (hk : DropsLayout keep) (w : Nat) (d : Doc)
    (o : List Char) (h : render w d = some o) : ∃ t, Res keep d t ∧ o.filter keep = t :=
  Proofs.PrettyDoc.render_res hk w d o h

/-- `render_tokens_width_independent`: the token sequence does not depend on the width. -/
theorem render_tokens_width_independent (keep : Char → Bool) (hk : DropsLayout keep) (d : Doc)
    (hu : Uniform keep d) (w₁ w₂ : Nat) (o₁ o₂ : List Char)
    (h₁ : render w₁ d = some o₁) (h₂ : render w₂ d = some o₂) :
    o₁.filter keep = o₂.filter keep := by
  rw [render_tokens_are_leaves keep hk w₁ d o₁ hu h₁, render_tokens_are_leaves keep hk w₂ d o₂ hu h₂]

/-- Rendering cannot fail (the `Err(fail_doc())` of render.rs:548) when `Fail` occurs only inside
    left sides of `Union`s — the only place format/src/pretty_print.rs:991 puts it. -/
theorem render_never_fails_on_safe (w : Nat) (d : Doc) (hs : Safe d) : ∃ o, render w d = some o :=
  Proofs.PrettyDoc.render_safe w d hs

/-- Hence for the documents the printers build: a result at every width, with the same tokens. -/
theorem render_total_and_width_independent (keep : Char → Bool) (hk : DropsLayout keep) (d : Doc)
    (hu : Uniform keep d) (hs : Safe d) (w : Nat) :
    ∃ o, render w d = some o ∧ o.filter keep = tok keep d := by
  obtain ⟨o, h⟩ := render_never_fails_on_safe w d hs
  exact ⟨o, h, render_tokens_are_leaves keep hk w d o hu h⟩

/-- `fitting_sound` (the part of "no line exceeds the width unless unavoidable" that rests on the
    look-ahead): when `fitting` accepts a union-free group at the current column, the renderer
    lays the group out flat as exactly its flat text — no newline of its own, no text marked as
    overflowing — and the group ends within the width (unless it is empty).
    `render_lines_fit_or_atomic` in full (every line of the output) is NOT proved. -/
theorem fitting_sound (w : Nat) (d : Doc) (rest : List Doc) (ind : Nat) (st : St)
    (hu : UnionFree d) (h : fitting w d rest st.pos = true) :
    go w ind .flat d rest st =
        some { pos := st.pos + PrettyDoc.byteLen (flatText d), out := st.out ++ flatText d, fits := st.fits } ∧
      (PrettyDoc.byteLen (flatText d) = 0 ∨ st.pos + PrettyDoc.byteLen (flatText d) ≤ w) :=
  Proofs.PrettyDoc.fitting_sound w d rest ind st hu h

/-- The `FlatAlt`s the two printers build are exactly: `line` (`hardline.flat_alt(" ")`,
    everywhere), `line_` (`hardline.flat_alt(nil)`, base/src/types/pretty_print.rs:224-241),
    `softline` (format :276), `fail().flat_alt(nil)` (format :991) and `trailing_comma`
    (`",".flat_alt(nil)`, format :46).  The first four are uniform for every token class; the
    trailing comma is uniform exactly for classes that ignore commas.  `Uniform` is
    compositional (a conjunction over the document), so these leaf facts are all that is needed
    besides the equality of the two sides of each `Union` (format :1007: the same parts grouped
    differently). -/
theorem printer_flat_alts_uniform (keep : Char → Bool) (hk : DropsLayout keep) :
    Uniform keep Doc.softBreak ∧ Uniform keep Doc.softBreak_ ∧ Uniform keep Doc.softline ∧
    Uniform keep Doc.failUnlessFlat ∧ (Uniform keep Doc.trailingComma ↔ keep ',' = false) :=
  ⟨Proofs.PrettyDoc.uniform_softBreak hk, Proofs.PrettyDoc.uniform_softBreak_ keep,
   Proofs.PrettyDoc.uniform_softline hk, Proofs.PrettyDoc.uniform_failUnlessFlat keep,
   Proofs.PrettyDoc.uniform_trailingComma_iff keep⟩

/-- A record literal as format/src/pretty_print.rs:666-729 builds it:
    `"{" ++ nest 4 (line ++ "x = 1" ++ "," ++ line ++ "y" ++ trailing_comma) ++ line ++ "}"`,
    grouped. -/
def recordDoc : Doc :=
  .group (.append (.text "{".toList)
    (.append (.nest 4 (.append Doc.softBreak (.append (.text "x = 1".toList)
      (.append (.text ",".toList) (.append Doc.softBreak (.append (.text "y".toList)
        Doc.trailingComma))))))
      (.append Doc.softBreak (.text "}".toList))))

/-- The hypothesis `Uniform` is needed, and the trailing comma is the reason: with plain
    "non-whitespace" tokens the record above renders to different token sequences at widths 80
    and 4 … -/
theorem render_tokens_width_independent_needs_uniform_fails :
    ¬ Uniform nonWsChar recordDoc ∧
    render 80 recordDoc = some "{ x = 1, y }".toList ∧
    render 4 recordDoc = some "{\n    x = 1,\n    y,\n}".toList := by decide

-- the look-ahead accepts the record body at width 80 and column 0 (hypothesis of `fitting_sound`)
example : (∃ d, recordDoc = .group d ∧ UnionFree d ∧ fitting 80 d [] 0 = true) :=
  ⟨_, rfl, by decide, by decide⟩

/-- … while modulo commas it is covered by the theorem. -/
example : Uniform nonWsNonComma recordDoc ∧ Safe recordDoc := by decide

-- a `Union` whose left side fails in break mode and is chosen when flat (format :989-1001)
example :
    let d := Doc.union (.group (.append Doc.failUnlessFlat (.append (.text "f".toList)
      (.append Doc.softBreak (.text "x".toList))))) (.append (.text "f".toList) (.append .line (.text "x".toList)))
    Uniform nonWsChar d ∧ Safe d ∧ render 80 d = some "f x".toList ∧
      render 2 d = some "f\nx".toList := by decide

end Layout

/-! ### Kind annotations of type-alias parameters: printer (format/src/pretty_print.rs:416-438,
    `pretty_kind` :1119-1141) against the grammar (parser/src/grammar.lalrpop:262-299).
    Model and lemmas: `GluonModel.KindSyntax`. -/
namespace KindFmt
open GluonModel.KindSyntax

/-- parse ∘ print = id on kinds: the tokens `pretty_kind(Top, k)` prints, followed by anything
    that does not start with `->`, are parsed by `Kind` back to exactly `k`, leaving the rest —
    for every fuel of at least (number of printed tokens + 1). -/
theorem kind_print_parse_roundtrip (k : Kind) (rest : List Tok) (h : rest.head? ≠ some .arrow)
    (n : Nat) (hn : (k.toks false).length + 1 ≤ n) :
    parseKind n (k.toks false ++ rest) = some (k, rest) :=
  parseKind_toks k rest h n hn

-- `(Type -> Type) -> Row`, followed by the `)` of the parameter
example : parseKind 8 ((Kind.fn (.fn .type .type) .row).toks false ++ [.rp])
    = some (.fn (.fn .type .type) .row, [.rp]) := by decide

/-- The printer/parser pair preserves every kind annotation except an explicit `Type`. -/
theorem kind_param_roundtrip_partial (k : Kind) (h : k ≠ .type) :
    parseParam (paramToks k) = some (k, []) :=
  parseParam_paramToks k h

example : paramToks (.fn .type (.fn (.fn .row .hole) .type))
      = [.lp, .ident, .colon, .ty, .arrow, .lp, .row, .arrow, .hole, .rp, .arrow, .ty, .rp] ∧
    paramText (.fn .type (.fn (.fn .row .hole) .type)) = "(p : Type -> (Row -> _) -> Type)".toList ∧
    render (paramToks (.fn .type (.fn (.fn .row .hole) .type)))
      = paramText (.fn .type (.fn (.fn .row .hole) .type)) := by decide

/-- The text of a parameter (`paramText`, what the driver compares with the real formatter) is
    the flat layout of exactly the tokens the round-trip theorems are about: no space after `(`
    or before `)`, one space between any other two tokens. -/
theorem kind_param_text_is_tokens (k : Kind) : render (paramToks k) = paramText k :=
  render_paramToks k

example : paramText (.fn (.fn .type .type) .row) = "(p : (Type -> Type) -> Row)".toList ∧
    paramText (.fn .type .type) = "(p : Type -> Type)".toList := by decide

/-- The hypothesis `k ≠ Type` is needed: `(a : Type)` is printed as `a`, which the parser reads
    with kind `Hole` (format/src/pretty_print.rs:421-424 drops the annotation for `Type` as well
    as for `Hole`).  A defect of the unchanged formatter. -/
theorem kind_param_roundtrip_fails : parseParam (paramToks .type) = some (.hole, []) := rfl

example : paramText .type = "p".toList ∧ paramText .hole = "p".toList := by decide

/-- The parentheses `pretty_kind` inserts are enough: different kinds print differently. -/
theorem kind_paren_needed (k₁ k₂ : Kind) (h : k₁.toks false = k₂.toks false) : k₁ = k₂ :=
  toks_false_injective h

example : (Kind.fn (.fn .type .row) .hole).toks false = [.lp, .ty, .arrow, .row, .rp, .arrow, .hole] ∧
    (Kind.fn .type (.fn .row .hole)).toks false = [.ty, .arrow, .row, .arrow, .hole] := by decide

end KindFmt

end GluonModel.Props.C10
