/-
C10 — "The formatter preserves meaning and comments and is idempotent."

What is proved here is the part of the statement that rests on *comment recovery*: the
formatter does not keep comments in the AST, it re-reads them from the source text between two
spans with `CommentIter` (base/src/source.rs), forwards (`comments_between(span)`) and
backwards (`.rev()`).  Model: `GluonModel.Comments` (transcription of `next` / `next_back`,
every slice and subtraction checked).  Lemmas: `GluonModel.Proofs.Comments`.

The document construction of format/src/pretty_print.rs (which gaps are looked at at all, the
`pretty` layout algorithm, idempotence, AST preservation) is NOT modelled; it is covered only by
the oracle in harness/src/bin/c10.rs, which finds many violations there (see notes/C10.md).
-/
import GluonModel.Comments
import GluonModel.Proofs.Comments

namespace GluonModel.Props.C10
open GluonModel.Comments
open GluonModel.Proofs.Comments (AllWs Recon ReconBack nonWs ItemShape)

/-- `CommentIter::next` never panics: no slice index is out of range and the `unwrap` on
    `lines().next()` cannot fire — for every remaining text. -/
theorem next_never_panics (src : List Char) : next src ≠ .panic :=
  Proofs.Comments.next_no_panic src

/-- `CommentIter::next_back` never panics (after fix 9c4447b): `len - newline_len` and
    `len - trimmed.len()` cannot underflow and the cut is on a char boundary. -/
theorem nextBack_never_panics (src : List Char) : nextBack src ≠ .panic :=
  Proofs.Comments.nextBack_no_panic src

/-- Every `Some` consumes at least one character, so iteration terminates. -/
theorem next_consumes (src it r : List Char) (h : next src = .yield it r) :
    r.length < src.length :=
  Proofs.Comments.next_shrinks h

theorem nextBack_consumes (src it r : List Char) (h : nextBack src = .yield it r) :
    r.length < src.length :=
  Proofs.Comments.nextBack_shrinks h

/-- `comments_preserved` (forward): draining `comments_between(span)` always finishes without a
    panic, and the text it was given is exactly
    `ws ++ item₁ ++ ws ++ item₂ ++ … ++ ws ++ rest ++ ws`
    where every `ws` is whitespace only and `rest` is where the iterator stopped: nothing but
    whitespace is skipped, the items are contiguous pieces of the source in source order. -/
theorem forward_total_and_preserves (s : List Char) :
    ∃ items rest, forward s = .done items rest ∧ Recon s items rest :=
  Proofs.Comments.drain_next (s.length + 1) s (Nat.lt_succ_self _)

/-- The same for the reverse iterator, from the end of the text towards `rest`. -/
theorem backward_total_and_preserves (s : List Char) :
    ∃ items rest, backward s = .done items rest ∧ ReconBack s items rest :=
  Proofs.Comments.drain_nextBack (s.length + 1) s (Nat.lt_succ_self _)

/-- Every item the forward iterator yields is a blank-line marker `""`, a `//` (not `///`)
    comment without a newline, or a `/* … */` comment — never a piece of code. -/
theorem forward_items_are_comments (s : List Char) (items : List (List Char)) (rest : List Char)
    (h : forward s = .done items rest) : ∀ it ∈ items, ItemShape it :=
  Proofs.Comments.drain_next_shape _ s items rest h

/-- Corollary: the non-whitespace characters of the text are those of the yielded items followed
    by those of the unconsumed rest, in order — no comment character is lost or invented. -/
theorem forward_keeps_non_whitespace (s : List Char) (items : List (List Char)) (rest : List Char)
    (h : forward s = .done items rest) : nonWs s = nonWs items.flatten ++ nonWs rest := by
  obtain ⟨its, fin, h1, h2⟩ := forward_total_and_preserves s
  rw [h1] at h
  injection h with e1 e2
  subst e1 e2
  exact h2.nonWs

theorem backward_keeps_non_whitespace (s : List Char) (items : List (List Char)) (rest : List Char)
    (h : backward s = .done items rest) :
    nonWs s = nonWs rest ++ nonWs items.reverse.flatten := by
  obtain ⟨its, fin, h1, h2⟩ := backward_total_and_preserves s
  rw [h1] at h
  injection h with e1 e2
  subst e1 e2
  exact h2.nonWs

/-
`rev_is_reverse` (DESIGN.md §6 C10):  `backward gap = reverse (forward gap)` on gaps consisting
of whitespace and comments.  This is FALSE for the code as it is (witnesses below: a leading
blank line is yielded forwards but not backwards; a `//` comment that ends the text without a
newline is yielded forwards but not backwards).  What holds in general is the weaker
`rev_same_text_partial`: whenever both directions consume the whole gap they yield the same
comment text in opposite orders (item boundaries and blank-line markers may differ).  Missing for
the full statement: a characterisation of the gaps on which the item lists coincide; it is
only checked by the correspondence (exhaustively for all strings up to length 4/6 over a
7-letter alphabet, model = code) — see notes/C10.md.
-/
theorem rev_same_text_partial (s : List Char) (f b : List (List Char))
    (hf : forward s = .done f []) (hb : backward s = .done b []) :
    nonWs f.flatten = nonWs b.reverse.flatten := by
  have h1 := forward_keeps_non_whitespace s f [] hf
  have h2 := backward_keeps_non_whitespace s b [] hb
  rw [h1] at h2
  simpa [nonWs] using h2

/-- The reverse iterator is not the reverse of the forward one, even on a gap made only of
    whitespace and one comment line. -/
theorem rev_is_reverse_fails :
    ∃ s items items', forward s = .done items [] ∧ backward s = .done items' ['\n'] ∧
      items'.reverse ≠ items :=
  ⟨"\n// a\n".toList, [[], "// a".toList], ["// a".toList], by decide, by decide, by decide⟩

/-- … and a `//` comment that ends the text without a newline is not seen backwards. -/
theorem rev_misses_unterminated_line_comment_fails :
    forward "// a".toList = .done ["// a".toList] [] ∧
    backward "// a".toList = .done [] "// a".toList :=
  ⟨by decide, by decide⟩

/-! Non-vacuity: concrete gaps. -/

-- the gap between `{` and the first field of a record, with a line and a block comment
example : forward "  // a\n    /* b */\n\n    ".toList =
    .done ["// a".toList, "/* b */".toList, [], []] [] := by decide
-- the reverse direction on the text before a token (stops at the code `x =`)
example : backward "x =\n    // a\n    // b\n\n    ".toList =
    .done [[], "// b".toList, "// a".toList, []] "x =".toList := by decide
-- both directions consume this gap completely (hypotheses of `rev_same_text_partial`)
example : forward "// a\n/* b */\n".toList = .done ["// a".toList, "/* b */".toList, []] [] := by
  decide
example : backward "// a\n/* b */\n".toList = .done [[], "/* b */".toList, "// a".toList] [] := by
  decide
-- CRLF and a multi-byte indentation character (the byte-length cut of `next_back`)
example : backward "　// é\r\n".toList = .done ["// é".toList] [] := by decide
example : Recon "  // a\n x".toList ["// a".toList] "x".toList :=
  ⟨"  ".toList, "\n ".toList, "x".toList, [], by decide, by decide, by decide, by decide,
    [], [], by decide, by decide, by decide⟩

end GluonModel.Props.C10
