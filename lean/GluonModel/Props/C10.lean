import GluonModel.Comments
namespace GluonModel.Props.C10
end GluonModel.Props.C10
