/-
C09 — "The front end is total: for any input text, lexing, parsing, macro expansion, renaming
and typechecking terminate and return either a checked program or a list of errors; they never
panic, exhaust the native stack at moderate nesting, or hang.  Every reported error carries a
span that lies inside the input on character boundaries and can be rendered to text."

FULL STATEMENT (not provable here, kept visible):
    ∀ text : String, text.utf8ByteSize ≤ 4096 →
      ∃ r, frontEnd text = r ∧ (r is a checked program ∨ r is a list of errors whose spans lie in
      the text on char boundaries and render)                    -- no panic / hang / overflow
The tokenizer, the LALRPOP driver, macro expansion, the renamer and the typechecker are not
modelled; on the current code the statement is still FALSE (findings reproduced on the real
code, see notes/C09.md; the layout hang D12 and the tokenizer panics D13/D14/D18 have been fixed
in /repo, `scan_terminates` below is what the D12 fix makes true).  What is proved is the part of the statement that rests on the layout
algorithm (parser/src/layout.rs, modelled completely in `GluonModel.LayoutAlgo` and tied to the
real file by an exact correspondence) and on the span arithmetic of parser/src/lib.rs
(`GluonModel.SpanArith`).  Hence the names `…_partial`.
Helper lemmas: `GluonModel.Proofs.LayoutAlgo`, `GluonModel.Proofs.SpanArith`.
-/
import GluonModel.LayoutAlgo
import GluonModel.SpanArith
import GluonModel.Proofs.LayoutAlgo
import GluonModel.Proofs.LayoutTotal
import GluonModel.Proofs.LayoutBalance
import GluonModel.Proofs.SpanArith
import GluonModel.Tokenizer
import GluonModel.Proofs.TokenizerUtf8
import GluonModel.Proofs.TokenizerScan
import GluonModel.Proofs.TokenizerAll
import GluonModel.Proofs.TokenizerNum

namespace GluonModel.Props.C09
open GluonModel.LayoutAlgo GluonModel.SpanArith

/-! ## Layout: the inner loop of `layout_next_token` terminates -/

/-- Every `continue` of the loop at layout.rs:291 strictly decreases
    `2·|contexts| + (0 if the token is CloseBlock else 1)`. -/
theorem layout_continue_decreases (guard : Bool) (tok t' : Tok) (st st' : St)
    (h : step guard tok st = .cont t' st') : measure t' st' < measure tok st :=
  Proofs.step_cont h

/-- Hence one call of `layout_next_token` makes at most `measure + 1` passes through the loop:
    with that fuel the model never runs dry, for any state whatsoever (with or without the guard
    of :321 — the guard is about the *outer* iteration, see `layout_guard_needed`). -/
theorem layout_call_terminates (guard : Bool) (st : St) :
    layoutNextToken guard st ≠ .outOfFuel :=
  Proofs.layoutNextToken_total guard st

/-! ## Layout: the two `expect("No top level block found")` cannot fire -/

/-- Invariant: the bottom-most context is always a `Block` (`Proofs.BottomBlock`); it holds
    initially, every call of `layout_next_token` preserves it, and under it neither `expect`
    (layout.rs:359, :475) fails.  So for every token stream and every number of calls the layout
    pass does not panic. -/
theorem layout_never_panics (input : List Tok) (eofTok : Tok) (fuel : Nat) :
    (layout input eofTok fuel).2 ≠ .panic :=
  Proofs.run_ok fuel (initial input eofTok) [] trivial

/-- The invariant itself, for one call from any state satisfying it. -/
theorem layout_invariant (st : St) (hb : Proofs.BottomBlock st.stack) :
    match layoutNextToken true st with
    | .ret _ st' => Proofs.BottomBlock st'.stack
    | .panic => False
    | _ => True := by
  have := Proofs.layoutNextToken_ok st hb
  revert this
  cases layoutNextToken true st <;> simp [Proofs.ResOk]

/-! ## Layout: the whole iterator terminates, with a linear bound -/

/-- Every call of `layout_next_token` that hands a token other than EOF to the parser strictly
    decreases the potential `Proofs.pot` (token weights: real 40, queued OpenBlock 5, queued
    CloseBlock 2, EOF 0; context weights: Block 5 (+1 while `emit_semi`), Let/Type 15, other 4;
    plus a column-aware term for the next token: 6 if the stack is empty, 4 if it stands left of
    the Block on top), from any state satisfying the stack invariant. -/
theorem layout_call_decreases (st : St) (hb : Proofs.BottomBlock st.stack) (t : Tok) (st' : St)
    (h : layoutNextToken true st = .ret t st') (hk : t.kind ≠ .eof) :
    Proofs.pot st' < Proofs.pot st := by
  have := Proofs.layoutNextToken_pot st hb
  rw [h] at this
  exact this hk

/-- **Global termination.**  For EVERY finite token stream (any kinds, any positions, tokenizer
    errors included) the sequence of `layout_next_token` calls ends — with EOF (`ok`) or with an
    error — after at most `40·n + 7` calls, i.e. at most that many tokens are handed to the
    parser for `n` input tokens; it neither panics nor hangs. -/
theorem layout_total (input : List Tok) (eofTok : Tok) (fuel : Nat)
    (hf : Proofs.layoutBound input.length ≤ fuel) :
    (layout input eofTok fuel).2 = .ok ∨ ∃ e, (layout input eofTok fuel).2 = .err e := by
  have h1 : (layout input eofTok fuel).2 ≠ .fuel :=
    Proofs.run_total fuel (initial input eofTok) [] trivial
      (Nat.lt_of_lt_of_le (Proofs.pot_initial input eofTok) hf)
  have h2 : (layout input eofTok fuel).2 ≠ .panic := Proofs.run_ok fuel (initial input eofTok) [] trivial
  have h3 : (layout input eofTok fuel).2 ≠ .hang := Proofs.run_ne_hang true fuel _ _
  revert h1 h2 h3
  cases (layout input eofTok fuel).2 <;> simp

/-- The bound on the output: no more tokens than calls. -/
theorem layout_output_bounded (input : List Tok) (eofTok : Tok) (fuel : Nat) :
    (layout input eofTok fuel).1.length ≤ fuel := by
  have : ∀ (fuel : Nat) (st : St) (acc : List Tok),
      (run true fuel st acc).1.length ≤ acc.length + fuel := by
    intro fuel
    induction fuel with
    | zero => intro st acc; simp [run]
    | succ fuel ih =>
      intro st acc
      unfold run
      split
      · split
        · simp
        · have := ih ‹St› (‹Tok› :: acc); simp at this; omega
      all_goals simp
  have h := this fuel (initial input eofTok) []
  simpa [layout] using h

/-! ## Layout: what is true of OpenBlock / CloseBlock (replaces the naive `layout_balanced`) -/

/-- After ANY number of calls (`fuel`), for every token stream:
      CloseBlocks emitted + Block contexts on the stack ≤ OpenBlocks emitted + OpenBlocks pending
    (pending = queued by the algorithm in `unprocessed_tokens`, or — for arbitrary streams that
    contain raw OpenBlock tokens — not yet read).  So every `CloseBlock` handed to the parser has an
    `OpenBlock` that was emitted earlier or is still queued, and every Block context still open
    has one too.  It is an inequality, not "balanced": a stray closing token pops the top-level
    Block without a `CloseBlock` (layout.rs:319-332; `)` gives `OpenBlock )`), and at an error or
    unclosed delimiter Blocks stay open.  `runS` is `run` returning also the state it stopped in. -/
theorem layout_blocks_covered (input : List Tok) (eofTok : Tok) (fuel : Nat) :
    (Proofs.runS fuel (initial input eofTok) []).1 = (layout input eofTok fuel).1 ∧
    Proofs.cntK .closeBlock (layout input eofTok fuel).1 +
        Proofs.blocks (Proofs.runS fuel (initial input eofTok) []).2.2.stack ≤
      Proofs.cntK .openBlock (layout input eofTok fuel).1 +
        Proofs.Q (Proofs.runS fuel (initial input eofTok) []).2.2 := by
  have h1 : (Proofs.runS fuel (initial input eofTok) []).1 = (layout input eofTok fuel).1 :=
    congrArg Prod.fst (Proofs.runS_run fuel (initial input eofTok) [])
  refine ⟨h1, ?_⟩
  have := Proofs.runS_bal fuel (initial input eofTok) [] trivial
    (by simp [Proofs.Bal, Proofs.cntK, initial, Proofs.blocks])
  rw [← h1]
  exact this

/-- The step behind it: one call of `layout_next_token` from any state satisfying the stack
    invariant; a returned `CloseBlock` is paid for by a Block context that disappears. -/
theorem layout_call_blocks_covered (st : St) (hb : Proofs.BottomBlock st.stack) (t : Tok) (st' : St)
    (h : layoutNextToken true st = .ret t st') :
    Proofs.isCB t.kind + Proofs.blocks st'.stack + Proofs.Q st ≤
      Proofs.isOB t.kind + Proofs.Q st' + Proofs.blocks st.stack := by
  have := Proofs.layoutNextToken_bal st hb
  rw [h] at this
  exact this

/-! ## Layout: the guard of layout.rs:321-332 is needed -/

/-- Without the early return "no context would be closed by this token", the one-token program
    `)` makes the iterator produce `OpenBlock CloseBlock OpenBlock …` for ever: for EVERY number
    of calls `n` the stream has not ended. -/
theorem layout_guard_needed (n : Nat) :
    (run false n (initial [Proofs.rp] Proofs.eof0) []).2 = .fuel :=
  Proofs.noguard_diverges n

/-- With the guard (the code as it is) the same program ends after two tokens. -/
theorem layout_guard_suffices_witness :
    layout [Proofs.rp] Proofs.eof0 100 =
      ([{ Proofs.rp with kind := .openBlock }, Proofs.rp], .ok) := rfl

/-! ## `scan_continue_block` terminates (finding `hang:layout:scan_continue_block`, fixed by 3521415) -/

/-- The look-ahead scan of layout.rs:148-183 always returns: with `scanFuel` iterations (buffered
    tokens + remaining input + 3) it never runs dry, from any state and for any first token —
    each iteration re-reads a buffered token, consumes a token of the input, or meets the
    tokenizer's EOF and stops. -/
theorem scan_terminates (c : Ctx) (first : Tok) (st : St) :
    scanContinueBlock c first st ≠ .hang := by
  unfold scanContinueBlock
  split
  · exact Proofs.scanLoop0_terminates _ _ _
  · exact Proofs.scanLoop0_terminates _ _ _
  · simp

/-- Hence no call of `layout_next_token` hangs in the scan: for every token stream and every
    number of calls the layout pass does not end with `hang` (with or without the guard). -/
theorem layout_never_hangs (guard : Bool) (input : List Tok) (eofTok : Tok) (fuel : Nat) :
    (run guard fuel (initial input eofTok) []).2 ≠ .hang :=
  Proofs.run_ne_hang guard fuel _ _

/-- The former witness of the hang, the token stream of `rec let x = 1⏎#[`, now ends normally. -/
theorem layout_hang_fixed_witness : (layout Proofs.hangToks Proofs.hangEof 1000).2 = .ok :=
  Proofs.hang_witness_now_ok

/-- Regression, OLD rule (before 3521415, without the arm `Token::EOF => return Ok(false)`):
    once the tokenizer was at end of input (it then yields EOF for ever, token.rs:847), all
    buffered tokens were EOF and the scan was inside an attribute, NO number of iterations `n`
    made `scan_continue_block` return — for either expected token (`let` / `type`). -/
theorem scan_old_rule_diverges (expected : Kind) (hexp : expected ≠ .eof) (n i : Nat) (first : Tok)
    (st : St) (hin : st.input = []) (hall : ∀ t ∈ st.unproc, t.kind = .eof) (hi : 1 ≤ i) :
    scanLoopOld expected n i true first st = .hang :=
  Proofs.scanLoopOld_diverges expected hexp n i first st hin hall hi

/-! ## Spans stay inside the source -/

/-- `shrink_hidden_spans` (lib.rs:70) applied bottom-up over a whole tree: if every span of the
    tree lies inside `[lo, hi]` and is well formed, so does every span afterwards. -/
theorem spans_inside_shrink (lo hi : Nat) (t : Tree) (h : t.AllInside lo hi) :
    (shrinkTree t).AllInside lo hi :=
  SpanArith.Proofs.shrinkTree_inside t h

/-- `Error::from_lalrpop` / `transform_errors` (lib.rs:109-233): given that LALRPOP reports token
    positions of the source — or the nil location 0 for an EOF error — every produced error span
    lies inside the source and is well formed (the nil location is moved to the source end). -/
theorem spans_inside_errors (lo hi : Nat) (hlh : lo ≤ hi) (e : RawErr) (h : e.Plausible lo hi) :
    (fromLalrpop ⟨lo, hi⟩ e).Inside lo hi :=
  SpanArith.Proofs.fromLalrpop_inside hlh e h

/-! ## Non-vacuity -/

-- the linear bound is not vacuous: a 5-token program, 207 calls allowed, ends `ok` after 12 tokens
example : (layout [⟨.let_, ⟨0, 1, 1⟩, 4⟩, ⟨.other, ⟨0, 5, 5⟩, 6⟩, ⟨.equals, ⟨0, 7, 7⟩, 8⟩,
                   ⟨.other, ⟨1, 3, 11⟩, 12⟩, ⟨.other, ⟨2, 1, 13⟩, 14⟩] ⟨.eof, ⟨2, 2, 14⟩, 14⟩
                  (Proofs.layoutBound 5)).1.length = 12 := rfl
-- the inequality of `layout_blocks_covered` can be strict: `)` leaves one OpenBlock, no CloseBlock
example : Proofs.cntK .openBlock (layout [Proofs.rp] Proofs.eof0 100).1 = 1 ∧
    Proofs.cntK .closeBlock (layout [Proofs.rp] Proofs.eof0 100).1 = 0 := ⟨rfl, rfl⟩
-- and balanced on a well-formed program: 3 opens, 3 closes
example : Proofs.cntK .openBlock (layout [⟨.let_, ⟨0, 1, 1⟩, 4⟩, ⟨.other, ⟨0, 5, 5⟩, 6⟩, ⟨.equals, ⟨0, 7, 7⟩, 8⟩,
      ⟨.other, ⟨1, 3, 11⟩, 12⟩, ⟨.other, ⟨2, 1, 13⟩, 14⟩] ⟨.eof, ⟨2, 2, 14⟩, 14⟩ 300).1 =
    Proofs.cntK .closeBlock (layout [⟨.let_, ⟨0, 1, 1⟩, 4⟩, ⟨.other, ⟨0, 5, 5⟩, 6⟩, ⟨.equals, ⟨0, 7, 7⟩, 8⟩,
      ⟨.other, ⟨1, 3, 11⟩, 12⟩, ⟨.other, ⟨2, 1, 13⟩, 14⟩] ⟨.eof, ⟨2, 2, 14⟩, 14⟩ 300).1 := rfl


-- a state that satisfies the invariant and is not initial
example : Proofs.BottomBlock [⟨⟨0, 5, 5⟩, .let_⟩, ⟨⟨0, 1, 1⟩, .rec_⟩, ⟨⟨0, 1, 1⟩, .block true⟩] := by
  simp [Proofs.BottomBlock, Ctx.isBlock]
-- the loop really iterates: `x` on a new line left of two nested blocks needs three passes
example : (layout [⟨.let_, ⟨0, 1, 1⟩, 4⟩, ⟨.other, ⟨0, 5, 5⟩, 6⟩, ⟨.equals, ⟨0, 7, 7⟩, 8⟩,
                   ⟨.other, ⟨1, 3, 11⟩, 12⟩, ⟨.other, ⟨2, 1, 13⟩, 14⟩] ⟨.eof, ⟨2, 2, 14⟩, 14⟩ 200).2 = .ok := rfl
-- the old rule's divergence hypotheses are satisfiable (the state the old witness reached);
-- the new rule returns `false` from the same state
example : scanLoopOld .let_ 50 1 true Proofs.hangEof
    { input := [], eofTok := Proofs.hangEof, unproc := [], stack := [] } = .hang :=
  scan_old_rule_diverges .let_ (by decide) 50 1 _ _ rfl (by simp) (by omega)
example : ∃ st', scanLoop .let_ 50 1 true Proofs.hangEof
    { input := [], eofTok := Proofs.hangEof, unproc := [], stack := [] } = .done false st' :=
  ⟨_, rfl⟩
-- a nil-located EOF error is moved to the end of the source; a located one is kept
example : fromLalrpop ⟨1, 10⟩ (.unrecognizedEof 0) = ⟨10, 10⟩ := rfl
example : RawErr.Plausible 1 10 (.unrecognizedToken 3 5) := by simp [RawErr.Plausible]
example : (shrinkTree (.node ⟨1, 9⟩ [.leaf ⟨1, 2⟩, .leaf ⟨4, 6⟩])).span = ⟨1, 6⟩ := rfl

/-! ## The tokenizer (`GluonModel.Tokenizer`, a byte-level transcription of parser/src/token.rs +
str_suffix.rs in which every slice / `restore_char` / `unwrap` is a checked operation)

`tokenize_total` below is the full statement: for every `&str` (= the UTF-8 encoding of any list
of Unicode scalars) the calls of `next` reach `EOF` within `len + 1` calls — never `panic`, never
`hang`, never `fuel`.  Every scanner, the dispatcher and the driver are proved
(Proofs/TokenizerUtf8, TokenizerScan, TokenizerAll, TokenizerNum).

Still wanted, NOT proved (the scanner statements carry the end position only, not the item spans):

    theorem token_spans_in_bounds …       : every item's start/end is a scalar boundary, start ≤ end ≤ len
    theorem token_spans_weakly_ordered …  : end of item i ≤ start of item i+1
      (only weakly: `7T` yields an IntLiteral with the empty span 1..1; `#foo+` is an Operator whose
       span is the `#` alone — both pinned by fixed correspondence cases) -/
section Tokenizer
open GluonModel.Tokenizer

/-- `&input[s..e]` (token.rs:425 and the four direct slices) cannot panic between two scalar
boundaries of the text. -/
theorem slice_between_boundaries_ok (inp : Input) (s e : Nat) (hs : VAt inp s) (he : VAt inp e)
    (hle : s ≤ e) : slice inp s e = .ok (s, e) :=
  slice_ok hs he hle

/-- str_suffix.rs:78: called with the first byte of the scalar at a boundary, `restore_char`
returns (no `expect` fires) that very scalar, and `len_utf8` bytes on is the next boundary. -/
theorem restore_char_total (inp : Input) (p : Nat) (h : VAt inp p) (hlt : p < inp.size) :
    ∃ c, isScalar c ∧ restoreChar inp inp[p] (p + 1) = .ok c ∧ VAt inp (p + lenUtf8 c) :=
  restoreChar_at h hlt

/-- …and called with a continuation byte it panics whatever follows (the mechanism of D13/D22:
any scanner that stops inside a scalar makes the next `restore_char` panic). -/
theorem restore_char_panics_on_continuation_byte (inp : Input) (b p : Nat) (h : 128 ≤ b)
    (h' : b < 192) : restoreChar inp b p = .panic "UTF-8 string" :=
  restoreChar_cont_panics inp b p h h'

/-- `take_while` over ASCII classes ends on a scalar boundary (digits, hex digits, identifier
bytes, operator bytes: all `< 128`). -/
theorem scan_ascii_class_keeps_boundary (inp : Input) (keep : Nat → Bool)
    (hk : ∀ b, keep b = true → b < 128) (l : Tokenizer.Loc) (hv : VAt inp l.abs) :
    Lands inp l (scanUntil inp (fun b => !keep b) l) :=
  scanUntil_keepAscii (fun b hb => hk b (by simpa using hb)) l hv

/-- `take_until` with an ASCII terminator (`"`, `\`, newline, `*`) steps over whole scalars and
ends on a scalar boundary. -/
theorem scan_to_ascii_terminator_keeps_boundary (inp : Input) (term : Nat → Bool)
    (ht : ∀ b, 128 ≤ b → term b = false) (l : Tokenizer.Loc) (hv : VAt inp l.abs) :
    Lands inp l (scanUntil inp term l) :=
  scanUntil_stopAscii ht _ l rfl hv

/-- token.rs:525 `escape_code`: for every text and every boundary it returns (never panics) and
leaves the tokenizer on a scalar boundary not before where it started. -/
theorem escape_code_total (inp : Input) (start l : Tokenizer.Loc) (hv : VAt inp l.abs) :
    ∃ b l' es, escapeCode inp start l = .ok (b, l', es) ∧ Lands inp l l' :=
  escapeCode_total start hv

/-- token.rs:638 `char_literal`: same (all four `restore_char`/`bump` paths; D22 was the
`Some((end, next))` arm). -/
theorem char_literal_total (inp : Input) (start l : Tokenizer.Loc) (hv : VAt inp l.abs) :
    ∃ o, charLiteral inp start l = .ok o ∧ Lands inp l o.loc :=
  charLiteral_total start hv

/-- `Tokenizer::next` for every text and every scalar boundary, all arms except the numeric one
(whose totality is the hypothesis `NumericTotal`): it returns — no panic, no hang — on a scalar
boundary, and either consumed at least one byte or yielded `EOF`.  Covers identifiers/keywords,
operators (incl. `#ident+`), punctuation, string, raw string (with the `"#…#` arithmetic of
`content_end -= delimiters + 1`), char literals, line/block/doc comments, shebang, `#[`,
whitespace, and the catch-all arm for unknown (also multi-byte) characters. -/
theorem next_total_partial (inp : Input) (hnum : NumericTotal inp) (l : Tokenizer.Loc)
    (errs : List SErr) (hv : VAt inp l.abs) : NextOK inp l (next inp l errs) :=
  next_total ⟨fun _ _ _ hv _ => rawStringLiteral_total hv, hnum⟩ _ l errs rfl hv

/-- **The tokenizer never panics, never hangs, and ends within `len + 1` calls — for every
`&str`.**  (`numeric_literal`: `float.parse().unwrap()` only ever sees `-?digits.digits*`,
`to_digit(16).expect` only hex digits, `restore_char` on the lookahead only an ASCII byte.) -/
theorem tokenize_total (cs : List Nat) (h : ∀ c ∈ cs, isScalar c) :
    ∃ e, (tokenize (encodeAll cs).toArray).fin = .eof e :=
  tokenize_total_all cs h

/-- token.rs:685 `numeric_literal`, entered the way `next` enters it (first byte a digit, or `-`
before a digit), returns on a scalar boundary for every text: none of its unwraps can fire. -/
theorem numeric_literal_total (inp : Input) : NumericTotal inp := numericLiteral_total

/-- a text with every numeric shape: `-1.5 0xfF 7b 7T 1.x` -/
example : ∀ c ∈ [45, 49, 46, 53, 32, 48, 120, 102, 70, 32, 55, 98, 32, 55, 84, 32, 49, 46, 120], isScalar c := by
  intro c hc; simp at hc; unfold isScalar; omega

/-- (kept from the previous round) `tokenize_total`, conditional on the one scanner then unproved: if `numeric_literal` is total
(`NumericTotal`: it returns on a scalar boundary whenever it is entered the way `next` enters it),
then for EVERY `&str` the calls of `next` reach `EOF` within `len + 1` calls — never `panic`,
never `hang`, never `fuel`. -/
theorem tokenize_total_partial (cs : List Nat) (h : ∀ c ∈ cs, isScalar c)
    (hnum : NumericTotal (encodeAll cs).toArray) :
    ∃ e, (tokenize (encodeAll cs).toArray).fin = .eof e :=
  tokenize_total_of (vat_zero_of_scalars cs h) hnum

/-- `tokenize_total` unconditionally on the sub-language of texts WITHOUT DECIMAL DIGITS (the
only excluded arm of `next` is `ch if is_digit(ch) || (ch == b'-' && lookahead is_digit)`,
token.rs:861): any scalars, any length, every other construct and every error path. -/
theorem tokenize_total_digit_free (cs : List Nat) (h : ∀ c ∈ cs, isScalar c)
    (hd : ∀ c ∈ cs, isDigit c = false) :
    ∃ e, (tokenize (encodeAll cs).toArray).fin = .eof e :=
  tokenize_total_of (vat_zero_of_scalars cs h) (numericTotal_of_no_digit cs hd)

/-- a digit-free text with a raw string, a char literal followed by a non-ASCII scalar and a
stray scalar: `r#"a"# 'aé λ` -/
example : (∀ c ∈ [114, 35, 34, 97, 34, 35, 32, 39, 97, 233, 32, 955], isScalar c) ∧
    (∀ c ∈ [114, 35, 34, 97, 34, 35, 32, 39, 97, 233, 32, 955], isDigit c = false) := by
  constructor <;> (intro c hc; simp at hc; rcases hc with h | h | h | h | h | h | h | h | h | h | h | h <;> subst h <;> simp [isScalar, isDigit])

/-- `'aé` (D22): position 1 (after the quote) is a scalar boundary, so `char_literal_total`
applies; the text is the encoding of the scalars `' a é`. -/
example : VAt #[39, 97, 195, 169] 1 :=
  ⟨by decide, [97, 233], by simp [isScalar], by simp [encodeAll, encode]⟩
example : VAt #[39, 97, 195, 169] 2 :=
  ⟨by decide, [233], by simp [isScalar], by simp [encodeAll, encode]⟩
/-- position 3 is inside `é`: not a boundary, and `restore_char` on its byte panics. -/
example : restoreChar #[39, 97, 195, 169] 169 4 = .panic "UTF-8 string" :=
  restore_char_panics_on_continuation_byte _ _ _ (by decide) (by decide)
example : isBoundary #[39, 97, 195, 169] 3 = false := by decide
example : (fun b => !isDigit b) 200 = true := by decide
example : ∀ b, 128 ≤ b → (fun b => b == 34 || b == 92) b = false := by
  intro b h; simp; omega

end Tokenizer

end GluonModel.Props.C09
