/-
C08 — "A chain of infix operators is grouped exactly as the declared or built-in precedences
and associativities dictate, and conflicting associativities at one precedence level are
reported as an error."

Model: `GluonModel.Infix` (transcription of parser/src/infix.rs `reparse`).
Only property theorems live here; helper lemmas are in `GluonModel.Proofs.Infix`.
-/
import GluonModel.Infix
import GluonModel.Proofs.Infix
import GluonModel.InfixTable
import GluonModel.ExprGrammar
import GluonModel.Proofs.ExprGrammar

namespace GluonModel.Props.C08
open GluonModel.Infix

/-- Every operator of the chain has an entry in the fixity table. -/
def AllDefined (rest : List (Op × Nat)) : Prop := ∀ p ∈ rest, p.1.info ≠ none

/-- Soundness: a successful re-parse keeps the operands and operators in their source order
    and groups them as the fixities dictate.  (`AllDefined` is needed: the one-operator chain
    `0 u 1` with `u` undefined is never looked up and re-parses to `node 0 u 1`, which is not
    `WF`.) -/
theorem reparse_sound (first : Nat) (rest : List (Op × Nat)) (t : Tree)
    (hd : AllDefined rest)
    (h : reparse first rest = .ok t) : flatten t = (first, rest) ∧ WF t :=
  Proofs.reparse_sound first rest t hd h

/-- Completeness: whenever *some* grouping of the chain respects the fixities, `reparse`
    finds exactly that grouping. -/
theorem reparse_complete (t : Tree) (h : WF t) :
    reparse (flatten t).1 (flatten t).2 = .ok t :=
  Proofs.reparse_complete t h

/-- Hence the grouping dictated by the fixities is unique. -/
theorem wf_unique (t₁ t₂ : Tree) (h₁ : WF t₁) (h₂ : WF t₂) (h : flatten t₁ = flatten t₂) :
    t₁ = t₂ := by
  have e₁ := reparse_complete t₁ h₁
  have e₂ := reparse_complete t₂ h₂
  rw [h] at e₁
  rw [e₁] at e₂
  exact Except.ok.inj e₂

/-- The `unwrap`s and the final `assert_eq!` of the Rust code can never fire. -/
theorem reparse_never_internal (first : Nat) (rest : List (Op × Nat)) :
    reparse first rest ≠ .error .internal :=
  Proofs.reparse_never_internal first rest

/-- With every operator defined, a conflict is reported exactly when no grouping of the chain
    respects the fixities. -/
theorem reparse_conflict_iff (first : Nat) (rest : List (Op × Nat)) (hd : AllDefined rest) :
    (∃ s n, reparse first rest = .error (.conflict s n)) ↔
      ¬ ∃ t, flatten t = (first, rest) ∧ WF t :=
  Proofs.reparse_conflict_iff first rest hd

/-- The reported pair really is a conflicting pair: equal precedence, different fixity. -/
theorem conflict_is_conflict (first : Nat) (rest : List (Op × Nat)) (s n : Op)
    (h : reparse first rest = .error (.conflict s n)) :
    ∃ sm nm, s.info = some sm ∧ n.info = some nm ∧ sm.prec = nm.prec ∧ sm.fix ≠ nm.fix :=
  Proofs.conflict_is_conflict first rest s n h

/-! Non-vacuity: concrete chains meeting the hypotheses. -/
def opL (n : String) (p : Int) : Op := ⟨n, some ⟨p, .left⟩⟩
def opR (n : String) (p : Int) : Op := ⟨n, some ⟨p, .right⟩⟩

example : reparse 0 [(opL "+" 6, 1), (opL "*" 7, 2), (opL "+" 6, 3)] =
    .ok (.node (.node (.leaf 0) (opL "+" 6) (.node (.leaf 1) (opL "*" 7) (.leaf 2))) (opL "+" 6) (.leaf 3)) := by
  rfl
example : WF (.node (.node (.leaf 0) (opL "+" 6) (.node (.leaf 1) (opL "*" 7) (.leaf 2))) (opL "+" 6) (.leaf 3)) := by
  decide
example : reparse 0 [(opL "a" 4, 1), (opL "*" 7, 2), (opR "b" 4, 3)] = .error (.conflict (opL "a" 4) (opR "b" 4)) := by
  rfl
example : AllDefined [(opL "a" 4, 1), (opL "*" 7, 2), (opR "b" 4, 3)] := by
  intro p hp; simp at hp; rcases hp with h | h | h <;> subst h <;> simp [opL, opR]


/-! ### The built-in operator table (regenerated from parser/src/infix.rs on every run)

The documented precedence ladder: `* /` bind tighter than `+ -`, these tighter than the
comparisons, these tighter than `&&`, which binds tighter than `||`; arithmetic and comparisons
associate to the left, `&&` and `||` to the right. A change of the Rust table changes
`Generated/OpTable.lean` and these obligations are re-checked against it. -/
namespace Builtin
open GluonModel.Generated.OpTable

def precOf (op : String) : Option Int := (lookupOps builtinOps op).map (·.prec)
def fixOf (op : String) : Option Fixity := (lookupOps builtinOps op).map (·.fix)

theorem source_shape_unchanged : guardIsHashOrBoolOps = true ∧ stripsTypePrefix = true := by
  constructor <;> rfl

theorem builtin_precedence_ladder :
    precOf "*" = precOf "/" ∧ precOf "+" = precOf "-" ∧
    (∀ a ∈ ["*", "/"], ∀ b ∈ ["+", "-"], ∃ x y, precOf a = some x ∧ precOf b = some y ∧ y < x) ∧
    (∀ a ∈ ["+", "-"], ∀ b ∈ ["==", "/=", "<", ">", "<=", ">="],
        ∃ x y, precOf a = some x ∧ precOf b = some y ∧ y < x) ∧
    (∀ b ∈ ["==", "/=", "<", ">", "<=", ">="], ∃ x y, precOf b = some x ∧ precOf "&&" = some y ∧ y < x) ∧
    (∃ x y, precOf "&&" = some x ∧ precOf "||" = some y ∧ y < x) := by
  simp [precOf, lookupOps, builtinOps]

theorem builtin_associativity :
    (∀ a ∈ ["*", "/", "+", "-", "==", "/=", "<", ">", "<=", ">="], fixOf a = some .left) ∧
    fixOf "&&" = some .right ∧ fixOf "||" = some .right := by
  simp [fixOf, lookupOps, builtinOps]

/-- `#Int+`, `#Float*`, `#Byte<` …: for EVERY alphanumeric type prefix, stripping leaves exactly
    the bare operator (an operator starts with a character that is neither `#` nor alphanumeric). -/
theorem builtin_prefix_stripped (ty op : List Char) (hty : ∀ c ∈ ty, c.isAlphanum = true)
    (hty' : ∀ c ∈ ty, c ≠ '#')
    (hop : ∀ c, op.head? = some c → c.isAlphanum = false ∧ c ≠ '#') :
    stripPrefixL ('#' :: (ty ++ op)) = op := by
  have h1 : (('#' :: (ty ++ op)).dropWhile (· == '#')) = ty ++ op := by
    cases ty with
    | nil =>
      cases op with
      | nil => simp
      | cons c cs =>
        have := (hop c rfl).2
        simp [List.dropWhile, this]
    | cons t ts =>
      have := hty' t (by simp)
      simp [List.dropWhile, this]
  have h2 : ∀ (ty : List Char), (∀ c ∈ ty, c.isAlphanum = true) →
      (ty ++ op).dropWhile Char.isAlphanum = op := by
    intro ty
    induction ty with
    | nil =>
      intro _
      cases op with
      | nil => simp
      | cons c cs =>
        have := (hop c rfl).1
        simp [List.dropWhile, this]
    | cons t ts ih =>
      intro h
      have ht := h t (by simp)
      simp only [List.cons_append, List.dropWhile, ht]
      exact ih (fun c hc => h c (by simp [hc]))
  unfold stripPrefixL
  rw [h1]
  exact h2 ty hty

example : stripPrefixL "#Int+".toList = "+".toList := by decide
example : stripPrefixL "#Float<=".toList = "<=".toList := by decide

end Builtin

/-! ### First clause: printed expressions parse back to the same tree, spans delimit the text

Model: `GluonModel.ExprGrammar` — the expression core of grammar.lalrpop (identifiers, int/string
literals, `()`, parentheses and tuples, application, raw right-nested operator chains, lambda,
`if/then/else`, `let x args = e in b`) over the token stream the layout pass delivers for the
explicit one-line style.  `C` = tree + span of every token; `toks` = printer; `parseTop` =
recursive-descent model of the grammar levels; `span` = `Sp<…>` + `shrink_hidden_spans`.
Redundant parentheses are `paren` nodes (as in the real tree: 1-tuples); `Legal` says every
sub-expression sits where the grammar admits its level, so `paren` may be put around ANY
sub-expression (it is level 0). -/
namespace Core
open GluonModel.ExprGrammar

/-- FULL statement wanted: for every abstract tree, every legal concrete style (explicit `in` or
    layout, redundant parentheses, comments, blank lines), `parse (lex (layout (print e)))` is `e`.
    PROVED (`_partial`): for the explicit one-line style at token level — every legal concrete
    tree (any choice of redundant parentheses, any spans = any token-free trivia between tokens)
    printed as the block-annotated token stream parses back to exactly that tree, every token
    span included.  MISSING: that the layout pass produces exactly `toksTop c` for the printed
    text (checked for every generated case by running C09's layout model in the driver and the
    real layout in the harness: payload word `blocks-as-predicted`), the tokenizer, and the
    indentation style. -/
theorem parse_print_partial (c : C) (hl : Legal c) (h3 : lvl c ≤ 3) (fuel : Nat)
    (hf : fuelFor c ≤ fuel) : parseTop fuel (toksTop c) = some c :=
  Proofs.parse_print c hl h3 fuel hf

/-- Parentheses are transparent: the abstract tree read off the parse result is the abstract tree
    that was printed, whatever redundant parentheses the style added. -/
theorem parse_print_erase (c : C) (hl : Legal c) (h3 : lvl c ≤ 3) :
    (parseTop (fuelFor c) (toksTop c)).map erase = some (erase c) := by
  rw [parse_print_partial c hl h3 _ (Nat.le_refl _)]; rfl

/-- Redundant parentheses may be put around any sub-expression at any position. -/
theorem paren_anywhere (l r : Span) (c : C) (hl : Legal c) :
    Legal (.paren l c r) ∧ lvl (.paren l c r) = 0 ∧
      erase (.paren l c r) = (if isComma c then .tuple (erase c) else erase c) :=
  ⟨hl, rfl, rfl⟩

/-- The span the parser reports for a node (`Sp<…>` then `shrink_hidden_spans`) is exactly the
    extent of the node's own printed tokens: start of its first, end of its last real token; the
    hidden block tokens and everything after the last sub-expression are excluded, the node's
    own parentheses (`paren`) included. -/
theorem spans_delimit (c : C) : extent (toks c) = some (span c) :=
  Proofs.spans_delimit c

/-- Operator chains (reduction of the infix case to `reparse_complete`): an operator tree `t`
    grouped as the fixities dictate, over application-level operands, printed WITHOUT
    parentheses, (1) prints the same tokens as its in-order chain, (2) is parsed by the grammar
    to the right-nested raw chain `ofChain … (flatten t)`, and (3) `reparse` of that chain
    (infix.rs, run by `Reparser` on every raw chain) restores exactly `t`.
    Not modelled: `Reparser`'s walk over the tree that feeds each raw chain to `reparse`. -/
theorem parse_print_infix (arg : Nat → C) (harg : ∀ a, Legal (arg a) ∧ lvl (arg a) ≤ 1)
    (t : Infix.Tree) (hw : WF t) :
    toks (ofTree arg t) = toks (ofChain arg (flatten t).1 (flatten t).2) ∧
    parseTop (fuelFor (ofChain arg (flatten t).1 (flatten t).2)) (toksTop (ofTree arg t)) =
      some (ofChain arg (flatten t).1 (flatten t).2) ∧
    reparse (flatten t).1 (flatten t).2 = .ok t := by
  have e : toks (ofTree arg t) = toks (ofChain arg (flatten t).1 (flatten t).2) := by
    rw [Proofs.toks_ofTree, Proofs.toks_ofChain]
  have hl := Proofs.legal_ofChain arg harg (flatten t).1 (flatten t).2
  refine ⟨e, ?_, reparse_complete t hw⟩
  have : toksTop (ofTree arg t) = toksTop (ofChain arg (flatten t).1 (flatten t).2) := by
    simp only [toksTop, e]
  rw [this]
  exact parse_print_partial _ hl.1 (by omega) _ (Nat.le_refl _)

/-! Non-vacuity -/
example : WF (.node (.node (.leaf 0) (opL "+" 6) (.node (.leaf 1) (opL "*" 7) (.leaf 2))) (opL "+" 6) (.leaf 3)) := by
  decide
example : ∀ a, Legal ((fun i => C.int i ⟨0, 0⟩) a) ∧ lvl ((fun i => C.int i ⟨0, 0⟩) a) ≤ 1 := by
  intro a; exact ⟨trivial, by simp [lvl]⟩

def s (a b : Nat) : Span := ⟨a, b⟩
/-- `let f x = (x) in if f 1 then \y -> y else (a, b)` with spans -/
def sample : C :=
  .letIn (s 1 4) ("f", s 5 6) [("x", s 7 8)] (s 9 10) (.paren (s 11 12) (.ident "x" (s 12 13)) (s 13 14))
    (s 15 17)
    (.ite (s 18 20) (.app (.ident "f" (s 21 22)) (.int 1 (s 23 24))) (s 25 29)
      (.lam (s 30 31) [("y", s 31 32)] (s 33 35) (.ident "y" (s 36 37))) (s 38 42)
      (.paren (s 43 44) (.comma (.ident "a" (s 44 45)) (s 45 46) (.ident "b" (s 47 48))) (s 48 49)))

/-- `if a then let x = 1 in x else if b then (\\z -> z) c else d` (else-if: no block after `else`) -/
def sample2 : C :=
  .ite (s 1 3) (.ident "a" (s 4 5)) (s 6 10)
    (.letIn (s 11 14) ("x", s 15 16) [] (s 17 18) (.int 1 (s 19 20)) (s 21 23) (.ident "x" (s 24 25)))
    (s 26 30)
    (.ite (s 31 33) (.ident "b" (s 34 35)) (s 36 40)
      (.app (.paren (s 41 42) (.lam (s 42 43) [("z", s 43 44)] (s 45 47) (.ident "z" (s 48 49))) (s 49 50))
        (.ident "c" (s 51 52))) (s 53 57) (.ident "d" (s 58 59)))

/-- FULL statement wanted (`layout_style_same_tokens`): for every legal `c` laid out on one line
    (and for `let` blocks in the indentation style) the layout pass emits exactly the kinds of
    `toksTop c`.  PROVED here only for two concrete trees (by evaluation of C09's layout model);
    for every GENERATED tree it is checked at run time by the driver (`blocks-as-predicted`).
    MISSING: the general proof (an invariant of the layout state machine over printed trees). -/
theorem layout_explicit_same_tokens_instances :
    layoutKinds sample 49 = ((toksTop sample).map (fun t => kindOf t.t), .ok) ∧
    layoutKinds sample2 59 = ((toksTop sample2).map (fun t => kindOf t.t), .ok) := by
  constructor <;> decide +kernel

example : Legal sample2 ∧ lvl sample2 ≤ 3 := by decide
example : Legal sample ∧ lvl sample ≤ 3 := by decide
example : parseTop (fuelFor sample) (toksTop sample) = some sample := by decide +kernel
example : span sample = ⟨1, 49⟩ := rfl
example : extent (toks sample) = some ⟨1, 49⟩ := by decide +kernel

end Core

end GluonModel.Props.C08
