/-
C08 — "A chain of infix operators is grouped exactly as the declared or built-in precedences
and associativities dictate, and conflicting associativities at one precedence level are
reported as an error."

Model: `GluonModel.Infix` (transcription of parser/src/infix.rs `reparse`).
Only property theorems live here; helper lemmas are in `GluonModel.Proofs.Infix`.
-/
import GluonModel.Infix
import GluonModel.Proofs.Infix
import GluonModel.InfixTable

namespace GluonModel.Props.C08
open GluonModel.Infix

/-- Every operator of the chain has an entry in the fixity table. -/
def AllDefined (rest : List (Op × Nat)) : Prop := ∀ p ∈ rest, p.1.info ≠ none

/-- Soundness: a successful re-parse keeps the operands and operators in their source order
    and groups them as the fixities dictate.  (`AllDefined` is needed: the one-operator chain
    `0 u 1` with `u` undefined is never looked up and re-parses to `node 0 u 1`, which is not
    `WF`.) -/
theorem reparse_sound (first : Nat) (rest : List (Op × Nat)) (t : Tree)
    (hd : AllDefined rest)
    (h : reparse first rest = .ok t) : flatten t = (first, rest) ∧ WF t :=
  Proofs.reparse_sound first rest t hd h

/-- Completeness: whenever *some* grouping of the chain respects the fixities, `reparse`
    finds exactly that grouping. -/
theorem reparse_complete (t : Tree) (h : WF t) :
    reparse (flatten t).1 (flatten t).2 = .ok t :=
  Proofs.reparse_complete t h

/-- Hence the grouping dictated by the fixities is unique. -/
theorem wf_unique (t₁ t₂ : Tree) (h₁ : WF t₁) (h₂ : WF t₂) (h : flatten t₁ = flatten t₂) :
    t₁ = t₂ := by
  have e₁ := reparse_complete t₁ h₁
  have e₂ := reparse_complete t₂ h₂
  rw [h] at e₁
  rw [e₁] at e₂
  exact Except.ok.inj e₂

/-- The `unwrap`s and the final `assert_eq!` of the Rust code can never fire. -/
theorem reparse_never_internal (first : Nat) (rest : List (Op × Nat)) :
    reparse first rest ≠ .error .internal :=
  Proofs.reparse_never_internal first rest

/-- With every operator defined, a conflict is reported exactly when no grouping of the chain
    respects the fixities. -/
theorem reparse_conflict_iff (first : Nat) (rest : List (Op × Nat)) (hd : AllDefined rest) :
    (∃ s n, reparse first rest = .error (.conflict s n)) ↔
      ¬ ∃ t, flatten t = (first, rest) ∧ WF t :=
  Proofs.reparse_conflict_iff first rest hd

/-- The reported pair really is a conflicting pair: equal precedence, different fixity. -/
theorem conflict_is_conflict (first : Nat) (rest : List (Op × Nat)) (s n : Op)
    (h : reparse first rest = .error (.conflict s n)) :
    ∃ sm nm, s.info = some sm ∧ n.info = some nm ∧ sm.prec = nm.prec ∧ sm.fix ≠ nm.fix :=
  Proofs.conflict_is_conflict first rest s n h

/-! Non-vacuity: concrete chains meeting the hypotheses. -/
def opL (n : String) (p : Int) : Op := ⟨n, some ⟨p, .left⟩⟩
def opR (n : String) (p : Int) : Op := ⟨n, some ⟨p, .right⟩⟩

example : reparse 0 [(opL "+" 6, 1), (opL "*" 7, 2), (opL "+" 6, 3)] =
    .ok (.node (.node (.leaf 0) (opL "+" 6) (.node (.leaf 1) (opL "*" 7) (.leaf 2))) (opL "+" 6) (.leaf 3)) := by
  rfl
example : WF (.node (.node (.leaf 0) (opL "+" 6) (.node (.leaf 1) (opL "*" 7) (.leaf 2))) (opL "+" 6) (.leaf 3)) := by
  decide
example : reparse 0 [(opL "a" 4, 1), (opL "*" 7, 2), (opR "b" 4, 3)] = .error (.conflict (opL "a" 4) (opR "b" 4)) := by
  rfl
example : AllDefined [(opL "a" 4, 1), (opL "*" 7, 2), (opR "b" 4, 3)] := by
  intro p hp; simp at hp; rcases hp with h | h | h <;> subst h <;> simp [opL, opR]


/-! ### The built-in operator table (regenerated from parser/src/infix.rs on every run)

The documented precedence ladder: `* /` bind tighter than `+ -`, these tighter than the
comparisons, these tighter than `&&`, which binds tighter than `||`; arithmetic and comparisons
associate to the left, `&&` and `||` to the right. A change of the Rust table changes
`Generated/OpTable.lean` and these obligations are re-checked against it. -/
namespace Builtin
open GluonModel.Generated.OpTable

def precOf (op : String) : Option Int := (lookupOps builtinOps op).map (·.prec)
def fixOf (op : String) : Option Fixity := (lookupOps builtinOps op).map (·.fix)

theorem source_shape_unchanged : guardIsHashOrBoolOps = true ∧ stripsTypePrefix = true := by
  constructor <;> rfl

theorem builtin_precedence_ladder :
    precOf "*" = precOf "/" ∧ precOf "+" = precOf "-" ∧
    (∀ a ∈ ["*", "/"], ∀ b ∈ ["+", "-"], ∃ x y, precOf a = some x ∧ precOf b = some y ∧ y < x) ∧
    (∀ a ∈ ["+", "-"], ∀ b ∈ ["==", "/=", "<", ">", "<=", ">="],
        ∃ x y, precOf a = some x ∧ precOf b = some y ∧ y < x) ∧
    (∀ b ∈ ["==", "/=", "<", ">", "<=", ">="], ∃ x y, precOf b = some x ∧ precOf "&&" = some y ∧ y < x) ∧
    (∃ x y, precOf "&&" = some x ∧ precOf "||" = some y ∧ y < x) := by
  simp [precOf, lookupOps, builtinOps]

theorem builtin_associativity :
    (∀ a ∈ ["*", "/", "+", "-", "==", "/=", "<", ">", "<=", ">="], fixOf a = some .left) ∧
    fixOf "&&" = some .right ∧ fixOf "||" = some .right := by
  simp [fixOf, lookupOps, builtinOps]

/-- `#Int+`, `#Float*`, `#Byte<` …: for EVERY alphanumeric type prefix, stripping leaves exactly
    the bare operator (an operator starts with a character that is neither `#` nor alphanumeric). -/
theorem builtin_prefix_stripped (ty op : List Char) (hty : ∀ c ∈ ty, c.isAlphanum = true)
    (hty' : ∀ c ∈ ty, c ≠ '#')
    (hop : ∀ c, op.head? = some c → c.isAlphanum = false ∧ c ≠ '#') :
    stripPrefixL ('#' :: (ty ++ op)) = op := by
  have h1 : (('#' :: (ty ++ op)).dropWhile (· == '#')) = ty ++ op := by
    cases ty with
    | nil =>
      cases op with
      | nil => simp
      | cons c cs =>
        have := (hop c rfl).2
        simp [List.dropWhile, this]
    | cons t ts =>
      have := hty' t (by simp)
      simp [List.dropWhile, this]
  have h2 : ∀ (ty : List Char), (∀ c ∈ ty, c.isAlphanum = true) →
      (ty ++ op).dropWhile Char.isAlphanum = op := by
    intro ty
    induction ty with
    | nil =>
      intro _
      cases op with
      | nil => simp
      | cons c cs =>
        have := (hop c rfl).1
        simp [List.dropWhile, this]
    | cons t ts ih =>
      intro h
      have ht := h t (by simp)
      simp only [List.cons_append, List.dropWhile, ht]
      exact ih (fun c hc => h c (by simp [hc]))
  unfold stripPrefixL
  rw [h1]
  exact h2 ty hty

example : stripPrefixL "#Int+".toList = "+".toList := by decide
example : stripPrefixL "#Float<=".toList = "<=".toList := by decide

end Builtin

end GluonModel.Props.C08
