/-
C02 — "Type soundness: programs the checker accepts never go wrong."

  If the typechecker accepts a program then compiling and executing it never produces an internal
  failure (no ICE, no VM complaint about a value of the wrong shape such as `Cannot call 1`, no
  host panic), and the value returned has the shape of the type the checker reported. This holds
  under every compiler setting and across module imports.

Model: `GluonModel.SurfTy` — the declarative typing `HasType` (WITH let-polymorphism: contexts hold
type schemes, generalisation at `let x = e`, instantiation at variables) of the surface fragment
the shared generator emits (functions with n-ary/partial/over-application, let with patterns, `rec` groups,
if, integer primitives, `&&`/`||`, declared variants, nested patterns, records with ordered fields,
record update, projection, tuples, arrays, `error`), the typing of run-time values `HasShape`
(what the harness's `ValueRef`-against-`ArcType` walk tests on the real VM), the reference
evaluator `Surf.eval` whose `Err.wrong` outcomes are the model counterparts of `Cannot call`,
`GetOffset on`, `TestTag … non data` and `ice!`; and `GluonModel.ModGlobal`, the transcription of
query.rs `global_inner` + compiler_pipeline.rs `run_io` (how a module's value becomes a global).

All theorems below are universally quantified (any declaration table, any program, any fuel);
none is proved by evaluation on samples.
-/
import GluonModel.SurfTy
import GluonModel.SurfTyCheck
import GluonModel.ModGlobal
import GluonModel.Proofs.SurfTy
import GluonModel.Proofs.SurfTyCheck

namespace GluonModel.Props.C02
open GluonModel.Surf GluonModel.SurfTy GluonModel.ModGlobal

/-- **Type soundness** (full strength for the whole modelled fragment, including `rec` groups,
    patterns, record update, partial and over-application): a typed expression evaluated in an
    environment that provides values of the promised shapes never goes wrong, whatever the fuel,
    and if it yields a value the value has the shape of the type. -/
theorem soundness (D : Decls) (n : Nat) (Γ : Ctx) (ρ : Env) (e : Expr) (τ : STy) (r : Res)
    (hty : HasType D Γ e τ) (henv : EnvOk D ρ Γ) (heval : eval n ρ e = r) :
    (∀ w, r ≠ .error (.wrong w)) ∧ (∀ v, r = .ok v → HasShape D v τ) := by
  have h := (Proofs.sound_all D n).1 hty henv
  rw [heval] at h
  constructor
  · intro w hw; subst hw; exact h
  · intro v hv; subst hv; exact h

/-- Whole programs: a closed typed program never goes wrong. -/
theorem soundness_closed (D : Decls) (n : Nat) (e : Expr) (τ : STy) (hty : HasType D [] e τ) :
    (∀ w, eval n [] e ≠ .error (.wrong w)) ∧ (∀ v, eval n [] e = .ok v → HasShape D v τ) :=
  soundness D n [] [] e τ _ hty .nil rfl

/-- Calling back into a returned function (what the host does with a function-typed result, and
    what an importing module does with an imported function): applying a value of function type
    to arguments of the parameter types never goes wrong — for any number of arguments (partial,
    exact and over-application). -/
theorem apply_safe (D : Decls) (n : Nat) (f : Val) (args : List Val) (σs : List STy) (τ : STy) (r : Res)
    (hf : HasShape D f (funTy σs τ)) (hargs : HasShapes D args σs) (hr : apply n f args = r) :
    (∀ w, r ≠ .error (.wrong w)) ∧ (∀ v, r = .ok v → HasShape D v τ) := by
  have h := (Proofs.sound_all D n).2.2.2 hf hargs
  rw [hr] at h
  constructor
  · intro w hw; subst hw; exact h
  · intro v hv; subst hv; exact h

/-- Pattern matching only ever binds values of the shapes the pattern's typing promises (the
    invariant behind `let` with patterns and `match`). -/
theorem match_bindings_sound (D : Decls) (p : Pat) (v : Val) (τ : STy) (Δ : MCtx) (b : Env)
    (hp : PatType D p τ Δ) (hv : HasShape D v τ) (hm : matchPat p v = some b) : EnvOk D b (liftCtx Δ) :=
  Proofs.matchPat_sound p hp hv hm

/-! Canonical forms: what `HasShape` means for the host's type-directed walk of a result value
(the oracle in harness/src/bin/c02.rs does exactly this walk on `ValueRef` against `ArcType`). -/

theorem shape_int (D : Decls) (v : Val) (h : HasShape D v .int) : ∃ n, v = .int n := by
  cases h; exact ⟨_, rfl⟩

theorem shape_string (D : Decls) (v : Val) (h : HasShape D v .str) : ∃ s, v = .str s := by
  cases h; exact ⟨_, rfl⟩

theorem shape_record (D : Decls) (v : Val) (τs : List STy) (h : HasShape D v (.recd τs)) :
    ∃ vs, v = .data 0 vs ∧ vs.length = τs.length ∧ HasShapes D vs τs := by
  cases h with
  | recd hvs => exact ⟨_, rfl, Proofs.shapes_length hvs, hvs⟩

theorem shape_variant (D : Decls) (v : Val) (d : Nat) (h : HasShape D v (.named d)) :
    ∃ tag vs τs, v = .data tag vs ∧ D d tag = some τs ∧ vs.length = τs.length ∧ HasShapes D vs τs := by
  cases h with
  | variant hd hvs => exact ⟨_, _, _, rfl, hd, Proofs.shapes_length hvs, hvs⟩

theorem shape_function (D : Decls) (v : Val) (a b : STy) (h : HasShape D v (.fn a b)) :
    (∃ ps body env, v = .clos ps body env) ∨ (∃ g i env, v = .recclos g i env) ∨
    (∃ t n, v = .ctorfn t n) ∨ (∃ f args, v = .pap f args) := by
  cases h with
  | clos => exact .inl ⟨_, _, _, rfl⟩
  | recclos => exact .inr (.inl ⟨_, _, _, rfl⟩)
  | ctorfn => exact .inr (.inr (.inl ⟨_, _, rfl⟩))
  | pap => exact .inr (.inr (.inr ⟨_, _, rfl⟩))

/-! ### The verified POLYMORPHIC checker

`inferA` works on annotated programs with syntactic type schemes `forall vs . τ` in its context:
`letp x vs e₁ e₂` generalises `x` over `vs` (which must not be free in the context), a variable
carries the instantiation of its scheme. `den R s` is the meaning of a scheme under a valuation `R`
of its free type variables (the set of its instances), `denCtx R Γ` that of a context. -/

/-- **Soundness of the polymorphic checker**: an annotated program it accepts at `τ` has, under
    EVERY valuation `R` of the type variables, the instance `τ.subst R` in the declarative system
    with let-polymorphism (`HasType` over semantic schemes). The driver runs this checker on every
    generated program the real checker accepted and on every member of the family "generalisation
    under a binder" (annotations found by the untrusted elaborator `SurfTy.Elab`). -/
theorem infer_sound (D : Decls) (hD : DClosed D) (Γ : PCtx) (a : AExpr) (τ : STy)
    (h : inferA D Γ a = some τ) (R : Nat → STy) :
    HasType D (denCtx R Γ) a.erase (τ.subst R) :=
  Proofs.inferA_sound hD a h R

/-- **Generalisation is sound** (the substitution lemma for schemes, in the form `letp` needs): if
    the checker gives the right-hand side the type `τ₁` and the variables `vs` are not free in the
    context, then the right-hand side has EVERY instance of the scheme `forall vs . τ₁`. -/
theorem generalisation_sound (D : Decls) (hD : DClosed D) (Γ : PCtx) (a₁ : AExpr) (τ₁ : STy) (vs : List Nat)
    (h : inferA D Γ a₁ = some τ₁) (hfree : ∀ v, v ∈ vs → freeInCtx v Γ = false) (R : Nat → STy) (τ' : STy)
    (hinst : den R (vs, τ₁) τ') : HasType D (denCtx R Γ) a₁.erase τ' := by
  obtain ⟨R', hagree, rfl⟩ := hinst
  have h1 := Proofs.inferA_sound hD a₁ h R'
  rw [Proofs.denCtx_agree R R' vs Γ hagree hfree] at h1
  exact h1

/-- **Instantiation is sound**: every syntactic instance `τ[vs := ts]` of a scheme belongs to its
    meaning, under every valuation. -/
theorem instantiation_sound (vs : List Nat) (ts : List STy) (τ : STy) (R : Nat → STy) :
    den R (vs, τ) ((τ.subst (instSub vs ts)).subst R) :=
  ⟨fun n => (instSub vs ts n).subst R,
    fun n hn => by simp only [Proofs.instSub_not_mem hn, STy.subst], Proofs.subst_comp _ _ _⟩

/-- … hence: accepted by the polymorphic model checker ⇒ never goes wrong, and a value has the shape
    of every instance of the reported type. -/
theorem checked_programs_safe (D : Decls) (hD : DClosed D) (n : Nat) (a : AExpr) (τ : STy)
    (h : inferA D [] a = some τ) (R : Nat → STy) :
    (∀ w, eval n [] a.erase ≠ .error (.wrong w)) ∧
    (∀ v, eval n [] a.erase = .ok v → HasShape D v (τ.subst R)) :=
  soundness_closed D n a.erase (τ.subst R) (infer_sound D hD [] a τ h R)

/-- the same for the declaration table the driver uses, at the reported type itself -/
theorem checked_programs_safe_generator (n : Nat) (a : AExpr) (τ : STy)
    (h : inferA surfDeclsA [] a = some τ) :
    (∀ w, eval n [] a.erase ≠ .error (.wrong w)) ∧ (∀ v, eval n [] a.erase = .ok v → HasShape surfDeclsA v τ) := by
  have := checked_programs_safe surfDeclsA Proofs.surfDeclsA_closed n a τ h STy.tvar
  rwa [Proofs.subst_id] at this

/-! ### Record literals checked against an expected record type (typecheck.rs:1016-1043)

`AcceptsReal` = `HasType` plus the shortcut by which the real checker gives a record literal its
EXPECTED type without subsumption. Since /repo commit ebc4408 the shortcut requires the field
names to agree in order, and everything the modelled checker accepts is safe, unconditionally. -/

/-- the shortcut rule is admissible: whatever `AcceptsReal` accepts is `HasType`-typed -/
theorem accepts_real_typed (D : Decls) (Γ : Ctx) (e : Expr) (τ : STy) (h : AcceptsReal D Γ e τ) :
    HasType D Γ e τ := by
  cases h with
  | sound h => exact h
  | literalExpectedOrder hf hl heq => subst heq; exact .record hf hl

/-- **Main statement for the modelled real checker** (true since ebc4408; it was refuted for the old
    rule, see `accepted_programs_safe_old_rule_fails`): an accepted closed program never goes wrong
    and its value has the shape of the reported type. -/
theorem accepted_programs_safe (D : Decls) (n : Nat) (e : Expr) (τ : STy) (h : AcceptsReal D [] e τ) :
    (∀ w, eval n [] e ≠ .error (.wrong w)) ∧ (∀ v, eval n [] e = .ok v → HasShape D v τ) :=
  soundness_closed D n e τ (accepts_real_typed D [] e τ h)

/-! Regression theorems about the rule before ebc4408 (defect D17: names compared as a set):
`[{ a = 1, b = "x" }, { b = "y", a = 2 }]` was accepted at `Array { a : Int, b : String }` with the
second element laid out `("y", 2)` (corpus/C02/d17_record_literal_order.glu, now rejected). -/

/-- old rule: a record literal accepted at a permutation of its own field order yields a value
    that does not have the shape of its type … -/
theorem accepted_programs_safe_old_rule_fails :
    ∃ (D : Decls) (e : Expr) (τ : STy) (v : Val),
      AcceptsRealOld D [] e τ ∧ eval 5 [] e = .ok v ∧ ¬ HasShape D v τ := by
  refine ⟨fun _ _ => none, .record [.int 1, .str "x"] none [.field 0, .field 1],
    .recd [.str, .int], .data 0 [.int 1, .str "x"], ?_, rfl, ?_⟩
  · exact .literalAnyOrder (σs := [.int, .str]) (τs := [.int, .str])
      (.cons .int (.cons .str .nil)) (.field rfl (.field rfl .nil)) (List.Perm.swap _ _ _)
  · intro h
    cases h with
    | recd hvs => cases hvs with
      | cons h1 _ => cases h1

/-- … and using such a value at its static type went wrong (the model counterpart of the observed
    `GetOffset on 1` / reading a String as an Int): projecting the "Int" field and adding to it. -/
theorem accepted_programs_old_rule_go_wrong_witness :
    eval 6 [] (.prim "+" (.proj (.record [.str "y", .int 2] none [.field 0, .field 1]) 0) (.int 1))
      = .error (.wrong "prim") := by rfl

/-- the fixed rule does NOT accept the old witness at the permuted type: the only way to accept it
    would be a `HasType` derivation, and there is none -/
theorem old_witness_now_rejected (D : Decls) :
    ¬ AcceptsReal D [] (.record [.int 1, .str "x"] none [.field 0, .field 1]) (.recd [.str, .int]) := by
  intro h
  have ht := accepts_real_typed D [] _ _ h
  have hs := (soundness_closed D 5 _ _ ht).2 (.data 0 [.int 1, .str "x"]) rfl
  cases hs with
  | recd hvs => cases hvs with
    | cons h1 _ => cases h1

/-- old rule, partial statement that did hold: everything accepted other than through the
    defective rule was safe. -/
theorem accepted_programs_safe_old_rule_partial (D : Decls) (n : Nat) (e : Expr) (τ : STy)
    (h : AcceptsRealOld D [] e τ) (hno : ∀ fields layout, e ≠ .record fields none layout) :
    (∀ w, eval n [] e ≠ .error (.wrong w)) ∧ (∀ v, eval n [] e = .ok v → HasShape D v τ) := by
  cases h with
  | sound h => exact soundness_closed D n e τ h
  | literalAnyOrder _ _ _ => exact absurd rfl (hno _ _)

/-! ### Module imports (query.rs `global_inner`, compiler_pipeline.rs `run_io`)

Full statement wanted: for every setting `run_io` and every well-shaped module value,
`globalInner run_io g = some g'` (no internal failure) and `ShapeM g'.value (importerType g)` — the
stored global has the shape of the type importers are checked against. Both parts are FALSE for
the unchanged code (defects D18 and D6). -/

/-- D6: with `run_io` on, a module of type `IO Int` is stored as the *result* `1 : Int` while
    importers are typed against `IO Int`. -/
theorem import_agreement_fails :
    ∃ (D : Decls) (g g' : Global), ShapeM D g.value g.typ ∧ isIO g.typ = true ∧
      globalInner true g = some g' ∧ ¬ ShapeM D g'.value (importerType g) :=
  ⟨fun _ _ => none, ⟨.io .int, .action (.int 1)⟩, ⟨.plain .int, .val (.int 1)⟩,
    HasShape.int, rfl, rfl, fun h => h⟩

/-- … and using that global at the importer's type is the VM's `Cannot call 1`: executing the
    "action" applies a non-function. -/
theorem import_agreement_fails_is_cannot_call (n : Nat) (arg : Val) :
    apply (n + 1) (.int 1) [arg] = .error (.wrong "call") ∧
    useImported true ⟨.plain .int, .val (.int 1)⟩ (importerType ⟨.io .int, .action (.int 1)⟩) = .wrong :=
  ⟨rfl, rfl⟩

/-- D18: with `run_io` on, a module whose type is an `IO` type under a quantifier
    (`wrap (\x -> 1) : forall a. IO (a -> Int)`) hits the `ice!` in `run_io`: an internal compiler
    error (host panic) on a program the checker accepted. -/
theorem run_io_total_fails :
    ∃ (D : Decls) (g : Global), ShapeM D g.value g.typ ∧ globalInner true g = none :=
  ⟨fun _ _ => none, ⟨.ioForall (.fn .int .int), .action (.clos ["x"] (.int 1) [])⟩,
    HasShape.clos (Γ := []) (τs := [.int]) (ρ := .int) .nil rfl .int rfl, rfl⟩

/-- Outside D18's trigger the module layer never fails internally. -/
theorem run_io_total_partial (runIoSetting : Bool) (g : Global)
    (h : ¬ (runIoSetting = true ∧ ∃ a, g.typ = .ioForall a)) :
    ∃ g', globalInner runIoSetting g = some g' := by
  unfold globalInner
  cases runIoSetting with
  | false => exact ⟨g, by simp⟩
  | true =>
    obtain ⟨typ, value⟩ := g
    cases typ with
    | plain t => simp [runIo]
    | ioForall a => exact absurd ⟨rfl, a, rfl⟩ h
    | io a =>
      cases value with
      | val v => simp [runIo]
      | action r => simp [runIo]

/-- Outside D6's trigger (`run_io` on ∧ module of an `IO` type) the stored global has the shape
    importers rely on. -/
theorem import_agreement_partial (D : Decls) (runIoSetting : Bool) (g g' : Global)
    (hg : ShapeM D g.value g.typ) (h : ¬ (runIoSetting = true ∧ isIO g.typ = true))
    (hs : globalInner runIoSetting g = some g') :
    ShapeM D g'.value (importerType g) := by
  unfold globalInner at hs
  unfold importerType
  cases runIoSetting with
  | false => simp at hs; subst hs; exact hg
  | true =>
    obtain ⟨typ, value⟩ := g
    cases typ with
    | plain t => simp [runIo] at hs; subst hs; exact hg
    | io a => simp [isIO] at h
    | ioForall a => simp [isIO] at h

/-- The repair of D6: were importers typed against the *stored* type (what `run_io` already
    computes, compiler_pipeline.rs:1160-1171) instead of `module_type`, agreement would hold under
    every setting. -/
theorem import_agreement_fixed (D : Decls) (runIoSetting : Bool) (g g' : Global)
    (hg : ShapeM D g.value g.typ) (hs : globalInner runIoSetting g = some g') :
    ShapeM D g'.value g'.typ := by
  unfold globalInner at hs
  cases runIoSetting with
  | false => simp at hs; subst hs; exact hg
  | true =>
    obtain ⟨typ, value⟩ := g
    cases typ with
    | plain t => simp [runIo] at hs; subst hs; exact hg
    | ioForall a => simp [runIo] at hs
    | io a =>
      cases value with
      | val v => simp [ShapeM] at hg
      | action r => simp [runIo] at hs; subst hs; exact hg

/-! ### Non-vacuity -/

/-- `(\x -> x #Int+ 1) 2 : Int` -/
example : HasType (fun _ _ => none) [] (.app (.lam ["x"] (.prim "+" (.var "x") (.int 1))) [.int 2]) .int :=
  .app (φ := .fn .int .int) (σs := [.int])
    (.lam (τs := [.int]) (ρ := .int) (by simp) rfl
      (.primInt (.inl rfl) (.var (S := Sch.mono .int) (by simp [bindCtx, lookupCtx]) rfl) .int) rfl)
    rfl (.cons .int .nil)

example : eval 10 [] (.app (.lam ["x"] (.prim "+" (.var "x") (.int 1))) [.int 2]) = .ok (.int 3) := by rfl

/-- the record-literal shortcut with the fields in the expected order (the fixed rule) -/
example : AcceptsReal (fun _ _ => none) [] (.record [.int 1, .str "x"] none [.field 0, .field 1])
    (.recd [.int, .str]) :=
  .literalExpectedOrder (σs := [.int, .str]) (τs := [.int, .str])
    (.cons .int (.cons .str .nil)) (.field rfl (.field rfl .nil)) rfl

/-- an ill-typed program that does go wrong (so "never wrong" is not trivially true of `eval`) -/
example : eval 10 [] (.app (.int 1) [.int 2]) = .error (.wrong "call") := by rfl

/-- the verified checker accepts a program with a `rec` group, a constructor and a match:
    `rec let f n = if n < 1 then 0 else f (n - 1) in match Cons (f 3) Nil with | Cons h _ -> h | _ -> 7` -/
example : inferA surfDeclsA []
    (.letrec (.cons "f" [("n", .int)] .int
        (.ite (.prim "<" (.var "n" []) (.int 1)) (.int 0)
          (.app (.var "f" []) (.cons (.prim "-" (.var "n" []) (.int 1)) .nil))) .nil)
      (.match_ (.app (.ctor 1 1 2) (.cons (.app (.var "f" []) (.cons (.int 3) .nil)) (.cons (.ctor 1 0 0) .nil)))
        (.cons (.ctor 1 [.var "h", .wild]) (.var "h" []) (.cons .wild (.int 7) .nil)) .int)) = some .int := by
  rfl

/-- let-polymorphism: `let id = \x -> x in (id 1, id "s")` — `id` is generalised over the type
    variable 0 and instantiated at `Int` and at `String` -/
def polyExample : AExpr :=
  .letp "id" [0] (.lam [("x", .tvar 0)] (.var "x" []))
    (.record (.cons (.app (.var "id" [.int]) (.cons (.int 1) .nil))
      (.cons (.app (.var "id" [.str]) (.cons (.str "s") .nil)) .nil)) none [.field 0, .field 1])

example : inferA surfDeclsA [] polyExample = some (.recd [.int, .str]) := by rfl

/-- … so the program has that type in the declarative system with schemes (rule `letGen`), and
    running it gives `(1, "s")` -/
example : HasType surfDeclsA [] polyExample.erase (.recd [.int, .str]) := by
  have := infer_sound surfDeclsA Proofs.surfDeclsA_closed [] polyExample _ rfl STy.tvar
  rwa [Proofs.subst_id] at this

example : eval 10 [] polyExample.erase = .ok (.data 0 [.int 1, .str "s"]) := by rfl

/-- generalisation under a binder: in `\x -> let g = \a -> x a in (g 1, g "s")` the type of `a` is
    tied to the lambda-bound `x`; annotating `g` as generalised over it is REFUSED by the verified
    checker (the variable is free in the context) -/
example : inferA surfDeclsA []
    (.lam [("x", .fn (.tvar 1) .int)]
      (.letp "g" [1] (.lam [("a", .tvar 1)] (.app (.var "x" []) (.cons (.var "a" []) .nil)))
        (.record (.cons (.app (.var "g" [.int]) (.cons (.int 1) .nil))
          (.cons (.app (.var "g" [.str]) (.cons (.str "s") .nil)) .nil)) none [.field 0, .field 1]))) = none := by
  rfl

/-- … while its twin in which `a` is not tied to `x` is accepted with `g` polymorphic -/
example : inferA surfDeclsA []
    (.lam [("x", .fn .int .int)]
      (.letp "g" [1] (.lam [("a", .tvar 1)] (.record (.cons (.var "a" []) (.cons (.app (.var "x" []) (.cons (.int 7) .nil)) .nil)) none [.field 0, .field 1]))
        (.record (.cons (.app (.var "g" [.int]) (.cons (.int 1) .nil))
          (.cons (.app (.var "g" [.str]) (.cons (.str "s") .nil)) .nil)) none [.field 0, .field 1]))) =
    some (.fn (.fn .int .int) (.recd [.recd [.int, .int], .recd [.str, .int]])) := by
  rfl

/-- a scheme is more than one type: the instances of `forall 0 . 0 -> 0` include `Int -> Int` and
    `String -> String` -/
example : den STy.tvar ([0], .fn (.tvar 0) (.tvar 0)) (.fn .int .int) ∧
    den STy.tvar ([0], .fn (.tvar 0) (.tvar 0)) (.fn .str .str) :=
  ⟨instantiation_sound [0] [.int] _ STy.tvar, instantiation_sound [0] [.str] _ STy.tvar⟩

example : globalInner false ⟨.io .int, .action (.int 1)⟩ = some ⟨.io .int, .action (.int 1)⟩ ∧
    ShapeM (fun _ _ => none) (MVal.action (.int 1)) (.io .int) :=
  ⟨rfl, HasShape.int⟩

end GluonModel.Props.C02
