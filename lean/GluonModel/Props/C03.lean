/-
C03 — "Type inference is complete and principal on the ML fragment … Renaming bound variables,
annotating an expression with the type that was inferred for it, or adding an unused binding
never changes acceptance or the reported type."

Model: `GluonModel.HM` (`unify`, `unifyRows`, `infer`; the flag `rows` switches gluon's by-label
row path on).  Only property theorems live here; lemmas are in `GluonModel.Proofs.HM`.

Proof ladder of the design and how far it is climbed (see notes/C03.md):

  rung 1  `unify_sound`            proved, all types, all fuel  (syntactic rows, `rows = false`)
  rung 2  `unify_mgu`              proved, all types, all fuel  (same)
          `unify_terminates`, `unify_fuel_mono`, `unify_complete`: some fuel always suffices, more
          fuel never changes an answer, and a unifiable pair is unified (no `_partial` any more)
  rung 3  `infer_sound`, `infer_sound_inst`   proved for ALL constructs of the model (var, lam, app,
          let WITH generalisation, literals, `#Int<`, if, records/tuples, projection, arrays,
          constructors) on the syntactic-row path, w.r.t. the declarative system `HasType`
          `unify_rows_bridge`, `infer_rows_bridge`, `infer_sound_gluon_partial`: the EXECUTED model
          (by-label path on) coincides with the syntactic one on projection-free programs, hence is sound
  rung 5  `infer_complete_principal` (round 5): on the projection-free ML fragment — var, lam, app, LET WITH
          GENERALISATION, literals, `#Int<`, if, record/tuple literals, arrays, constructors — a typable
          closed program is accepted for every sufficiently large unification fuel, always with the same
          result, the reported type is a typing and every typing is an instance of it (no fuel disjunct:
          stated for `Proofs.inferF`, the fuel-parametrised copy of `infer`; `infer_is_inferF`: at the
          executed fuel the copy IS `infer`; `infer_fuel_mono`: more fuel never changes an answer).
          For `infer` itself: `infer_principal` (an accepted program gets THE principal type),
          `infer_reject_untypable` (a rejection other than `fuel` means "no typing"), `infer_principal_gluon`
          (the same for the executed model, by-label row path on).  Projection stays out: with syntactic
          rows the statement is false for it.
          `infer_terminates` (every program, some fuel gives a stable answer other than `fuel`),
          `infer_decides_typability` (on the fragment: accepted at large fuel iff typable).
  rung 4  the stability clauses on `infer` itself:
          `infer_alpha` — α-equivalent closed programs give LITERALLY the same result (all constructs, both
          row modes); `infer_unused_let` — with an unused binding the reported types are instances of each
          other and acceptance does not change (fragment of rung 5); `canon_equiv`, `inferTop_unused_let`,
          `inferTop_unused_let_gluon`: hence the canonical answers are EQUAL; `infer_annot_self`: the model has no annotation construct.
          The round-4 statements (`…_partial`, let-free fragment, up to fuel) are kept; they are now
          corollaries.

  With gluon's by-label row path switched on, rung 1 is FALSE for the unchanged code:
  `unify_rows_unsound_fails`, `infer_row_tail_unlinked_fails` (known finding
  `unlinked-row-tail:unify_rows`, reproduced on the real checker).
-/
import GluonModel.HM
import GluonModel.Proofs.HM
import GluonModel.Proofs.HMTerm
import GluonModel.Proofs.HMSound
import GluonModel.Proofs.HMBridge
import GluonModel.Proofs.HMStab
import GluonModel.Proofs.HMComplete
import GluonModel.Proofs.HMFuel
import GluonModel.Proofs.HMFuelMono
import GluonModel.Proofs.HMPrincipal
import GluonModel.Proofs.HMAlpha
import GluonModel.Proofs.HMCanon
import GluonModel.Proofs.HMFuelTerm
import GluonModel.Proofs.HMDecide

namespace GluonModel.Props.C03
open GluonModel.HM

/-- Rung 1. The substitution returned by unification unifies the two types — for every pair of
    types and every fuel (syntactic rows: records are compared field by field in order). -/
theorem unify_sound (fuel n : Nat) (s t : Ty) (σ : Subst) (n' : Nat)
    (h : unify false fuel n s t = .ok (σ, n')) : s.subst σ = t.subst σ :=
  Proofs.unify_sound fuel n s t σ n' h

/-- Rung 2. The returned substitution is most general: every unifier `θ` factors through it
    (`θ = θ ∘ σ`, so `δ = θ` is the factor). Principality of inferred types rests on this. -/
theorem unify_mgu (fuel n : Nat) (s t : Ty) (σ θ : Subst) (n' : Nat)
    (h : unify false fuel n s t = .ok (σ, n')) (hθ : s.subst θ = t.subst θ) :
    ∃ δ : Subst, ∀ v, θ v = (σ v).subst δ :=
  ⟨θ, fun v => (Proofs.unify_mgu fuel n s t σ θ n' h hθ v).symm⟩

/-- Termination: for every pair of types some fuel suffices (the answer is not `fuel`). -/
theorem unify_terminates (n : Nat) (s t : Ty) : ∃ N, unify false N n s t ≠ .error .fuel :=
  Proofs.unify_fuel_exists n s t

/-- More fuel never changes an answer. -/
theorem unify_fuel_mono (fuel fuel' n : Nat) (s t : Ty) (r : Except UErr (Subst × Nat))
    (hle : fuel ≤ fuel') (h : unify false fuel n s t = r) (hr : r ≠ .error .fuel) :
    unify false fuel' n s t = r :=
  Proofs.unify_mono fuel fuel' n s t r hle h hr

/-- A rejection other than by fuel (constructor clash, occurs check) means there is no unifier. -/
theorem unify_reject_no_unifier (fuel n : Nat) (s t : Ty) (θ : Subst) (e : UErr)
    (he : e ≠ .fuel) (h : unify false fuel n s t = .error e) : s.subst θ ≠ t.subst θ :=
  Proofs.unify_error_no_unifier fuel n s t θ e he h

/-- Completeness of unification: a unifiable pair is unified, for every sufficiently large fuel
    (and by `unify_mgu` the result is a most general unifier). -/
theorem unify_complete (n : Nat) (s t : Ty) (θ : Subst) (hθ : s.subst θ = t.subst θ) :
    ∃ N, ∀ fuel, N ≤ fuel → ∃ σ n', unify false fuel n s t = .ok (σ, n') := by
  obtain ⟨N, r, hr, hall⟩ := Proofs.unify_total n s t
  refine ⟨N, fun fuel hle => ?_⟩
  rw [hall fuel hle]
  match r, hr, hall with
  | .ok (σ, n'), _, _ => exact ⟨σ, n', rfl⟩
  | .error e, hr, hall =>
    have he : e ≠ .fuel := fun h => hr (by rw [h])
    exact absurd hθ (Proofs.unify_error_no_unifier N n s t θ e he (hall N (Nat.le_refl _)))

/-- Rung 3. Soundness of inference, all constructs, `let` with generalisation included: the
    reported type is derivable in the declarative system, in the environment denoted by `Γ`
    under the final substitution. -/
theorem infer_sound (Γ : Env) (e : Expr) (n : Nat) (τ : Ty) (S : Subst) (n' : Nat)
    (h : infer false Γ e Subst.id n = .ok (τ, S, n')) :
    HasType (denote S Γ) e (τ.subst S) :=
  Proofs.infer_sound Γ e n τ S n' h

/-- … and so is every instance of the reported type (one half of "the reported type is
    principal": everything below it is a typing). -/
theorem infer_sound_inst (Γ : Env) (e : Expr) (n : Nat) (τ : Ty) (S : Subst) (n' : Nat) (Q : Subst)
    (h : infer false Γ e Subst.id n = .ok (τ, S, n')) :
    HasType (denote (Q.comp S) Γ) e ((τ.subst S).subst Q) :=
  Proofs.infer_sound_inst Γ e n τ S n' Q h

/-- Closed programs: the canonical answer of the model is a typing. -/
theorem inferTop_sound (e : Expr) (τ : Ty) (S : Subst) (n' : Nat)
    (h : infer false [] e Subst.id 0 = .ok (τ, S, n')) : HasType [] e (τ.subst S) :=
  Proofs.infer_sound [] e 0 τ S n' h

/-! Non-vacuity: `a -> Int` against `String -> b`. -/
example : ∃ σ n', unify false 8 2 (fn (.var 0) tInt) (fn tString (.var 1)) = .ok (σ, n') ∧
    (fn (.var 0) tInt).subst σ = fn tString tInt := ⟨_, _, rfl, rfl⟩
example : unify false 8 0 (fn tInt tInt) (fn tString tInt) = .error .clash := rfl
-- the occurs check: `a` against `a -> Int`
example : unify false 8 1 (.var 0) (fn (.var 0) tInt) = .error .occurs := rfl

/-! ### The unchanged code violates rung 1 on open rows (defect of `unify_rows`) -/

/-- `{ x : a | ρ }` -/
def openX : Ty := .ext "x" (.var 0) (.var 1)
/-- `{ x : Int, y : Int }` -/
def closedXY : Ty := .ext "x" tInt (.ext "y" tInt .empty)

/-- unify_type.rs:880-924 binds `ρ := { y : Int | fresh }` and never closes `fresh`: the "unifier"
    makes the left row `{ x : Int, y : Int | fresh }`, which is not the closed right row. -/
theorem unify_rows_unsound_fails :
    ∃ σ n', unify true 16 2 openX closedXY = .ok (σ, n') ∧ openX.subst σ ≠ closedXY.subst σ := by
  refine ⟨_, _, rfl, ?_⟩
  decide

/-- the program `\r -> let z = r.x in [r, { x = 1, y = 2 }]` -/
def witness : Expr :=
  .lam "r" (.letE "z" (.proj (.var "r") "x")
    (.asnoc (.asnoc .anil (.var "r"))
      (.rcd (.fcons "x" (.int 1) (.fcons "y" (.int 2) .fnil)))))

/-- The model (= the real checker, replayed by the harness) reports
    `forall a . { x : Int, y : Int | a } -> Array { x : Int, y : Int | a }` for the witness:
    an open record type, although the array also holds the two-field literal.  The principal
    type is `{ x : Int, y : Int } -> Array { x : Int, y : Int }`. -/
theorem infer_row_tail_unlinked_fails :
    inferTop true witness =
      some (fn (tRec (.ext "x" tInt (.ext "y" tInt (.var 0))))
               (tArr (tRec (.ext "x" tInt (.ext "y" tInt (.var 0)))))) := by
  rfl

/-- Bridge to the EXECUTED model (gluon's by-label row path switched on): on types all of whose
    rows are closed that path is never entered, the two unifiers coincide. -/
theorem unify_rows_bridge (fuel n : Nat) (s t : Ty) (hs : Proofs.CR s) (ht : Proofs.CR t) :
    unify true fuel n s t = unify false fuel n s t :=
  (Proofs.unify_bridge fuel n s t hs ht).1

/-- … and for every projection-free program the executed inference is the one with syntactic
    rows (all rows that arise are closed). -/
theorem infer_rows_bridge (e : Expr) (n : Nat) (h : Proofs.ProjFree e) :
    infer true [] e Subst.id n = infer false [] e Subst.id n :=
  Proofs.infer_bridge e n h

/-- Hence soundness of the executed model — the one the driver runs and the harness compares
    with the real checker — for every projection-free closed program (let-polymorphism, records,
    tuples, arrays, variants, if).  `_partial`: programs with field projection are covered only
    by `infer_sound` for syntactic rows; with the by-label path the statement is false
    (`infer_row_tail_unlinked_fails`). -/
theorem infer_sound_gluon_partial (e : Expr) (τ : Ty) (S : Subst) (n' : Nat)
    (hp : Proofs.ProjFree e)
    (h : infer true [] e Subst.id 0 = .ok (τ, S, n')) : HasType [] e (τ.subst S) := by
  rw [infer_rows_bridge e 0 hp] at h
  exact inferTop_sound e τ S n' h

/-! ### Rung 5: completeness and principality on the ML fragment with `let` (round 5) -/

/-- The fuel-parametrised copy `Proofs.inferF` (HMFuel.lean: `infer` clause by clause, the constant
    `unifyFuel` replaced by a parameter) IS the model's `infer` at the executed fuel — for both row
    modes and all constructs. -/
theorem infer_is_inferF (rows : Bool) (Γ : Env) (e : Expr) (S : Subst) (n : Nat) :
    Proofs.inferF rows unifyFuel Γ e S n = infer rows Γ e S n :=
  Proofs.inferF_unifyFuel rows e Γ S n

/-- More unification fuel never changes an answer of inference other than `fuel`. -/
theorem infer_fuel_mono (fuel fuel' : Nat) (hle : fuel ≤ fuel') (Γ : Env) (e : Expr) (S : Subst) (n : Nat)
    (r : Except UErr (Ty × Subst × Nat)) (h : Proofs.inferF false fuel Γ e S n = r)
    (hr : r ≠ .error .fuel) : Proofs.inferF false fuel' Γ e S n = r :=
  Proofs.inferF_mono fuel fuel' hle e Γ S n r h hr

/-- Soundness at every fuel (what `infer_sound` says, for the copy). -/
theorem inferF_sound (fuel : Nat) (Γ : Env) (e : Expr) (n : Nat) (τ : Ty) (S : Subst) (n' : Nat)
    (h : Proofs.inferF false fuel Γ e Subst.id n = .ok (τ, S, n')) :
    HasType (denote S Γ) e (τ.subst S) :=
  Proofs.inferF_sound fuel Γ e n τ S n' h

/-- COMPLETENESS AND PRINCIPALITY, `let` with generalisation included, no fuel disjunct: a typable
    closed program of the ML fragment (everything but field projection) is accepted for every
    sufficiently large unification fuel, always with the same result; the reported type is a typing and
    every typing is an instance of it.  (Projection is excluded because the statement is false for it
    with syntactic rows: `(\r -> r.y) { x = 1, y = 2 }`.) -/
theorem infer_complete_principal (e : Expr) (τ₀ : Ty) (hfr : Proofs.NoProj e) (h : HasType [] e τ₀) :
    ∃ τ S n' N, (∀ fuel, N ≤ fuel → Proofs.inferF false fuel [] e Subst.id 0 = .ok (τ, S, n')) ∧
      HasType [] e (τ.subst S) ∧ ∀ τ', HasType [] e τ' → ∃ Q : Subst, τ' = (τ.subst S).subst Q :=
  Proofs.inferF_complete_principal e hfr τ₀ h

/-- `infer` itself (executed fuel): the type reported for an accepted program of the fragment is THE
    principal type — a typing of which every typing is an instance. -/
theorem infer_principal (e : Expr) (τ : Ty) (S : Subst) (n' : Nat) (hfr : Proofs.NoProj e)
    (h : infer false [] e Subst.id 0 = .ok (τ, S, n')) :
    HasType [] e (τ.subst S) ∧ ∀ τ', HasType [] e τ' → ∃ Q : Subst, τ' = (τ.subst S).subst Q :=
  Proofs.infer_principal_noProj e τ S n' hfr h

/-- `infer` itself: a rejection other than `fuel` of a program of the fragment means it has no typing
    (so acceptance of it by any checker would be unsound w.r.t. `HasType`). -/
theorem infer_reject_untypable (e : Expr) (err : UErr) (hfr : Proofs.NoProj e) (he : err ≠ .fuel)
    (h : infer false [] e Subst.id 0 = .error err) : ∀ τ', ¬ HasType [] e τ' :=
  Proofs.infer_reject_noProj e err hfr he h

/-- The same for the EXECUTED model (gluon's by-label row path on), `let` included. -/
theorem infer_principal_gluon (e : Expr) (τ : Ty) (S : Subst) (n' : Nat) (hp : Proofs.ProjFree e)
    (h : infer true [] e Subst.id 0 = .ok (τ, S, n')) :
    HasType [] e (τ.subst S) ∧ ∀ τ', HasType [] e τ' → ∃ Q : Subst, τ' = (τ.subst S).subst Q := by
  rw [infer_rows_bridge e 0 hp] at h
  exact infer_principal e τ S n' (Proofs.noProj_of_projFree e hp) h

/-- … and its rejections (other than `fuel`) are of untypable programs only. -/
theorem infer_reject_untypable_gluon (e : Expr) (err : UErr) (hp : Proofs.ProjFree e) (he : err ≠ .fuel)
    (h : infer true [] e Subst.id 0 = .error err) : ∀ τ', ¬ HasType [] e τ' := by
  rw [infer_rows_bridge e 0 hp] at h
  exact infer_reject_untypable e err (Proofs.noProj_of_projFree e hp) he h

/-! Non-vacuity: the let-polymorphic program `let id = \x -> x in (id 1, id "a")` and the program
    `\f -> let g = \y -> f y in (g 1, g "a")` (rejected: `f`'s variable is not generalised). -/
def letWitness : Expr :=
  .letE "id" (.lam "x" (.var "x"))
    (.rcd (.fcons "_0" (.app (.var "id") (.int 1)) (.fcons "_1" (.app (.var "id") (.str "a")) .fnil)))
def letReject : Expr :=
  .lam "f" (.letE "g" (.lam "y" (.app (.var "f") (.var "y")))
    (.rcd (.fcons "_0" (.app (.var "g") (.int 1)) (.fcons "_1" (.app (.var "g") (.str "a")) .fnil))))

example : Proofs.NoProj letWitness := by simp [letWitness, Proofs.NoProj]
example : Proofs.ProjFree letWitness := by simp [letWitness, Proofs.ProjFree, Proofs.isFields]
example : ∃ τ S n', infer false [] letWitness Subst.id 0 = .ok (τ, S, n') ∧
    τ.subst S = tRec (.ext "_0" tInt (.ext "_1" tString .empty)) := ⟨_, _, _, rfl, rfl⟩
/-- hence `(Int, String)` is the ONLY type of the let-polymorphic witness -/
example (τ' : Ty) (h : HasType [] letWitness τ') : τ' = tRec (.ext "_0" tInt (.ext "_1" tString .empty)) := by
  obtain ⟨Q, hQ⟩ := (infer_principal letWitness _ _ _ (by simp [letWitness, Proofs.NoProj]) rfl).2 τ' h
  rw [hQ]; rfl
example : infer false [] letReject Subst.id 0 = .error .clash := rfl
/-- the monomorphic use of a lambda-bound `f` at two types has NO typing (let does not generalise
    what is free in the environment) -/
example : ¬ ∃ τ', HasType [] letReject τ' := by
  rintro ⟨τ', h⟩
  exact infer_reject_untypable letReject .clash (by simp [letReject, Proofs.NoProj]) (by decide) rfl τ' h

/-- Inference TERMINATES, for every program (typable or not, projection included) and every start
    state: from some unification fuel on the answer is one and the same, and it is not `fuel`. -/
theorem infer_terminates (Γ : Env) (e : Expr) (S : Subst) (n : Nat) :
    ∃ N r, r ≠ .error .fuel ∧ ∀ fuel, N ≤ fuel → Proofs.inferF false fuel Γ e S n = r :=
  Proofs.inferF_total Γ e S n

/-- On the ML fragment with `let` inference DECIDES typability: for every sufficiently large fuel a
    closed program is accepted iff it has a typing in the declarative system. -/
theorem infer_decides_typability (e : Expr) (hfr : Proofs.NoProj e) :
    ∃ N, ∀ fuel, N ≤ fuel →
      ((∃ τ', HasType [] e τ') ↔ ∃ τ S n', Proofs.inferF false fuel [] e Subst.id 0 = .ok (τ, S, n')) :=
  Proofs.inferF_decides e hfr

-- both sides of the equivalence occur: `letWitness` is typable and accepted, `letReject` is neither
example : ∃ τ', HasType [] letWitness τ' :=
  ⟨_, (infer_principal letWitness _ _ _ (by simp [letWitness, Proofs.NoProj]) rfl).1⟩

/-! ### Rung 4: the stability clauses on `infer` itself -/

/-- Renaming bound variables: α-equivalent closed programs (`Proofs.Alpha []`: the binder names are
    paired position by position, every variable refers to the same binder on both sides) give LITERALLY
    the same result — type, substitution and counter — for every construct of the model and both row
    modes (so also for the executed model and for programs with projection). -/
theorem infer_alpha (rows : Bool) (e e' : Expr) (h : Proofs.Alpha [] e e') (S : Subst) (n : Nat) :
    infer rows [] e S n = infer rows [] e' S n :=
  Proofs.infer_alpha_aux rows h [] [] S n Proofs.EnvPair.nil

/-- … hence the canonical answers coincide. -/
theorem inferTop_alpha (rows : Bool) (e e' : Expr) (h : Proofs.Alpha [] e e') :
    inferTop rows e = inferTop rows e' := by
  simp only [inferTop, infer_alpha rows e e' h]

/-- `\x -> \x -> let y = x in y`  ~  `\a -> \b -> let x = b in x` (shadowing on the left only) -/
example : Proofs.Alpha [] (.lam "x" (.lam "x" (.letE "y" (.var "x") (.var "y"))))
    (.lam "a" (.lam "b" (.letE "x" (.var "b") (.var "x")))) := by
  refine .lam _ _ _ _ _ (.lam _ _ _ _ _ (.letE _ _ _ _ _ _ _ (.var _ _ _ (.here _ _ _)) (.var _ _ _ (.here _ _ _))))
/-- … but NOT `\x -> \y -> x` ~ `\a -> \b -> b` -/
example : ¬ Proofs.Alpha [] (.lam "x" (.lam "y" (.var "x"))) (.lam "a" (.lam "b" (.var "b"))) := by
  intro h
  cases h with
  | lam _ _ _ _ _ h =>
    cases h with
    | lam _ _ _ _ _ h =>
      cases h with
      | var _ _ _ h =>
        rcases Proofs.alphaVar_cons_inv h with ⟨h₁, _⟩ | ⟨_, h₂, _⟩
        · exact absurd h₁ (by decide)
        · exact h₂ rfl

/-- Adding an unused binding (`x` not free in `b`), on `infer` itself, ML fragment with `let`:
    (1) if both programs are accepted, the reported types are instances of each other (equal up to a
    renaming of type variables); (2) if the `let` is accepted, the body is not rejected (other than by
    `fuel`); (3) if the body is accepted and the bound expression is typable at all, the `let` is not
    rejected (other than by `fuel`).  (`inferTop_unused_let` below: hence the canonical answers are equal.) -/
theorem infer_unused_let (x : String) (e b : Expr) (hx : x ∉ Proofs.fv b)
    (hfr : Proofs.NoProj (.letE x e b)) :
    (∀ τ S n τ₂ S₂ n₂, infer false [] b Subst.id 0 = .ok (τ, S, n) →
        infer false [] (.letE x e b) Subst.id 0 = .ok (τ₂, S₂, n₂) →
        Proofs.TyEquiv (τ.subst S) (τ₂.subst S₂)) ∧
    (∀ τ₂ S₂ n₂, infer false [] (.letE x e b) Subst.id 0 = .ok (τ₂, S₂, n₂) →
        ∀ err, infer false [] b Subst.id 0 = .error err → err = .fuel) ∧
    (∀ τ S n, infer false [] b Subst.id 0 = .ok (τ, S, n) → (∃ τ₁, HasType [] e τ₁) →
        ∀ err, infer false [] (.letE x e b) Subst.id 0 = .error err → err = .fuel) :=
  Proofs.infer_unused_let_noProj x e b hx hfr

/-- Types that are instances of each other have the same canonical form (`canon`: variables numbered
    by first occurrence — what the driver prints and the harness compares). -/
theorem canon_equiv (a b : Ty) (h : Proofs.TyEquiv a b) : canon a = canon b :=
  Proofs.canon_of_tyEquiv a b h

/-- Hence: if the program with the unused binding and the program without it are both accepted, the
    model's canonical ANSWER is the same (acceptance itself: clauses (2), (3) of `infer_unused_let`). -/
theorem inferTop_unused_let (x : String) (e b : Expr) (hx : x ∉ Proofs.fv b)
    (hfr : Proofs.NoProj (.letE x e b))
    (τ : Ty) (S : Subst) (n : Nat) (τ₂ : Ty) (S₂ : Subst) (n₂ : Nat)
    (h₁ : infer false [] b Subst.id 0 = .ok (τ, S, n))
    (h₂ : infer false [] (.letE x e b) Subst.id 0 = .ok (τ₂, S₂, n₂)) :
    inferTop false (.letE x e b) = inferTop false b :=
  Proofs.inferTop_unused_let x e b hx hfr τ S n τ₂ S₂ n₂ h₁ h₂

/-- The same for the EXECUTED model (by-label row path on). -/
theorem inferTop_unused_let_gluon (x : String) (e b : Expr) (hx : x ∉ Proofs.fv b)
    (hp : Proofs.ProjFree (.letE x e b))
    (τ : Ty) (S : Subst) (n : Nat) (τ₂ : Ty) (S₂ : Subst) (n₂ : Nat)
    (h₁ : infer true [] b Subst.id 0 = .ok (τ, S, n))
    (h₂ : infer true [] (.letE x e b) Subst.id 0 = .ok (τ₂, S₂, n₂)) :
    inferTop true (.letE x e b) = inferTop true b := by
  rw [Proofs.inferTop_bridge _ hp, Proofs.inferTop_bridge b hp.2]
  rw [infer_rows_bridge b 0 hp.2] at h₁
  rw [infer_rows_bridge _ 0 hp] at h₂
  exact inferTop_unused_let x e b hx (Proofs.noProj_of_projFree _ hp) τ S n τ₂ S₂ n₂ h₁ h₂

-- `a -> b` and `c -> a` (variables 0,1 / 2,0) are instances of each other; both print as `t0 -> t1`
example : Proofs.TyEquiv (fn (.var 0) (.var 1)) (fn (.var 2) (.var 0)) :=
  ⟨⟨fun v => if v = 0 then .var 2 else .var 0, rfl⟩, ⟨fun v => if v = 2 then .var 0 else .var 1, rfl⟩⟩
example : inferTop true (.letE "u" .anil (.lam "z" (.asnoc .anil (.var "z")))) =
    inferTop true (.lam "z" (.asnoc .anil (.var "z"))) := rfl

/-- an instance: `let u = [] in \z -> [z]` against `\z -> [z]` -/
example : "u" ∉ Proofs.fv (.lam "z" (.asnoc .anil (.var "z"))) ∧
    Proofs.NoProj (.letE "u" .anil (.lam "z" (.asnoc .anil (.var "z")))) := by
  constructor
  · decide
  · simp [Proofs.NoProj]

/-! ### The round-4 statements (let-free fragment, up to fuel), now corollaries -/

/-- Rung 5 on the let-free, projection-free fragment, for `infer` at the executed fuel: every
    declarative typing of a closed program is an instance of the type `infer` reports — unless the
    constant unification fuel runs out, which is a distinct answer (`fuel`).  Superseded by
    `infer_complete_principal` / `infer_principal` (with `let`, no fuel disjunct); kept under its name. -/
theorem infer_complete_principal_partial (e : Expr) (τ' : Ty) (hfr : Proofs.LetProjFree e)
    (h : HasType [] e τ') :
    infer false [] e Subst.id 0 = .error .fuel ∨
    ∃ τ S n', infer false [] e Subst.id 0 = .ok (τ, S, n') ∧ ∃ Q : Subst, τ' = (τ.subst S).subst Q :=
  Proofs.infer_complete_noProj e τ' (Proofs.noProj_of_letProjFree e hfr) h

/-- the same with `let` (projection-free fragment) -/
theorem infer_complete_principal_exec (e : Expr) (τ' : Ty) (hfr : Proofs.NoProj e)
    (h : HasType [] e τ') :
    infer false [] e Subst.id 0 = .error .fuel ∨
    ∃ τ S n', infer false [] e Subst.id 0 = .ok (τ, S, n') ∧ ∃ Q : Subst, τ' = (τ.subst S).subst Q :=
  Proofs.infer_complete_noProj e τ' hfr h

/-- The reported type is THE principal type on that fragment: it is a typing, and every typing is
    an instance of it. -/
theorem infer_principal_partial (e : Expr) (τ : Ty) (S : Subst) (n' : Nat)
    (hfr : Proofs.LetProjFree e) (h : infer false [] e Subst.id 0 = .ok (τ, S, n')) :
    HasType [] e (τ.subst S) ∧ ∀ τ', HasType [] e τ' → ∃ Q : Subst, τ' = (τ.subst S).subst Q :=
  infer_principal e τ S n' (Proofs.noProj_of_letProjFree e hfr) h

/-- A rejection (other than by fuel) of a program of the fragment means it has no typing at all:
    acceptance by any checker of such a program would be unsound w.r.t. `HasType`. -/
theorem infer_reject_untypable_partial (e : Expr) (err : UErr) (hfr : Proofs.LetProjFree e)
    (he : err ≠ .fuel) (h : infer false [] e Subst.id 0 = .error err) :
    ∀ τ', ¬ HasType [] e τ' :=
  infer_reject_untypable e err (Proofs.noProj_of_letProjFree e hfr) he h

/-- The same for the EXECUTED model (by-label row path on), via the bridge. -/
theorem infer_principal_gluon_partial (e : Expr) (τ : Ty) (S : Subst) (n' : Nat)
    (_hfr : Proofs.LetProjFree e) (hp : Proofs.ProjFree e)
    (h : infer true [] e Subst.id 0 = .ok (τ, S, n')) :
    HasType [] e (τ.subst S) ∧ ∀ τ', HasType [] e τ' → ∃ Q : Subst, τ' = (τ.subst S).subst Q :=
  infer_principal_gluon e τ S n' hp h

/-! Non-vacuity: `\f -> \x -> (f x, [x])` is in the fragment, is accepted, and e.g. the typing at
    `(Int -> String) -> Int -> (String, Array Int)` is an instance of the reported type. -/
def principalWitness : Expr :=
  .lam "f" (.lam "x" (.rcd (.fcons "_0" (.app (.var "f") (.var "x"))
    (.fcons "_1" (.asnoc .anil (.var "x")) .fnil))))

example : Proofs.LetProjFree principalWitness := by simp [principalWitness, Proofs.LetProjFree]
example : Proofs.ProjFree principalWitness := by
  simp [principalWitness, Proofs.ProjFree, Proofs.isFields]
example : inferTop false principalWitness =
    some (fn (fn (.var 0) (.var 1)) (fn (.var 0)
      (tRec (.ext "_0" (.var 1) (.ext "_1" (tArr (.var 0)) .empty))))) := rfl
-- a rejected program of the fragment (`\x -> x x`), to which `infer_reject_untypable_partial` applies
example : infer false [] (.lam "x" (.app (.var "x") (.var "x"))) Subst.id 0 = .error .occurs := rfl
example : ¬ ∃ τ', HasType [] (.lam "x" (.app (.var "x") (.var "x"))) τ' := by
  rintro ⟨τ', h⟩
  exact infer_reject_untypable_partial _ .occurs (by simp [Proofs.LetProjFree]) (by decide) rfl τ' h

/-- Third stability clause, declarative half: a binding the body does not use changes neither
    acceptance nor the types — a `let` with an unused variable has exactly the types of its body,
    provided (and only if) the bound expression is typable at all.  (`_partial` w.r.t. the
    property: it is a fact about `HasType`; transferring it to `infer` needs completeness.) -/
theorem unused_let_declarative_partial (Δ : SEnv) (x : String) (e b : Expr) (τ : Ty)
    (hx : x ∉ Proofs.fv b) :
    HasType Δ (.letE x e b) τ ↔ (∃ τ₁, HasType Δ e τ₁) ∧ HasType Δ b τ :=
  Proofs.hasType_unused_let Δ x e b τ hx

/-- A typing depends on the environment only at the free variables of the expression. -/
theorem hasType_env_irrelevant (Δ Δ' : SEnv) (e : Expr) (τ : Ty) (h : HasType Δ e τ)
    (hag : ∀ y, y ∈ Proofs.fv e → slookup y Δ' = slookup y Δ) : HasType Δ' e τ :=
  Proofs.hasType_env_congr Δ e τ h Δ' hag

example : "u" ∉ Proofs.fv (.app (.var "f") (.int 1)) := by decide

/-! The declarative system is not trivially satisfiable: `1 2` has no type, `\x -> x x` has none
    (the latter needs the occurs argument and is left to the model: see the `example` below). -/
example (τ : Ty) : ¬ HasType [] (.app (.int 1) (.int 2)) τ := by
  intro h
  cases h with
  | app _ _ _ a _ hf _ => cases hf

/-- the bound expression of a `let` must itself be typable -/
example (τ : Ty) : ¬ HasType [] (.letE "x" (.app (.int 1) (.int 2)) (.int 3)) τ := by
  intro h
  cases h with
  | letE _ _ _ _ P _ hne hall _ =>
    obtain ⟨τ₁, hp⟩ := hne
    cases hall τ₁ hp with
    | app _ _ _ a _ hf _ => cases hf

/-- Non-vacuity of `infer_sound`: a let-polymorphic program with records is accepted. -/
example : ∃ τ S n', infer false [] (.letE "id" (.lam "x" (.var "x"))
      (.rcd (.fcons "_0" (.app (.var "id") (.int 1)) (.fcons "_1" (.app (.var "id") (.str "a")) .fnil))))
      Subst.id 0 = .ok (τ, S, n') ∧ τ.subst S = tRec (.ext "_0" tInt (.ext "_1" tString .empty)) :=
  ⟨_, _, _, rfl, rfl⟩

/-- `_partial`: with the by-label path off the same unification problem is (correctly) not
    solved by binding a dangling tail — it needs the closed tail, which syntactic rows provide
    only for equal label sequences; soundness (`unify_sound`) holds there for all inputs. -/
theorem unify_rows_partial (σ : Subst) (n' : Nat)
    (h : unify false 16 2 openX closedXY = .ok (σ, n')) : openX.subst σ = closedXY.subst σ :=
  unify_sound 16 2 openX closedXY σ n' h

/-! ### The model on the renderings probed from the real checker (DESIGN §C03) -/

-- `\r -> r.x` ⇒ `forall a a0 . { x : a | a0 } -> a`
example : inferTop true (.lam "r" (.proj (.var "r") "x")) =
    some (fn (tRec (.ext "x" (.var 0) (.var 1))) (.var 0)) := rfl
-- `let id = \x -> x in (id 1, id "a")` ⇒ `(Int, String)`
example : inferTop true (.letE "id" (.lam "x" (.var "x"))
      (.rcd (.fcons "_0" (.app (.var "id") (.int 1)) (.fcons "_1" (.app (.var "id") (.str "a")) .fnil)))) =
    some (tRec (.ext "_0" tInt (.ext "_1" tString .empty))) := rfl
-- `\x -> x x` is rejected (occurs check)
example : inferTop true (.lam "x" (.app (.var "x") (.var "x"))) = none := rfl
-- `\f -> let g y = f y in (g 1, g "a")` is rejected: `f`'s variable is not generalised
example : inferTop true (.lam "f" (.letE "g" (.lam "y" (.app (.var "f") (.var "y")))
      (.rcd (.fcons "_0" (.app (.var "g") (.int 1)) (.fcons "_1" (.app (.var "g") (.str "a")) .fnil))))) =
    none := rfl

/-
Still not proved, with what is missing:

  completeness with field projection: FALSE for the model with syntactic rows (`HasField` finds a field
    anywhere, syntactic unification only at the head: `(\r -> r.y) { x = 1, y = 2 }` has a declarative typing and
    is rejected by `infer false`); it needs a correct by-label row unifier — the executed one is the known finding.
  infer_annot_self : the model has no annotation construct.
  For programs WITH field projection `infer_sound` speaks about the model with syntactic rows only; the
  executed model (`rows = true`) is tied to it through `infer_rows_bridge` on projection-free programs and
  otherwise only through the implementation (both are compared with the real checker / the reference W).
-/

end GluonModel.Props.C03
