/-
C03 — "Type inference is complete and principal on the ML fragment … Renaming bound variables,
annotating an expression with the type that was inferred for it, or adding an unused binding
never changes acceptance or the reported type."

Model: `GluonModel.HM` (`unify`, `unifyRows`, `infer`; the flag `rows` switches gluon's by-label
row path on).  Only property theorems live here; lemmas are in `GluonModel.Proofs.HM`.

Proof ladder of the design and how far it is climbed (see notes/C03.md):

  rung 1  `unify_sound`            proved, all types, all fuel  (syntactic rows, `rows = false`)
  rung 2  `unify_mgu`              proved, all types, all fuel  (same)
          `unify_terminates`, `unify_fuel_mono`, `unify_complete`: some fuel always suffices, more
          fuel never changes an answer, and a unifiable pair is unified (no `_partial` any more)
  rung 3  `infer_sound`, `infer_sound_inst`   proved for ALL constructs of the model (var, lam, app,
          let WITH generalisation, literals, `#Int<`, if, records/tuples, projection, arrays,
          constructors) on the syntactic-row path, w.r.t. the declarative system `HasType`
          `unify_rows_bridge`, `infer_rows_bridge`, `infer_sound_gluon_partial`: the EXECUTED model
          (by-label path on) coincides with the syntactic one on projection-free programs, hence is sound
  rung 4  infer_alpha / infer_unused_let / infer_annot_self (the three stability clauses): only the
          declarative half of the unused-binding clause is proved (`unused_let_declarative_partial`)
  rung 5  infer_complete_principal : HasType Δ e τ → ∃ τ₀, infer … = ok τ₀ ∧ τ₀ ⊒ τ
          proved on the let-free, projection-free fragment, up to fuel: `infer_complete_principal_partial`,
          `infer_principal_partial`, `infer_reject_untypable_partial`, `infer_principal_gluon_partial`
          rungs 4–5 are NOT proved for `infer` (see the comment at the end of this file for what
          is missing); on the implementation they are what the oracle of harness/src/bin/c03.rs
          checks (independent algorithm W + the three metamorphic transformations), and
          model = implementation is checked by exact correspondence.

  With gluon's by-label row path switched on, rung 1 is FALSE for the unchanged code:
  `unify_rows_unsound_fails`, `infer_row_tail_unlinked_fails` (known finding
  `unlinked-row-tail:unify_rows`, reproduced on the real checker).
-/
import GluonModel.HM
import GluonModel.Proofs.HM
import GluonModel.Proofs.HMTerm
import GluonModel.Proofs.HMSound
import GluonModel.Proofs.HMBridge
import GluonModel.Proofs.HMStab
import GluonModel.Proofs.HMComplete

namespace GluonModel.Props.C03
open GluonModel.HM

/-- Rung 1. The substitution returned by unification unifies the two types — for every pair of
    types and every fuel (syntactic rows: records are compared field by field in order). -/
theorem unify_sound (fuel n : Nat) (s t : Ty) (σ : Subst) (n' : Nat)
    (h : unify false fuel n s t = .ok (σ, n')) : s.subst σ = t.subst σ :=
  Proofs.unify_sound fuel n s t σ n' h

/-- Rung 2. The returned substitution is most general: every unifier `θ` factors through it
    (`θ = θ ∘ σ`, so `δ = θ` is the factor). Principality of inferred types rests on this. -/
theorem unify_mgu (fuel n : Nat) (s t : Ty) (σ θ : Subst) (n' : Nat)
    (h : unify false fuel n s t = .ok (σ, n')) (hθ : s.subst θ = t.subst θ) :
    ∃ δ : Subst, ∀ v, θ v = (σ v).subst δ :=
  ⟨θ, fun v => (Proofs.unify_mgu fuel n s t σ θ n' h hθ v).symm⟩

/-- Termination: for every pair of types some fuel suffices (the answer is not `fuel`). -/
theorem unify_terminates (n : Nat) (s t : Ty) : ∃ N, unify false N n s t ≠ .error .fuel :=
  Proofs.unify_fuel_exists n s t

/-- More fuel never changes an answer. -/
theorem unify_fuel_mono (fuel fuel' n : Nat) (s t : Ty) (r : Except UErr (Subst × Nat))
    (hle : fuel ≤ fuel') (h : unify false fuel n s t = r) (hr : r ≠ .error .fuel) :
    unify false fuel' n s t = r :=
  Proofs.unify_mono fuel fuel' n s t r hle h hr

/-- A rejection other than by fuel (constructor clash, occurs check) means there is no unifier. -/
theorem unify_reject_no_unifier (fuel n : Nat) (s t : Ty) (θ : Subst) (e : UErr)
    (he : e ≠ .fuel) (h : unify false fuel n s t = .error e) : s.subst θ ≠ t.subst θ :=
  Proofs.unify_error_no_unifier fuel n s t θ e he h

/-- Completeness of unification: a unifiable pair is unified, for every sufficiently large fuel
    (and by `unify_mgu` the result is a most general unifier). -/
theorem unify_complete (n : Nat) (s t : Ty) (θ : Subst) (hθ : s.subst θ = t.subst θ) :
    ∃ N, ∀ fuel, N ≤ fuel → ∃ σ n', unify false fuel n s t = .ok (σ, n') := by
  obtain ⟨N, r, hr, hall⟩ := Proofs.unify_total n s t
  refine ⟨N, fun fuel hle => ?_⟩
  rw [hall fuel hle]
  match r, hr, hall with
  | .ok (σ, n'), _, _ => exact ⟨σ, n', rfl⟩
  | .error e, hr, hall =>
    have he : e ≠ .fuel := fun h => hr (by rw [h])
    exact absurd hθ (Proofs.unify_error_no_unifier N n s t θ e he (hall N (Nat.le_refl _)))

/-- Rung 3. Soundness of inference, all constructs, `let` with generalisation included: the
    reported type is derivable in the declarative system, in the environment denoted by `Γ`
    under the final substitution. -/
theorem infer_sound (Γ : Env) (e : Expr) (n : Nat) (τ : Ty) (S : Subst) (n' : Nat)
    (h : infer false Γ e Subst.id n = .ok (τ, S, n')) :
    HasType (denote S Γ) e (τ.subst S) :=
  Proofs.infer_sound Γ e n τ S n' h

/-- … and so is every instance of the reported type (one half of "the reported type is
    principal": everything below it is a typing). -/
theorem infer_sound_inst (Γ : Env) (e : Expr) (n : Nat) (τ : Ty) (S : Subst) (n' : Nat) (Q : Subst)
    (h : infer false Γ e Subst.id n = .ok (τ, S, n')) :
    HasType (denote (Q.comp S) Γ) e ((τ.subst S).subst Q) :=
  Proofs.infer_sound_inst Γ e n τ S n' Q h

/-- Closed programs: the canonical answer of the model is a typing. -/
theorem inferTop_sound (e : Expr) (τ : Ty) (S : Subst) (n' : Nat)
    (h : infer false [] e Subst.id 0 = .ok (τ, S, n')) : HasType [] e (τ.subst S) :=
  Proofs.infer_sound [] e 0 τ S n' h

/-! Non-vacuity: `a -> Int` against `String -> b`. -/
example : ∃ σ n', unify false 8 2 (fn (.var 0) tInt) (fn tString (.var 1)) = .ok (σ, n') ∧
    (fn (.var 0) tInt).subst σ = fn tString tInt := ⟨_, _, rfl, rfl⟩
example : unify false 8 0 (fn tInt tInt) (fn tString tInt) = .error .clash := rfl
-- the occurs check: `a` against `a -> Int`
example : unify false 8 1 (.var 0) (fn (.var 0) tInt) = .error .occurs := rfl

/-! ### The unchanged code violates rung 1 on open rows (defect of `unify_rows`) -/

/-- `{ x : a | ρ }` -/
def openX : Ty := .ext "x" (.var 0) (.var 1)
/-- `{ x : Int, y : Int }` -/
def closedXY : Ty := .ext "x" tInt (.ext "y" tInt .empty)

/-- unify_type.rs:880-924 binds `ρ := { y : Int | fresh }` and never closes `fresh`: the "unifier"
    makes the left row `{ x : Int, y : Int | fresh }`, which is not the closed right row. -/
theorem unify_rows_unsound_fails :
    ∃ σ n', unify true 16 2 openX closedXY = .ok (σ, n') ∧ openX.subst σ ≠ closedXY.subst σ := by
  refine ⟨_, _, rfl, ?_⟩
  decide

/-- the program `\r -> let z = r.x in [r, { x = 1, y = 2 }]` -/
def witness : Expr :=
  .lam "r" (.letE "z" (.proj (.var "r") "x")
    (.asnoc (.asnoc .anil (.var "r"))
      (.rcd (.fcons "x" (.int 1) (.fcons "y" (.int 2) .fnil)))))

/-- The model (= the real checker, replayed by the harness) reports
    `forall a . { x : Int, y : Int | a } -> Array { x : Int, y : Int | a }` for the witness:
    an open record type, although the array also holds the two-field literal.  The principal
    type is `{ x : Int, y : Int } -> Array { x : Int, y : Int }`. -/
theorem infer_row_tail_unlinked_fails :
    inferTop true witness =
      some (fn (tRec (.ext "x" tInt (.ext "y" tInt (.var 0))))
               (tArr (tRec (.ext "x" tInt (.ext "y" tInt (.var 0)))))) := by
  rfl

/-- Bridge to the EXECUTED model (gluon's by-label row path switched on): on types all of whose
    rows are closed that path is never entered, the two unifiers coincide. -/
theorem unify_rows_bridge (fuel n : Nat) (s t : Ty) (hs : Proofs.CR s) (ht : Proofs.CR t) :
    unify true fuel n s t = unify false fuel n s t :=
  (Proofs.unify_bridge fuel n s t hs ht).1

/-- … and for every projection-free program the executed inference is the one with syntactic
    rows (all rows that arise are closed). -/
theorem infer_rows_bridge (e : Expr) (n : Nat) (h : Proofs.ProjFree e) :
    infer true [] e Subst.id n = infer false [] e Subst.id n :=
  Proofs.infer_bridge e n h

/-- Hence soundness of the executed model — the one the driver runs and the harness compares
    with the real checker — for every projection-free closed program (let-polymorphism, records,
    tuples, arrays, variants, if).  `_partial`: programs with field projection are covered only
    by `infer_sound` for syntactic rows; with the by-label path the statement is false
    (`infer_row_tail_unlinked_fails`). -/
theorem infer_sound_gluon_partial (e : Expr) (τ : Ty) (S : Subst) (n' : Nat)
    (hp : Proofs.ProjFree e)
    (h : infer true [] e Subst.id 0 = .ok (τ, S, n')) : HasType [] e (τ.subst S) := by
  rw [infer_rows_bridge e 0 hp] at h
  exact inferTop_sound e τ S n' h

/-- Rung 5 on the let-free, projection-free fragment (var, lam, app, literals, `#Int<`, if,
    record/tuple literals, arrays, constructors): completeness and principality.  Every
    declarative typing of a closed program is an instance of the type `infer` reports — unless the
    constant unification fuel runs out, which is a distinct answer (`fuel`).
    `_partial`: (a) `let` is excluded (needs, on top of the freshness invariant proved here, that the
    range of the threaded substitution stays below the counter and that a generalised scheme denotes
    exactly the typings of the bound expression); (b) projection is excluded — with syntactic rows the
    statement is FALSE for it (`HasField` finds a field anywhere, syntactic unification only at the
    head: `(\r -> r.y) { x = 1, y = 2 }`); (c) "up to fuel": `infer` uses the constant `unifyFuel`. -/
theorem infer_complete_principal_partial (e : Expr) (τ' : Ty) (hfr : Proofs.LetProjFree e)
    (h : HasType [] e τ') :
    infer false [] e Subst.id 0 = .error .fuel ∨
    ∃ τ S n', infer false [] e Subst.id 0 = .ok (τ, S, n') ∧ ∃ Q : Subst, τ' = (τ.subst S).subst Q :=
  Proofs.infer_complete_principal_closed e τ' hfr h

/-- The reported type is THE principal type on that fragment: it is a typing, and every typing is
    an instance of it. -/
theorem infer_principal_partial (e : Expr) (τ : Ty) (S : Subst) (n' : Nat)
    (hfr : Proofs.LetProjFree e) (h : infer false [] e Subst.id 0 = .ok (τ, S, n')) :
    HasType [] e (τ.subst S) ∧ ∀ τ', HasType [] e τ' → ∃ Q : Subst, τ' = (τ.subst S).subst Q := by
  refine ⟨inferTop_sound e τ S n' h, fun τ' hτ' => ?_⟩
  rcases infer_complete_principal_partial e τ' hfr hτ' with hf | ⟨τ₂, S₂, n₂, h₂, Q, hQ⟩
  · rw [h] at hf; cases hf
  · rw [h] at h₂
    injection h₂ with h₂; injection h₂ with h₃ h₂; injection h₂ with h₄ _
    subst h₃; subst h₄
    exact ⟨Q, hQ⟩

/-- A rejection (other than by fuel) of a program of the fragment means it has no typing at all:
    acceptance by any checker of such a program would be unsound w.r.t. `HasType`. -/
theorem infer_reject_untypable_partial (e : Expr) (err : UErr) (hfr : Proofs.LetProjFree e)
    (he : err ≠ .fuel) (h : infer false [] e Subst.id 0 = .error err) :
    ∀ τ', ¬ HasType [] e τ' := by
  intro τ' hτ'
  rcases infer_complete_principal_partial e τ' hfr hτ' with hf | ⟨τ₂, S₂, n₂, h₂, _⟩
  · rw [h] at hf; injection hf with hf; exact he hf
  · rw [h] at h₂; cases h₂

/-- The same for the EXECUTED model (by-label row path on), via the bridge. -/
theorem infer_principal_gluon_partial (e : Expr) (τ : Ty) (S : Subst) (n' : Nat)
    (hfr : Proofs.LetProjFree e) (hp : Proofs.ProjFree e)
    (h : infer true [] e Subst.id 0 = .ok (τ, S, n')) :
    HasType [] e (τ.subst S) ∧ ∀ τ', HasType [] e τ' → ∃ Q : Subst, τ' = (τ.subst S).subst Q := by
  rw [infer_rows_bridge e 0 hp] at h
  exact infer_principal_partial e τ S n' hfr h

/-! Non-vacuity: `\f -> \x -> (f x, [x])` is in the fragment, is accepted, and e.g. the typing at
    `(Int -> String) -> Int -> (String, Array Int)` is an instance of the reported type. -/
def principalWitness : Expr :=
  .lam "f" (.lam "x" (.rcd (.fcons "_0" (.app (.var "f") (.var "x"))
    (.fcons "_1" (.asnoc .anil (.var "x")) .fnil))))

example : Proofs.LetProjFree principalWitness := by simp [principalWitness, Proofs.LetProjFree]
example : Proofs.ProjFree principalWitness := by
  simp [principalWitness, Proofs.ProjFree, Proofs.isFields]
example : inferTop false principalWitness =
    some (fn (fn (.var 0) (.var 1)) (fn (.var 0)
      (tRec (.ext "_0" (.var 1) (.ext "_1" (tArr (.var 0)) .empty))))) := rfl
-- a rejected program of the fragment (`\x -> x x`), to which `infer_reject_untypable_partial` applies
example : infer false [] (.lam "x" (.app (.var "x") (.var "x"))) Subst.id 0 = .error .occurs := rfl
example : ¬ ∃ τ', HasType [] (.lam "x" (.app (.var "x") (.var "x"))) τ' := by
  rintro ⟨τ', h⟩
  exact infer_reject_untypable_partial _ .occurs (by simp [Proofs.LetProjFree]) (by decide) rfl τ' h

/-- Third stability clause, declarative half: a binding the body does not use changes neither
    acceptance nor the types — a `let` with an unused variable has exactly the types of its body,
    provided (and only if) the bound expression is typable at all.  (`_partial` w.r.t. the
    property: it is a fact about `HasType`; transferring it to `infer` needs completeness.) -/
theorem unused_let_declarative_partial (Δ : SEnv) (x : String) (e b : Expr) (τ : Ty)
    (hx : x ∉ Proofs.fv b) :
    HasType Δ (.letE x e b) τ ↔ (∃ τ₁, HasType Δ e τ₁) ∧ HasType Δ b τ :=
  Proofs.hasType_unused_let Δ x e b τ hx

/-- A typing depends on the environment only at the free variables of the expression. -/
theorem hasType_env_irrelevant (Δ Δ' : SEnv) (e : Expr) (τ : Ty) (h : HasType Δ e τ)
    (hag : ∀ y, y ∈ Proofs.fv e → slookup y Δ' = slookup y Δ) : HasType Δ' e τ :=
  Proofs.hasType_env_congr Δ e τ h Δ' hag

example : "u" ∉ Proofs.fv (.app (.var "f") (.int 1)) := by decide

/-! The declarative system is not trivially satisfiable: `1 2` has no type, `\x -> x x` has none
    (the latter needs the occurs argument and is left to the model: see the `example` below). -/
example (τ : Ty) : ¬ HasType [] (.app (.int 1) (.int 2)) τ := by
  intro h
  cases h with
  | app _ _ _ a _ hf _ => cases hf

/-- the bound expression of a `let` must itself be typable -/
example (τ : Ty) : ¬ HasType [] (.letE "x" (.app (.int 1) (.int 2)) (.int 3)) τ := by
  intro h
  cases h with
  | letE _ _ _ _ P _ hne hall _ =>
    obtain ⟨τ₁, hp⟩ := hne
    cases hall τ₁ hp with
    | app _ _ _ a _ hf _ => cases hf

/-- Non-vacuity of `infer_sound`: a let-polymorphic program with records is accepted. -/
example : ∃ τ S n', infer false [] (.letE "id" (.lam "x" (.var "x"))
      (.rcd (.fcons "_0" (.app (.var "id") (.int 1)) (.fcons "_1" (.app (.var "id") (.str "a")) .fnil))))
      Subst.id 0 = .ok (τ, S, n') ∧ τ.subst S = tRec (.ext "_0" tInt (.ext "_1" tString .empty)) :=
  ⟨_, _, _, rfl, rfl⟩

/-- `_partial`: with the by-label path off the same unification problem is (correctly) not
    solved by binding a dangling tail — it needs the closed tail, which syntactic rows provide
    only for equal label sequences; soundness (`unify_sound`) holds there for all inputs. -/
theorem unify_rows_partial (σ : Subst) (n' : Nat)
    (h : unify false 16 2 openX closedXY = .ok (σ, n')) : openX.subst σ = closedXY.subst σ :=
  unify_sound 16 2 openX closedXY σ n' h

/-! ### The model on the renderings probed from the real checker (DESIGN §C03) -/

-- `\r -> r.x` ⇒ `forall a a0 . { x : a | a0 } -> a`
example : inferTop true (.lam "r" (.proj (.var "r") "x")) =
    some (fn (tRec (.ext "x" (.var 0) (.var 1))) (.var 0)) := rfl
-- `let id = \x -> x in (id 1, id "a")` ⇒ `(Int, String)`
example : inferTop true (.letE "id" (.lam "x" (.var "x"))
      (.rcd (.fcons "_0" (.app (.var "id") (.int 1)) (.fcons "_1" (.app (.var "id") (.str "a")) .fnil)))) =
    some (tRec (.ext "_0" tInt (.ext "_1" tString .empty))) := rfl
-- `\x -> x x` is rejected (occurs check)
example : inferTop true (.lam "x" (.app (.var "x") (.var "x"))) = none := rfl
-- `\f -> let g y = f y in (g 1, g "a")` is rejected: `f`'s variable is not generalised
example : inferTop true (.lam "f" (.letE "g" (.lam "y" (.app (.var "f") (.var "y")))
      (.rcd (.fcons "_0" (.app (.var "g") (.int 1)) (.fcons "_1" (.app (.var "g") (.str "a")) .fnil))))) =
    none := rfl

/-
Not proved (rungs 4–5), with what is missing:

  infer_complete_principal :
      HasType (denote R Γ) e τ' → ∃ τ S n', infer false Γ e Subst.id n = .ok (τ, S, n') ∧ ∃ Q, τ' = (τ.subst S).subst Q
    needs (a) the freshness invariant (every variable of Γ, of the range of S and of the equations is
    below the counter, so a solution can be extended on the new variables), (b) `infer` parametrised by
    the unification fuel (with the constant `unifyFuel` the statement is false for astronomically large
    types; `unify_complete` gives the fuel), (c) for `let`: that the generalised scheme denotes exactly the
    set of types of the right-hand side (principal-type property used inductively).
  infer_unused_let, infer_alpha : equality of the canonical results of two runs whose counters and
    substitutions differ; needs equivariance of `infer` under renaming of type variables (the order of
    `generalize`'s variable list depends on the whole environment).  With completeness they would follow
    from the declarative facts, which are easy (weakening, α-invariance of `HasType`).
  infer_annot_self : the model has no annotation construct.
  For programs WITH field projection `infer_sound` speaks about the model with syntactic rows only; the
  executed model (`rows = true`) is tied to it through `infer_rows_bridge` on projection-free programs and
  otherwise only through the implementation (both are compared with the real checker / the reference W).
-/

end GluonModel.Props.C03
