/-
C03 — "Type inference is complete and principal on the ML fragment … Renaming bound variables,
annotating an expression with the type that was inferred for it, or adding an unused binding
never changes acceptance or the reported type."

Model: `GluonModel.HM` (`unify`, `unifyRows`, `infer`; the flag `rows` switches gluon's by-label
row path on).  Only property theorems live here; lemmas are in `GluonModel.Proofs.HM`.

Proof ladder of the design and how far it is climbed (see notes/C03.md):

  rung 1  `unify_sound`            proved, all types, all fuel  (syntactic rows, `rows = false`)
  rung 2  `unify_mgu`              proved, all types, all fuel  (same)
          `unify_complete_partial` proved: a reported clash / occurs failure means there is no unifier
  rung 3  infer_sound            : infer false Γ e n = .ok (σ, τ, n') → HasType (Γ.subst σ) e τ
  rung 4  infer_alpha / infer_unused_let / infer_annot_self (the three stability clauses)
  rung 5  infer_complete_principal : HasType Γ e τ → ∃ τ₀, infer … = ok τ₀ ∧ τ₀ ⊒ τ
          rungs 3–5 are NOT proved; on the implementation they are what the oracle of
          harness/src/bin/c03.rs checks (independent algorithm W + the three metamorphic
          transformations), and model = implementation is checked by exact correspondence.

  With gluon's by-label row path switched on, rung 1 is FALSE for the unchanged code:
  `unify_rows_unsound_fails`, `infer_row_tail_unlinked_fails` (known finding
  `unlinked-row-tail:unify_rows`, reproduced on the real checker).
-/
import GluonModel.HM
import GluonModel.Proofs.HM

namespace GluonModel.Props.C03
open GluonModel.HM

/-- Rung 1. The substitution returned by unification unifies the two types — for every pair of
    types and every fuel (syntactic rows: records are compared field by field in order). -/
theorem unify_sound (fuel n : Nat) (s t : Ty) (σ : Subst) (n' : Nat)
    (h : unify false fuel n s t = .ok (σ, n')) : s.subst σ = t.subst σ :=
  Proofs.unify_sound fuel n s t σ n' h

/-- Rung 2. The returned substitution is most general: every unifier `θ` factors through it
    (`θ = θ ∘ σ`, so `δ = θ` is the factor). Principality of inferred types rests on this. -/
theorem unify_mgu (fuel n : Nat) (s t : Ty) (σ θ : Subst) (n' : Nat)
    (h : unify false fuel n s t = .ok (σ, n')) (hθ : s.subst θ = t.subst θ) :
    ∃ δ : Subst, ∀ v, θ v = (σ v).subst δ :=
  ⟨θ, fun v => (Proofs.unify_mgu fuel n s t σ θ n' h hθ v).symm⟩

/-- Completeness of unification, up to fuel: whenever `unify` rejects (constructor clash or
    occurs check) the two types have no unifier at all, so rejecting the program loses no typing.
    `_partial`: the full statement also needs "some fuel suffices" (termination), which is not
    proved; the driver reports fuel exhaustion as a distinct answer (never observed). -/
theorem unify_complete_partial (fuel n : Nat) (s t : Ty) (θ : Subst) (e : UErr)
    (he : e ≠ .fuel) (h : unify false fuel n s t = .error e) : s.subst θ ≠ t.subst θ :=
  Proofs.unify_error_no_unifier fuel n s t θ e he h

/-! Non-vacuity: `a -> Int` against `String -> b`. -/
example : ∃ σ n', unify false 8 2 (fn (.var 0) tInt) (fn tString (.var 1)) = .ok (σ, n') ∧
    (fn (.var 0) tInt).subst σ = fn tString tInt := ⟨_, _, rfl, rfl⟩
example : unify false 8 0 (fn tInt tInt) (fn tString tInt) = .error .clash := rfl
-- the occurs check: `a` against `a -> Int`
example : unify false 8 1 (.var 0) (fn (.var 0) tInt) = .error .occurs := rfl

/-! ### The unchanged code violates rung 1 on open rows (defect of `unify_rows`) -/

/-- `{ x : a | ρ }` -/
def openX : Ty := .ext "x" (.var 0) (.var 1)
/-- `{ x : Int, y : Int }` -/
def closedXY : Ty := .ext "x" tInt (.ext "y" tInt .empty)

/-- unify_type.rs:880-924 binds `ρ := { y : Int | fresh }` and never closes `fresh`: the "unifier"
    makes the left row `{ x : Int, y : Int | fresh }`, which is not the closed right row. -/
theorem unify_rows_unsound_fails :
    ∃ σ n', unify true 16 2 openX closedXY = .ok (σ, n') ∧ openX.subst σ ≠ closedXY.subst σ := by
  refine ⟨_, _, rfl, ?_⟩
  decide

/-- the program `\r -> let z = r.x in [r, { x = 1, y = 2 }]` -/
def witness : Expr :=
  .lam "r" (.letE "z" (.proj (.var "r") "x")
    (.asnoc (.asnoc .anil (.var "r"))
      (.rcd (.fcons "x" (.int 1) (.fcons "y" (.int 2) .fnil)))))

/-- The model (= the real checker, replayed by the harness) reports
    `forall a . { x : Int, y : Int | a } -> Array { x : Int, y : Int | a }` for the witness:
    an open record type, although the array also holds the two-field literal.  The principal
    type is `{ x : Int, y : Int } -> Array { x : Int, y : Int }`. -/
theorem infer_row_tail_unlinked_fails :
    inferTop true witness =
      some (fn (tRec (.ext "x" tInt (.ext "y" tInt (.var 0))))
               (tArr (tRec (.ext "x" tInt (.ext "y" tInt (.var 0)))))) := by
  rfl

/-- `_partial`: with the by-label path off the same unification problem is (correctly) not
    solved by binding a dangling tail — it needs the closed tail, which syntactic rows provide
    only for equal label sequences; soundness (`unify_sound`) holds there for all inputs. -/
theorem unify_rows_partial (σ : Subst) (n' : Nat)
    (h : unify false 16 2 openX closedXY = .ok (σ, n')) : openX.subst σ = closedXY.subst σ :=
  unify_sound 16 2 openX closedXY σ n' h

/-! ### The model on the renderings probed from the real checker (DESIGN §C03) -/

-- `\r -> r.x` ⇒ `forall a a0 . { x : a | a0 } -> a`
example : inferTop true (.lam "r" (.proj (.var "r") "x")) =
    some (fn (tRec (.ext "x" (.var 0) (.var 1))) (.var 0)) := rfl
-- `let id = \x -> x in (id 1, id "a")` ⇒ `(Int, String)`
example : inferTop true (.letE "id" (.lam "x" (.var "x"))
      (.rcd (.fcons "_0" (.app (.var "id") (.int 1)) (.fcons "_1" (.app (.var "id") (.str "a")) .fnil)))) =
    some (tRec (.ext "_0" tInt (.ext "_1" tString .empty))) := rfl
-- `\x -> x x` is rejected (occurs check)
example : inferTop true (.lam "x" (.app (.var "x") (.var "x"))) = none := rfl
-- `\f -> let g y = f y in (g 1, g "a")` is rejected: `f`'s variable is not generalised
example : inferTop true (.lam "f" (.letE "g" (.lam "y" (.app (.var "f") (.var "y")))
      (.rcd (.fcons "_0" (.app (.var "g") (.int 1)) (.fcons "_1" (.app (.var "g") (.str "a")) .fnil))))) =
    none := rfl

end GluonModel.Props.C03
