/-
C13 — "A value passed from one Gluon thread to another that may not share its heap … arrives
structurally equal to the original with sharing and cycles preserved, and stays valid after the
sending thread is collected or dropped. No heap ever holds a pointer into a heap that is neither
itself nor one of its ancestors."

Model: `GluonModel.GcHeap` (`cloneVal` = `Cloner::deep_clone_inner` with the generation shortcut,
the `visited` map, the userdata and string-array rules; `canShare`/`rgenFor` =
`can_share_values_with`; `transfer` = `re_root`/push/channel send). Lemmas:
`GluonModel.Proofs.GcHeap`.

Proved for every heap state and every value graph (any sharing, any cycles):
* `deepClone_complete`   the copy is owned by the destination heap or an ancestor, every new object
                         points only into the destination heap or its ancestors, nothing that
                         existed is modified — for values without arrays of strings / foreign code
                         (the code as it is) and for all values with the repaired cloner;
* `transfer_keeps_heaps_isolated`  hence the invariant "no pointer into a non-ancestor heap" is
                         preserved by every transfer;
* `shortcut_sound`       the generation shortcut never shares a value of a non-ancestor heap when
                         `can_share_values_with` holds; `shortcut_without_can_share_fails` is the
                         counter-model (siblings) showing why `force_full_clone` is needed;
* `transfer_survives`    after the transfer, collecting ANY thread (the sender included) leaves
                         everything below the copy intact.
Violations of the full statement by the unchanged code, each with a concrete witness replayed on
the implementation (known findings): `deepClone_complete_string_array_fails` (arrays of strings
are copied shallowly), `deepClone_sharing_cell_fails` (a mutable cell reached twice is duplicated),
`deepClone_foreign_code_fails` (a closure moved to an unrelated VM keeps pointing at the source
VM's bytecode). `…_fixed` theorems show the repaired rules restore the statement.

* `deepClone_iso`        the copy is ISOMORPHIC to the source graph: the `visited` map is a bijection
                         between copied source objects and new objects commuting with edges,
                         identity on shared objects (for the repaired cloner, and for the code as
                         it is whenever no mutable cell is copied); `deepClone_iso_covers`;
* `deepClone_total`      the fuel of the executable cloner always suffices (same hypotheses).
Still open: totality for the UNREPAIRED cell rule with cells below the value (a cell is copied
without a `visited` entry, so termination needs "no cycle through cells only", which the real code
needs as well — it would overflow the native stack).
-/
import GluonModel.GcHeap
import GluonModel.Proofs.GcHeap
import GluonModel.Proofs.GcIso
import GluonModel.Proofs.GcCloneTotal

namespace GluonModel.Props.C13
open GluonModel.GcHeap

/-- Ownership of the copy (`deepClone_complete`). `Rel` is any set of objects containing the value
    and closed under the edges of the objects the cloner copies (e.g. `CopyReach`). -/
theorem deepClone_complete {s0 s' : State} {dst thr : HeapId} {rgen : Option Nat} {fixed : Bool}
    {Rel : Nat → Prop} (ctx : CloneCtx s0 dst rgen fixed Rel) {v r : Nat} (hv : Rel v)
    (h : deepClone s0 dst thr rgen fixed v = some (s', r)) :
    OKo s' dst r ∧ Ext s0 s' ∧ ∀ n, s0.next ≤ n → n < s'.next → Fin fixed s' dst thr n :=
  let ⟨_, h2, h3, h4⟩ := deepClone_post ctx hv h
  ⟨h3, h2, h4⟩

/-- Every transfer keeps "no heap holds a pointer into a heap that is neither itself nor an
    ancestor" (`Inv`), keeps every cell homed, and delivers a value the destination may hold. -/
theorem transfer_keeps_heaps_isolated {s s' : State} {sameVm fixed : Bool} {src dst : HeapId}
    {v r : Nat} (hwf : WF s) (hnd : NoDangling s) (hinv : Inv s) (hh : Homed s)
    (hlive : ∃ o, s.obj v = some o) (h0 : ∀ o, s.obj v = some o → o.owner <+: src)
    (hns : ∀ p o, CopyReach s (rgenFor sameVm src dst) v p → s.obj p = some o →
      o.kind = .shallow → fixed = true)
    (hcode : ∀ p o, CopyReach s (rgenFor sameVm src dst) v p → s.obj p = some o →
      o.kind = .code → o.owner = [])
    (h : transfer s sameVm src dst fixed v = some (s', r)) :
    WF s' ∧ Inv s' ∧ Homed s' ∧ OKo s' dst r :=
  transfer_inv' hwf hnd hinv hh hlive h0 hns hcode h

/-- With the repaired cloner no hypothesis about arrays of strings is needed. -/
theorem transfer_keeps_heaps_isolated_fixed {s s' : State} {sameVm : Bool} {src dst : HeapId}
    {v r : Nat} (hwf : WF s) (hnd : NoDangling s) (hinv : Inv s) (hh : Homed s)
    (hlive : ∃ o, s.obj v = some o) (h0 : ∀ o, s.obj v = some o → o.owner <+: src)
    (hcode : ∀ p o, CopyReach s (rgenFor sameVm src dst) v p → s.obj p = some o →
      o.kind = .code → o.owner = [])
    (h : transfer s sameVm src dst true v = some (s', r)) :
    WF s' ∧ Inv s' ∧ Homed s' ∧ OKo s' dst r :=
  transfer_inv' hwf hnd hinv hh hlive h0 (fun _ _ _ _ _ => rfl) hcode h

/-- The generation shortcut (value.rs:1560) is sound under `can_share_values_with`. -/
theorem shortcut_sound {s : State} {v0 : Nat} {src dst : HeapId} (hinv : Inv s) (hh : Homed s)
    (h0 : ∀ o, s.obj v0 = some o → o.owner <+: src) (hcs : src <+: dst ∨ dst <+: src)
    {p : Nat} {op : Obj} (hp : CopyReach s (some dst.length) v0 p) (hop : s.obj p = some op)
    (hs : shareable s (some dst.length) p = true) : op.owner <+: dst :=
  shortcut_sound' hinv hh h0 hcs hp hop hs

/-- The same in terms of what the cloner actually tests, `receiver_generation` (`rgenFor`: the
    generation of `dst` on one ancestor line, the disjoint generation otherwise): whatever
    `receiver_generation.can_contain_values_from` lets through is owned by `dst` or an ancestor —
    for EVERY pair of threads, related or not. -/
theorem shortcut_sound_receiver_generation {s : State} {v0 : Nat} {sameVm : Bool}
    {src dst : HeapId} (hinv : Inv s) (hh : Homed s)
    (h0 : ∀ o, s.obj v0 = some o → o.owner <+: src)
    {p : Nat} {op : Obj} (hp : CopyReach s (rgenFor sameVm src dst) v0 p) (hop : s.obj p = some op)
    (hs : shareable s (rgenFor sameVm src dst) p = true) : op.owner <+: dst := by
  rcases rgenFor_cases (sameVm := sameVm) (src := src) (dst := dst) with ⟨hr, hcs⟩ | hr
  · rw [hr] at hp hs
    exact shortcut_sound' hinv hh h0 hcs hp hop hs
  · rw [hr] at hs
    unfold shareable at hs; simp [hop] at hs

/-- Counter-model for testing against the generation OF THE RECEIVING HEAP instead
    (`self.gc.generation()`): generations are only depths, so for siblings `[0,0]` → `[0,1]` the
    test `value.generation <= 2` lets the sender's own cell (object 3 of `cellArr`, owned by
    `[0,0]`) through although a full clone was demanded (`rgenFor = none`). -/
def cellArr : State := State.ofList [
  ⟨[], [0], .thread, [1, 2]⟩,
  ⟨[0], [0, 0], .thread, [5]⟩,
  ⟨[0], [0, 1], .thread, []⟩,
  ⟨[0, 0], [0, 0], .cell, [4]⟩,
  ⟨[0, 0], [0, 0], .plain, []⟩,
  ⟨[0, 0], [0, 0], .uarr, [3, 3]⟩ ]

theorem heap_generation_shortcut_fails :
    rgenFor true [0, 0] [0, 1] = none ∧
    shareable cellArr (rgenFor true [0, 0] [0, 1]) 3 = false ∧
    shareable cellArr (some ([0, 1] : HeapId).length) 3 = true ∧
    (cellArr.obj 3).map (fun o => decide (o.owner <+: [0, 1])) = some false := by
  decide

/-- The element path of arrays of userdata (`deep_clone_userdata`, value.rs:1666): every occurrence
    of an element is cloned on its own — here `[r, r]` moved to the sibling arrives as two
    different cells (8 and 9), both owned by the destination … -/
theorem deepClone_userdata_array_sharing_fails :
    (transfer cellArr true [0, 0] [0, 1] false 5).map
      (fun x => (x.1.obj x.2).map fun o => (o.owner, o.edges)) = some (some ([0, 1], [8, 9])) := by
  decide

/-- … and when the cell lives in a heap the receiver may share (`r` owned by the parent `[0]`,
    array built in the child `[0,0]`, moved to the parent) the element path still copies it,
    whereas the same cell in a record field stays the same cell. -/
def sharedCellArr : State := State.ofList [
  ⟨[], [0], .thread, [1, 2]⟩,
  ⟨[0], [0, 0], .thread, [4, 5]⟩,
  ⟨[0], [0], .cell, [3]⟩,
  ⟨[0], [0], .plain, []⟩,
  ⟨[0, 0], [0, 0], .uarr, [2]⟩,
  ⟨[0, 0], [0, 0], .plain, [2]⟩ ]

theorem deepClone_userdata_array_ignores_shortcut_fails :
    (transfer sharedCellArr true [0, 0] [0] false 4).map
      (fun x => (x.1.obj x.2).map fun o => o.edges) = some (some [7]) ∧
    (transfer sharedCellArr true [0, 0] [0] false 5).map
      (fun x => (x.1.obj x.2).map fun o => o.edges) = some (some [2]) := by
  decide

/-- The repaired rule (elements through the ordinary rule) keeps both. -/
theorem deepClone_userdata_array_fixed :
    (transfer cellArr true [0, 0] [0, 1] true 5).map
      (fun x => (x.1.obj x.2).map fun o => o.edges) = some (some [7, 7]) ∧
    (transfer sharedCellArr true [0, 0] [0] true 4).map
      (fun x => (x.1.obj x.2).map fun o => o.edges) = some (some [2]) := by
  decide

/-- `deep_clone_value` applies the shortcut only when it is sound, and copies everything
    otherwise. -/
theorem rgenFor_sound (sameVm : Bool) (src dst : HeapId) :
    (rgenFor sameVm src dst = some dst.length ∧ (src <+: dst ∨ dst <+: src)) ∨
    rgenFor sameVm src dst = none :=
  rgenFor_cases

/-- After the transfer, whatever thread is collected (the sender, the receiver, an ancestor),
    everything below a value some thread holds — in particular the copy — is left intact. -/
theorem transfer_survives {s s' : State} {t : HeapId} {r : Nat} (hwf : WF s) (hinv : Inv s)
    (hh : Homed s) (hg : GRootsGlobal s) (ht : t ≠ []) (hroot : AllRoots s r)
    (hc : collect s t = some s') {p : Nat} {op : Obj} (hp : Reach s (fun x => x = r) p)
    (hop : s.obj p = some op) : s'.obj p = some op :=
  held_value_survives hwf hinv hh hg ht hroot hc hp hop

/-- **Isomorphism** (`deepClone_iso`): the copy is isomorphic to the source graph below the value —
    sharing and cycles preserved. With `φ := phi s0 rgen vis` (the final `visited` map; identity
    on objects shared by the generation shortcut and on bytecode): the result is `φ v0`; `vis` is
    a BIJECTION between the copied source objects and the objects the clone allocated
    (injective, onto `[s0.next, s'.next)`); for every pair `x ↦ n` the new object `n` is owned by
    `dst`, has the kind of `x` and its out-edges are exactly the `φ`-images of the out-edges of
    `x` (φ commutes with edges); nothing that existed is modified. Hypotheses: `CloneCtx` (as for
    `deepClone_complete`) and every copied mutable cell goes through `visited` (the repaired
    cloner, or no cell is copied — for the code as it is, `deepClone_sharing_cell_fails` below shows
    the statement is false for a cell reached twice). -/
theorem deepClone_iso {s0 s' : State} {dst thr : HeapId} {rgen : Option Nat} {fixed : Bool}
    {Rel : Nat → Prop} (ctx : CloneCtx s0 dst rgen fixed Rel)
    (hcell : ∀ v o, Rel v → s0.obj v = some o → shareable s0 rgen v = false → BypassKind o.kind →
      fixed = true)
    {v0 r : Nat} (hv : Rel v0) (h : deepClone s0 dst thr rgen fixed v0 = some (s', r)) :
    ∃ vis : List (Nat × Nat),
      r = phi s0 rgen vis v0 ∧ Resolved s0 rgen vis v0 ∧
      (∀ x n, lookupVis vis x = some n →
        Rel x ∧ s0.next ≤ n ∧ n < s'.next ∧
        ∃ ox on, s0.obj x = some ox ∧ s'.obj n = some on ∧ on.kind = ox.kind ∧ on.owner = dst ∧
          on.edges = ox.edges.map (phi s0 rgen vis) ∧ ∀ e ∈ ox.edges, Resolved s0 rgen vis e) ∧
      (∀ x y n, lookupVis vis x = some n → lookupVis vis y = some n → x = y) ∧
      (∀ n, s0.next ≤ n → n < s'.next → ∃ x, lookupVis vis x = some n) ∧
      Ext s0 s' :=
  deepClone_iso' ctx hcell hv h

/-- …and the bijection covers everything the cloner enters: every object reachable from the value
    through copied objects is shared, bytecode, or has its copy. -/
theorem deepClone_iso_covers {s0 : State} {rgen : Option Nat} {vis : List (Nat × Nat)} {v0 : Nat}
    (h0 : Resolved s0 rgen vis v0)
    (hent : ∀ x n, lookupVis vis x = some n → ∃ ox, s0.obj x = some ox ∧
      ∀ e ∈ ox.edges, Resolved s0 rgen vis e)
    {p : Nat} (hp : Copied s0 rgen v0 p) : Resolved s0 rgen vis p :=
  copied_resolved h0 hent hp

/-- **Totality**: the fuel of the executable cloner always suffices — `deepClone` returns `none`
    only as a genuine refusal (an uncloneable userdata or a thread below the value). Same
    hypotheses as `deepClone_iso` plus "nothing uncloneable below the value". -/
theorem deepClone_total {s0 : State} {dst thr : HeapId} {rgen : Option Nat} {fixed : Bool}
    {Rel : Nat → Prop} (T : TotalCtx s0 dst rgen fixed Rel) {v : Nat} (hv : Rel v) :
    ∃ s' r, deepClone s0 dst thr rgen fixed v = some (s', r) :=
  deepClone_total' T hv

/-! ### Witnesses -/

/-- threads `[0]`, `[0,0]`, `[0,1]`; an array of two strings built in `[0,0]`. -/
def strArr : State := State.ofList [
  ⟨[], [0], .thread, [1, 2]⟩,
  ⟨[0], [0, 0], .thread, [3]⟩,
  ⟨[0], [0, 1], .thread, []⟩,
  ⟨[0, 0], [0, 0], .shallow, [4, 5]⟩,
  ⟨[0, 0], [0, 0], .plain, []⟩,
  ⟨[0, 0], [0, 0], .plain, []⟩ ]

/-- Moving it to the parent thread copies the array but not the strings: the parent heap now
    points into the child heap (value.rs:1700), and collecting the child after the sender's handle
    is gone frees strings the parent still uses. -/
theorem deepClone_complete_string_array_fails :
    (transfer strArr true [0, 0] [0] false 3).map
      (fun x => (x.2, (x.1.obj x.2).map fun o => (o.owner, o.edges))) = some (6, some ([0], [4, 5])) ∧
    (transfer strArr true [0, 0] [0] false 3).map
      (fun x => (x.1.obj 4).map fun o => decide (o.owner <+: [0])) = some (some false) := by
  decide

/-- The repaired rule copies the strings too. -/
theorem deepClone_complete_string_array_fixed :
    (transfer strArr true [0, 0] [0] true 3).map
      (fun x => (x.2, (x.1.obj x.2).map fun o => (o.owner, o.edges))) = some (6, some ([0], [7, 8])) := by
  decide

/-- a record `{ a = r, b = r }` holding one reference cell twice, in thread `[0,0]`. -/
def sharedCell : State := State.ofList [
  ⟨[], [0], .thread, [1]⟩,
  ⟨[0], [0, 0], .thread, [2]⟩,
  ⟨[0, 0], [0, 0], .plain, [3, 3]⟩,
  ⟨[0, 0], [0, 0], .cell, [4]⟩,
  ⟨[0, 0], [0, 0], .plain, []⟩ ]

/-- The copy holds two DIFFERENT cells (userdata bypasses `visited`, value.rs:1582): a store through
    `a` is no longer seen through `b`. -/
theorem deepClone_sharing_cell_fails :
    (transfer sharedCell true [0, 0] [0] false 2).map
      (fun x => (x.1.obj x.2).map fun o => o.edges) = some (some [7, 8]) := by
  decide

theorem deepClone_sharing_cell_fixed :
    (transfer sharedCell true [0, 0] [0] true 2).map
      (fun x => (x.1.obj x.2).map fun o => o.edges) = some (some [6, 6]) := by
  decide

/-- A closure in VM 0 (`[0]`) whose code lives in VM 0's global heap (written `[9]` here to tell
    it from the global heap of the destination VM), moved into the unrelated VM 1 (`[1]`): the
    copy still points at `[9]` (value.rs:1722 copies `data.function` verbatim even under
    `force_full_clone`). -/
def foreignClosure : State := State.ofList [
  ⟨[9], [0], .thread, [3]⟩,
  ⟨[], [1], .thread, []⟩,
  ⟨[9], [9], .code, []⟩,
  ⟨[0], [0], .plain, [2, 4]⟩,
  ⟨[0], [0], .plain, []⟩ ]

theorem deepClone_foreign_code_fails :
    rgenFor false [0] [1] = none ∧
    (transfer foreignClosure false [0] [1] false 3).map
      (fun x => (x.1.obj x.2).map fun o => (o.owner, o.edges)) = some (some ([1], [2, 6])) := by
  decide

/-- siblings `[0,0]` and `[0,1]`: with the shortcut applied although the threads cannot share
    (`rgen = some 2` instead of `none`) the value of `[0,0]` would be handed to `[0,1]` uncopied. -/
theorem shortcut_without_can_share_fails :
    canShare true [0, 0] [0, 1] = false ∧ rgenFor true [0, 0] [0, 1] = none ∧
    (deepClone strArr [0, 1] [0, 1] (some 2) false 4).map (fun x => x.2) = some 4 ∧
    (deepClone strArr [0, 1] [0, 1] (rgenFor true [0, 0] [0, 1]) false 4).map
      (fun x => (x.2, (x.1.obj x.2).map fun o => o.owner)) = some (6, some [0, 1]) := by
  decide

/-- Sharing and cycles are preserved on these instances: `{ l = x, r = x }` and a two-object
    cycle, moved from `[0,0]` to the sibling `[0,1]` (full clone). -/
def sharedAndCyclic : State := State.ofList [
  ⟨[0, 0], [0, 0], .plain, [1, 1, 2]⟩,
  ⟨[0, 0], [0, 0], .plain, []⟩,
  ⟨[0, 0], [0, 0], .plain, [3]⟩,
  ⟨[0, 0], [0, 0], .plain, [2, 0]⟩ ]

theorem deepClone_iso_examples :
    (deepClone sharedAndCyclic [0, 1] [0, 1] none false 0).map
      (fun x => (below x.1 x.2).map fun i => (x.1.obj i).map fun o => (o.owner, o.edges)) =
      some [some ([0, 1], [5, 5, 6]), some ([0, 1], []), some ([0, 1], [7]), some ([0, 1], [6, 4])] := by
  decide

/-! Non-vacuity of the hypotheses of `transfer_keeps_heaps_isolated` on `sharedCell`. -/
example : (transfer sharedCell true [0, 0] [0] false 2).isSome = true := by decide
example : rgenFor true [0, 0] [0] = some 1 := by decide
example : rgenFor true [0] [0, 0, 3] = some 3 := by decide

end GluonModel.Props.C13
