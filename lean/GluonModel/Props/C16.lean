/-
C16 — "Compiling and running the same sources with the same settings always produces the same
result value, the same reported type text and the same diagnostics text, across repeated runs,
separate processes and separate VMs, and regardless of what was compiled earlier in the same VM."

The statement as a whole is about the real system and is checked by the property oracle of
`harness/src/bin/c16.rs` (byte-for-byte comparison of (value, type text, diagnostics text) under
different histories).  What is *proved* here are the three mechanisms through which history-
dependent state (variable ids, hash-map bucket order, absolute code-map positions) is kept — or
not kept — out of the observable text; the models are in `GluonModel.Determinism`, tied to the
code by the exact correspondence of the same harness.

  FULL STATEMENT (not provable on a model of this size; covered by the oracle):
    ∀ program p, settings s, histories h₁ h₂,  observe (run h₁ s p) = observe (run h₂ s p)

Only property theorems live here; the proofs are in `GluonModel.Proofs.Determinism`.
-/
import GluonModel.Determinism
import GluonModel.Proofs.Determinism
import GluonModel.Generated.MacroOrder

namespace GluonModel.Props.C16
open GluonModel.Determinism

/-! ### Type-variable names do not depend on variable ids -/

/-- History independence of the reported type: the ids of unification variables depend on
    everything that was checked before, but the generalised type (names of the `forall`
    parameters *and* the body) is the same for every injective renumbering of the ids. -/
theorem rename_invariant (ρ : Nat → Nat) (hρ : ∀ a b, ρ a = ρ b → a = b) (t : Ty) :
    generalizeTop (t.mapVars ρ) = generalizeTop t :=
  Proofs.generalizeTop_mapVars ρ hρ t

/-- The same, for the traversal itself with an arbitrary set of variables already named: the
    renamed type is identical and the new state is the renumbered old one. -/
theorem gen_invariant (ρ : Nat → Nat) (hρ : ∀ a b, ρ a = ρ b → a = b) (t : Ty) (σ : Subst) :
    gen (t.mapVars ρ) (Proofs.mapIds ρ σ) = ((gen t σ).1, Proofs.mapIds ρ (gen t σ).2) :=
  Proofs.gen_mapVars ρ hρ t σ

/-- generalize.rs:111-123 drains a hash map keyed by variable id and then sorts by name: whatever
    order the drain produces, the `forall` parameter list is the same. -/
theorem forall_params_order_independent (l₁ l₂ : List (List Nat)) (h : l₁.Perm l₂) :
    sortNames l₁ = sortNames l₂ :=
  Proofs.sortNames_perm l₁ l₂ h

-- non-vacuity: two "histories" of the type of `\f x y -> f y x`
example : generalizeTop (.fn (.fn (.var 7) (.fn (.var 3) (.var 9))) (.fn (.var 3) (.fn (.var 7) (.var 9))))
    = ([[97], [97, 48], [97, 49]], .fn (.fn (.var 0) (.fn (.var 1) (.var 2))) (.fn (.var 1) (.fn (.var 0) (.var 2)))) := by
  unfold generalizeTop
  refine Prod.ext ?_ (by decide)
  apply Proofs.sortNames_eq <;> decide
example : generalizeTop (.fn (.fn (.var 100) (.fn (.var 2) (.var 1))) (.fn (.var 2) (.fn (.var 100) (.var 1))))
    = ([[97], [97, 48], [97, 49]], .fn (.fn (.var 0) (.fn (.var 1) (.var 2))) (.fn (.var 1) (.fn (.var 0) (.var 2)))) := by
  unfold generalizeTop
  refine Prod.ext ?_ (by decide)
  apply Proofs.sortNames_eq <;> decide
-- the sort matters: from the twelfth variable on, name order differs from generation order
example : sortNames [nameCodes 11, nameCodes 2, nameCodes 0, nameCodes 3]
    = [nameCodes 0, nameCodes 2, nameCodes 11, nameCodes 3] := by
  apply Proofs.sortNames_eq <;> decide
example : [nameCodes 11, nameCodes 2].Perm [nameCodes 2, nameCodes 11] := List.Perm.swap _ _ _

/-! ### Match arms are grouped in first-occurrence order, whatever the hasher does -/

/-- vm/src/core/mod.rs:1748-1769 / 1885-1906: arms are collected in a `std::collections::HashMap`
    (randomly seeded SipHash, keys hashed by *pointer*), but the alternatives are emitted by
    walking `group_order`.  For every placement `pos` of new keys in the map's iteration order
    the result is the specification: keys in order of first occurrence, members in source
    order. -/
theorem group_order_hash_independent {α κ : Type} [DecidableEq κ]
    (pos : κ → Nat → Nat) (key : α → κ) (xs : List α) :
    groupsImpl pos key xs = groupsSpec key xs :=
  Proofs.groupsImpl_eq_spec pos key xs

/-- Two runs with different hashers agree. -/
theorem group_order_deterministic {α κ : Type} [DecidableEq κ]
    (pos₁ pos₂ : κ → Nat → Nat) (key : α → κ) (xs : List α) :
    groupsImpl pos₁ key xs = groupsImpl pos₂ key xs := by
  rw [group_order_hash_independent, group_order_hash_independent]

example : groupsImpl (fun k n => (k * 5 + 1) % (n + 1)) (fun x : Nat => x % 3) [4, 2, 7, 3, 5, 1]
    = [(1, [4, 7, 1]), (2, [2, 5]), (0, [3])] := by decide
example : groupsSpec (fun x : Nat => x % 3) [4, 2, 7, 3, 5, 1]
    = [(1, [4, 7, 1]), (2, [2, 5]), (0, [3])] := by decide

/-! ### The name of a record pattern's `?` binding DOES depend on history (known finding) -/

/-- The unchanged code violates the property: the binding that an `{ …, ? }` pattern introduces
    is named after its absolute position in the VM-wide code map, so the same source gets a
    different name — which is printed in "Unable to resolve implicit" diagnostics
    (check/src/implicits.rs:307) — when other sources were added before.
    Witness replayed on the real code: `undefined_y + 1` with the implicit prelude reports
    `implicit?1069.num` in a fresh VM and `implicit?1084.num` after unrelated compilations. -/
theorem implicit_name_history_independent_fails :
    ¬ ∀ (h₁ h₂ : List Nat) (rel : Nat), implicitPos h₁ rel = implicitPos h₂ rel := by
  intro h
  have := h [] [3] 0
  revert this
  decide

/-- What does hold: the name depends on the history only through the start of the file, and a
    longer history never yields a smaller number. -/
theorem implicit_name_partial (h : List Nat) (len rel : Nat) :
    implicitPos (h ++ [len]) rel = implicitPos h rel + len + 1 := by
  simp only [implicitPos, Proofs.fileStart_append]
  omega

/-- With the suggested fix (offset inside the own file) the name is history independent. -/
theorem implicit_name_fixed (h₁ h₂ : List Nat) (rel : Nat) :
    implicitPosFixed h₁ rel = implicitPosFixed h₂ rel := rfl

example : implicitPos [] 29 = 30 := by decide
example : implicitPos [25] 34 = 61 := by decide

/-! ### Errors of concurrently running macro expansions are reported in source order -/

/-- vm/src/macros.rs:495-516: whatever order the expansions complete in (any permutation of
    the futures that were tagged with their source index *before* entering the
    `FuturesUnordered`), the reported errors are exactly the failures in source order.  Hence the
    diagnostics do not depend on task scheduling, on which imported module is slower, or on
    which of them was compiled (memoized) earlier in the same VM. -/
theorem errors_order_schedule_independent {ε : Type} (results : List (Option ε))
    (arrived : List (Option ε × Nat)) (h : arrived.Perm (tagTasks results)) :
    reportErrors arrived = results.filterMap id :=
  Proofs.reportErrors_of_perm results arrived h

/-- Two schedules agree. -/
theorem errors_order_deterministic {ε : Type} (results : List (Option ε))
    (a₁ a₂ : List (Option ε × Nat)) (h₁ : a₁.Perm (tagTasks results)) (h₂ : a₂.Perm (tagTasks results)) :
    reportErrors a₁ = reportErrors a₂ := by
  rw [errors_order_schedule_independent results a₁ h₁, errors_order_schedule_independent results a₂ h₂]

/-- Numbering the results after collection (`.collect::<FuturesUnordered<_>>().enumerate()`)
    makes the later sort a no-op: the report is the completion order. -/
theorem late_numbering_reports_completion_order {ε : Type} (arrived : List (Option ε)) :
    reportErrorsLateNumbering arrived = arrived.filterMap id :=
  Proofs.reportErrorsLateNumbering_eq arrived

/-- … and therefore depends on the schedule: the same two failing expansions, completing in
    the two possible orders, give two different reports. -/
theorem late_numbering_schedule_dependent_fails :
    ¬ ∀ (a₁ a₂ : List (Option Nat)), a₁.Perm a₂ →
        reportErrorsLateNumbering a₁ = reportErrorsLateNumbering a₂ := by
  intro h
  have := h [some 1, some 2] [some 2, some 1] (List.Perm.swap _ _ _)
  rw [late_numbering_reports_completion_order, late_numbering_reports_completion_order] at this
  revert this
  decide

/-- Tie to the source (regenerated from vm/src/macros.rs on every run by
    `translate/c16_macro_order.py`): the futures are tagged before they are collected, the loop
    records failures with the tag, a stable sort by tag follows, and the sorted errors are what
    is appended to `self.errors` — the shape `reportErrors` models. -/
theorem macro_expansions_tagged_before_collection :
    (Generated.MacroOrder.tagBeforeCollect && Generated.MacroOrder.loopDestructuresTag
      && Generated.MacroOrder.pushesWithIndex && Generated.MacroOrder.sortsByIndexStable
      && Generated.MacroOrder.reportsSorted) = true := by
  decide

-- non-vacuity: three expansions, the first and the last fail, the last one completes first
example : [(some "late", 2), (none, 1), (some "early", 0)].Perm
    (tagTasks [some "early", (none : Option String), some "late"]) := by decide
example : reportErrors [(some 7, 2), (none, 1), (some 5, 0)] = [5, 7] := by
  rw [errors_order_schedule_independent [some 5, none, some 7] _ (by decide)]
  rfl

end GluonModel.Props.C16
