/-
C12 — "Serialising a compiled module to bytecode and loading it back - in the same or in a fresh
VM - yields a module that evaluates to the same result as compiling and running the source
directly. Loading bytecode that refers to something the VM does not define, or that is truncated,
fails with an error rather than crashing."

Models: `GluonModel.Share` (the Marked/Plain/Reference sharing scheme of base/src/serialization.rs
and vm/src/serialization.rs, over an abstract heap graph, with self-delimiting framing) and
`GluonModel.Loader` (resolution of a module's globals, vm/src/vm.rs:53-73).
Only property theorems live here; lemmas are in `GluonModel.Proofs.Share`.
-/
import GluonModel.Share
import GluonModel.Loader
import GluonModel.Proofs.Share
import GluonModel.JsonStr
import GluonModel.Proofs.JsonStr
import GluonModel.LoadVerify
import GluonModel.Proofs.LoadVerify
import GluonModel.ModuleRec
import GluonModel.Proofs.ModuleRec
import GluonModel.InstrJson
import GluonModel.JsonText
import GluonModel.Generated.Instr
import GluonModel.Generated.InstrTable
import GluonModel.InstrVerify
import GluonModel.Proofs.InstrJson

namespace GluonModel.Props.C12
open GluonModel.Share GluonModel.Loader

/-- Round trip including sharing AND CYCLES: for every heap graph — possibly cyclic, the cycles
    passing only through fillable objects (closures, in their upvar part) — whose shared objects are
    consistent (`Agrees h ∅ t`; `∅` = at the root no closure is being filled), deserialising the serialised form succeeds and yields the *same graph up to the
    renaming of addresses* `rho m` (`m` = the serialiser's final pointer→id table): every field of
    every node survives, shared nodes stay shared, unshared (`unique`) nodes stay unshared. -/
theorem de_ser (h : Nat → T) (t : T) (hag : Agrees h (fun _ => False) t) :
    de (ser t) = .ok (relabel (serD [] t).2 t) := by
  obtain ⟨nm', hde, _, _, _⟩ :=
    Proofs.roundtrip h t [] [] (fun _ => False) (fun _ => False) hag (Proofs.inv_empty h)
      (by intro a _; exact ⟨fun hf => hf, fun hf => hf⟩)
  have hp : parse (2 * (flat (serD [] t).1).length + 2) (flat (serD [] t).1 ++ []) =
      some ((serD [] t).1, []) :=
    Proofs.parse_flat _ _ [] (by have := Proofs.cost_le (serD [] t).1; omega)
  simp only [List.append_nil] at hp
  simp [de, ser, hp, hde]

/-- … and that renaming is injective on the shared nodes of the graph: two nodes are the same
    object after loading iff they were the same object before. -/
theorem de_ser_sharing (h : Nat → T) (t : T) (hag : Agrees h (fun _ => False) t) (a a' : Nat)
    (ha : a ∈ addrs t ∨ a ∈ ptrs t) (ha' : a' ∈ addrs t ∨ a' ∈ ptrs t)
    (he : rho (serD [] t).2 a = rho (serD [] t).2 a') : a = a' := by
  obtain ⟨nm', _, hinv, _, hall⟩ :=
    Proofs.roundtrip h t [] [] (fun _ => False) (fun _ => False) hag (Proofs.inv_empty h)
      (by intro a _; exact ⟨fun hf => hf, fun hf => hf⟩)
  have h1 := hall a ha
  have h2 := hall a' ha'
  cases e1 : lookup a (serD [] t).2 with
  | none => exact absurd e1 h1
  | some i =>
    cases e2 : lookup a' (serD [] t).2 with
    | none => exact absurd e2 h2
    | some j =>
      simp [rho, e1, e2] at he
      subst he
      exact hinv.inj a a' i e1 e2

/-- Hence the loaded graph denotes the same value (sharing forgotten). -/
theorem de_ser_value (h : Nat → T) (t t' : T) (hag : Agrees h (fun _ => False) t) (hd : de (ser t) = .ok t') :
    unfold t' = unfold t := by
  rw [de_ser h t hag] at hd
  cases hd
  exact Proofs.unfold_relabel _ t

/-- Truncation: every proper prefix of a serialised graph is rejected (as "input ended"), for
    *every* graph — no consistency hypothesis. -/
theorem de_prefix_fails (t : T) (p q : List Tok) (hq : q ≠ []) (he : p ++ q = ser t) :
    de p = .error .eof := by
  have := Proofs.parse_prefix_none (serD [] t).1 (2 * p.length + 2) p q hq he
  simp [de, this]

/-- The framing is lossless: what `flat` writes, `parse` reads back, leaving the rest untouched. -/
theorem parse_flat (d : D) (rest : List Tok) :
    parse (2 * (flat d ++ rest).length + 2) (flat d ++ rest) = some (d, rest) :=
  Proofs.parse_flat d _ rest (by
    have := Proofs.cost_le d
    simp only [List.length_append]; omega)

/-- `de` is total with exactly four outcomes: a graph, "input ended", "missing id n"
    (base/src/serialization.rs:274, vm/src/serialization.rs:606), "closure sequence too short"
    (vm/src/serialization.rs:568-577 `invalid_length`). -/
theorem de_total (toks : List Tok) :
    (∃ t, de toks = .ok t) ∨ de toks = .error .eof ∨ de toks = .error .invalid ∨
      ∃ id, de toks = .error (.missing id) := by
  cases h : de toks with
  | ok t => exact .inl ⟨t, rfl⟩
  | error e =>
    cases e with
    | eof => exact .inr (.inl rfl)
    | invalid => exact .inr (.inr (.inl rfl))
    | missing id => exact .inr (.inr (.inr ⟨id, rfl⟩))

/-- The hypothesis "cycles pass only through fillable objects" is needed, and the real
    deserialiser behaves as the model says (correspondence stream C, `cyc-record-root`): the value of
    `rec let r = { x = 1, f = \y -> r.x #Int+ y } in r` — a cycle *entered through the record* —
    serialises (the record's address is in `node_to_id`) but cannot be read back: `missing id 0`,
    because `SharedSeed` enters a record into the NodeMap only after its fields. Entered through the
    closure (`r.f`) the same cycle round-trips (`exCycle` below). -/
theorem cycle_through_record_rejected :
    de (ser (.node 0 false 0 [.atom 1, .clo 1 4 [] [.ptr 0 0]])) = .error (.missing 0) := by
  rfl




/-! #### Acyclicity is not a hypothesis: it follows from consistency (round 4)

    `Agrees` asks, besides consistency with a heap, that no object be unfolded inside itself
    (`addr ∉ addrsL kids`). That clause is derivable: in a finite term an object unfolded inside its
    own unfolding would be a proper subterm equal to the whole. So the round trip holds for every
    *consistent* term — the only remaining side condition is the one about back edges (they target
    closures being filled), which is exactly what the real deserialiser needs
    (`cycle_through_record_rejected`). -/

/-- `Consistent` (no acyclicity clause) and `Agrees` describe the same graphs. -/
theorem consistent_iff_agrees (h : Nat → T) (F : Nat → Prop) (t : T) :
    Consistent h F t ↔ Agrees h F t :=
  ⟨Proofs.consistent_agrees h t F, Proofs.agrees_consistent h t F⟩

/-- The round trip with sharing and cycles, from consistency alone. -/
theorem de_ser_of_consistent (h : Nat → T) (t : T) (hc : Consistent h (fun _ => False) t) :
    de (ser t) = .ok (relabel (serD [] t).2 t) :=
  de_ser h t (Proofs.consistent_agrees h t _ hc)

/-- … and the renaming is injective on everything the graph mentions. -/
theorem de_ser_sharing_of_consistent (h : Nat → T) (t : T)
    (hc : Consistent h (fun _ => False) t) (a a' : Nat)
    (ha : a ∈ addrs t ∨ a ∈ ptrs t) (ha' : a' ∈ addrs t ∨ a' ∈ ptrs t)
    (he : rho (serD [] t).2 a = rho (serD [] t).2 a') : a = a' :=
  de_ser_sharing h t (Proofs.consistent_agrees h t _ hc) a a' ha ha' he

/-- An object unfolded inside a consistent term is never larger than the term (the size argument
    behind the derivation). -/
theorem unfolded_object_not_larger (h : Nat → T) (F : Nat → Prop) (t : T) (a : Nat)
    (hc : Consistent h F t) (ha : a ∈ addrs t) : size (h a) ≤ size t :=
  Proofs.size_of_mem h a t F hc ha


/-- Loading and serialising again reproduces the stream: the loaded graph gets the same Marked /
    Plain / Reference skeleton with the same ids (what tests/serialization.rs `roundtrip` and the
    harness oracle `value-roundtrip:sharing` observe on the real code). -/
theorem reser_stable (h : Nat → T) (t t' : T) (hc : Consistent h (fun _ => False) t)
    (hd : de (ser t) = .ok t') : ser t' = ser t := by
  have hag := Proofs.consistent_agrees h t _ hc
  obtain ⟨nm', _, hinv, _, hall⟩ :=
    Proofs.roundtrip h t [] [] (fun _ => False) (fun _ => False) hag (Proofs.inv_empty h)
      (by intro a _; exact ⟨fun hf => hf, fun hf => hf⟩)
  rw [de_ser h t hag] at hd
  cases hd
  have := (Proofs.reser (serD [] t).2 hinv.inj t [] [] Proofs.Rel.nil (Proofs.Ext.refl _) hall).1
  simp only [ser, this]

/-- Hence load ∘ save is idempotent on what it produces: a second round trip returns the same
    graph as the first. -/
theorem de_ser_idempotent (h : Nat → T) (t t' : T) (hc : Consistent h (fun _ => False) t)
    (hd : de (ser t) = .ok t') : de (ser t') = .ok t' := by
  rw [reser_stable h t t' hc hd]; exact hd

/-! #### The text layer under names and string constants -/
section Text
open GluonModel.JsonStr

/-- JSON string escaping (as serde_json writes it) followed by unescaping (as it reads it) is the
    identity on EVERY string: operator names containing `\`, quotes, control characters, non-ASCII
    — whatever name or constant a compiled module carries comes back unchanged, provided the
    deserialiser takes the unescaped (owned) string. -/
theorem json_string_roundtrip (s : List Char) : unescape (escape s) = some s :=
  JsonStr.Proofs.unescape_escape s

/-- Why a *borrowed* `&str` cannot be demanded (the seeded change C12-symbol-borrowed-str): the
    written form of the operator name `/\` differs from the name, so no slice of the input is the
    name. -/
theorem escaped_name_differs : escape "/\\".toList ≠ "/\\".toList := by decide

example : escape "a\"b\\c\n\x01é".toList = "a\\\"b\\\\c\\n\\u0001é".toList := by decide
example : unescape "\\u00e9\\/".toList = some "é/".toList := by decide
example : unescape "\\q".toList = none := by decide

end Text

/-! #### The module record: every field is written and read back

    `Generated.ModuleFields.structs` is extracted from the Rust structs on every run
    (translate/module_fields.py). A field added to or removed from `CompiledFunction` & co., or
    given `serde(skip…)`/`serde(default)`, changes the table and breaks the two `decide` theorems;
    the table itself is tied to what serde really writes by the `fields` correspondence (key order
    of the real JSON) and by the Debug-equality oracle on real modules. -/
section ModuleRecord
open GluonModel.ModuleRec GluonModel.Generated.ModuleFields

/-- The serialised structs and their fields, in declaration order. -/
theorem module_fields_listed :
    structs.map (fun s => (s.name, s.fields.map (·.name))) =
      [("Module", ["typ", "metadata", "module"]),
       ("CompiledModule", ["module_globals", "function"]),
       ("CompiledFunction", ["args", "max_stack_size", "id", "typ", "instructions",
          "inner_functions", "strings", "records", "debug_info"]),
       ("DebugInfo", ["source_map", "local_map", "upvars", "source_name"]),
       ("UpvarInfo", ["name", "typ"]),
       ("SourceMap", ["map"]),
       ("LocalMap", ["map"]),
       ("Local", ["start", "end", "index", "name", "typ"])] := by
  decide

/-- No field of these structs is skipped or defaulted in either direction; both directions are
    derived; names are unique. -/
theorem module_schema_no_skips : noSkips structs = true := by decide

/-- (de ∘ ser) is the identity on every module tree that is an instance of the real schema. -/
theorem module_roundtrip (v : V) (hc : Conforms structs v) : deV structs (serV structs v) = some v :=
  ModuleRec.Proofs.roundtripV structs module_schema_no_skips v hc

/-- … for ANY schema that skips nothing (what the theorem above rests on). -/
theorem schema_roundtrip (sc : Schema) (hns : noSkips sc = true) (v : V) (hc : Conforms sc v) :
    deV sc (serV sc v) = some v :=
  ModuleRec.Proofs.roundtripV sc hns v hc

/-- The hypothesis is needed: with `max_stack_size` marked `serde(skip_serializing)` the value is
    rejected on load (missing field); with `serde(skip)` it loads with the field defaulted. -/
def skipSchema (ser de : Bool) : Schema :=
  [⟨"F", true, true, [⟨"args", "VmIndex", false, false, false⟩,
                      ⟨"max_stack_size", "VmIndex", ser, de, false⟩]⟩]
def exF : V := .struct "F" [("args", .leaf 1), ("max_stack_size", .leaf 5)]

theorem module_roundtrip_needs_no_skip :
    deV (skipSchema true false) (serV (skipSchema true false) exF) = none ∧
    deV (skipSchema true true) (serV (skipSchema true true) exF) =
      some (.struct "F" [("args", .leaf 1), ("max_stack_size", .leaf 0)]) := by
  constructor <;> rfl

/-- Non-vacuity: a module `{ typ, metadata, module = { module_globals, function = { …, one inner
    function, debug info with one local and one upvar } } }` is an instance of the real schema. -/
def exDebug : V := .struct "DebugInfo"
  [("source_map", .struct "SourceMap" [("map", .seq [.leaf 0])]),
   ("local_map", .struct "LocalMap" [("map", .seq [.struct "Local"
      [("start", .leaf 0), ("end", .leaf 3), ("index", .leaf 0), ("name", .leaf 7), ("typ", .leaf 8)]])]),
   ("upvars", .seq [.struct "UpvarInfo" [("name", .leaf 1), ("typ", .leaf 8)]]),
   ("source_name", .leaf 2)]
def exFun (inner : List V) : V := .struct "CompiledFunction"
  [("args", .leaf 1), ("max_stack_size", .leaf 4), ("id", .leaf 3), ("typ", .leaf 8),
   ("instructions", .seq [.leaf 10, .leaf 11]), ("inner_functions", .seq inner),
   ("strings", .seq []), ("records", .seq [.seq [.leaf 5]]), ("debug_info", exDebug)]
def exModule : V := .struct "Module"
  [("typ", .leaf 8), ("metadata", .leaf 9),
   ("module", .struct "CompiledModule" [("module_globals", .seq [.leaf 6]), ("function", exFun [exFun []])])]

example : Conforms structs exModule := by
  simp [Conforms, ConformsL, ConformsF, exModule, exFun, exDebug, fieldsOf, structs]
example : deV structs (serV structs exModule) = some exModule := module_roundtrip _ (by
  simp [Conforms, ConformsL, ConformsF, exModule, exFun, exDebug, fieldsOf, structs])

end ModuleRecord

/-! #### Loading a module whose globals are not all defined

    FULL STATEMENT (what the property asks): `∀ env gs, resolveGlobals env gs ≠ .panic`.
    It is FALSE for the code as it is (`load_missing_global_fails`, reproduced on the real VM:
    known finding `panic:missing-module:ICE: Global is missing from environment`). Proved instead:
    no panic when every global is defined (`load_defined_partial`), and the one-line repair never
    panics and reports exactly the missing-global case as an error (`load_fixed`). -/

theorem load_missing_global_fails : ∃ env gs, resolveGlobals env gs = .panic :=
  ⟨[], ["gvmod"], rfl⟩

theorem load_defined_partial (env : List (String × Nat)) (gs : List String)
    (hd : ∀ g ∈ gs, lookup g env ≠ none) : ∃ vs, resolveGlobals env gs = .ok vs := by
  induction gs with
  | nil => exact ⟨[], rfl⟩
  | cons g gs ih =>
    obtain ⟨vs, hvs⟩ := ih (fun x hx => hd x (List.mem_cons_of_mem _ hx))
    cases hl : lookup g env with
    | none => exact absurd hl (hd g (List.mem_cons_self ..))
    | some v => exact ⟨v :: vs, by simp [resolveGlobals, hl, hvs]⟩

theorem load_fixed (env : List (String × Nat)) (gs : List String) :
    resolveGlobalsFixed env gs ≠ .panic ∧
      ((∃ g ∈ gs, lookup g env = none) → resolveGlobalsFixed env gs = .error) := by
  induction gs with
  | nil => exact ⟨by simp [resolveGlobalsFixed], by rintro ⟨g, hg, _⟩; cases hg⟩
  | cons g gs ih =>
    cases hl : lookup g env with
    | none => exact ⟨by simp [resolveGlobalsFixed, hl], fun _ => by simp [resolveGlobalsFixed, hl]⟩
    | some v =>
      constructor
      · cases hr : resolveGlobalsFixed env gs with
        | ok vs => simp [resolveGlobalsFixed, hl, hr]
        | error => simp [resolveGlobalsFixed, hl, hr]
        | panic => exact absurd hr ih.1
      · rintro ⟨x, hx, hxn⟩
        have : ∃ g ∈ gs, lookup g env = none := by
          cases hx with
          | head => rw [hl] at hxn; cases hxn
          | tail _ hx => exact ⟨x, hx, hxn⟩
        simp [resolveGlobalsFixed, hl, ih.2 this]


/-! #### What a load-time verifier would have to establish (specification; gluon has none)

    FULL STATEMENT (what the property asks of `load`): damaged bytecode gives `Err`. It is FALSE
    for the code as it is (known findings `unvalidated-operand:panic` / `:process-killed`): operands
    are never checked. The precise `_fixed` statement: if loading ran `verified` (C07's frame
    verifier + the operand checks of `LoadVerify`) and rejected what fails it, then no execution of
    a loaded function could index a frame slot, the code, the string / record / upvar tables or the
    inner-function table out of range, and no closure allocation could exceed `max_stack_size`. -/
section Verifier
open GluonModel.LoadVerify GluonModel.StackVerify

/-- `Verified m → running m never indexes out of range`: at every reachable (pc, frame height) of
    an activation, there is an instruction at pc, the frame stays within `max_stack_size`, and every
    index that instruction uses is in range. -/
theorem load_verified_fixed (f : VFn) (hv : verified f = true) (pc h : Nat)
    (hr : Reach f.toFn pc h) :
    ∃ vi, f.code[pc]? = some vi ∧ h ≤ f.max ∧ vi.stack.after h ≤ f.max ∧
      ∀ a ∈ accesses vi pc h, InRange f h a :=
  LoadVerify.Proofs.step_in_range f hv pc h hr

/-- … and the property is inherited by every closure the function can create: the target of a
    `NewClosure`/`MakeClosure` exists, is itself verified, expects exactly the announced number of
    upvars, and that number is bounded by the frame (no 64 GB allocation). -/
theorem load_verified_closures (f : VFn) (hv : verified f = true) (vi : VInstr) (hm : vi ∈ f.code)
    (j u : Nat) (hr : vi.ref = .closure j u) :
    ∃ g, f.inner[j]? = some g ∧ g.upvars = u ∧ u ≤ f.max ∧ verified g = true :=
  LoadVerify.Proofs.closure_target f hv vi hm j u hr

/-- The real bytecode of `let f x = \y -> x #Int+ y in f 1 2` (corpus/C12/closure_operand.glu):
    module body, `f`, and the lambda. -/
def exLam : VFn := .mk 1 3 [⟨.pushc, .upvar 0⟩, ⟨.push 0, .none⟩, ⟨.binop, .none⟩, ⟨.ret, .none⟩] 0 [] 1 []
def exF' (upv : Nat) : VFn := .mk 1 4
  [⟨.new, .closure 0 upv⟩, ⟨.push 1, .none⟩, ⟨.push 0, .none⟩, ⟨.closeclosure 1, .none⟩,
   ⟨.push 1, .none⟩, ⟨.slide 1, .none⟩, ⟨.ret, .none⟩] 0 [] 0 [exLam]
def exTop (upv : Nat) : VFn := .mk 0 4
  [⟨.new, .closure 0 0⟩, ⟨.push 0, .none⟩, ⟨.closeclosure 0, .none⟩, ⟨.push 0, .none⟩, ⟨.pushc, .none⟩,
   ⟨.pushc, .none⟩, ⟨.tailcall 2, .none⟩, ⟨.slide 1, .none⟩, ⟨.ret, .none⟩] 0 [] 0 [exF' upv]

/-- compiler output passes … -/
example : verified (exTop 1) = true := by decide
/-- … the damaged module of the known finding (`NewClosure.upvars := 4294967295`) is rejected. -/
theorem load_unverified_rejected : verified (exTop 4294967295) = false := by decide

end Verifier

/-! #### Instruction payloads (round 5)

    `Generated.InstrEnum` is `enum Instruction` of vm/src/types.rs as the translator
    (translate/instructions.py) finds it on every run: the typed inductive `Instr`, the table
    `variants` (shape, member names, operand widths) and `toRaw`/`ofRaw`. `InstrJson` is serde's
    externally tagged JSON form, generic in the table — so the statements below are re-proved
    against whatever the enum is today. Tie to the code: every `instructions` array of every module
    the real compiler emits is parsed, decoded, encoded and printed by the driver and must
    reproduce the text exactly (stream `mod`); hand-damaged arrays are decoded by the real
    `serde_json::from_str::<Vec<Instruction>>` and by `decodeList` (stream `instrs`). -/
section Instructions
open GluonModel.InstrJson GluonModel.Generated GluonModel.Generated.InstrEnum GluonModel.InstrVerify

/-- Every instruction whose operands fit their Rust types is read back from its JSON form. -/
theorem instr_de_ser (i : Instr) (h : i.inRange = true) : decode (encode i) = some i :=
  InstrEnum.Proofs.decode_encode i h

/-- Different instructions have different JSON forms. -/
theorem instr_encode_injective (a b : Instr) (ha : a.inRange = true) (hb : b.inRange = true)
    (h : encode a = encode b) : a = b :=
  InstrEnum.Proofs.encode_injective a b ha hb h

/-- `Vec<Instruction>` (the `instructions` member of a `CompiledFunction`). -/
theorem instr_list_de_ser (is : List Instr) (h : is.all Instr.inRange = true) :
    decodeList (encodeList is) = some is :=
  InstrEnum.Proofs.decodeList_encodeList is h

theorem instr_list_encode_injective (as bs : List Instr) (ha : as.all Instr.inRange = true)
    (hb : bs.all Instr.inRange = true) (h : encodeList as = encodeList bs) : as = bs :=
  InstrEnum.Proofs.encodeList_injective as bs ha hb h

/-- The same for ANY enum table whose struct variants have distinct member names (what the
    theorems above rest on). -/
theorem enum_de_ser (tb : Table) (htb : tb.ok = true) (r : Raw) (hr : r.ok tb = true) :
    decodeRaw tb (encodeRaw tb r) = some r :=
  InstrJson.Proofs.decodeRaw_encodeRaw tb htb r hr

/-- The generated table is well formed, and it lists the same variants with the same number of
    operands as C01b's independently generated `instrTable` (whose `adjustGen` is used below). -/
theorem instr_table_wellformed :
    Table.ok variants = true ∧ keysNodup (variants.map (·.name)) = true ∧
    variants.map (fun v => (v.name, match v.shape with
      | .unit => 0 | .newtype _ => 1 | .struct fs => fs.length)) =
      instrTable.map (fun e => (e.1, e.2.length)) := by
  decide

/-- Reading is more liberal than writing, exactly as serde's derive is: the members of a struct
    variant may come in any order and unknown members are skipped. -/
theorem instr_members_any_order (fs : List (String × OpTy)) (ops : List Operand)
    (hok : opsOk fs ops = true) (kvs : List (String × J))
    (hn : keysNodup (kvs.map (·.1)) = true) (hsub : ∀ kj ∈ encodeFields fs ops, kj ∈ kvs) :
    decodePayload (.struct fs) (.obj kvs) = some ops :=
  InstrJson.Proofs.decodePayload_struct_any_order fs ops hok kvs hn hsub

/-- The range hypothesis is needed, and the reader rejects what does not fit: `Push(2^32)`, a
    byte of 256, a non-unit variant written as a bare string, a repeated member, a missing member,
    two variants in one object. -/
theorem instr_out_of_range_rejected :
    decode (.obj [("Push", .int 4294967296)]) = none ∧
    decode (.obj [("PushByte", .int 256)]) = none ∧
    decode (.obj [("Push", .int (-1))]) = none ∧
    decode (.obj [("Push", .flt ['1', '.', '5'])]) = none ∧
    decode (.str "Push") = none ∧
    decode (.obj [("NewRecord", .obj [("record", .int 0), ("args", .int 1), ("args", .int 1)])]) = none ∧
    decode (.obj [("NewRecord", .obj [("record", .int 0)])]) = none ∧
    decode (.obj [("Split", .null), ("Return", .null)]) = none ∧
    decode (.obj [("Nop", .null)]) = none := by
  decide

example : encode (.newRecord 0 2) = .obj [("NewRecord", .obj [("record", .int 0), ("args", .int 2)])] := by
  rfl
example : encode .split = .str "Split" := by rfl
example : encode (.pushInt (-5)) = .obj [("PushInt", .int (-5))] := by rfl
example : decode (.obj [("NewRecord", .obj [("args", .int 2), ("x", .arr []), ("record", .int 0)])]) =
    some (.newRecord 0 2) := by decide
example : decode (.obj [("NewRecord", .arr [.int 0, .int 2])]) = some (.newRecord 0 2) := by decide
example : decode (.obj [("Split", .null)]) = some .split := by decide
example : (Instr.newClosure 0 4294967295).inRange = true := by decide
example : [Instr.push 3, .split, .pushFloat "1.5e-7".toList, .pushInt (-9223372036854775808)].all
    Instr.inRange = true := by decide
example : JsonText.print (encodeList [.push 3, .split, .newRecord 0 2]) =
    "[{\"Push\":3},\"Split\",{\"NewRecord\":{\"record\":0,\"args\":2}}]".toList := by decide

/-- `Instruction::adjust` (C01b's generated `adjustGen`) and the frame effect the verifier uses
    (C07's `StackVerify`, transcribed from the interpreter) agree on every instruction that can
    execute at height `h` — except the three whose effect the compiler patches by hand. -/
theorem stack_effect_agrees_with_adjust (i : Instr) (k h : Nat) (hp : handPatched i = false)
    (hok : (toV k i).stack.okAt h = true) :
    (((toV k i).stack.after h : Nat) : Int) = (h : Int) + adjustOf i := by
  cases i <;> simp only [handPatched] at hp <;> (try cases hp) <;>
    simp [toV, adjustOf, adjustGen, Instr.kind, Instr.intOps,
      StackVerify.Instr.okAt, StackVerify.Instr.after, StackVerify.Instr.needs] at hok ⊢ <;>
    (try (replace hok := of_decide_eq_true hok)) <;>
    omega

example : handPatched (.constructRecord 0 3) = false ∧
    (toV 0 (.constructRecord 0 3)).stack.okAt 5 = true := by decide
/-- … and for those three they differ (so a verifier cannot be built from `adjust` alone). -/
example : (((toV 2 .split).stack.after 3 : Nat) : Int) ≠ 3 + adjustOf .split := by decide

/-- A module the driver answers `accept` for is `verified`, hence (`load_verified_fixed`) none of its
    activations indexes a slot, the code or a table out of range. The per-case check
    `emitted_modules_verified` (harness stream `mod`) demands `accept` for every module the real
    compiler emits. -/
theorem emitted_module_accept_sound (m : MFn) (hv : verdict m = "accept") (pc h : Nat)
    (hr : StackVerify.Reach m.toVFn.toFn pc h) :
    ∃ vi, m.toVFn.code[pc]? = some vi ∧ h ≤ m.toVFn.max ∧ vi.stack.after h ≤ m.toVFn.max ∧
      ∀ a ∈ LoadVerify.accesses vi pc h, LoadVerify.InRange m.toVFn h a := by
  have hver : LoadVerify.verified m.toVFn = true := by
    unfold verdict at hv
    by_cases h1 : m.frameSupported = true
    · by_cases h2 : LoadVerify.verified m.toVFn = true
      · exact h2
      · simp [h1, h2] at hv
    · by_cases h2 : LoadVerify.operandsOkDeep m.toVFn = true <;> simp [h1, h2] at hv
  exact load_verified_fixed m.toVFn hver pc h hr

/-- The real bytecode of `let f x = \y -> x #Int+ y in f 1 2` (corpus/C12/closure_operand.glu), now
    as the decoded instruction arrays: accepted; with `NewClosure.upvars := 4294967295` (in range for
    a `u32`, so it deserialises!) rejected. -/
def exMLam : MFn := .mk 1 3 [.pushUpVar 0, .push 0, .addInt, .return_] (some []) 0 [] 1 []
def exMF (upv : Nat) : MFn := .mk 1 4
  [.newClosure 0 upv, .push 1, .push 0, .closeClosure 1, .push 1, .slide 1, .return_] (some []) 0 [] 0 [exMLam]
def exMTop (upv : Nat) : MFn := .mk 0 4
  [.newClosure 0 0, .push 0, .closeClosure 0, .push 0, .pushInt 1, .pushInt 2, .tailCall 2, .slide 1,
   .return_] (some []) 0 [] 0 [exMF upv]

example : verdict (exMTop 1) = "accept" := by decide
example : verdict (exMTop 4294967295) = "reject" := by decide

end Instructions

/-! Non-vacuity: a graph with real sharing — a record `5` whose two fields are the same array `3`,
    plus an unshared (`unique`) node — meets `Agrees`, and its round trip is computed. -/

def exArr : T := .node 3 false 1 [.atom 7, .atom 8]
def exRec : T := .node 5 false 0 [exArr, .node 9 true 2 [.atom 1], exArr]
def exHeap : Nat → T := fun a => if a = 3 then exArr else exRec

example : Agrees exHeap (fun _ => False) exRec := by
  simp [Agrees, AgreesL, exRec, exArr, exHeap, addrsL, addrs]

/-- A cyclic graph: closure `1` whose upvar is the record `2` one of whose fields is the closure
    itself (`rec let r = { x = 1, f = \y -> … r … } in r.f`), and a second field sharing array `3`
    with the closure's function part. -/
def exCycle : T := .clo 1 4 [exArr] [.node 2 false 0 [.atom 1, .ptr 1 4, exArr]]
def exCycleHeap : Nat → T := fun a =>
  if a = 3 then exArr else if a = 2 then .node 2 false 0 [.atom 1, .ptr 1 4, exArr] else exCycle

example : Agrees exCycleHeap (fun _ => False) exCycle := by
  simp [Agrees, AgreesL, exCycle, exArr, exCycleHeap, addrsL, addrs, T.sort]
example : Consistent exCycleHeap (fun _ => False) exCycle := by
  simp [Consistent, ConsistentL, exCycle, exArr, exCycleHeap, T.sort]
example : Consistent exHeap (fun _ => False) exRec := by
  simp [Consistent, ConsistentL, exRec, exArr, exHeap]
example : de (ser exCycle) = .ok (relabel (serD [] exCycle).2 exCycle) :=
  de_ser_of_consistent exCycleHeap exCycle (by
    simp [Consistent, ConsistentL, exCycle, exArr, exCycleHeap, T.sort])
example : ser (relabel (serD [] exCycle).2 exCycle) = ser exCycle :=
  reser_stable exCycleHeap exCycle _ (by
    simp [Consistent, ConsistentL, exCycle, exArr, exCycleHeap, T.sort]) (by rfl)
example : ser exCycle =
    [.cmarked 4 0 1 2, .marked 1 1 2, .atom 7, .atom 8, .marked 0 2 3, .atom 1, .ref 4 0, .ref 1 1] := by
  simp [ser, serD, serDs, exCycle, exArr, lookup, flat, flats]
example : de (ser exCycle) = .ok (.clo 0 4 [.node 1 false 1 [.atom 7, .atom 8]]
    [.node 2 false 0 [.atom 1, .ptr 0 4, .node 1 false 1 [.atom 7, .atom 8]]]) := by
  rfl
example : ser exRec =
    [.marked 0 0 3, .marked 1 1 2, .atom 7, .atom 8, .plain 2 1, .atom 1, .ref 1 1] := by
  simp [ser, serD, serDs, exRec, exArr, lookup, flat, flats]
example : de (ser exRec) = .ok (.node 0 false 0
    [.node 1 false 1 [.atom 7, .atom 8], .node 0 true 2 [.atom 1], .node 1 false 1 [.atom 7, .atom 8]]) := by
  rfl
example : de ((ser exRec).take 6) = .error .eof := by rfl
example : de [.marked 0 0 1, .ref 1 4] = .error (.missing 4) := by rfl
-- a reference into the table of another type is "missing" (NodeMap is per type)
example : de [.marked 0 0 2, .marked 1 1 0, .ref 0 1] = .error (.missing 1) := by rfl
example : resolveGlobals [("gvmod", 1)] ["gvmod"] = .ok [1] := by rfl
example : ∀ g ∈ ["gvmod"], lookup g [("gvmod", 1)] ≠ none := by simp [lookup]

end GluonModel.Props.C12
