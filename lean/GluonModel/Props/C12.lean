/-
C12 — "Serialising a compiled module to bytecode and loading it back - in the same or in a fresh
VM - yields a module that evaluates to the same result as compiling and running the source
directly. Loading bytecode that refers to something the VM does not define, or that is truncated,
fails with an error rather than crashing."

Models: `GluonModel.Share` (the Marked/Plain/Reference sharing scheme of base/src/serialization.rs
and vm/src/serialization.rs, over an abstract heap graph, with self-delimiting framing) and
`GluonModel.Loader` (resolution of a module's globals, vm/src/vm.rs:53-73).
Only property theorems live here; lemmas are in `GluonModel.Proofs.Share`.
-/
import GluonModel.Share
import GluonModel.Loader
import GluonModel.Proofs.Share

namespace GluonModel.Props.C12
open GluonModel.Share GluonModel.Loader

/-- Round trip including sharing: for every heap graph whose shared nodes are consistent objects
    (`Agrees`), deserialising the serialised form succeeds and yields the *same graph up to the
    renaming of addresses* `rho m` (`m` = the serialiser's final pointer→id table): every field of
    every node survives, shared nodes stay shared, unshared (`unique`) nodes stay unshared. -/
theorem de_ser (h : Nat → T) (t : T) (hag : Agrees h t) :
    de (ser t) = .ok (relabel (serD [] t).2 t) := by
  obtain ⟨nm', hde, _, _, _⟩ :=
    Proofs.roundtrip h t [] [] (fun _ => False) hag (Proofs.inv_empty h) (by intro a _ hf; exact hf)
  have hp : parse (2 * (flat (serD [] t).1).length + 2) (flat (serD [] t).1 ++ []) =
      some ((serD [] t).1, []) :=
    Proofs.parse_flat _ _ [] (by have := Proofs.cost_le (serD [] t).1; omega)
  simp only [List.append_nil] at hp
  simp [de, ser, hp, hde]

/-- … and that renaming is injective on the shared nodes of the graph: two nodes are the same
    object after loading iff they were the same object before. -/
theorem de_ser_sharing (h : Nat → T) (t : T) (hag : Agrees h t) (a a' : Nat)
    (ha : a ∈ addrs t) (ha' : a' ∈ addrs t)
    (he : rho (serD [] t).2 a = rho (serD [] t).2 a') : a = a' := by
  obtain ⟨nm', _, hinv, _, hall⟩ :=
    Proofs.roundtrip h t [] [] (fun _ => False) hag (Proofs.inv_empty h) (by intro a _ hf; exact hf)
  have h1 := hall a ha
  have h2 := hall a' ha'
  cases e1 : lookup a (serD [] t).2 with
  | none => exact absurd e1 h1
  | some i =>
    cases e2 : lookup a' (serD [] t).2 with
    | none => exact absurd e2 h2
    | some j =>
      simp [rho, e1, e2] at he
      subst he
      exact hinv.inj a a' i e1 e2

/-- Hence the loaded graph denotes the same value (sharing forgotten). -/
theorem de_ser_value (h : Nat → T) (t t' : T) (hag : Agrees h t) (hd : de (ser t) = .ok t') :
    unfold t' = unfold t := by
  rw [de_ser h t hag] at hd
  cases hd
  exact Proofs.unfold_relabel _ t

/-- Truncation: every proper prefix of a serialised graph is rejected (as "input ended"), for
    *every* graph — no consistency hypothesis. -/
theorem de_prefix_fails (t : T) (p q : List Tok) (hq : q ≠ []) (he : p ++ q = ser t) :
    de p = .error .eof := by
  have := Proofs.parse_prefix_none (serD [] t).1 (2 * p.length + 2) p q hq he
  simp [de, this]

/-- The framing is lossless: what `flat` writes, `parse` reads back, leaving the rest untouched. -/
theorem parse_flat (d : D) (rest : List Tok) :
    parse (2 * (flat d ++ rest).length + 2) (flat d ++ rest) = some (d, rest) :=
  Proofs.parse_flat d _ rest (by
    have := Proofs.cost_le d
    simp only [List.length_append]; omega)

/-- `de` is total with exactly three outcomes: a graph, "input ended", "missing id n"
    (base/src/serialization.rs:274). -/
theorem de_total (toks : List Tok) :
    (∃ t, de toks = .ok t) ∨ de toks = .error .eof ∨ ∃ id, de toks = .error (.missing id) := by
  cases h : de toks with
  | ok t => exact .inl ⟨t, rfl⟩
  | error e =>
    cases e with
    | eof => exact .inr (.inl rfl)
    | missing id => exact .inr (.inr ⟨id, rfl⟩)

/-! #### Loading a module whose globals are not all defined

    FULL STATEMENT (what the property asks): `∀ env gs, resolveGlobals env gs ≠ .panic`.
    It is FALSE for the code as it is (`load_missing_global_fails`, reproduced on the real VM:
    known finding `panic:missing-module:ICE: Global is missing from environment`). Proved instead:
    no panic when every global is defined (`load_defined_partial`), and the one-line repair never
    panics and reports exactly the missing-global case as an error (`load_fixed`). -/

theorem load_missing_global_fails : ∃ env gs, resolveGlobals env gs = .panic :=
  ⟨[], ["gvmod"], rfl⟩

theorem load_defined_partial (env : List (String × Nat)) (gs : List String)
    (hd : ∀ g ∈ gs, lookup g env ≠ none) : ∃ vs, resolveGlobals env gs = .ok vs := by
  induction gs with
  | nil => exact ⟨[], rfl⟩
  | cons g gs ih =>
    obtain ⟨vs, hvs⟩ := ih (fun x hx => hd x (List.mem_cons_of_mem _ hx))
    cases hl : lookup g env with
    | none => exact absurd hl (hd g (List.mem_cons_self ..))
    | some v => exact ⟨v :: vs, by simp [resolveGlobals, hl, hvs]⟩

theorem load_fixed (env : List (String × Nat)) (gs : List String) :
    resolveGlobalsFixed env gs ≠ .panic ∧
      ((∃ g ∈ gs, lookup g env = none) → resolveGlobalsFixed env gs = .error) := by
  induction gs with
  | nil => exact ⟨by simp [resolveGlobalsFixed], by rintro ⟨g, hg, _⟩; cases hg⟩
  | cons g gs ih =>
    cases hl : lookup g env with
    | none => exact ⟨by simp [resolveGlobalsFixed, hl], fun _ => by simp [resolveGlobalsFixed, hl]⟩
    | some v =>
      constructor
      · cases hr : resolveGlobalsFixed env gs with
        | ok vs => simp [resolveGlobalsFixed, hl, hr]
        | error => simp [resolveGlobalsFixed, hl, hr]
        | panic => exact absurd hr ih.1
      · rintro ⟨x, hx, hxn⟩
        have : ∃ g ∈ gs, lookup g env = none := by
          cases hx with
          | head => rw [hl] at hxn; cases hxn
          | tail _ hx => exact ⟨x, hx, hxn⟩
        simp [resolveGlobalsFixed, hl, ih.2 this]

/-! Non-vacuity: a graph with real sharing — a record `5` whose two fields are the same array `3`,
    plus an unshared (`unique`) node — meets `Agrees`, and its round trip is computed. -/

def exArr : T := .node 3 false 1 [.atom 7, .atom 8]
def exRec : T := .node 5 false 0 [exArr, .node 9 true 2 [.atom 1], exArr]
def exHeap : Nat → T := fun a => if a = 3 then exArr else exRec

example : Agrees exHeap exRec := by
  simp [Agrees, AgreesL, exRec, exArr, exHeap, addrsL, addrs]
example : ser exRec =
    [.marked 0 0 3, .marked 1 1 2, .atom 7, .atom 8, .plain 2 1, .atom 1, .ref 1 1] := by
  simp [ser, serD, serDs, exRec, exArr, lookup, flat, flats]
example : de (ser exRec) = .ok (.node 0 false 0
    [.node 1 false 1 [.atom 7, .atom 8], .node 0 true 2 [.atom 1], .node 1 false 1 [.atom 7, .atom 8]]) := by
  rfl
example : de ((ser exRec).take 6) = .error .eof := by rfl
example : de [.marked 0 0 1, .ref 1 4] = .error (.missing 4) := by rfl
-- a reference into the table of another type is "missing" (NodeMap is per type)
example : de [.marked 0 0 2, .marked 1 1 0, .ref 0 1] = .error (.missing 1) := by rfl
example : resolveGlobals [("gvmod", 1)] ["gvmod"] = .ok [1] := by rfl
example : ∀ g ∈ ["gvmod"], lookup g [("gvmod", 1)] ≠ none := by simp [lookup]

end GluonModel.Props.C12
