/-
C15 — "Within one VM, and as long as no module source is changed, a module's body is evaluated at
most once however many importers it has; a cyclic import chain is reported as an error naming the
cycle rather than hanging; and after any sequence of loading and reloading module sources, every
later evaluation sees exactly what a fresh VM given the latest sources would see, including type
errors introduced in dependencies."

Model: `GluonModel.Memo` (src/query.rs `add_module` + the salsa memo tables of
`import`/`global_inner`/`typechecked_source_module`, src/import.rs `import!`).
  * `spec srcs m`   what a fresh VM given the sources `srcs` answers for `import! m`
  * `replay false`  the engine as the code is;  `replay true` the engine with the repaired
                    `add_module` (a new module also starts a new revision)
  * `latest ops []` the latest sources after the history `ops`
Only property theorems live here; lemmas are in `GluonModel.Proofs.Memo`.
-/
import GluonModel.Memo
import GluonModel.Proofs.Memo
import GluonModel.Proofs.MemoStale
import GluonModel.MemoPath
import GluonModel.Proofs.MemoPath

namespace GluonModel.Props.C15
open GluonModel.Memo GluonModel.Memo.Proofs

/-! ## Reloads are never stale -/

/-
FULL STATEMENT (does NOT hold for the unchanged code, see `engine_refines_fresh_fails`):
  ∀ ops m, (getM (replay false ops St.init) m).1 = spec (latest ops []) m
-/

/-- The unchanged code violates from-scratch consistency: load `m1 = 10 + import! m0` while `m0`
    does not exist (error: missing module), then add `m0 = 1`: `m1` still answers "missing module"
    although a fresh VM given the two sources answers 11. (Replayed on the real code by the harness:
    known finding `stale:new-module:live=missing:fresh=ok`.) -/
theorem engine_refines_fresh_fails :
    ∃ ops m, (getM (replay false ops St.init) m).1 ≠ spec (latest ops []) m :=
  ⟨[.set 1 ⟨.int, 10, [(0, true)]⟩, .get 1, .set 0 ⟨.int, 1, []⟩], 1, by decide⟩

/-- With the repaired `add_module` (a new module starts a new revision, like a changed one) the
    property holds for ALL histories: after any sequence of sets and evaluations, an evaluation
    answers exactly what a fresh VM given the latest sources answers. -/
theorem engine_refines_fresh_fixed (ops : List Op) (m : Mod) :
    (getM (replay true ops St.init) m).1 = spec (latest ops []) m := by
  have h := getM_correct _ m (replay_fixed_inv ops St.init init_inv)
  rw [h.1, replay_srcs]
  rfl

/-- The unchanged code satisfies it for every history in which a *new* module is only ever added
    while nothing has been evaluated since the last changed source (`safeFrom`), in particular for
    all histories that register their modules before the first evaluation and afterwards only
    change them. -/
theorem engine_refines_fresh_partial (ops : List Op) (m : Mod)
    (hs : safeFrom St.init ops = true) :
    (getM (replay false ops St.init) m).1 = spec (latest ops []) m := by
  have h := getM_correct _ m (replay_asis_inv ops St.init hs init_inv)
  rw [h.1, replay_srcs]
  rfl

/-- Invariant form (both engines, any reachable state satisfying it): if every memoised result is
    the fresh-VM answer, an evaluation returns the fresh-VM answer and keeps the table sound —
    whatever is memoised, whatever is demanded, including modules evaluated while others are in
    progress (cycles). -/
theorem evaluation_sound (st : St) (m : Mod) (hg : Good st.srcs st.cache) :
    (getM st m).1 = spec st.srcs m ∧ Good (getM st m).2.srcs (getM st m).2.cache :=
  getM_correct st m hg

/-- "including type errors introduced in dependencies": the fresh-VM answer of a module is
    `combine` (all import errors, then the importer's own type errors, else its value) of the
    fresh-VM answers of its imports — for every module graph, cyclic or not. -/
theorem fresh_is_compositional (srcs : Srcs) (m : Mod) (s : Src) (h : srcs.lookup m = some s) :
    spec srcs m = combine s (s.deps.map fun d => (spec srcs d.1, d.2)) :=
  spec_unfold srcs m s h

/-! ## Cycles are rejected -/

/-- A fresh VM reports a cyclic dependency for `m` exactly when an import cycle is reachable from
    `m` in the sources (evaluation is a total function: it cannot hang). -/
theorem cycle_reported_iff (srcs : Srcs) (m : Mod) :
    spec srcs m = .err .cycle ↔ ReachesCycle srcs m :=
  spec_cycle_iff srcs m

/-- The same for the long-lived engine with the repaired `add_module`, after any history. -/
theorem cycle_reported_fixed (ops : List Op) (m : Mod) :
    (getM (replay true ops St.init) m).1 = .err .cycle ↔ ReachesCycle (latest ops []) m := by
  rw [engine_refines_fresh_fixed]
  exact spec_cycle_iff _ m

/-! ### The printed cycle path (`GluonModel.MemoPath`: `getP`, `replayP`)

FULL STATEMENT (does NOT hold for the unchanged code, see `reported_cycle_path_fails`):
  ∀ ops m, ∀ p ∈ (getP st.srcs m pc).1, IsCyc st.srcs p      where (st, pc) = replayP ops (St.init, PCache.init)
-/

/-- On a fresh VM given any sources (arbitrary graph), every cycle path printed in the answer for
    `import! m` is a real cycle: `x → … → x`, every step an import edge of the sources. -/
theorem reported_cycle_path_is_real_fresh (srcs : Srcs) (m : Mod) :
    ∀ p ∈ (getP srcs m PCache.init).1, IsCyc srcs p :=
  (getP_cyc srcs m PCache.init (ip_init srcs)).2

/-- The same on the long-lived unchanged engine after ANY history that never changed the text of an
    existing module (still in revision 0: any number of evaluations, new modules added in between). -/
theorem reported_cycle_path_is_real_partial (ops : List Op) (m : Mod)
    (h0 : (replayP ops (St.init, PCache.init)).1.rev = 0) :
    ∀ p ∈ (getP (replayP ops (St.init, PCache.init)).1.srcs m (replayP ops (St.init, PCache.init)).2).1,
      IsCyc (replayP ops (St.init, PCache.init)).1.srcs p :=
  (getP_cyc _ m _ (replayP_ip ops (St.init, PCache.init) (ip_init _) h0)).2

/-- After a reload the unchanged code prints a path that is NOT a cycle of the sources: `m0 = 1`,
    `m1 = 10 + import! m0`, evaluate m1, change m0 to `3 + import! m1`, evaluate m1: the message
    names `m1 -> m1`, but m1 does not import itself. (The model reproduces the real messages exactly:
    the printed paths are part of the compared answer; known finding
    `cycle-path-not-an-import-chain:fresh-vm-names-it`.) -/
theorem reported_cycle_path_fails :
    ∃ ops m p, p ∈ (getP (replayP ops (St.init, PCache.init)).1.srcs m (replayP ops (St.init, PCache.init)).2).1 ∧
      ¬ IsCyc (replayP ops (St.init, PCache.init)).1.srcs p := by
  refine ⟨[.set 0 ⟨.int, 1, []⟩, .set 1 ⟨.int, 10, [(0, true)]⟩, .get 1, .set 0 ⟨.int, 3, [(1, true)]⟩],
    1, [1, 1], by decide, ?_⟩
  intro ⟨x, mid, _, hc⟩
  have he : Edge _ 1 1 := hc.1
  rw [edge_iff] at he
  revert he
  decide

/-! ## Evaluated at most once -/

/-- After any history (either engine) the bodies run since the last new revision — i.e. since the
    last time a module source was changed — are pairwise distinct: no body ran twice, however many
    importers or evaluation requests there were. -/
theorem evaluated_at_most_once (fixed : Bool) (ops : List Op) :
    (replay fixed ops St.init).cache.log.Nodup :=
  (replay_J fixed ops St.init J_empty).1

/-- …and that log is never truncated while the revision stays the same, so the previous theorem
    really counts every evaluation of the revision. -/
theorem log_only_grows_within_revision (fixed : Bool) (st : St) (op : Op)
    (h : (step fixed st op).rev = st.rev) : st.cache.log <+: (step fixed st op).cache.log :=
  step_log_prefix fixed st op h


/-! ## The exact staleness boundary of the unchanged engine (round 5)

`lateMods ops` (computed by `lateStep` along the history): the modules that were added as a NEW
module (`add_module`, Vacant branch, src/query.rs:213-215) at a moment when an evaluation of the
current revision had already demanded them (directly or through an import: their "missing module"
answer is memoised), and no module text has been changed since (a changed text starts a new
revision and empties the list). `effSrcs srcs late` = `srcs` without the sources of `late`. -/

/-- For EVERY history the unchanged engine answers exactly what a fresh VM answers on the latest
    sources with the late modules left out. -/
theorem engine_refines_effective (ops : List Op) (m : Mod) :
    (getM (replay false ops St.init) m).1 = spec (effSrcs (latest ops []) (lateMods ops)) m := by
  have h := getM_eff _ (lateMods ops) m (replay_inv2 ops St.init [] inv2_init)
  rw [h.1, replay_srcs]
  rfl

/-- The sharp boundary: after a history the unchanged engine is stale (for some module) IFF some
    late module would not answer "missing module" on a fresh VM, i.e. iff some late module reaches an
    import cycle or has all the modules it reaches present. Every other history is fresh. -/
theorem engine_stale_iff (ops : List Op) :
    (∃ m, (getM (replay false ops St.init) m).1 ≠ spec (latest ops []) m) ↔
      ∃ x ∈ lateMods ops, (ReachesCycle (latest ops []) x ∨
        ∀ y, Reach (latest ops []) x y → (latest ops []).lookup y ≠ none) := by
  have h := stale_iff_late _ (lateMods ops) (replay_inv2 ops St.init [] inv2_init)
  rw [replay_srcs] at h
  refine h.trans ⟨?_, ?_⟩
  · intro ⟨x, hx, hne⟩
    refine ⟨x, hx, ?_⟩
    apply Classical.byContradiction
    intro hno
    apply hne
    rw [spec_missing_iff]
    refine ⟨fun hc => hno (.inl hc), ?_⟩
    apply Classical.byContradiction
    intro hall
    apply hno
    right
    intro y hy hn
    exact hall ⟨y, hy, hn⟩
  · intro ⟨x, hx, hor⟩
    refine ⟨x, hx, ?_⟩
    rw [Ne, spec_missing_iff]
    intro ⟨hnc, y, hy, hn⟩
    cases hor with
    | inl hc => exact hnc hc
    | inr hall => exact hall y hy hn

/-- Per module: an evaluation of `m` is fresh unless `m` reaches a late module. -/
theorem engine_fresh_unless_late_reachable (ops : List Op) (m : Mod)
    (hr : ∀ y, Reach (latest ops []) m y → y ∉ lateMods ops) :
    (getM (replay false ops St.init) m).1 = spec (latest ops []) m := by
  have h := fresh_of_no_late_reachable _ (lateMods ops) (replay_inv2 ops St.init [] inv2_init) m
    (by rw [replay_srcs]; exact hr)
  rw [h, replay_srcs]
  rfl

/-- Cycle reporting of the unchanged engine, all histories, arbitrary graphs: a cyclic dependency
    is reported iff an import cycle is reachable in the effective sources (= the latest sources when
    no module is late). -/
theorem cycle_reported_asis (ops : List Op) (m : Mod) :
    (getM (replay false ops St.init) m).1 = .err .cycle ↔
      ReachesCycle (effSrcs (latest ops []) (lateMods ops)) m := by
  rw [engine_refines_effective]
  exact spec_cycle_iff _ m

/-- "Evaluated once", over whole histories (either engine): in the trace of all module bodies run
    by the steps of a history, tagged with the revision they ran in, no (revision, module) pair
    occurs twice. -/
theorem module_body_runs_at_most_once_per_revision (fixed : Bool) (ops : List Op) :
    (runsOf fixed St.init ops).Nodup := by
  have h := (runsOf_nodup fixed ops St.init J_empty).1
  simpa [St.init] using h

/-! ## Non-vacuity -/

def mInt (c : Nat) (deps : List (Mod × Bool)) : Src := ⟨.int, c, deps⟩
def mStr (c : Nat) : Src := ⟨.str, c, []⟩

/-- value change, then a type error introduced in a dependency, seen by the importer -/
def h1 : List Op :=
  [.set 0 (mInt 1 []), .set 1 (mInt 10 [(0, true)]), .get 1, .set 0 (mInt 2 []), .get 1, .set 0 (mStr 3)]

example : safeFrom St.init h1 = true := by decide
example : (getM (replay false h1 St.init) 1).1 = .err .type := by decide
example : spec (latest h1 []) 1 = .err .type := by decide
example : (getM (replay false (h1.take 4) St.init) 1).1 = .ok .int 12 := by decide

/-- a reload introduces the cycle m1 → m0 → m1 -/
def h2 : List Op :=
  [.set 0 (mInt 1 []), .set 1 (mInt 10 [(0, true)]), .get 1, .set 0 (mInt 3 [(1, true)])]

example : (getM (replay false h2 St.init) 1).1 = .err .cycle := by decide
example : ReachesCycle (latest h2 []) 1 :=
  ⟨1, .refl 1, 0, ⟨mInt 10 [(0, true)], true, by decide, by decide⟩,
    .step ⟨mInt 3 [(1, true)], true, by decide, by decide⟩ (.refl 1)⟩

/-- a diamond: m3 imports m1, m2 and m0; m1 and m2 import m0; every body runs once -/
def h3 : List Op :=
  [.set 0 (mInt 1 []), .set 1 (mInt 1 [(0, true)]), .set 2 (mInt 1 [(0, true)]),
   .set 3 (mInt 1 [(1, true), (2, true), (0, true)]), .get 3, .get 3, .get 1]

example : (replay false h3 St.init).cache.log = [0, 1, 2, 3] := by decide
example : (getM (replay false h3 St.init) 3).1 = .ok .int 6 := by decide

/-- the hypothesis of `engine_refines_fresh_partial` fails on the witness of `…_fails` -/
example : safeFrom St.init [.set 1 (mInt 10 [(0, true)]), .get 1, .set 0 (mInt 1 [])] = false := by decide

/-- the witness of `…_fails`: m0 is late and answers 1 on a fresh VM -/
def h4 : List Op := [.set 1 (mInt 10 [(0, true)]), .get 1, .set 0 (mInt 1 [])]
example : lateMods h4 = [0] := by decide
example : spec (latest h4 []) 0 = .ok .int 1 := by decide
example : (getM (replay false h4 St.init) 1).1 = .err .missing := by decide
/-- a late module that is harmless: it imports a module that does not exist -/
def h5 : List Op := [.set 1 (mInt 10 [(0, true)]), .get 1, .set 0 (mInt 1 [(2, true)])]
example : lateMods h5 = [0] := by decide
example : spec (latest h5 []) 0 = .err .missing := by decide
example : (getM (replay false h5 St.init) 1).1 = spec (latest h5 []) 1 := by decide
/-- …and becomes harmful when m2 (never demanded, NOT late itself) is added afterwards -/
def h6 : List Op := h5 ++ [.set 2 (mInt 5 [])]
example : lateMods h6 = [0] := by decide
example : (getM (replay false h6 St.init) 1).1 = .err .missing ∧ spec (latest h6 []) 1 = .ok .int 16 := by decide
/-- a new module added after evaluations that never demanded it is not late (outside `safeFrom`) -/
def h7 : List Op := [.set 0 (mInt 1 []), .get 0, .set 1 (mInt 10 [(0, true)])]
example : safeFrom St.init h7 = false ∧ lateMods h7 = [] := by decide
/-- a changed text heals -/
example : lateMods (h4 ++ [.set 1 (mInt 11 [(0, true)])]) = [] := by decide
example : runsOf false St.init (h3 ++ [.set 0 (mInt 2 []), .get 3]) =
    [(0, 0), (0, 1), (0, 2), (0, 3), (1, 0), (1, 1), (1, 2), (1, 3)] := by decide

/-- fresh VM: the 2-cycle entered at m1 is printed in full; after the reload it degenerates -/
example : (getP (latest h2 []) 1 PCache.init).1 = [[1, 0, 1]] := by decide
example : (getP (replayP h2 (St.init, PCache.init)).1.srcs 1 (replayP h2 (St.init, PCache.init)).2).1 = [[1, 1]] := by
  decide
/-- a history that stays in revision 0 and reports a 3-cycle entered from outside -/
def h8 : List Op :=
  [.set 5 (mInt 1 []), .get 5, .set 0 (mInt 3 [(1, true)]), .set 1 (mInt 1 [(2, true)]),
   .set 2 (mInt 1 [(0, true)]), .set 4 (mInt 1 [(0, true)])]
example : (replayP h8 (St.init, PCache.init)).1.rev = 0 := by decide
example : (getP (replayP h8 (St.init, PCache.init)).1.srcs 4 (replayP h8 (St.init, PCache.init)).2).1 = [[0, 1, 2, 0]] := by
  decide

end GluonModel.Props.C15
