/-
C15 — "Within one VM, and as long as no module source is changed, a module's body is evaluated at
most once however many importers it has; a cyclic import chain is reported as an error naming the
cycle rather than hanging; and after any sequence of loading and reloading module sources, every
later evaluation sees exactly what a fresh VM given the latest sources would see, including type
errors introduced in dependencies."

Model: `GluonModel.Memo` (src/query.rs `add_module` + the salsa memo tables of
`import`/`global_inner`/`typechecked_source_module`, src/import.rs `import!`).
  * `spec srcs m`   what a fresh VM given the sources `srcs` answers for `import! m`
  * `replay false`  the engine as the code is;  `replay true` the engine with the repaired
                    `add_module` (a new module also starts a new revision)
  * `latest ops []` the latest sources after the history `ops`
Only property theorems live here; lemmas are in `GluonModel.Proofs.Memo`.
-/
import GluonModel.Memo
import GluonModel.Proofs.Memo

namespace GluonModel.Props.C15
open GluonModel.Memo GluonModel.Memo.Proofs

/-! ## Reloads are never stale -/

/-
FULL STATEMENT (does NOT hold for the unchanged code, see `engine_refines_fresh_fails`):
  ∀ ops m, (getM (replay false ops St.init) m).1 = spec (latest ops []) m
-/

/-- The unchanged code violates from-scratch consistency: load `m1 = 10 + import! m0` while `m0`
    does not exist (error: missing module), then add `m0 = 1`: `m1` still answers "missing module"
    although a fresh VM given the two sources answers 11. (Replayed on the real code by the harness:
    known finding `stale:new-module:live=missing:fresh=ok`.) -/
theorem engine_refines_fresh_fails :
    ∃ ops m, (getM (replay false ops St.init) m).1 ≠ spec (latest ops []) m :=
  ⟨[.set 1 ⟨.int, 10, [(0, true)]⟩, .get 1, .set 0 ⟨.int, 1, []⟩], 1, by decide⟩

/-- With the repaired `add_module` (a new module starts a new revision, like a changed one) the
    property holds for ALL histories: after any sequence of sets and evaluations, an evaluation
    answers exactly what a fresh VM given the latest sources answers. -/
theorem engine_refines_fresh_fixed (ops : List Op) (m : Mod) :
    (getM (replay true ops St.init) m).1 = spec (latest ops []) m := by
  have h := getM_correct _ m (replay_fixed_inv ops St.init init_inv)
  rw [h.1, replay_srcs]
  rfl

/-- The unchanged code satisfies it for every history in which a *new* module is only ever added
    while nothing has been evaluated since the last changed source (`safeFrom`), in particular for
    all histories that register their modules before the first evaluation and afterwards only
    change them. -/
theorem engine_refines_fresh_partial (ops : List Op) (m : Mod)
    (hs : safeFrom St.init ops = true) :
    (getM (replay false ops St.init) m).1 = spec (latest ops []) m := by
  have h := getM_correct _ m (replay_asis_inv ops St.init hs init_inv)
  rw [h.1, replay_srcs]
  rfl

/-- Invariant form (both engines, any reachable state satisfying it): if every memoised result is
    the fresh-VM answer, an evaluation returns the fresh-VM answer and keeps the table sound —
    whatever is memoised, whatever is demanded, including modules evaluated while others are in
    progress (cycles). -/
theorem evaluation_sound (st : St) (m : Mod) (hg : Good st.srcs st.cache) :
    (getM st m).1 = spec st.srcs m ∧ Good (getM st m).2.srcs (getM st m).2.cache :=
  getM_correct st m hg

/-- "including type errors introduced in dependencies": the fresh-VM answer of a module is
    `combine` (all import errors, then the importer's own type errors, else its value) of the
    fresh-VM answers of its imports — for every module graph, cyclic or not. -/
theorem fresh_is_compositional (srcs : Srcs) (m : Mod) (s : Src) (h : srcs.lookup m = some s) :
    spec srcs m = combine s (s.deps.map fun d => (spec srcs d.1, d.2)) :=
  spec_unfold srcs m s h

/-! ## Cycles are rejected -/

/-- A fresh VM reports a cyclic dependency for `m` exactly when an import cycle is reachable from
    `m` in the sources (evaluation is a total function: it cannot hang). -/
theorem cycle_reported_iff (srcs : Srcs) (m : Mod) :
    spec srcs m = .err .cycle ↔ ReachesCycle srcs m :=
  spec_cycle_iff srcs m

/-- The same for the long-lived engine with the repaired `add_module`, after any history. -/
theorem cycle_reported_fixed (ops : List Op) (m : Mod) :
    (getM (replay true ops St.init) m).1 = .err .cycle ↔ ReachesCycle (latest ops []) m := by
  rw [engine_refines_fresh_fixed]
  exact spec_cycle_iff _ m

/-
NOT MODELLED: the *text* of the cycle path in the message. On the real code, after a reload the
path degenerates to `X -> X` (known finding `cycle-path-not-an-import-chain:fresh-vm-names-it`);
that part of the property is checked by the harness oracle only.
-/

/-! ## Evaluated at most once -/

/-- After any history (either engine) the bodies run since the last new revision — i.e. since the
    last time a module source was changed — are pairwise distinct: no body ran twice, however many
    importers or evaluation requests there were. -/
theorem evaluated_at_most_once (fixed : Bool) (ops : List Op) :
    (replay fixed ops St.init).cache.log.Nodup :=
  (replay_J fixed ops St.init J_empty).1

/-- …and that log is never truncated while the revision stays the same, so the previous theorem
    really counts every evaluation of the revision. -/
theorem log_only_grows_within_revision (fixed : Bool) (st : St) (op : Op)
    (h : (step fixed st op).rev = st.rev) : st.cache.log <+: (step fixed st op).cache.log :=
  step_log_prefix fixed st op h

/-! ## Non-vacuity -/

def mInt (c : Nat) (deps : List (Mod × Bool)) : Src := ⟨.int, c, deps⟩
def mStr (c : Nat) : Src := ⟨.str, c, []⟩

/-- value change, then a type error introduced in a dependency, seen by the importer -/
def h1 : List Op :=
  [.set 0 (mInt 1 []), .set 1 (mInt 10 [(0, true)]), .get 1, .set 0 (mInt 2 []), .get 1, .set 0 (mStr 3)]

example : safeFrom St.init h1 = true := by decide
example : (getM (replay false h1 St.init) 1).1 = .err .type := by decide
example : spec (latest h1 []) 1 = .err .type := by decide
example : (getM (replay false (h1.take 4) St.init) 1).1 = .ok .int 12 := by decide

/-- a reload introduces the cycle m1 → m0 → m1 -/
def h2 : List Op :=
  [.set 0 (mInt 1 []), .set 1 (mInt 10 [(0, true)]), .get 1, .set 0 (mInt 3 [(1, true)])]

example : (getM (replay false h2 St.init) 1).1 = .err .cycle := by decide
example : ReachesCycle (latest h2 []) 1 :=
  ⟨1, .refl 1, 0, ⟨mInt 10 [(0, true)], true, by decide, by decide⟩,
    .step ⟨mInt 3 [(1, true)], true, by decide, by decide⟩ (.refl 1)⟩

/-- a diamond: m3 imports m1, m2 and m0; m1 and m2 import m0; every body runs once -/
def h3 : List Op :=
  [.set 0 (mInt 1 []), .set 1 (mInt 1 [(0, true)]), .set 2 (mInt 1 [(0, true)]),
   .set 3 (mInt 1 [(1, true), (2, true), (0, true)]), .get 3, .get 3, .get 1]

example : (replay false h3 St.init).cache.log = [0, 1, 2, 3] := by decide
example : (getM (replay false h3 St.init) 3).1 = .ok .int 6 := by decide

/-- the hypothesis of `engine_refines_fresh_partial` fails on the witness of `…_fails` -/
example : safeFrom St.init [.set 1 (mInt 10 [(0, true)]), .get 1, .set 0 (mInt 1 [])] = false := by decide

end GluonModel.Props.C15
