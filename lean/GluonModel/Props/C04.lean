/-
C04 — "Optimisation never changes what a program does: compiling with optimisation enabled and
with it disabled yields the same result value, the same runtime failure if there is one, and the
same sequence of calls to side-effecting host functions.  The only permitted difference is that a
built-in arithmetic operation whose result is never used may be skipped, so that its overflow or
division-by-zero failure does not occur."

Models: `GluonModel.OptCore` (core IR of vm/src/core/mod.rs, reference evaluator with a host-call
log), `GluonModel.Dce` (the active pipeline of vm/src/core/optimize.rs:284-330: the
unnecessary-allocation rewrite, the dependency graph of dead_code.rs and dead_code_elimination),
`GluonModel.Generated.OptPipeline` (extracted from the Rust source on every run).
Only property theorems live here; lemmas are in `GluonModel.Proofs.Dce`.

FULL STATEMENT (not proved in this generality):

    theorem optimize_correct (fuel : Nat) (e : Expr) (closed, well-typed module body) :
        Allowed (run fuel e) (run fuel (Dce.optimize e))

What is proved instead (ladder):
  (i)  `dce_correct_partial`: for ANY used-set that is closed for `e` (`Dce.kept`), any behaviour of
       the non-builtin calls (`call`), any pair of environments agreeing on the used names,
       `dce used e` behaves like `e` up to `Allowed` — for expressions that define no closures
       (`Dce.noRec`; imported functions, host functions, partial applications, records of
       functions are all values of the environment and unrestricted).
  (ii) that the used-set the real dependency graph computes is closed (`kept (usedBindings e) e`)
       is NOT proved; the driver evaluates it on every core expression dumped from the real
       compiler (payload `(kept true true)`), together with closure of the reachable set under
       the graph's edges (`(closed true true)`).
  Not proved: closures defined inside the optimised expression (`letRec`) and the
  unnecessary-allocation rewrite; both are covered by the exact structural correspondence and by
  the behavioural oracle on the real implementation only.
-/
import GluonModel.OptCore
import GluonModel.Dce
import GluonModel.Proofs.Dce
import GluonModel.Generated.OptPipeline

namespace GluonModel.Props.C04
open GluonModel.OptCore GluonModel.Dce GluonModel.Proofs.Dce GluonModel.Generated

/-- The pipeline `optimize` runs at this commit is the one the model implements: the inliner is
    switched off, the passes are `optimize_unnecessary_allocation → (purity) → used_bindings →
    (cycles) → dead_code_elimination → (analyze_costs)`, the analyses in parentheses are read
    only by the inliner arm, the `Call` rule of the dependency graph is the modelled one
    (`Dce.ruleNow`), and `optimize` is reached only under `settings.optimize`.  Enabling the
    inliner, adding a pass or changing the rule breaks this obligation. -/
theorem pipeline_is_modelled :
    OptPipeline.inlineEnabled = false ∧
    OptPipeline.activePasses = modelledPasses ∧
    OptPipeline.onlyReadByInliner = ["pure_symbols", "costs", "cyclic_bindings"] ∧
    OptPipeline.callRuleGuard =
      "match f { Expr::Ident(id, ..) => !id.name.as_str().starts_with('#'), _ => true, }" ∧
    OptPipeline.optimizeGuardedBySetting = true := by
  refine ⟨rfl, rfl, rfl, rfl, rfl⟩

/-- What the property statement permits: the optimised run `r'` is the unoptimised run `r`, or
    `r` stopped with the failure of a builtin arithmetic operation and `r'` made the same host
    calls up to that point (and then went on). -/
def Allowed {α : Type} (r r' : R α) : Prop :=
  r' = r ∨ (r.out = .arith ∧ ∃ l, r'.log = r.log ++ l)

def isWrong {α : Type} : Out α → Bool
  | .wrong => true
  | _ => false

/-- A binding that dead-code elimination may drop (no non-builtin call outside closure bodies,
    no closure definitions) makes no host call, whatever the environment and whatever the other
    functions do; it yields a value or stops with an arithmetic failure (or is stuck, which
    well-typed programs are not). -/
theorem dropped_binding_is_quiet (call : Caller) (e : Expr) (hp : pureE e = true)
    (hn : noRec e = true) (env : Env) :
    (eval call env e).log = [] ∧
      ((eval call env e).out = .arith ∨ (eval call env e).out = .wrong ∨
        ∃ v, (eval call env e).out = .ok v) := by
  obtain ⟨hl, ho⟩ := pure_quiet call e hp hn env
  refine ⟨hl, ?_⟩
  rcases ho with hs | ⟨v, hv⟩
  · cases h : (eval call env e).out <;> simp_all [Skippable]
  · exact Or.inr (Or.inr ⟨v, hv⟩)

/-- Dead-code elimination is correct for every closed used-set, on closure-free expressions:
    same outcome and same host calls, except that an unused arithmetic failure may be skipped.
    `call` (how closures, partial applications and host functions behave) and the environments
    are arbitrary. -/
theorem dce_correct_partial (used : String → Bool) (call : Caller) (e : Expr)
    (hn : noRec e = true) (hk : kept used e = true) (env env' : Env)
    (ha : Agree used env env') (hw : isWrong (eval call env e).out = false) :
    Allowed (eval call env e) (eval call env' (dce used e)) := by
  rcases dce_sound used call e hn hk env env' ha with h | ⟨hs, l, hl⟩
  · exact Or.inl h
  · right
    refine ⟨?_, l, hl⟩
    cases h : (eval call env e).out <;> simp_all [Skippable, isWrong]

/-- The same for a whole module body run from the empty environment with the used-set of the
    real rule, given the closure check the driver performs on every case. -/
theorem dce_correct_partial_usedBindings (fuel : Nat) (e : Expr) (hn : noRec e = true)
    (hk : kept (inList (usedBindings e)) e = true) (hw : isWrong (run fuel e).out = false) :
    Allowed (run fuel e) (run fuel (dce (inList (usedBindings e)) e)) :=
  dce_correct_partial _ _ e hn hk [] [] (agree_refl _ _) hw

/-! ### The defect D2 (repaired by `fix:` 7751831) as a regression witness -/

/-- `let r = { f = vlog } in let u = r.f 1 in 1` in core form: the callee of the discarded call is
    a projection, not an identifier. -/
def witness : Expr :=
  .letE "r" (.data "<record>" ["f"] (.cons (.ident "vlog") .nil))
    (.letE "u" (.call (.matchE (.ident "r") (.cons (.record [("f", "f1")]) (.ident "f1") .nil))
                  (.cons (.const (.int 1)) .nil))
      (.const (.int 1)))

/-- With the rule before the fix (`Call(Ident f)` only) the host call is lost: the optimised
    program is not an allowed behaviour of the original. -/
theorem dce_old_rule_unsound :
    ¬ Allowed (run 3 witness) (run 3 (dce (inList (usedWith ruleOld witness)) witness)) := by
  intro h
  have h0 : (run 3 witness).log.length = 1 := by decide
  have h1 : (run 3 (dce (inList (usedWith ruleOld witness)) witness)).log.length = 0 := by decide
  rcases h with h | ⟨h, _⟩
  · rw [h] at h1
    omega
  · have : isWrong (run 3 witness).out = false := by decide
    have h2 : (match (run 3 witness).out with | .arith => true | _ => false) = false := by decide
    rw [h] at h2
    exact Bool.noConfusion h2

/-- With the rule as it is now the witness satisfies the hypotheses of `dce_correct_partial`,
    which therefore applies to it. -/
theorem dce_now_rule_on_witness :
    Allowed (run 3 witness) (run 3 (dce (inList (usedBindings witness)) witness)) :=
  dce_correct_partial_usedBindings 3 witness (by decide) (by decide) (by decide)

/-! ### Non-vacuity -/

-- the old rule's used-set is not closed for the witness (the hypothesis `kept` is what fails)
example : kept (inList (usedWith ruleOld witness)) witness = false := by decide
example : kept (inList (usedBindings witness)) witness = true := by decide
example : (run 3 (dce (inList (usedBindings witness)) witness)).log.length = 1 := by decide

/-- `let u = 1 #Int/ 0 in vlog 5`: the permitted difference really occurs. -/
def arithWitness : Expr :=
  .letE "u" (.call (.ident "#Int/") (.cons (.const (.int 1)) (.cons (.const (.int 0)) .nil)))
    (.call (.ident "vlog") (.cons (.const (.int 5)) .nil))

example : noRec arithWitness = true ∧ kept (inList (usedBindings arithWitness)) arithWitness = true := by
  decide
example : (match (run 3 arithWitness).out with | .arith => true | _ => false) = true := by decide
example : (run 3 arithWitness).log.length = 0 := by decide
example : (run 3 (dce (inList (usedBindings arithWitness)) arithWitness)).log.length = 1 := by decide
example : Allowed (run 3 arithWitness) (run 3 (dce (inList (usedBindings arithWitness)) arithWitness)) :=
  dce_correct_partial_usedBindings 3 arithWitness (by decide) (by decide) (by decide)

-- a dropped binding in the sense of `dropped_binding_is_quiet`
example : pureE (.call (.ident "#Int/") (.cons (.const (.int 1)) (.cons (.const (.int 0)) .nil))) = true
    ∧ noRec (.call (.ident "#Int/") (.cons (.const (.int 1)) (.cons (.const (.int 0)) .nil))) = true := by
  decide

/-- The original shape of D2, with a closure (`let r = { f = \x -> error "boom" } in let u = r.f 1
    in 1`), outside the fragment of the theorem: evaluated directly.  Old rule: the failure is
    lost; rule now: it is kept. -/
def closureWitness : Expr :=
  .letE "r" (.data "<record>" ["f"]
      (.cons (.letRec (.cons "lam" ["x"] (.call (.ident "error") (.cons (.const (.str "boom")) .nil)) .nil)
                (.ident "lam")) .nil))
    (.letE "u" (.call (.matchE (.ident "r") (.cons (.record [("f", "f1")]) (.ident "f1") .nil))
                  (.cons (.const (.int 1)) .nil))
      (.const (.int 1)))

example : (match (run 4 closureWitness).out with | .user "boom" => true | _ => false) = true := by
  decide
example : (match (run 4 (dce (inList (usedWith ruleOld closureWitness)) closureWitness)).out with
    | .ok _ => true | _ => false) = true := by decide
example : (match (run 4 (optimize closureWitness)).out with | .user "boom" => true | _ => false) = true := by
  decide

end GluonModel.Props.C04
