/-
C04 — "Optimisation never changes what a program does: compiling with optimisation enabled and
with it disabled yields the same result value, the same runtime failure if there is one, and the
same sequence of calls to side-effecting host functions.  The only permitted difference is that a
built-in arithmetic operation whose result is never used may be skipped, so that its overflow or
division-by-zero failure does not occur."

Models: `GluonModel.OptCore` (core IR of vm/src/core/mod.rs, reference evaluator with a host-call
log), `GluonModel.Dce` (the active pipeline of vm/src/core/optimize.rs:284-330: the
unnecessary-allocation rewrite, the dependency graph of dead_code.rs and dead_code_elimination),
`GluonModel.Generated.OptPipeline` (extracted from the Rust source on every run).
Only property theorems live here; lemmas are in `GluonModel.Proofs.Dce`.

FULL STATEMENT (proved for the dead-code-elimination pass; the allocation rewrite only for
closure-free expressions):

    theorem optimize_correct (fuel : Nat) (e : Expr) (closed, well-typed module body) :
        Allowed (run fuel e) (run fuel (Dce.optimize e))      -- up to `VRel` on closures

What is proved:
  (i)   `dce_correct`: for ANY used-set that is closed for `e` (`Dce.kept`), `dce used e` behaves
        like `e` — full core language, closures included.  Closures carry code, so the two runs are
        related by `VRel` (same value, closure bodies optimised); `dce_correct_observable` turns
        this into plain equality for results and host-call arguments that contain no functions.
  (ii)  `usedBindings_kept`: the used-set the dependency graph of dead_code.rs computes IS closed,
        under two hypotheses on the expression that the driver evaluates on every core expression
        dumped from the real compiler: `shapeOK` (what the AST→core translation guarantees about
        matches) and `bindersCoherent` (all graph nodes of one bound symbol are reachable together;
        implied by symbols being unique and well scoped, `coherent_of_unique`).
  (iii) `dce_correct_usedBindings`: (i)+(ii) for whole module bodies and the real rule.
  (iv)  `dce_correct_partial`: the abstract-caller version of (i) for closure-free expressions (any
        behaviour of the non-builtin functions).
  (v)   `unnecessaryAlloc_correct_partial`: the allocation rewrite is exact (equal outcome and
        log) for closure-free expressions whose rewritten nodes are projections out of record
        literals with a fresh binder (`Dce.uaOK`, evaluated by the driver on every case);
        `optimize_correct_partial`: the whole of `optimize` for closure-free module bodies.
  (vi)  `unnecessaryAlloc_correct` / `…_observable` / `optimize_correct_observable`: the allocation
        rewrite and the whole pipeline for the FULL core language (closures included), by a
        simulation whose value relation compares environments by lookup (`Proofs/UaRel.lean`).
  Not proved: that `shapeOK`/`bindersCoherent`/`uaOK` hold for every output of the translator
  (they are evaluated per case).
-/
import GluonModel.OptCore
import GluonModel.Dce
import GluonModel.Proofs.Dce
import GluonModel.Proofs.DceRel
import GluonModel.Proofs.Graph
import GluonModel.Proofs.Ua
import GluonModel.Proofs.UaRel
import GluonModel.Generated.OptPipeline

namespace GluonModel.Props.C04
open GluonModel.OptCore GluonModel.Dce GluonModel.Proofs.Dce GluonModel.Proofs.DceRel
  GluonModel.Proofs.Graph GluonModel.Proofs.Ua GluonModel.Generated

/-- The pipeline `optimize` runs at this commit is the one the model implements: the inliner is
    switched off, the passes are `optimize_unnecessary_allocation → (purity) → used_bindings →
    (cycles) → dead_code_elimination → (analyze_costs)`, the analyses in parentheses are read
    only by the inliner arm, the `Call` rule of the dependency graph is the modelled one
    (`Dce.ruleNow`), and `optimize` is reached only under `settings.optimize`.  Enabling the
    inliner, adding a pass or changing the rule breaks this obligation. -/
theorem pipeline_is_modelled :
    OptPipeline.inlineEnabled = false ∧
    OptPipeline.activePasses = modelledPasses ∧
    OptPipeline.onlyReadByInliner = ["pure_symbols", "costs", "cyclic_bindings"] ∧
    OptPipeline.callRuleGuard =
      "match f { Expr::Ident(id, ..) => !id.name.as_str().starts_with('#'), _ => true, }" ∧
    OptPipeline.optimizeGuardedBySetting = true := by
  refine ⟨rfl, rfl, rfl, rfl, rfl⟩

/-- What the property statement permits: the optimised run `r'` is the unoptimised run `r`, or
    `r` stopped with the failure of a builtin arithmetic operation and `r'` made the same host
    calls up to that point (and then went on). -/
def Allowed {α : Type} (r r' : R α) : Prop :=
  r' = r ∨ (r.out = .arith ∧ ∃ l, r'.log = r.log ++ l)

def isWrong {α : Type} : Out α → Bool
  | .wrong => true
  | _ => false

/-- A binding that dead-code elimination may drop (no non-builtin call outside closure bodies,
    no closure definitions) makes no host call, whatever the environment and whatever the other
    functions do; it yields a value or stops with an arithmetic failure (or is stuck, which
    well-typed programs are not). -/
theorem dropped_binding_is_quiet (call : Caller) (e : Expr) (hp : pureE e = true) (env : Env) :
    (eval call env e).log = [] ∧
      ((eval call env e).out = .arith ∨ (eval call env e).out = .wrong ∨
        ∃ v, (eval call env e).out = .ok v) := by
  obtain ⟨hl, ho⟩ := pure_quiet call e hp env
  refine ⟨hl, ?_⟩
  rcases ho with hs | ⟨v, hv⟩
  · cases h : (eval call env e).out <;> simp_all [Skippable]
  · exact Or.inr (Or.inr ⟨v, hv⟩)

/-- Dead-code elimination is correct for every closed used-set, on closure-free expressions:
    same outcome and same host calls, except that an unused arithmetic failure may be skipped.
    `call` (how closures, partial applications and host functions behave) and the environments
    are arbitrary. -/
theorem dce_correct_partial (used : String → Bool) (call : Caller) (e : Expr)
    (hn : noRec e = true) (hk : kept used e = true) (env env' : Env)
    (ha : Agree used env env') (hw : isWrong (eval call env e).out = false) :
    Allowed (eval call env e) (eval call env' (dce used e)) := by
  rcases dce_sound used call e hn hk env env' ha with h | ⟨hs, l, hl⟩
  · exact Or.inl h
  · right
    refine ⟨?_, l, hl⟩
    cases h : (eval call env e).out <;> simp_all [Skippable, isWrong]

/-! ### Full language: closures -/

/-- `Allowed` up to the value relation: the optimised run `r'` has the same outcome and the same
    host calls as `r`, where a closure of `r'` is the closure of `r` with `dce`-optimised bodies;
    or `r` stopped with an arithmetic failure and `r'` made the same calls up to that point. -/
def AllowedRel (used : String → Bool) (r r' : R Value) : Prop :=
  (OutRel (VRel used) r.out r'.out ∧ LRel used r.log r'.log) ∨
  (r.out = .arith ∧ ∃ l1 l2, r'.log = l1 ++ l2 ∧ LRel used r.log l1)

/-- The used-set computed by the dependency graph (dead_code.rs `DepGraph::used_bindings`, rule
    as it is now) is closed for the expression: what `dce` drops with it is call-free, what it
    keeps only reads used names.  Full language. -/
theorem usedBindings_kept (e : Expr) (hs : shapeOK e = true) (hc : bindersCoherent e = true) :
    kept (inList (usedBindings e)) e = true :=
  usedWith_kept e hs hc

/-- The fresh-binder formulation: symbols with a single graph node each. -/
theorem usedBindings_kept_unique (e : Expr) (hs : shapeOK e = true) (hu : bindersUnique e = true) :
    kept (inList (usedBindings e)) e = true :=
  usedWith_kept e hs (coherent_of_unique e hu)

/-- Dead-code elimination is correct for every closed used-set, for the whole core language
    (closures defined in the expression included), for every budget of nested calls. -/
theorem dce_correct (used : String → Bool) (fuel : Nat) (e : Expr) (hk : kept used e = true)
    (hw : isWrong (run fuel e).out = false) :
    AllowedRel used (run fuel e) (run fuel (dce used e)) := by
  rcases run_rel fuel e hk with h | ⟨hs, l1, l2, hl, hll⟩
  · exact Or.inl h
  · right
    refine ⟨?_, l1, l2, hl, hll⟩
    cases h : (run fuel e).out <;> simp_all [Skippable, isWrong]

/-- … with the used-set the real rule computes: no closure hypothesis left. -/
theorem dce_correct_usedBindings (fuel : Nat) (e : Expr) (hs : shapeOK e = true)
    (hc : bindersCoherent e = true) (hw : isWrong (run fuel e).out = false) :
    AllowedRel (inList (usedBindings e)) (run fuel e)
      (run fuel (dce (inList (usedBindings e)) e)) :=
  dce_correct _ fuel e (usedBindings_kept e hs hc) hw

/-- For closure-free module bodies the conclusion is plain equality (`Allowed`), whatever the
    results contain. -/
theorem dce_correct_partial_usedBindings (fuel : Nat) (e : Expr) (hn : noRec e = true)
    (hs : shapeOK e = true) (hc : bindersCoherent e = true)
    (hw : isWrong (run fuel e).out = false) :
    Allowed (run fuel e) (run fuel (dce (inList (usedBindings e)) e)) :=
  dce_correct_partial _ _ e hn (usedBindings_kept e hs hc) [] [] (agree_refl _ _) hw

/-- What the host observes: when the original result and the arguments of its host calls contain
    no functions, the optimised run is *equal* to it (or the permitted arithmetic skip). -/
theorem dce_correct_observable (used : String → Bool) (fuel : Nat) (e : Expr)
    (hk : kept used e = true) (hw : isWrong (run fuel e).out = false)
    (hv : ∀ v, (run fuel e).out = .ok v → FirstOrder v) (hl : FirstOrderLog (run fuel e).log) :
    Allowed (run fuel e) (run fuel (dce used e)) := by
  rcases dce_correct used fuel e hk hw with ⟨ho, hlog⟩ | ⟨ha, l1, l2, h1, h2⟩
  · left
    have hlog' := lrel_firstOrder hlog hl
    revert ho hlog' hv
    cases run fuel e with
    | mk o l =>
      cases run fuel (dce used e) with
      | mk o' l' =>
        intro hv ho hlog'
        simp only at hlog' ho hv
        subst hlog'
        cases o <;> cases o' <;> simp only [OutRel] at ho
        · rename_i v v'
          rw [vrel_firstOrder ho (hv v rfl)]
        · rfl
        · rw [ho]
        · rfl
        · rfl
  · right
    refine ⟨ha, l2, ?_⟩
    rw [h1, lrel_firstOrder h2 hl]

/-! ### The unnecessary-allocation rewrite and the whole pipeline -/

/-- `optimize_unnecessary_allocation` changes nothing observable: same outcome, same host calls —
    for closure-free expressions, any behaviour of the called functions, any environment. -/
theorem unnecessaryAlloc_correct_partial (call : Caller) (e : Expr) (hn : noRec e = true)
    (ho : uaOK e = true) (env : Env) :
    eval call env (unnecessaryAlloc e) = eval call env e :=
  ua_correct call e 0 hn ho env

/-- The whole active pipeline (`Dce.optimize` = optimize.rs:289-297 with INLINE off) on a
    closure-free module body. -/
theorem optimize_correct_partial (fuel : Nat) (e : Expr) (hn : noRec e = true)
    (ho : uaOK e = true) (hs : shapeOK (unnecessaryAlloc e) = true)
    (hc : bindersCoherent (unnecessaryAlloc e) = true)
    (hw : isWrong (run fuel e).out = false) :
    Allowed (run fuel e) (run fuel (optimize e)) := by
  have h1 : run fuel (unnecessaryAlloc e) = run fuel e :=
    unnecessaryAlloc_correct_partial (applyN fuel) e hn ho []
  have h2 := dce_correct_partial_usedBindings fuel (unnecessaryAlloc e) (ua_noRec e 0 hn) hs hc
    (by rw [h1]; exact hw)
  rw [h1] at h2
  exact h2

/-- For programs that define closures the second step of `optimize` (graph + elimination, applied
    to the rewritten expression) is covered in full; only the rewrite step itself is restricted
    to the closure-free fragment above. -/
theorem optimize_dce_step_correct (fuel : Nat) (e : Expr)
    (hs : shapeOK (unnecessaryAlloc e) = true) (hc : bindersCoherent (unnecessaryAlloc e) = true)
    (hw : isWrong (run fuel (unnecessaryAlloc e)).out = false) :
    AllowedRel (inList (usedBindings (unnecessaryAlloc e))) (run fuel (unnecessaryAlloc e))
      (run fuel (optimize e)) :=
  dce_correct_usedBindings fuel (unnecessaryAlloc e) hs hc hw

/-! ### The allocation rewrite for the whole core language (closures included) -/

/-- `optimize_unnecessary_allocation` on ANY core expression (closures, recursive groups, partial
    application): the rewritten run has the same outcome and the same host calls up to
    `VRelU` — a closure of the rewritten run is the closure of the original run with rewritten
    bodies and an environment that gives related values to every identifier (it may be reordered
    and hold extra `dummy` bindings).  `uaOK` (rewritten nodes are projections with a fresh,
    non-dummy binder out of duplicate-free record literals) is evaluated by the driver on every
    core expression dumped from the real compiler. -/
theorem unnecessaryAlloc_correct (fuel : Nat) (e : Expr) (ho : uaOK e = true) :
    GluonModel.Proofs.UaRel.RRelU GluonModel.Proofs.UaRel.VRelU
      (run fuel e) (run fuel (unnecessaryAlloc e)) :=
  GluonModel.Proofs.UaRel.run_relU fuel e ho

/-- What the host observes of the rewrite: equality, when no function is returned or logged. -/
theorem unnecessaryAlloc_correct_observable (fuel : Nat) (e : Expr) (ho : uaOK e = true)
    (hv : ∀ v, (run fuel e).out = .ok v → FirstOrder v) (hl : FirstOrderLog (run fuel e).log) :
    run fuel (unnecessaryAlloc e) = run fuel e :=
  GluonModel.Proofs.UaRel.run_eq_of_firstOrder fuel e ho hv hl

/-- The WHOLE active pipeline on ANY module body (no closure-freeness hypothesis): when the
    unoptimised run returns and logs first-order data, the optimised run is equal to it, or the
    unoptimised run stopped with an arithmetic failure the optimiser was allowed to skip. -/
theorem optimize_correct_observable (fuel : Nat) (e : Expr) (ho : uaOK e = true)
    (hs : shapeOK (unnecessaryAlloc e) = true) (hc : bindersCoherent (unnecessaryAlloc e) = true)
    (hw : isWrong (run fuel e).out = false)
    (hv : ∀ v, (run fuel e).out = .ok v → FirstOrder v) (hl : FirstOrderLog (run fuel e).log) :
    Allowed (run fuel e) (run fuel (optimize e)) := by
  have h1 := unnecessaryAlloc_correct_observable fuel e ho hv hl
  have h2 := dce_correct_observable (inList (usedBindings (unnecessaryAlloc e))) fuel
    (unnecessaryAlloc e) (usedBindings_kept _ hs hc) (by rw [h1]; exact hw)
    (by rw [h1]; exact hv) (by rw [h1]; exact hl)
  rw [h1] at h2
  exact h2

/-- `rec let f x = { a = vlog x, y = 2 }.y in f 7`: the rewritten projection sits inside a closure
    body, so the closure-free theorems do not apply; the full-language ones do. -/
def closureProjWitness : Expr :=
  .letRec (.cons "f" ["x"]
      (.matchE (.data "<record>" ["a", "y"]
          (.cons (.call (.ident "vlog") (.cons (.ident "x") .nil)) (.cons (.const (.int 2)) .nil)))
        (.cons (.record [("y", "y1")]) (.ident "y1") .nil)) .nil)
    (.call (.ident "f") (.cons (.const (.int 7)) .nil))

example : noRec closureProjWitness = false ∧ uaOK closureProjWitness = true ∧
    shapeOK (unnecessaryAlloc closureProjWitness) = true ∧
    bindersCoherent (unnecessaryAlloc closureProjWitness) = true ∧
    isWrong (run 4 closureProjWitness).out = false := by decide
example : (match unnecessaryAlloc closureProjWitness with
    | .letRec (.cons _ _ (.letE _ _ _) _) _ => true | _ => false) = true := by decide
example : (run 4 (optimize closureProjWitness)).log.length = 1 := by decide

/-- `{ x = vlog 1, y = 2 }.y` in core form: rewritten to `let dummy = vlog 1 in let y1 = 2 in y1`;
    the host call of the dropped field stays. -/
def projWitness : Expr :=
  .matchE (.data "<record>" ["x", "y"]
      (.cons (.call (.ident "vlog") (.cons (.const (.int 1)) .nil)) (.cons (.const (.int 2)) .nil)))
    (.cons (.record [("y", "y1")]) (.ident "y1") .nil)

example : noRec projWitness = true ∧ uaOK projWitness = true ∧
    shapeOK (unnecessaryAlloc projWitness) = true ∧
    bindersCoherent (unnecessaryAlloc projWitness) = true ∧
    isWrong (run 3 projWitness).out = false := by decide
example : (run 3 (optimize projWitness)).log.length = 1 := by decide
example : Allowed (run 3 projWitness) (run 3 (optimize projWitness)) :=
  optimize_correct_partial 3 projWitness (by decide) (by decide) (by decide) (by decide) (by decide)

/-! ### The defect D2 (repaired by `fix:` 7751831) as a regression witness -/

/-- `let r = { f = vlog } in let u = r.f 1 in 1` in core form: the callee of the discarded call is
    a projection, not an identifier. -/
def witness : Expr :=
  .letE "r" (.data "<record>" ["f"] (.cons (.ident "vlog") .nil))
    (.letE "u" (.call (.matchE (.ident "r") (.cons (.record [("f", "f1")]) (.ident "f1") .nil))
                  (.cons (.const (.int 1)) .nil))
      (.const (.int 1)))

/-- With the rule before the fix (`Call(Ident f)` only) the host call is lost: the optimised
    program is not an allowed behaviour of the original. -/
theorem dce_old_rule_unsound :
    ¬ Allowed (run 3 witness) (run 3 (dce (inList (usedWith ruleOld witness)) witness)) := by
  intro h
  have h0 : (run 3 witness).log.length = 1 := by decide
  have h1 : (run 3 (dce (inList (usedWith ruleOld witness)) witness)).log.length = 0 := by decide
  rcases h with h | ⟨h, _⟩
  · rw [h] at h1
    omega
  · have : isWrong (run 3 witness).out = false := by decide
    have h2 : (match (run 3 witness).out with | .arith => true | _ => false) = false := by decide
    rw [h] at h2
    exact Bool.noConfusion h2

/-- With the rule as it is now the witness satisfies the hypotheses of `dce_correct_partial`,
    which therefore applies to it. -/
theorem dce_now_rule_on_witness :
    Allowed (run 3 witness) (run 3 (dce (inList (usedBindings witness)) witness)) :=
  dce_correct_partial_usedBindings 3 witness (by decide) (by decide) (by decide) (by decide)

/-! ### Non-vacuity -/

-- the old rule's used-set is not closed for the witness (the hypothesis `kept` is what fails)
example : kept (inList (usedWith ruleOld witness)) witness = false := by decide
example : kept (inList (usedBindings witness)) witness = true := by decide
example : (run 3 (dce (inList (usedBindings witness)) witness)).log.length = 1 := by decide

/-- `let u = 1 #Int/ 0 in vlog 5`: the permitted difference really occurs. -/
def arithWitness : Expr :=
  .letE "u" (.call (.ident "#Int/") (.cons (.const (.int 1)) (.cons (.const (.int 0)) .nil)))
    (.call (.ident "vlog") (.cons (.const (.int 5)) .nil))

example : noRec arithWitness = true ∧ kept (inList (usedBindings arithWitness)) arithWitness = true := by
  decide
example : (match (run 3 arithWitness).out with | .arith => true | _ => false) = true := by decide
example : (run 3 arithWitness).log.length = 0 := by decide
example : (run 3 (dce (inList (usedBindings arithWitness)) arithWitness)).log.length = 1 := by decide
example : Allowed (run 3 arithWitness) (run 3 (dce (inList (usedBindings arithWitness)) arithWitness)) :=
  dce_correct_partial_usedBindings 3 arithWitness (by decide) (by decide) (by decide) (by decide)

-- a dropped binding in the sense of `dropped_binding_is_quiet`
example : pureE (.call (.ident "#Int/") (.cons (.const (.int 1)) (.cons (.const (.int 0)) .nil))) = true
    ∧ noRec (.call (.ident "#Int/") (.cons (.const (.int 1)) (.cons (.const (.int 0)) .nil))) = true := by
  decide

/-- The original shape of D2, with a closure (`let r = { f = \x -> error "boom" } in let u = r.f 1
    in 1`).  Old rule: the failure is lost; rule now: it is kept, and `dce_correct_usedBindings`
    applies (its hypotheses hold for it). -/
def closureWitness : Expr :=
  .letE "r" (.data "<record>" ["f"]
      (.cons (.letRec (.cons "lam" ["x"] (.call (.ident "error") (.cons (.const (.str "boom")) .nil)) .nil)
                (.ident "lam")) .nil))
    (.letE "u" (.call (.matchE (.ident "r") (.cons (.record [("f", "f1")]) (.ident "f1") .nil))
                  (.cons (.const (.int 1)) .nil))
      (.const (.int 1)))

example : (match (run 4 closureWitness).out with | .user "boom" => true | _ => false) = true := by
  decide
example : (match (run 4 (dce (inList (usedWith ruleOld closureWitness)) closureWitness)).out with
    | .ok _ => true | _ => false) = true := by decide
example : (match (run 4 (optimize closureWitness)).out with | .user "boom" => true | _ => false) = true := by
  decide

example : shapeOK closureWitness = true ∧ bindersCoherent closureWitness = true ∧
    bindersUnique closureWitness = true ∧ isWrong (run 4 closureWitness).out = false := by decide
example : AllowedRel (inList (usedBindings closureWitness)) (run 4 closureWitness)
    (run 4 (dce (inList (usedBindings closureWitness)) closureWitness)) :=
  dce_correct_usedBindings 4 closureWitness (by decide) (by decide) (by decide)
example : shapeOK witness = true ∧ bindersCoherent witness = true := by decide

end GluonModel.Props.C04
