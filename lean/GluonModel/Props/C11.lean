/-
C11 — "Marshalling between Rust and Gluon is lossless and type-faithful: any Rust value of a supported
type passed into Gluon and back - directly, through a Gluon function, or through the serde bridge -
comes back equal to the original, and Gluon code observes the corresponding Gluon value. A host
request for a global or function at a Rust type that does not match its Gluon type is refused with a
type error instead of reinterpreting the value."

Model: `GluonModel.Marshal` (`push` = Pushable::vm_push, `get` = Getable::from_value, `ser` = api::ser::Ser,
`getGlobal` = Thread::get_global's signature check, `unrootFinds` = RootedValue's drop).
Only property theorems live here; lemmas are in `GluonModel.Proofs.Marshal`.
-/
import GluonModel.Marshal
import GluonModel.Proofs.Marshal
import GluonModel.Proofs.MarshalFull
import GluonModel.Proofs.MarshalTypes
import GluonModel.Proofs.MarshalDe
import GluonModel.Proofs.MarshalMap
import GluonModel.Proofs.MarshalOrder

namespace GluonModel.Props.C11
open GluonModel.Marshal GluonModel.Marshal.Proofs

/-! ## Direct marshalling is lossless -/

/-- Every integer of every supported width survives `as i64` followed by `as <its type>`
    (u64/usize through the two's complement reinterpretation). -/
theorem int_cast_roundtrip (t : IntTy) (n : Int) (h : inRange t n = true) :
    castTo t (toI64 n) = n :=
  int_roundtrip t n h

/-- What gluon sees for an integer is always a 64-bit `Int`. -/
theorem pushed_int_is_i64 (t : IntTy) (n : Int) :
    ∃ k, push (.int t n) = .int k ∧ -9223372036854775808 ≤ k ∧ k ≤ 9223372036854775807 :=
  ⟨toI64 n, rfl, toI64_range n⟩

/-- and it is the value itself for everything that fits `i64`. -/
theorem pushed_int_value (t : IntTy) (n : Int)
    (h : -9223372036854775808 ≤ n ∧ n ≤ 9223372036854775807) : push (.int t n) = .int n := by
  simp [push, toI64_id n h]

/-- Every Unicode scalar value survives `as i64` / `char::from_u32(x as u32)`. -/
theorem char_cast_roundtrip (c : Nat) (h : validChar c = true) : charOfInt (c : Int) = some c :=
  char_roundtrip c h

/-- Every `f32` that is not a NaN — normal, subnormal, ±0, ±∞ — survives `as f64` / `as f32` bit for
    bit.  (NaNs: quiet ones survive too, signalling ones are quieted; decided on examples below and
    checked by the correspondence.) -/
theorem f32_roundtrip (b : Nat) (hb : b < 4294967296) (hn : isNaN32 b = false) :
    f64to32 (f32to64 b) = b :=
  f32_roundtrip_nonnan b hb hn

/-- **Round trip, every type code of the model**: what `from_value` reads from a pushed value is the
    original.  `WT c v` says that `v` is a value of the Rust type `c`: integers in the range of their
    width, chars scalar values, struct field names as declared and distinct, map keys strictly
    increasing (a `BTreeMap`), and — the one semantic side condition — an `f32` bit pattern that survives
    `as f64 as f32` (every pattern except signalling NaNs; proved universally for all non-NaN patterns
    in `f32_roundtrip`, decided for NaNs in the examples).  Covers named-field structs
    and struct variants (read back by field name) and `BTreeMap<String, _>` (rebuilt from the gluon
    search tree), nested arbitrarily. -/
theorem get_push (c : TCode) (v : Val) (h : WT c v = true) : get c (push v) = some v :=
  get_push_full c v h

/-- A sorted map is pushed as the right spine of its entries (std/map.glu `insert` never rebalances). -/
theorem map_is_spine (kvs : List (String × Val)) (h : sortedKeys kvs = true) :
    push (.map kvs) = (spine (pushKV kvs)).toGV := by
  simp [push, buildMap_sorted (pushKV kvs) (sortedG_pushKV kvs h)]

/-- **Maps built or modified by gluon code**: for EVERY search tree `Tip | Bin k v l r` (any shape —
    not only the right spines Rust itself pushes) whose values are well-typed, `from_gluon_map` returns
    exactly the in-order listing: all entries of the tree, none dropped, none twice.  (`get_push` for
    `BTreeMap` is the spine special case.) -/
theorem get_map_inorder (c : TCode) (t : VTree) (hb : t.isBST)
    (hv : t.all (fun _ v => WT c v = true)) :
    get (.map c) t.toTree.toGV = some (.map t.inorder) := by
  have h := fromMap_bst (fun x => get c x) t [] [] hb
    (VTree.all_imp (fun _ v h => get_push_full c v h) t hv) (by simp) (by simp)
  simp at h
  simp [Marshal.get, h]

/-- and that listing is the key-sorted association list (what a `BTreeMap` holds). -/
theorem map_inorder_sorted (t : VTree) (hb : t.isBST) :
    t.inorder.Pairwise (fun a b => a.1 < b.1) :=
  inorder_sorted t hb

/-! ## Gluon observes the corresponding value: constructor tags and shapes -/

/-- `None` is constructor 0 without fields, `Some x` constructor 1 with one field. -/
theorem option_tags (v : Val) : push .none = .tag 0 ∧ push (.some v) = .data 1 [push v] :=
  ⟨rfl, rfl⟩

/-- gluon's `Result e t = | Err e | Ok t`: `Err` is 0, `Ok` is 1. -/
theorem result_tags (v : Val) : push (.err v) = .data 0 [push v] ∧ push (.ok v) = .data 1 [push v] :=
  ⟨rfl, rfl⟩

/-- `False` 0 / `True` 1; `LT` 0 / `EQ` 1 / `GT` 2. -/
theorem bool_ordering_tags :
    push (.bool false) = .tag 0 ∧ push (.bool true) = .tag 1 ∧ ∀ o, push (.ord o) = .tag o :=
  ⟨rfl, rfl, fun _ => rfl⟩

/-- An enum value carries the index of its variant (declaration order). -/
theorem enum_tag (i : Nat) (vs : List Val) :
    tagOf (push (.var i .vunit)) = some i ∧ tagOf (push (.var i (.vtuple vs))) = some i := by
  simp [push, tagOf]

/-- A pushed vector is an array of exactly the pushed elements, in order; its representation is
    that of the first element. -/
theorem vec_is_array (vs : List Val) : ∃ r, push (.vec vs) = .array r (pushL vs) ∧
    (pushL vs).length = vs.length := by
  obtain ⟨r, hr⟩ := mkArray_shape (pushL vs)
  exact ⟨r, by simp [push, hr], pushL_length vs⟩

/-! ## Wrong-type requests are refused

`getGlobal` = thread.rs:850: `check_signature(T::make_type, actual)`, i.e. `unify_type::zip_match` on the
two gluon types (`unify`), `Error::WrongType` otherwise.  `gtypeOf` = `VmType::make_type`. -/

/-- The signature check accepts exactly the equal gluon types (records: same fields in the same order). -/
theorem signature_check_is_equality (a b : GType) : unify a b = true ↔ a = b :=
  unify_iff a b

/-- A request at a Rust type whose gluon type differs from the global's is refused with `WrongType`. -/
theorem wrong_type_refused (requested actual : TCode) (h : gtypeOf requested ≠ gtypeOf actual) :
    getGlobal requested actual = .wrongType := by
  have : unify (gtypeOf requested) (gtypeOf actual) = false := by
    cases hu : unify (gtypeOf requested) (gtypeOf actual)
    · rfl
    · exact absurd (unify_eq _ _ hu) h
  simp [getGlobal, this]

/-- and only those: a request at any Rust type with the same gluon type is served. -/
theorem same_gluon_type_accepted (requested actual : TCode) (h : gtypeOf requested = gtypeOf actual) :
    getGlobal requested actual = .ok := by
  simp [getGlobal, h, unify_refl]

theorem get_global_ok_iff (requested actual : TCode) :
    getGlobal requested actual = .ok ↔ gtypeOf requested = gtypeOf actual := by
  constructor
  · intro h
    cases hu : unify (gtypeOf requested) (gtypeOf actual)
    · simp [getGlobal, hu] at h
    · exact unify_eq _ _ hu
  · exact same_gluon_type_accepted requested actual

/-- Rust types sharing one gluon type (legitimately interchangeable for the host): all integer widths
    are `Int`, both floats `Float`, a newtype struct its content, a tuple struct the tuple, a unit
    struct `()`. -/
theorem shared_gluon_types (t t' : IntTy) (c : TCode) (ts : List TCode) :
    gtypeOf (.int t) = gtypeOf (.int t') ∧ gtypeOf .f32 = gtypeOf .f64 ∧
    gtypeOf (.newtype c) = gtypeOf c ∧ gtypeOf (.tstruct ts) = gtypeOf (.tuple ts) ∧
    gtypeOf .ustruct = gtypeOf .unit := by
  simp [gtypeOf]

/-! ## The serde bridge is NOT type-faithful (defects of the unchanged code; the oracle reproduces
    each of them on the implementation: fingerprints `ser-shape:*`) -/

/-- `Ser(Some x)` pushes `x` itself, not `Some x`. -/
theorem ser_option_some_fails (v : Val) : ser (.some v) = ser v ∧ push (.some v) = .data 1 [push v] :=
  ⟨rfl, rfl⟩

/-- `Ser(Ok x)` is gluon's `Err x` and vice versa (serde numbers `Ok` 0, `Err` 1). -/
theorem ser_result_swapped_fails (v : Val) :
    tagOf (ser (.ok v)) = some 0 ∧ tagOf (push (.ok v)) = some 1 ∧
    tagOf (ser (.err v)) = some 1 ∧ tagOf (push (.err v)) = some 0 := by
  simp [ser, push, tagOf]

/-- `Ser(vec)` is never an array, so it cannot be read back (or indexed by gluon code) as one. -/
theorem ser_vec_not_array_fails (t : TCode) (vs : List Val) : get (.vec t) (ser (.vec vs)) = none := by
  simp [ser, Marshal.get]

/-- `Ser(5u8)` is an `Int`, not a `Byte`; `Ser('a')` is a `String`, not a `Char`. -/
theorem ser_u8_char_fails (n c : Nat) :
    get .u8 (ser (.u8 n)) = none ∧ get .char (ser (.char c)) = none := by
  simp [ser, Marshal.get]

/-- `Ser(map)` drops the keys. -/
theorem ser_map_drops_keys_fails (k₁ k₂ : String) (v : Val) :
    ser (.map [(k₁, v)]) = ser (.map [(k₂, v)]) := by
  simp [ser, serF]

/-- Where `Ser` does agree with `Pushable` (leaves other than u8/char/unit, and `None`). -/
theorem ser_eq_push_partial :
    (∀ t n, ser (.int t n) = push (.int t n)) ∧ (∀ b, ser (.f64 b) = push (.f64 b)) ∧
    (∀ b, ser (.f32 b) = push (.f32 b)) ∧ (∀ b, ser (.bool b) = push (.bool b)) ∧
    (∀ s, ser (.str s) = push (.str s)) ∧ ser .none = push .none :=
  ⟨fun _ _ => rfl, fun _ => rfl, fun _ => rfl, fun _ => rfl, fun _ => rfl, rfl⟩

/-! ## `De` (vm/src/api/de.rs): where it is right, and its defects (fingerprints `de:*`) -/

/-
Full statement: ∀ c v, WT c v → de c c (push v) = ok v.  FALSE for the unchanged code (witnesses below);
proved for `WTd`: u8, all integers, f32/f64, bool, char, String, Option, Vec, named-field structs
(read through the *gluon* record type, by name), newtype and unit structs, enums with unit, newtype,
tuple and struct variants — nested arbitrarily.  Not in `WTd`: unit, tuples, tuple structs, Result,
maps (each refuted below) and Ordering (no serde impls).
-/
/-- Reading a pushed value back with `De` gives the original. -/
theorem de_push_partial (c : TCode) (v : Val) (h : WTd c v = true) : de c c (push v) = .ok v :=
  de_push c v h

/-- the same through any number of newtype wrappers around the gluon-side type -/
theorem de_push_newtype_partial (c gl : TCode) (v : Val) (h : WTd c v = true)
    (hs : strip gl = strip c) : de c gl (push v) = .ok v :=
  de_push_gen c v gl h hs

/-- `()` pushed by Rust (`Int 0`, api/mod.rs:820) is refused by `deserialize_unit` (de.rs:509). -/
theorem de_unit_fails : de .unit .unit (push .unit) = .err :=
  de_unit_err

/-- No tuple and no tuple struct can be read: `deserialize_seq` (de.rs:542) has no arm for
    record-typed data and `deserialize_any` sends it to `visit_enum`. -/
theorem de_tuple_fails (ts : List TCode) (vs : List Val) :
    de (.tuple ts) (.tuple ts) (push (.tuple vs)) = .err ∧
    de (.tstruct ts) (.tstruct ts) (push (.tstruct vs)) = .err :=
  ⟨de_tuple_err ts vs, de_tstruct_err ts vs⟩

/-- `Result`: serde numbers `Ok` 0 / `Err` 1, gluon `Err` 0 / `Ok` 1 — a pushed `Ok v` is read with
    the error type's deserializer and can only come back as `Err _` (or fail), and vice versa. -/
theorem de_result_swapped_fails (t e : TCode) (v : Val) :
    de (.result t e) (.result t e) (push (.ok v)) =
        (match de e t (push v) with | .ok y => .ok (.err y) | o => o) ∧
    de (.result t e) (.result t e) (push (.err v)) =
        (match de t e (push v) with | .ok y => .ok (.ok y) | o => o) :=
  ⟨de_result_ok t e v, de_result_err t e v⟩

/-- Every map — the empty one included — sends `De` into the unbounded recursion
    `deserialize_map` (de.rs:600) ↔ `deserialize_any` (de.rs:298): stack overflow. -/
theorem de_map_crashes_fails (t : TCode) (kvs : List (String × Val)) :
    de (.map t) (.map t) (push (.map kvs)) = .crash :=
  de_map_crash t kvs

/-- Suggested fixes (variants of the three confused arms) do read the pushed values back. -/
theorem de_unit_fixed : deUnitFixed (push .unit) = .ok .unit :=
  de_unit_fixed_ok

theorem de_result_fixed (t e : TCode) (v : Val) :
    (WTd t v = true → deResultFixed t e (push (.ok v)) = .ok (.ok v)) ∧
    (WTd e v = true → deResultFixed t e (push (.err v)) = .ok (.err v)) :=
  de_result_fixed_ok t e v

theorem de_tuple_fixed (ts : List TCode) (vs : List Val) (h : WTds ts vs = true) :
    deTupleFixed ts (push (.tuple vs)) = .ok (.tuple vs) :=
  de_tuple_fixed_ok ts vs h

/-! ## Rooting (`Pushable::marshal`, `run_expr::<T>`, `OpaqueValue` keep the value in a `RootedValue`) -/

/-- Every unboxed value that was rooted — NaN floats included — is found again by
    `RootedValue::drop` (`unroot_`), wherever it sits among the rooted values. (True since fix
    5d628f8: `obj_eq` compares float bits.) -/
theorem rooted_drop (v : GV) (pre post : List GV) (h : unboxed v = true) :
    unrootFinds (pre ++ v :: post) v = true := by
  cases v <;> simp [unboxed] at h <;> simp [unrootFinds, objEq]

/-- Regression: under the old rule (floats compared with `==`) a rooted NaN was never found —
    `ice!("Rooted value has already been dropped")` inside a destructor. -/
theorem rooted_nan_old_rule_fails :
    unrootFindsOld [.float 9221120237041090560] (.float 9221120237041090560) = false := by
  decide

/-- The old rule did find every non-NaN float. -/
theorem rooted_float_old_rule_partial (b : Nat) (rooted : List GV) (h : isNaN64 b = false) :
    unrootFindsOld (.float b :: rooted) (.float b) = true := by
  simp [unrootFindsOld, objEqOld, f64Eq, h]

/-! ## Records are read and written BY FIELD NAME (wave 2: the derive macros and reordered fields) -/

/-- **A record is read by field name, whatever the order of its fields**: a Rust struct (or struct
    variant) declaring the fields `fs`, read with the derived `Getable` from ANY gluon record `ws` with
    distinct names that holds those fields — in any order, possibly among others — gets exactly the
    declared fields' values, in the Rust declaration order. Nothing is taken by position. -/
theorem get_by_name_order_independent (fs : List (String × TCode)) (vs ws : List (String × Val))
    (hwt : WTf fs vs = true) (hd : nodupB (namesOf ws) = true) (hs : ∀ p ∈ vs, p ∈ ws) :
    get (.struct fs) (.record (namesOf ws) (pushF ws)) = some (.struct vs) := by
  simp [Marshal.get, tagOf, getFs_any_order ws hd fs vs hwt hs]

/-- **Push in one declaration order, read in any other**: a struct pushed by a Rust type that declares
    its fields in the order `ws` is read back correctly by a Rust type that declares the same fields in
    the permuted order `vs` (both bound to the same gluon record type). -/
theorem push_get_roundtrip_any_field_order (fs : List (String × TCode)) (vs ws : List (String × Val))
    (hwt : WTf fs vs = true) (hd : nodupB (namesOf vs) = true) (hp : ws.Perm vs) :
    get (.struct fs) (push (.struct ws)) = some (.struct vs) := by
  have hd' : nodupB (namesOf ws) = true := nodupB_namesOf_perm vs ws hd hp.symm
  simpa [push] using get_by_name_order_independent fs vs ws hwt hd' (fun p h => hp.mem_iff.mpr h)

/-- the same inside an enum: a struct variant's fields are read by name from the inner record -/
theorem variant_get_by_name_order_independent (fs : List (String × TCode)) (vs ws : List (String × Val))
    (pre : List TCode) (name : String)
    (hwt : WTf fs vs = true) (hd : nodupB (namesOf ws) = true) (hs : ∀ p ∈ vs, p ∈ ws) :
    get (.enum name (pre ++ [.vstruct fs])) (.data pre.length [.record (namesOf ws) (pushF ws)])
      = some (.var pre.length (.vstruct vs)) := by
  have hv : ∀ (pre : List TCode) (g : GV), getVariant (pre ++ [.vstruct fs]) pre.length g
      = getVariant [.vstruct fs] 0 g := by
    intro pre g; induction pre with
    | nil => rfl
    | cons c pre ih => simpa [getVariant] using ih
  simp [Marshal.get, tagOf, hv, getVariant, fieldsOf, getFs_any_order ws hd fs vs hwt hs]

example : get (.struct [("a", .int .i64), ("b", .int .i64), ("c", .string)])
    (.record ["c", "b", "a"] [.str "s", .int 9223372036854775807, .int (-9223372036854775808)])
    = some (.struct [("a", .int .i64 (-9223372036854775808)), ("b", .int .i64 9223372036854775807),
        ("c", .str "s")]) := by rfl
example : WTf [("a", .int .i64), ("b", .int .i64)] [("a", .int .i64 1), ("b", .int .i64 2)] = true ∧
    [("b", Val.int .i64 2), ("a", Val.int .i64 1)].Perm [("a", .int .i64 1), ("b", .int .i64 2)] :=
  ⟨by decide, List.Perm.swap _ _ _⟩

/-! ## Non-vacuity -/

def shapeT : TCode := .enum "Shape" [.vunit, .vtuple [.f64], .vtuple [.string, .option (.int .i32)]]

def recT : TCode := .struct [("zeta", .string), ("alpha", .vec .string), ("opt", .option .u8)]
def recV : Val := .struct [("zeta", .str "é"), ("alpha", .vec [.str "", .str "b"]), ("opt", .some (.u8 255))]

example : WT (.tuple [.int .u64, .vec (.option .u8), shapeT, .map recT])
    (.tuple [.int .u64 18446744073709551615, .vec [.some (.u8 255), .none],
      .var 2 (.vtuple [.str "é", .some (.int .i32 (-2147483648))]),
      .map [("", recV), ("a", recV), ("é", recV)]]) = true := by decide
example : WTd (.vec (.enum "E" [.vunit, .vtuple [.f64], .vstruct [("w", .int .u32), ("h", .int .u32)]]))
    (.vec [.var 0 .vunit, .var 1 (.vtuple [.f64 0]),
      .var 2 (.vstruct [("w", .int .u32 4294967295), ("h", .int .u32 0)])]) = true := by decide
example : WTd recT recV = true := by decide
example : f64to32 (f32to64 8388607) = 8388607 ∧ f64to32 (f32to64 2147483649) = 2147483649 ∧
    f64to32 (f32to64 2139095040) = 2139095040 ∧ f64to32 (f32to64 2143289344) = 2143289344 ∧
    f64to32 (f32to64 0) = 0 := by decide   -- largest subnormal, -min subnormal, +inf, quiet NaN, 0
example : gtypeOf .char ≠ gtypeOf (.int .i64) ∧ gtypeOf .u8 ≠ gtypeOf (.int .i64) := by
  simp [gtypeOf]
example : getGlobal (.struct [("x", .int .i32), ("y", .f64)]) (.struct [("y", .f64), ("x", .int .i32)])
    = .wrongType := by decide
example : getGlobal (.int .u16) (.int .i64) = .ok := by decide
-- a balanced tree with entries in both subtrees (the shape a mis-indexed left child would lose)
def balanced : VTree := .bin "m" (.int .i32 2) (.bin "c" (.int .i32 1) .tip (.bin "d" (.int .i32 5) .tip .tip)) (.bin "x" (.int .i32 3) .tip .tip)
example : get (.map (.int .i32)) balanced.toTree.toGV =
    some (.map [("c", .int .i32 1), ("d", .int .i32 5), ("m", .int .i32 2), ("x", .int .i32 3)]) := by rfl
example : push (.int .u64 18446744073709551615) = .int (-1) := by rfl
example : get (.int .u64) (.int (-1)) = some (.int .u64 18446744073709551615) := by rfl
example : inRange .i64 (-9223372036854775808) = true := by decide
example : validChar 1114111 = true ∧ validChar 55296 = false := by decide
example : f64to32 (f32to64 1) = 1 := by decide                       -- smallest subnormal
example : f64to32 (f32to64 2139095041) = 2143289345 := by decide     -- signalling NaN is quieted
example : push (.vec [.u8 1, .u8 2]) = .array .byte [.byte 1, .byte 2] := by rfl
example : push (.vec []) = .array .unknown [] := by rfl
example : isNaN64 9221120237041090560 = true := by decide
example : unboxed (.float 9221120237041090560) = true ∧
    unrootFinds [.int 3, .float 9221120237041090560] (.float 9221120237041090560) = true := by decide

end GluonModel.Props.C11
