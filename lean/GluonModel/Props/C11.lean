/-
C11 — "Marshalling between Rust and Gluon is lossless and type-faithful: any Rust value of a supported
type passed into Gluon and back - directly, through a Gluon function, or through the serde bridge -
comes back equal to the original, and Gluon code observes the corresponding Gluon value. A host
request for a global or function at a Rust type that does not match its Gluon type is refused with a
type error instead of reinterpreting the value."

Model: `GluonModel.Marshal` (`push` = Pushable::vm_push, `get` = Getable::from_value, `ser` = api::ser::Ser,
`getGlobal` = Thread::get_global's signature check, `unrootFinds` = RootedValue's drop).
Only property theorems live here; lemmas are in `GluonModel.Proofs.Marshal`.
-/
import GluonModel.Marshal
import GluonModel.Proofs.Marshal

namespace GluonModel.Props.C11
open GluonModel.Marshal GluonModel.Marshal.Proofs

/-! ## Direct marshalling is lossless -/

/-- Every integer of every supported width survives `as i64` followed by `as <its type>`
    (u64/usize through the two's complement reinterpretation). -/
theorem int_cast_roundtrip (t : IntTy) (n : Int) (h : inRange t n = true) :
    castTo t (toI64 n) = n :=
  int_roundtrip t n h

/-- What gluon sees for an integer is always a 64-bit `Int`. -/
theorem pushed_int_is_i64 (t : IntTy) (n : Int) :
    ∃ k, push (.int t n) = .int k ∧ -9223372036854775808 ≤ k ∧ k ≤ 9223372036854775807 :=
  ⟨toI64 n, rfl, toI64_range n⟩

/-- and it is the value itself for everything that fits `i64`. -/
theorem pushed_int_value (t : IntTy) (n : Int)
    (h : -9223372036854775808 ≤ n ∧ n ≤ 9223372036854775807) : push (.int t n) = .int n := by
  simp [push, toI64_id n h]

/-- Every Unicode scalar value survives `as i64` / `char::from_u32(x as u32)`. -/
theorem char_cast_roundtrip (c : Nat) (h : validChar c = true) : charOfInt (c : Int) = some c :=
  char_roundtrip c h

/-- Every normal `f32` (all 2·254·2²³ of them) survives `as f64` / `as f32` bit for bit. -/
theorem f32_normal_roundtrip (b : Nat) (hb : b < 4294967296)
    (he : 1 ≤ b / 8388608 % 256 ∧ b / 8388608 % 256 ≤ 254) : f64to32 (f32to64 b) = b :=
  f32_roundtrip_normal b hb he

/-
Full statement (not proved in full):
  ∀ c v, WT c v → get c (push v) = some v
for every type code, including structs / struct variants (read back by field name) and
`BTreeMap<String, _>` (rebuilt from the gluon search tree).  Proved below for the fragment `WTp`:
unit, u8, all integer widths, f32 (bit patterns that survive the two float casts: see
`f32_normal_roundtrip`; signalling NaNs are quieted), f64, bool, char, String, Ordering, Option,
Result, Vec, tuples, newtype / tuple / unit structs, enums with unit and tuple variants — nested
arbitrarily.  Named fields and maps are covered by the correspondence and the oracle only.
-/
/-- Round trip: what `from_value` reads from a pushed value is the original. -/
theorem get_push_partial (c : TCode) (v : Val) (h : WTp c v = true) : get c (push v) = some v :=
  get_push c v h

/-! ## Gluon observes the corresponding value: constructor tags and shapes -/

/-- `None` is constructor 0 without fields, `Some x` constructor 1 with one field. -/
theorem option_tags (v : Val) : push .none = .tag 0 ∧ push (.some v) = .data 1 [push v] :=
  ⟨rfl, rfl⟩

/-- gluon's `Result e t = | Err e | Ok t`: `Err` is 0, `Ok` is 1. -/
theorem result_tags (v : Val) : push (.err v) = .data 0 [push v] ∧ push (.ok v) = .data 1 [push v] :=
  ⟨rfl, rfl⟩

/-- `False` 0 / `True` 1; `LT` 0 / `EQ` 1 / `GT` 2. -/
theorem bool_ordering_tags :
    push (.bool false) = .tag 0 ∧ push (.bool true) = .tag 1 ∧ ∀ o, push (.ord o) = .tag o :=
  ⟨rfl, rfl, fun _ => rfl⟩

/-- An enum value carries the index of its variant (declaration order). -/
theorem enum_tag (i : Nat) (vs : List Val) :
    tagOf (push (.var i .vunit)) = some i ∧ tagOf (push (.var i (.vtuple vs))) = some i := by
  simp [push, tagOf]

/-- A pushed vector is an array of exactly the pushed elements, in order; its representation is
    that of the first element. -/
theorem vec_is_array (vs : List Val) : ∃ r, push (.vec vs) = .array r (pushL vs) ∧
    (pushL vs).length = vs.length := by
  obtain ⟨r, hr⟩ := mkArray_shape (pushL vs)
  exact ⟨r, by simp [push, hr], pushL_length vs⟩

/-! ## Wrong-type requests are refused -/

/-- `get_global::<T>` of a global whose gluon type is not `T`'s is refused. -/
theorem get_global_wrong_type_refused (requested actual : TCode)
    (h : typeStr requested ≠ typeStr actual) : getGlobal requested actual = .wrongType := by
  simp [getGlobal, h]

theorem get_global_same_type_accepted (requested actual : TCode)
    (h : typeStr requested = typeStr actual) : getGlobal requested actual = .ok := by
  simp [getGlobal, h]

/-! ## The serde bridge is NOT type-faithful (defects of the unchanged code; the oracle reproduces
    each of them on the implementation: fingerprints `ser-shape:*`) -/

/-- `Ser(Some x)` pushes `x` itself, not `Some x`. -/
theorem ser_option_some_fails (v : Val) : ser (.some v) = ser v ∧ push (.some v) = .data 1 [push v] :=
  ⟨rfl, rfl⟩

/-- `Ser(Ok x)` is gluon's `Err x` and vice versa (serde numbers `Ok` 0, `Err` 1). -/
theorem ser_result_swapped_fails (v : Val) :
    tagOf (ser (.ok v)) = some 0 ∧ tagOf (push (.ok v)) = some 1 ∧
    tagOf (ser (.err v)) = some 1 ∧ tagOf (push (.err v)) = some 0 := by
  simp [ser, push, tagOf]

/-- `Ser(vec)` is never an array, so it cannot be read back (or indexed by gluon code) as one. -/
theorem ser_vec_not_array_fails (t : TCode) (vs : List Val) : get (.vec t) (ser (.vec vs)) = none := by
  simp [ser, Marshal.get]

/-- `Ser(5u8)` is an `Int`, not a `Byte`; `Ser('a')` is a `String`, not a `Char`. -/
theorem ser_u8_char_fails (n c : Nat) :
    get .u8 (ser (.u8 n)) = none ∧ get .char (ser (.char c)) = none := by
  simp [ser, Marshal.get]

/-- `Ser(map)` drops the keys. -/
theorem ser_map_drops_keys_fails (k₁ k₂ : String) (v : Val) :
    ser (.map [(k₁, v)]) = ser (.map [(k₂, v)]) := by
  simp [ser, serF]

/-- Where `Ser` does agree with `Pushable` (leaves other than u8/char/unit, and `None`). -/
theorem ser_eq_push_partial :
    (∀ t n, ser (.int t n) = push (.int t n)) ∧ (∀ b, ser (.f64 b) = push (.f64 b)) ∧
    (∀ b, ser (.f32 b) = push (.f32 b)) ∧ (∀ b, ser (.bool b) = push (.bool b)) ∧
    (∀ s, ser (.str s) = push (.str s)) ∧ ser .none = push .none :=
  ⟨fun _ _ => rfl, fun _ => rfl, fun _ => rfl, fun _ => rfl, fun _ => rfl, rfl⟩

/-! ## Rooting (`Pushable::marshal`, `run_expr::<T>`, `OpaqueValue` keep the value in a `RootedValue`) -/

/-- Every unboxed value that was rooted — NaN floats included — is found again by
    `RootedValue::drop` (`unroot_`), wherever it sits among the rooted values. (True since fix
    5d628f8: `obj_eq` compares float bits.) -/
theorem rooted_drop (v : GV) (pre post : List GV) (h : unboxed v = true) :
    unrootFinds (pre ++ v :: post) v = true := by
  cases v <;> simp [unboxed] at h <;> simp [unrootFinds, objEq]

/-- Regression: under the old rule (floats compared with `==`) a rooted NaN was never found —
    `ice!("Rooted value has already been dropped")` inside a destructor. -/
theorem rooted_nan_old_rule_fails :
    unrootFindsOld [.float 9221120237041090560] (.float 9221120237041090560) = false := by
  decide

/-- The old rule did find every non-NaN float. -/
theorem rooted_float_old_rule_partial (b : Nat) (rooted : List GV) (h : isNaN64 b = false) :
    unrootFindsOld (.float b :: rooted) (.float b) = true := by
  simp [unrootFindsOld, objEqOld, f64Eq, h]

/-! ## Non-vacuity -/

def shapeT : TCode := .enum "Shape" [.vunit, .vtuple [.f64], .vtuple [.string, .option (.int .i32)]]

example : WTp (.tuple [.int .u64, .vec (.option .u8), shapeT])
    (.tuple [.int .u64 18446744073709551615, .vec [.some (.u8 255), .none],
      .var 2 (.vtuple [.str "é", .some (.int .i32 (-2147483648))])]) = true := by decide
example : push (.int .u64 18446744073709551615) = .int (-1) := by rfl
example : get (.int .u64) (.int (-1)) = some (.int .u64 18446744073709551615) := by rfl
example : inRange .i64 (-9223372036854775808) = true := by decide
example : validChar 1114111 = true ∧ validChar 55296 = false := by decide
example : f64to32 (f32to64 1) = 1 := by decide                       -- smallest subnormal
example : f64to32 (f32to64 2139095041) = 2143289345 := by decide     -- signalling NaN is quieted
example : push (.vec [.u8 1, .u8 2]) = .array .byte [.byte 1, .byte 2] := by rfl
example : push (.vec []) = .array .unknown [] := by rfl
example : typeStr (.int .u16) = typeStr (.int .i64) ∧ typeStr .char ≠ typeStr (.int .i64) := by decide
example : isNaN64 9221120237041090560 = true := by decide
example : unboxed (.float 9221120237041090560) = true ∧
    unrootFinds [.int 3, .float 9221120237041090560] (.float 9221120237041090560) = true := by decide

end GluonModel.Props.C11
