/-
C06 — "Scripts cannot crash the host; errors are values and the VM stays usable.
No Gluon program - including a call to any standard-library primitive with any well-typed arguments - can
panic or abort the embedding process: every failure is returned to the host as an error value. After a failed
evaluation the same VM evaluates later programs exactly as a fresh VM would, and the memory and stack used by
the failed run can be reclaimed."

Models: `GluonModel.RustStd` (panic conditions of the core functions the tables call), `GluonModel.Prims`
(the primitive wrappers, `outcome`), `GluonModel.Generated.PrimTable` (the tables themselves, re-extracted from
/repo on every run), `GluonModel.Frames` (`reset_stack`).  Helper lemmas: `Proofs/Prims.lean`, `Proofs/Frames.lean`.

The property as stated is FALSE on the unchanged tree, in both halves:

  prims_total :  ∀ e ∈ primTable, ∀ args, (∀ v ∈ args, v.WT) → outcome e.name args ≠ .abort          -- false
  reset_restores : ∀ s ops, resetStack s.frames.length s.values (s.run ops) = s                       -- false

What is proved instead: the exact set of offending primitives with one `_aborts` witness and (for most) an
`_abort_iff` characterisation each, `prims_total_partial` for everything else, `reset_frames_only`
(what the error path really restores), and the `_fixed` variants.
-/
import GluonModel.Prims
import GluonModel.Frames
import GluonModel.Generated.PrimTable
import GluonModel.Proofs.Prims
import GluonModel.Proofs.Frames

namespace GluonModel.Props.C06
open GluonModel.RustStd GluonModel.Prims GluonModel.Frames GluonModel.Generated
open GluonModel.Proofs.Prims GluonModel.Proofs.Frames

/-! ## Part (i): primitives -/

/-- Every primitive of the extracted tables that is not in the explicit offending list never aborts the
    host — for ALL argument lists (well-typed or not).  Rests on: the documented totality of the std
    functions in `totalSems`, and proofs that the guards of the hand-written wrappers (`array::index`,
    `array::slice`, `string::split_at`, `string::char_at`, `int::wrapping_rem`, …) imply the preconditions
    of the panicking std functions they call. -/
theorem prims_total_partial (e : PrimEntry) (_he : e ∈ primTable) (hn : e.name ∉ offending)
    (args : List Val) : outcome e.name args ≠ .abort :=
  outcome_no_abort e.name hn args

/-- The offending list, spelled out (syntactic: a change of `offendingSems` must be repeated here). -/
theorem offending_names : offending =
    ["std.int.prim.from_str_radix", "std.int.prim.shl", "std.int.prim.arithmetic_shr", "std.int.prim.logical_shr",
     "std.int.prim.pow", "std.int.prim.abs", "std.int.prim.rem", "std.int.prim.rem_euclid",
     "std.int.prim.wrapping_div", "std.int.prim.overflowing_div", "std.byte.prim.shl", "std.byte.prim.shr",
     "std.byte.prim.pow", "std.byte.prim.wrapping_div", "std.byte.prim.overflowing_div", "std.char.prim.is_digit",
     "std.char.prim.to_digit", "std.string.prim.slice", "std.effect.st.string.prim.slice",
     "std.random.prim.gen_int_range"] := rfl

/-- The property's first half fails: an offending primitive aborts the host on well-typed arguments.
    (That every offending name is an entry of the real table, and that every table entry of the modelled
    modules has a model, is checked by the driver's `coverage` request on every run — evaluating string
    look-ups over the 239-entry table inside the kernel costs minutes.) -/
theorem prims_total_fails :
    ∃ name ∈ offending, ∃ args : List Val, (∀ v ∈ args, v.WT) ∧ outcome name args = .abort := by
  refine ⟨"std.int.prim.from_str_radix", by rw [offending_names]; exact List.mem_cons_self,
    [.str [49, 50], .int 99], ?_, rfl⟩
  intro v hv
  simp at hv
  rcases hv with rfl | rfl <;> simp [Val.WT, InI64, i64Min, i64Max]

/-! One witness per offending primitive (inputs replayed on the real code by the harness). -/

theorem int_from_str_radix_aborts : sem_int_from_str_radix [.str [49, 50], .int 99] = .abort := rfl
theorem int_shl_aborts : sem_int_shl [.int 1, .int 100] = .abort := rfl
theorem int_arithmetic_shr_aborts : sem_int_arithmetic_shr [.int 1, .int 64] = .abort := rfl
theorem int_logical_shr_aborts : sem_int_logical_shr [.int 1, .int (-1)] = .abort := rfl
theorem int_pow_aborts : sem_int_pow [.int 10, .int 100] = .abort := rfl
theorem int_abs_aborts : sem_int_abs [.int i64Min] = .abort := rfl
theorem int_rem_aborts : sem_int_rem [.int i64Min, .int (-1)] = .abort := rfl
theorem int_rem_euclid_aborts : sem_int_rem_euclid [.int i64Min, .int (-1)] = .abort := rfl
theorem int_wrapping_div_aborts : sem_int_wrapping_div [.int 1, .int 0] = .abort := rfl
theorem int_overflowing_div_aborts : sem_int_overflowing_div [.int 1, .int 0] = .abort := rfl
theorem byte_shl_aborts : sem_byte_shl [.byte 1, .byte 9] = .abort := rfl
theorem byte_shr_aborts : sem_byte_shr [.byte 1, .byte 8] = .abort := rfl
theorem byte_pow_aborts : sem_byte_pow [.byte 2, .int 8] = .abort := rfl
theorem byte_wrapping_div_aborts : sem_byte_wrapping_div [.byte 1, .byte 0] = .abort := rfl
theorem byte_overflowing_div_aborts : sem_byte_overflowing_div [.byte 1, .byte 0] = .abort := rfl
theorem char_is_digit_aborts : sem_char_is_digit [.char 97, .int 99] = .abort := rfl
theorem char_to_digit_aborts : sem_char_to_digit [.char 97, .int 0] = .abort := rfl
theorem string_slice_aborts : sem_string_slice [.str [97, 98, 99], .int 2, .int 1] = .abort := rfl
theorem st_string_slice_aborts :
    sem_effect_st_string_slice [.sbuf [97, 98, 99], .int 2, .int 1] = .abort := rfl
theorem random_gen_int_range_aborts : sem_random_gen_int_range [.int 1, .int 1] = .abort := rfl

/-! Exact abort conditions (so a *different* violation of the same primitive is distinguishable). -/

theorem int_shl_abort_iff (a n : Int) :
    sem_int_shl [.int a, .int n] = .abort ↔ ¬ (0 ≤ n ∧ n < 64) := by
  have h : sem_int_shl [.int a, .int n] = ofR .i (i64_shl a n) := rfl
  rw [h, ofR_abort_iff]; unfold i64_shl; split <;> simp [*]

theorem int_arithmetic_shr_abort_iff (a n : Int) :
    sem_int_arithmetic_shr [.int a, .int n] = .abort ↔ ¬ (0 ≤ n ∧ n < 64) := by
  have h : sem_int_arithmetic_shr [.int a, .int n] = ofR .i (i64_shr a n) := rfl
  rw [h, ofR_abort_iff]; unfold i64_shr; split <;> simp [*]

theorem int_abs_abort_iff (a : Int) : sem_int_abs [.int a] = .abort ↔ a = i64Min := by
  have h : sem_int_abs [.int a] = ofR .i (i64_abs a) := rfl
  rw [h, ofR_abort_iff]; unfold i64_abs; split <;> simp [*]

/-- `int::rem` guards the divisor against 0 (an error value) but not `MIN % -1`. -/
theorem int_rem_abort_iff (a b : Int) :
    sem_int_rem [.int a, .int b] = .abort ↔ (a = i64Min ∧ b = -1) := by
  have h : sem_int_rem [.int a, .int b] = ofRRT .i (int_rem a b) := rfl
  rw [h, ofRRT_abort_iff]; unfold int_rem
  split
  · rename_i hb
    rw [map_panic_iff]; unfold i64_rem
    simp only [hb, if_false]
    split <;> simp [*]
  · rename_i hb
    have : b = 0 := by simpa using hb
    subst this; simp

theorem int_rem_euclid_abort_iff (a b : Int) :
    sem_int_rem_euclid [.int a, .int b] = .abort ↔ (a = i64Min ∧ b = -1) := by
  have h : sem_int_rem_euclid [.int a, .int b] = ofRRT .i (int_rem_euclid a b) := rfl
  rw [h, ofRRT_abort_iff]; unfold int_rem_euclid
  split
  · rename_i hb
    rw [map_panic_iff]; unfold i64_rem_euclid
    simp only [hb, if_false]
    split <;> simp [*]
  · rename_i hb
    have : b = 0 := by simpa using hb
    subst this; simp

theorem int_wrapping_div_abort_iff (a b : Int) :
    sem_int_wrapping_div [.int a, .int b] = .abort ↔ b = 0 := by
  have h : sem_int_wrapping_div [.int a, .int b] = ofR .i (i64_wrapping_div a b) := rfl
  rw [h, ofR_abort_iff]; unfold i64_wrapping_div; split <;> simp [*]

theorem int_overflowing_div_abort_iff (a b : Int) :
    sem_int_overflowing_div [.int a, .int b] = .abort ↔ b = 0 := by
  have h : sem_int_overflowing_div [.int a, .int b]
      = ofR Res.pairIB (i64_overflowing_div a b) := rfl
  rw [h, ofR_abort_iff]; unfold i64_overflowing_div; split <;> simp [*]

theorem int_from_str_radix_abort_iff (s : Bytes) (r : Int) :
    sem_int_from_str_radix [.str s, .int r] = .abort ↔ ¬ (2 ≤ toU32 r ∧ toU32 r ≤ 36) := by
  have h : sem_int_from_str_radix [.str s, .int r]
      = ofR (Res.result .i) (i64_from_str_radix s (toU32 r)) := rfl
  rw [h, ofR_abort_iff]; unfold i64_from_str_radix; split <;> simp [*]

theorem byte_shl_abort_iff (a n : Int) :
    sem_byte_shl [.byte a, .byte n] = .abort ↔ ¬ n < 8 := by
  have h : sem_byte_shl [.byte a, .byte n] = ofR .b (u8_shl a n) := rfl
  rw [h, ofR_abort_iff]; unfold u8_shl; split <;> simp [*]

theorem byte_wrapping_div_abort_iff (a b : Int) :
    sem_byte_wrapping_div [.byte a, .byte b] = .abort ↔ b = 0 := by
  have h : sem_byte_wrapping_div [.byte a, .byte b] = ofR .b (u8_wrapping_div a b) := rfl
  rw [h, ofR_abort_iff]; unfold u8_wrapping_div; split <;> simp [*]

theorem char_to_digit_abort_iff (c r : Int) :
    sem_char_to_digit [.char c, .int r] = .abort ↔ ¬ (2 ≤ toU32 r ∧ toU32 r ≤ 36) := by
  have h : sem_char_to_digit [.char c, .int r]
      = ofR (Res.opt .i) (char_to_digit c (toU32 r)) := rfl
  rw [h, ofR_abort_iff]; unfold char_to_digit; split <;> simp [*]

/-- `string::slice` checks both indices for char boundaries (hence ≤ len) but never `start ≤ end`. -/
theorem string_slice_abort_iff (s : Bytes) (a b : Int) :
    sem_string_slice [.str s, .int a, .int b] = .abort ↔
      (isCharBoundary s (toU64 a).toNat = true ∧ isCharBoundary s (toU64 b).toNat = true ∧
        (toU64 b).toNat < (toU64 a).toNat) := by
  have h : sem_string_slice [.str s, .int a, .int b] = ofRRT .s (string_slice s a b) := rfl
  rw [h, ofRRT_abort_iff]; exact string_slice_panic_iff s a b

theorem random_gen_int_range_abort_iff (lo hi : Int) :
    sem_random_gen_int_range [.int lo, .int hi] = .abort ↔ ¬ lo < hi := by
  have h : sem_random_gen_int_range [.int lo, .int hi]
      = ofR (fun _ => Res.opaque) (random_gen_int_range lo hi) := rfl
  rw [h, ofR_abort_iff]; unfold random_gen_int_range; split <;> simp [*]

/-- With the missing check added (`start ≤ end`), `string::slice` can no longer abort. -/
theorem string_slice_fixed (s : Bytes) (a b : Int) :
    (let x := (toU64 a).toNat; let y := (toU64 b).toNat
     if x ≤ y ∧ isCharBoundary s x ∧ isCharBoundary s y then (str_index s x y).map RT.ret
     else R.ret RT.panic) ≠ .panic := by
  simp only []
  split
  · rename_i h
    rw [Ne, map_panic_iff]; unfold str_index
    have := boundary_le s _ h.2.2
    simp [h.1, h.2.1, h.2.2, this]
  · simp

/-- `RuntimeResult::Panic` (the validation failures of the wrappers) reaches the host as an error value. -/
theorem runtime_panic_is_error_value {α} (f : α → Res) : ofRRT f (.ret .panic) = .err := rfl

/-! ## Part (ii): the stack after a failed evaluation -/

/-- What `reset_stack` restores after ANY run that failed: the frame stack — and nothing else; every value
    the run had pushed stays on the value stack (thread.rs:2972, stack.rs:871: `frames.pop()` only). -/
theorem reset_frames_only (s : Stack) (ops : List Op) :
    resetStack s.frames.length s.values (s.run ops) = ⟨s.frames, s.values + pushed ops⟩ :=
  reset_after_run s ops

/-- The property's second half fails: after a failed run the stack is not what it was. -/
theorem reset_restores_fails :
    ∃ (s : Stack) (ops : List Op), resetStack s.frames.length s.values (s.run ops) ≠ s :=
  ⟨Stack.base, [.push 3, .enter 1], by decide⟩

/-- … exactly when the failed run had pushed something. -/
theorem reset_restores_iff (s : Stack) (ops : List Op) :
    resetStack s.frames.length s.values (s.run ops) = s ↔ pushed ops = 0 := by
  rw [reset_frames_only]
  constructor
  · intro h
    have := congrArg Stack.values h
    simp at this; exact this
  · intro h; simp [h]

/-- The repaired error path (also truncate the values to their length at entry) restores the thread. -/
theorem reset_restores_fixed (s : Stack) (ops : List Op) :
    resetFixed s.frames.length s.values (s.run ops) = s :=
  resetFixed_after_run s ops

/-- Over a whole history the leaks of the failed runs add up; successful runs in between reclaim nothing. -/
theorem history_leaks (steps : List Step) (s : Stack) :
    runHistory resetStack steps s = ⟨s.frames, s.values + leakSum steps⟩ :=
  Proofs.Frames.history_leaks steps s

/-- With the repaired error path any interleaving of failing and succeeding runs leaves the thread as it was. -/
theorem history_fixed_clean (steps : List Step) (s : Stack) : runHistory resetFixed steps s = s :=
  history_fixed steps s

/-! ## Non-vacuity -/

example : sem_string_slice [.str [97, 195, 169], .int 1, .int 3] = .ok (.s [195, 169]) := rfl
example : sem_string_slice [.str [97, 195, 169], .int 1, .int 2] = .err := rfl
example : sem_int_rem [.int 7, .int 0] = .err := rfl
example : sem_int_shl [.int 1, .int 63] = .ok (.i i64Min) := rfl
-- a guarded primitive: the first entry of `guardedSems` (one string comparison per table entry passed)
example : outcome "std.int.prim.checked_rem" [.int i64Min, .int (-1)] = .ok (.d 0 []) := rfl
example : ofRRT Res.i (array_index [1, 2] 5) = .err := rfl
example : ofRRT intsRes (array_slice [1, 2, 3] 2 1) = .err := rfl
example : isCharBoundary [97, 98, 99] 2 = true ∧ isCharBoundary [97, 98, 99] 1 = true ∧ 1 < 2 := by decide
example : runHistory resetStack [.fail 3 10, .ok 2 5, .fail 1 4] Stack.base = ⟨[0], 14⟩ := by decide
example : pushed [.push 3, .enter 1] = 3 := rfl

end GluonModel.Props.C06
