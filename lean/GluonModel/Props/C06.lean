/-
C06 — "Scripts cannot crash the host; errors are values and the VM stays usable.
No Gluon program - including a call to any standard-library primitive with any well-typed arguments - can
panic or abort the embedding process: every failure is returned to the host as an error value. After a failed
evaluation the same VM evaluates later programs exactly as a fresh VM would, and the memory and stack used by
the failed run can be reclaimed."

Models: `GluonModel.RustStd` (panic conditions of the core functions the tables call), `GluonModel.Prims`
(the primitive wrappers, `outcome`), `GluonModel.Generated.PrimTable` (the tables themselves, re-extracted from
/repo on every run), `GluonModel.Frames` (`reset_stack`).  Helper lemmas: `Proofs/Prims.lean`, `Proofs/Frames.lean`.

First half (primitives): TRUE of the code since /repo 27c589a (`catch_unwind` in `unpack_and_call`) and proved
here as `prims_total` with no exception list: a panic of the called function is caught and becomes an error
value; the two hand-written `extern "C"` entries that bypass `unpack_and_call` are proved panic-free.  The rule
of the code before that commit is kept as regression statements: `prims_total_old_rule_fails`, one
`…_old_rule_aborts` witness per primitive, `…_old_rule_abort_iff`; the same conditions now characterise
exactly when the primitive returns an error value (`…_errors_iff`).

Second half (the VM after a failed evaluation): TRUE of the code since the D5 fix (the error path of
`call_thunk_top`/`execute_io_top` pops the values the failed run left) and proved as `reset_restores` /
`history_clean` (every step kind, including failing host calls of Gluon functions since /repo dd1aca2; old rule:
`host_call_old_rule_leaves`, `history_clean_old_rule_fails`); the old rule (`reset_stack` alone) is kept as `reset_old_rule_frames_only`,
`reset_restores_old_rule_fails`, `reset_restores_old_rule_iff`, `history_old_rule_leaks`.
-/
import GluonModel.Prims
import GluonModel.Frames
import GluonModel.Generated.PrimTable
import GluonModel.Proofs.Prims
import GluonModel.Proofs.Frames

namespace GluonModel.Props.C06
open GluonModel.RustStd GluonModel.Prims GluonModel.Frames GluonModel.Generated
open GluonModel.Proofs.Prims GluonModel.Proofs.Frames

/-! ## Part (i): primitives -/

/-- **Main theorem, first half.** No primitive of the extracted tables — for ANY argument list, well-typed
    or not — aborts the host: the outcome is a value, an error value, or a type error.
    Mechanism (function.rs:310-330): the Rust function runs under `catch_unwind`; a panic releases the frame
    lock, pushes the message and returns `Status::Error`.  The two entries that are hand-written
    `extern "C"` functions (`std.prim.error`, `std.prim.discriminant_value`) are not routed through it and
    are shown not to panic.  (Not covered: a panic while *pushing the result* — `async_status_push` is
    outside the `catch_unwind` — or in `Getable::from_value`; none of the modelled types has one.) -/
theorem prims_total (e : PrimEntry) (_he : e ∈ primTable) (args : List Val) :
    outcome e.name args ≠ .abort :=
  outcome_no_abort e.name args

/-- … and in fact for every name (unmodelled names are `unmodelled`, not `abort`; which names are modelled is
    the driver's `coverage` check). -/
theorem prims_total_any (name : String) (args : List Val) : outcome name args ≠ .abort :=
  outcome_no_abort name args

/-- Old rule (before 27c589a, no `catch_unwind`): every primitive outside the offending list never panics
    inside the wrapper — the guards of the hand-written wrappers (`array::index`, `array::slice`,
    `string::split_at`, `string::char_at`, `int::wrapping_rem`, …) imply the preconditions of the panicking
    std functions they call.  Still what makes the *error conditions* below exact. -/
theorem prims_total_old_rule_partial (e : PrimEntry) (_he : e ∈ primTable) (hn : e.name ∉ offending)
    (args : List Val) : rawOutcome e.name args ≠ .abort :=
  rawOutcome_no_abort e.name hn args

/-- A panic of the called function reaches the script as an error value. -/
theorem caught_panic_is_error_value : catchUnwind .abort = .err := rfl

/-- The offending list, spelled out (syntactic: a change of `offendingSems` must be repeated here). -/
theorem offending_names : offending =
    ["std.int.prim.from_str_radix", "std.int.prim.shl", "std.int.prim.arithmetic_shr", "std.int.prim.logical_shr",
     "std.int.prim.pow", "std.int.prim.abs", "std.int.prim.rem", "std.int.prim.rem_euclid",
     "std.int.prim.wrapping_div", "std.int.prim.overflowing_div", "std.byte.prim.shl", "std.byte.prim.shr",
     "std.byte.prim.pow", "std.byte.prim.wrapping_div", "std.byte.prim.overflowing_div", "std.char.prim.is_digit",
     "std.char.prim.to_digit", "std.string.prim.slice", "std.effect.st.string.prim.slice",
     "std.random.prim.gen_int_range"] := rfl

/-- Old rule: the property's first half failed — an offending primitive aborted the host on well-typed arguments.
    (That every offending name is an entry of the real table, and that every table entry of the modelled
    modules has a model, is checked by the driver's `coverage` request on every run — evaluating string
    look-ups over the 239-entry table inside the kernel costs minutes.) -/
theorem prims_total_old_rule_fails :
    ∃ name ∈ offending, ∃ args : List Val, (∀ v ∈ args, v.WT) ∧ rawOutcome name args = .abort := by
  refine ⟨"std.int.prim.from_str_radix", by rw [offending_names]; exact List.mem_cons_self,
    [.str [49, 50], .int 99], ?_, rfl⟩
  intro v hv
  simp at hv
  rcases hv with rfl | rfl <;> simp [Val.WT, InI64, i64Min, i64Max]

/-! Old rule: one witness per offending primitive (`abort` = the called function panics; these inputs are
    replayed on the real code by the harness, where they now must give an error value). -/

theorem int_from_str_radix_old_rule_aborts : sem_int_from_str_radix [.str [49, 50], .int 99] = .abort := rfl
theorem int_shl_old_rule_aborts : sem_int_shl [.int 1, .int 100] = .abort := rfl
theorem int_arithmetic_shr_old_rule_aborts : sem_int_arithmetic_shr [.int 1, .int 64] = .abort := rfl
theorem int_logical_shr_old_rule_aborts : sem_int_logical_shr [.int 1, .int (-1)] = .abort := rfl
theorem int_pow_old_rule_aborts : sem_int_pow [.int 10, .int 100] = .abort := rfl
theorem int_abs_old_rule_aborts : sem_int_abs [.int i64Min] = .abort := rfl
theorem int_rem_old_rule_aborts : sem_int_rem [.int i64Min, .int (-1)] = .abort := rfl
theorem int_rem_euclid_old_rule_aborts : sem_int_rem_euclid [.int i64Min, .int (-1)] = .abort := rfl
theorem int_wrapping_div_old_rule_aborts : sem_int_wrapping_div [.int 1, .int 0] = .abort := rfl
theorem int_overflowing_div_old_rule_aborts : sem_int_overflowing_div [.int 1, .int 0] = .abort := rfl
theorem byte_shl_old_rule_aborts : sem_byte_shl [.byte 1, .byte 9] = .abort := rfl
theorem byte_shr_old_rule_aborts : sem_byte_shr [.byte 1, .byte 8] = .abort := rfl
theorem byte_pow_old_rule_aborts : sem_byte_pow [.byte 2, .int 8] = .abort := rfl
theorem byte_wrapping_div_old_rule_aborts : sem_byte_wrapping_div [.byte 1, .byte 0] = .abort := rfl
theorem byte_overflowing_div_old_rule_aborts : sem_byte_overflowing_div [.byte 1, .byte 0] = .abort := rfl
theorem char_is_digit_old_rule_aborts : sem_char_is_digit [.char 97, .int 99] = .abort := rfl
theorem char_to_digit_old_rule_aborts : sem_char_to_digit [.char 97, .int 0] = .abort := rfl
theorem string_slice_old_rule_aborts : sem_string_slice [.str [97, 98, 99], .int 2, .int 1] = .abort := rfl
theorem st_string_slice_old_rule_aborts :
    sem_effect_st_string_slice [.sbuf [97, 98, 99], .int 2, .int 1] = .abort := rfl
theorem random_gen_int_range_old_rule_aborts : sem_random_gen_int_range [.int 1, .int 1] = .abort := rfl

/-! Exact panic conditions of the called functions (old rule: abort conditions). -/

theorem int_shl_old_rule_abort_iff (a n : Int) :
    sem_int_shl [.int a, .int n] = .abort ↔ ¬ (0 ≤ n ∧ n < 64) := by
  have h : sem_int_shl [.int a, .int n] = ofR .i (i64_shl a n) := rfl
  rw [h, ofR_abort_iff]; unfold i64_shl; split <;> simp [*]

theorem int_arithmetic_shr_old_rule_abort_iff (a n : Int) :
    sem_int_arithmetic_shr [.int a, .int n] = .abort ↔ ¬ (0 ≤ n ∧ n < 64) := by
  have h : sem_int_arithmetic_shr [.int a, .int n] = ofR .i (i64_shr a n) := rfl
  rw [h, ofR_abort_iff]; unfold i64_shr; split <;> simp [*]

theorem int_abs_old_rule_abort_iff (a : Int) : sem_int_abs [.int a] = .abort ↔ a = i64Min := by
  have h : sem_int_abs [.int a] = ofR .i (i64_abs a) := rfl
  rw [h, ofR_abort_iff]; unfold i64_abs; split <;> simp [*]

/-- `int::rem` guards the divisor against 0 (an error value) but not `MIN % -1`. -/
theorem int_rem_old_rule_abort_iff (a b : Int) :
    sem_int_rem [.int a, .int b] = .abort ↔ (a = i64Min ∧ b = -1) := by
  have h : sem_int_rem [.int a, .int b] = ofRRT .i (int_rem a b) := rfl
  rw [h, ofRRT_abort_iff]; unfold int_rem
  split
  · rename_i hb
    rw [map_panic_iff]; unfold i64_rem
    simp only [hb, if_false]
    split <;> simp [*]
  · rename_i hb
    have : b = 0 := by simpa using hb
    subst this; simp

theorem int_rem_euclid_old_rule_abort_iff (a b : Int) :
    sem_int_rem_euclid [.int a, .int b] = .abort ↔ (a = i64Min ∧ b = -1) := by
  have h : sem_int_rem_euclid [.int a, .int b] = ofRRT .i (int_rem_euclid a b) := rfl
  rw [h, ofRRT_abort_iff]; unfold int_rem_euclid
  split
  · rename_i hb
    rw [map_panic_iff]; unfold i64_rem_euclid
    simp only [hb, if_false]
    split <;> simp [*]
  · rename_i hb
    have : b = 0 := by simpa using hb
    subst this; simp

theorem int_wrapping_div_old_rule_abort_iff (a b : Int) :
    sem_int_wrapping_div [.int a, .int b] = .abort ↔ b = 0 := by
  have h : sem_int_wrapping_div [.int a, .int b] = ofR .i (i64_wrapping_div a b) := rfl
  rw [h, ofR_abort_iff]; unfold i64_wrapping_div; split <;> simp [*]

theorem int_overflowing_div_old_rule_abort_iff (a b : Int) :
    sem_int_overflowing_div [.int a, .int b] = .abort ↔ b = 0 := by
  have h : sem_int_overflowing_div [.int a, .int b]
      = ofR Res.pairIB (i64_overflowing_div a b) := rfl
  rw [h, ofR_abort_iff]; unfold i64_overflowing_div; split <;> simp [*]

theorem int_from_str_radix_old_rule_abort_iff (s : Bytes) (r : Int) :
    sem_int_from_str_radix [.str s, .int r] = .abort ↔ ¬ (2 ≤ toU32 r ∧ toU32 r ≤ 36) := by
  have h : sem_int_from_str_radix [.str s, .int r]
      = ofR (Res.result .i) (i64_from_str_radix s (toU32 r)) := rfl
  rw [h, ofR_abort_iff]; unfold i64_from_str_radix; split <;> simp [*]

theorem byte_shl_old_rule_abort_iff (a n : Int) :
    sem_byte_shl [.byte a, .byte n] = .abort ↔ ¬ n < 8 := by
  have h : sem_byte_shl [.byte a, .byte n] = ofR .b (u8_shl a n) := rfl
  rw [h, ofR_abort_iff]; unfold u8_shl; split <;> simp [*]

theorem byte_wrapping_div_old_rule_abort_iff (a b : Int) :
    sem_byte_wrapping_div [.byte a, .byte b] = .abort ↔ b = 0 := by
  have h : sem_byte_wrapping_div [.byte a, .byte b] = ofR .b (u8_wrapping_div a b) := rfl
  rw [h, ofR_abort_iff]; unfold u8_wrapping_div; split <;> simp [*]

theorem char_to_digit_old_rule_abort_iff (c r : Int) :
    sem_char_to_digit [.char c, .int r] = .abort ↔ ¬ (2 ≤ toU32 r ∧ toU32 r ≤ 36) := by
  have h : sem_char_to_digit [.char c, .int r]
      = ofR (Res.opt .i) (char_to_digit c (toU32 r)) := rfl
  rw [h, ofR_abort_iff]; unfold char_to_digit; split <;> simp [*]

/-- `string::slice` checks both indices for char boundaries (hence ≤ len) but never `start ≤ end`. -/
theorem string_slice_old_rule_abort_iff (s : Bytes) (a b : Int) :
    sem_string_slice [.str s, .int a, .int b] = .abort ↔
      (isCharBoundary s (toU64 a).toNat = true ∧ isCharBoundary s (toU64 b).toNat = true ∧
        (toU64 b).toNat < (toU64 a).toNat) := by
  have h : sem_string_slice [.str s, .int a, .int b] = ofRRT .s (string_slice s a b) := rfl
  rw [h, ofRRT_abort_iff]; exact string_slice_panic_iff s a b

theorem random_gen_int_range_old_rule_abort_iff (lo hi : Int) :
    sem_random_gen_int_range [.int lo, .int hi] = .abort ↔ ¬ lo < hi := by
  have h : sem_random_gen_int_range [.int lo, .int hi]
      = ofR (fun _ => Res.opaque) (random_gen_int_range lo hi) := rfl
  rw [h, ofR_abort_iff]; unfold random_gen_int_range; split <;> simp [*]

/-! Current rule: exactly when each of these primitives returns an ERROR VALUE to the script. -/

theorem caught_ofR {α} (f : α → Res) (r : R α) : catchUnwind (ofR f r) = .err ↔ ofR f r = .abort := by
  rw [catchUnwind_err_iff]
  constructor
  · rintro (h | h)
    · exact absurd h (ofR_ne_err f r)
    · exact h
  · exact Or.inr

theorem int_shl_errors_iff (a n : Int) :
    catchUnwind (sem_int_shl [.int a, .int n]) = .err ↔ ¬ (0 ≤ n ∧ n < 64) := by
  have h : sem_int_shl [.int a, .int n] = ofR .i (i64_shl a n) := rfl
  rw [h, caught_ofR, ← h]; exact int_shl_old_rule_abort_iff a n

theorem int_arithmetic_shr_errors_iff (a n : Int) :
    catchUnwind (sem_int_arithmetic_shr [.int a, .int n]) = .err ↔ ¬ (0 ≤ n ∧ n < 64) := by
  have h : sem_int_arithmetic_shr [.int a, .int n] = ofR .i (i64_shr a n) := rfl
  rw [h, caught_ofR, ← h]; exact int_arithmetic_shr_old_rule_abort_iff a n

theorem int_abs_errors_iff (a : Int) : catchUnwind (sem_int_abs [.int a]) = .err ↔ a = i64Min := by
  have h : sem_int_abs [.int a] = ofR .i (i64_abs a) := rfl
  rw [h, caught_ofR, ← h]; exact int_abs_old_rule_abort_iff a

/-- `int.rem`: the division by zero was always an error value; `MIN % -1` is one now. -/
theorem int_rem_errors_iff (a b : Int) :
    catchUnwind (sem_int_rem [.int a, .int b]) = .err ↔ (b = 0 ∨ (a = i64Min ∧ b = -1)) := by
  rw [catchUnwind_err_iff, int_rem_old_rule_abort_iff]
  have h : sem_int_rem [.int a, .int b] = ofRRT .i (int_rem a b) := rfl
  rw [h, ofRRT_err_iff]
  have : int_rem a b = .ret .panic ↔ b = 0 := by
    unfold int_rem
    split
    · rename_i hb
      constructor
      · intro e
        unfold i64_rem at e
        simp only [hb, if_false] at e
        split at e <;> simp [R.map] at e
      · intro e; exact absurd e hb
    · rename_i hb
      have : b = 0 := by simpa using hb
      simp [this]
  rw [this]

theorem int_rem_euclid_errors_iff (a b : Int) :
    catchUnwind (sem_int_rem_euclid [.int a, .int b]) = .err ↔ (b = 0 ∨ (a = i64Min ∧ b = -1)) := by
  rw [catchUnwind_err_iff, int_rem_euclid_old_rule_abort_iff]
  have h : sem_int_rem_euclid [.int a, .int b] = ofRRT .i (int_rem_euclid a b) := rfl
  rw [h, ofRRT_err_iff]
  have : int_rem_euclid a b = .ret .panic ↔ b = 0 := by
    unfold int_rem_euclid
    split
    · rename_i hb
      constructor
      · intro e
        unfold i64_rem_euclid at e
        simp only [hb, if_false] at e
        split at e <;> simp [R.map] at e
      · intro e; exact absurd e hb
    · rename_i hb
      have : b = 0 := by simpa using hb
      simp [this]
  rw [this]

theorem int_wrapping_div_errors_iff (a b : Int) :
    catchUnwind (sem_int_wrapping_div [.int a, .int b]) = .err ↔ b = 0 := by
  have h : sem_int_wrapping_div [.int a, .int b] = ofR .i (i64_wrapping_div a b) := rfl
  rw [h, caught_ofR, ← h]; exact int_wrapping_div_old_rule_abort_iff a b

theorem int_overflowing_div_errors_iff (a b : Int) :
    catchUnwind (sem_int_overflowing_div [.int a, .int b]) = .err ↔ b = 0 := by
  have h : sem_int_overflowing_div [.int a, .int b] = ofR Res.pairIB (i64_overflowing_div a b) := rfl
  rw [h, caught_ofR, ← h]; exact int_overflowing_div_old_rule_abort_iff a b

theorem int_from_str_radix_errors_iff (s : Bytes) (r : Int) :
    catchUnwind (sem_int_from_str_radix [.str s, .int r]) = .err ↔ ¬ (2 ≤ toU32 r ∧ toU32 r ≤ 36) := by
  have h : sem_int_from_str_radix [.str s, .int r]
      = ofR (Res.result .i) (i64_from_str_radix s (toU32 r)) := rfl
  rw [h, caught_ofR, ← h]; exact int_from_str_radix_old_rule_abort_iff s r

theorem byte_shl_errors_iff (a n : Int) :
    catchUnwind (sem_byte_shl [.byte a, .byte n]) = .err ↔ ¬ n < 8 := by
  have h : sem_byte_shl [.byte a, .byte n] = ofR .b (u8_shl a n) := rfl
  rw [h, caught_ofR, ← h]; exact byte_shl_old_rule_abort_iff a n

theorem byte_wrapping_div_errors_iff (a b : Int) :
    catchUnwind (sem_byte_wrapping_div [.byte a, .byte b]) = .err ↔ b = 0 := by
  have h : sem_byte_wrapping_div [.byte a, .byte b] = ofR .b (u8_wrapping_div a b) := rfl
  rw [h, caught_ofR, ← h]; exact byte_wrapping_div_old_rule_abort_iff a b

theorem char_to_digit_errors_iff (c r : Int) :
    catchUnwind (sem_char_to_digit [.char c, .int r]) = .err ↔ ¬ (2 ≤ toU32 r ∧ toU32 r ≤ 36) := by
  have h : sem_char_to_digit [.char c, .int r] = ofR (Res.opt .i) (char_to_digit c (toU32 r)) := rfl
  rw [h, caught_ofR, ← h]; exact char_to_digit_old_rule_abort_iff c r

theorem random_gen_int_range_errors_iff (lo hi : Int) :
    catchUnwind (sem_random_gen_int_range [.int lo, .int hi]) = .err ↔ ¬ lo < hi := by
  have h : sem_random_gen_int_range [.int lo, .int hi]
      = ofR (fun _ => Res.opaque) (random_gen_int_range lo hi) := rfl
  rw [h, caught_ofR, ← h]; exact random_gen_int_range_old_rule_abort_iff lo hi

/-- `string.slice` returns the slice exactly for `start ≤ end`, both on char boundaries; every other index pair is
    an error value (the off-boundary ones through the wrapper's own check, `end < start` through the caught panic). -/
theorem string_slice_errors_iff (s : Bytes) (a b : Int) :
    catchUnwind (sem_string_slice [.str s, .int a, .int b]) = .err ↔
      ¬ (isCharBoundary s (toU64 a).toNat = true ∧ isCharBoundary s (toU64 b).toNat = true ∧
          (toU64 a).toNat ≤ (toU64 b).toNat) := by
  rw [catchUnwind_err_iff, string_slice_old_rule_abort_iff]
  have h : sem_string_slice [.str s, .int a, .int b] = ofRRT .s (string_slice s a b) := rfl
  rw [h, ofRRT_err_iff]
  have : string_slice s a b = .ret .panic ↔
      ¬ (isCharBoundary s (toU64 a).toNat = true ∧ isCharBoundary s (toU64 b).toNat = true) := by
    unfold string_slice
    simp only []
    split
    · rename_i hb
      simp only [Bool.and_eq_true] at hb
      constructor
      · intro e
        unfold str_index at e
        split at e <;> simp [R.map] at e
      · intro e; exact absurd hb e
    · rename_i hb
      simp only [Bool.and_eq_true] at hb
      simp [hb]
  rw [this]
  constructor
  · rintro (h1 | ⟨h1, h2, h3⟩)
    · intro ⟨x, y, _⟩; exact h1 ⟨x, y⟩
    · intro ⟨_, _, z⟩; omega
  · intro hn
    by_cases hb : isCharBoundary s (toU64 a).toNat = true ∧ isCharBoundary s (toU64 b).toNat = true
    · right
      refine ⟨hb.1, hb.2, ?_⟩
      by_cases hle : (toU64 a).toNat ≤ (toU64 b).toNat
      · exact absurd ⟨hb.1, hb.2, hle⟩ hn
      · omega
    · left; exact hb

/-- With the missing check added (`start ≤ end`), `string::slice` can no longer abort. -/
theorem string_slice_fixed (s : Bytes) (a b : Int) :
    (let x := (toU64 a).toNat; let y := (toU64 b).toNat
     if x ≤ y ∧ isCharBoundary s x ∧ isCharBoundary s y then (str_index s x y).map RT.ret
     else R.ret RT.panic) ≠ .panic := by
  simp only []
  split
  · rename_i h
    rw [Ne, map_panic_iff]; unfold str_index
    have := boundary_le s _ h.2.2
    simp [h.1, h.2.1, h.2.2, this]
  · simp

/-- `RuntimeResult::Panic` (the validation failures of the wrappers) reaches the host as an error value. -/
theorem runtime_panic_is_error_value {α} (f : α → Res) : ofRRT f (.ret .panic) = .err := rfl

/-! ## Part (ii): the stack after a failed evaluation -/

/-- **Main theorem, second half.** After ANY run that failed (any sequence of pushes and frame entries) the
    error path of `call_thunk_top`/`execute_io_top` (`reset_stack` + popping the left-over values,
    thread.rs:1137-1151) leaves the thread exactly as it was before the run: same frames, same number of
    values — nothing of the failed run stays rooted or counts against the stack limit. -/
theorem reset_restores (s : Stack) (ops : List Op) :
    resetFixed s.frames.length s.values (s.run ops) = s :=
  resetFixed_after_run s ops

/-- **Main theorem.** After ANY interleaving of succeeding evaluations, failing top-level evaluations (`run_expr`,
    IO actions, failures inside async primitives) and failing host calls of Gluon functions the thread has exactly
    its old frames, and its old values plus ONE `Int 0` per *successful* IO action (the dummy slot of `execute_io`,
    thread.rs:1265 — a success-path leftover, reported to the lead, outside the property's "failed run" clause):
    nothing of any failed run remains (error paths: thread.rs:1137-1151, :1167-1179, api/function.rs:460-476). -/
theorem history_restores (steps : List Step) (s : Stack) :
    runHistory resetFixed steps s = ⟨s.frames, s.values + ioSlots steps⟩ :=
  history_fixed steps s

/-- In particular a history without successful IO actions leaves the thread exactly as a fresh one. -/
theorem history_clean (steps : List Step) (s : Stack) (h : ioSlots steps = 0) :
    runHistory resetFixed steps s = s := by
  rw [history_restores, h]; cases s; rfl

/-! ### failures inside future-returning primitives: the extern-frame lock -/

/-- The error path restores the thread after ANY failed run as long as no frame of the run is still locked when the
    error is propagated (`exit_scope` refuses locked extern frames, stack.rs:875-879). -/
theorem reset_restores_unlocked (base : List LFrame) (vlen p : Nat) (fs : List LFrame)
    (hu : ∀ f ∈ fs, f.locked = false) :
    resetTopL base.length vlen ⟨fs ++ base, vlen + p⟩ = (⟨base, vlen⟩, true) :=
  resetTopL_unlocked base vlen p fs hu

/-- `reset_restores` for failures that surface through an async primitive (`lazy.force`, `io.catch`, `io.run_expr`,
    `io.load_script`, `thread.resume`, …): `return_future`'s poll function releases the extern frame's lock BEFORE it
    propagates the error of the pushed result (thread.rs:1666-1673), so the error path unwinds everything and the
    host receives the script's own error. -/
theorem reset_restores_async (s : Stack) (d v : Nat) : asyncFailStep true s d v = (s, true) :=
  asyncFail_restores s d v

/-- The other order — push the result with `?` first, release the lock afterwards — is NOT equivalent: on an error the
    frame stays locked, `reset_stack` stops at once (the host gets `Attempted to exit scope above current`), and all
    `d + 1` frames and `v` values of the failed run stay on the thread. -/
theorem reset_restores_async_lock_order_fails (s : Stack) (d v : Nat) :
    (asyncFailStep false s d v).2 = false ∧
    (asyncFailStep false s d v).1.frames.length = s.frames.length + d + 1 ∧
    (asyncFailStep false s d v).1.values = s.values + v :=
  asyncFail_lock_order_stuck s d v

/-- For a *successful* completion the two orders agree (which is why the swap looks harmless). -/
theorem lock_order_irrelevant_on_success (s : LStack) :
    completeAsync true false s = completeAsync false false s := by
  cases s with
  | mk fs v => cases fs <;> simp [completeAsync, unlockTop]

/-! Old rule (before /repo dd1aca2: `call_first` propagated the error with `?`, no `reset_stack`) — regression. -/

theorem host_call_old_rule_leaves (reset : Nat → Nat → Stack → Stack) (s : Stack) (d v : Nat) :
    (stepWithOldHost reset s (.hostFail d v)).frames.length = s.frames.length + d ∧
    (stepWithOldHost reset s (.hostFail d v)).values = s.values + v :=
  hostFail_leaves reset s d v

theorem history_clean_old_rule_fails :
    ∃ steps, runHistoryOldHost resetFixed steps Stack.base ≠ Stack.base :=
  ⟨[.hostFail 2 3], by decide⟩

/-! Old rule (before the D5 fix: `reset_stack` alone) — regression statements. -/

/-- `reset_stack` restores the frame stack — and nothing else; every value the run had pushed stays on the
    value stack (thread.rs:2989, stack.rs:871: `frames.pop()` only). -/
theorem reset_old_rule_frames_only (s : Stack) (ops : List Op) :
    resetStack s.frames.length s.values (s.run ops) = ⟨s.frames, s.values + pushed ops⟩ :=
  reset_after_run s ops

/-- Under the old rule the second half failed: after a failed run the stack was not what it had been. -/
theorem reset_restores_old_rule_fails :
    ∃ (s : Stack) (ops : List Op), resetStack s.frames.length s.values (s.run ops) ≠ s :=
  ⟨Stack.base, [.push 3, .enter 1], by decide⟩

/-- … exactly when the failed run had pushed something. -/
theorem reset_restores_old_rule_iff (s : Stack) (ops : List Op) :
    resetStack s.frames.length s.values (s.run ops) = s ↔ pushed ops = 0 := by
  rw [reset_old_rule_frames_only]
  constructor
  · intro h
    have := congrArg Stack.values h
    simp at this; exact this
  · intro h; simp [h]

/-- Under the old rule the leaks of the failed runs added up over a history; successful runs reclaimed nothing. -/
theorem history_old_rule_leaks (steps : List Step) (s : Stack) :
    runHistory resetStack steps s = ⟨s.frames, s.values + leakSum steps⟩ :=
  Proofs.Frames.history_leaks steps s

/-! ## Non-vacuity -/

example : sem_string_slice [.str [97, 195, 169], .int 1, .int 3] = .ok (.s [195, 169]) := rfl
example : sem_string_slice [.str [97, 195, 169], .int 1, .int 2] = .err := rfl
example : sem_int_rem [.int 7, .int 0] = .err := rfl
example : sem_int_shl [.int 1, .int 63] = .ok (.i i64Min) := rfl
-- a guarded primitive: the first entry of `guardedSems` (one string comparison per table entry passed)
example : outcome "std.int.prim.checked_rem" [.int i64Min, .int (-1)] = .ok (.d 0 []) := rfl
example : outcome "std.int.prim.from_str_radix" [.str [49, 50], .int 99] = .err := rfl
example : catchUnwind (sem_int_shl [.int 1, .int 100]) = .err := rfl
example : catchUnwind (sem_string_slice [.str [97, 98, 99], .int 2, .int 1]) = .err := rfl
example : ofRRT Res.i (array_index [1, 2] 5) = .err := rfl
example : ofRRT intsRes (array_slice [1, 2, 3] 2 1) = .err := rfl
example : isCharBoundary [97, 98, 99] 2 = true ∧ isCharBoundary [97, 98, 99] 1 = true ∧ 1 < 2 := by decide
example : runHistory resetStack [.fail 3 10, .ok 2 5, .fail 1 4] Stack.base = ⟨[0], 14⟩ := by decide
example : runHistory resetFixed [.fail 3 10, .ok 2 5, .fail 1 4] Stack.base = Stack.base := by decide
example : pushed [.push 3, .enter 1] = 3 := rfl
example : asyncFailStep false Stack.base 1 5 = (⟨[5, 5, 0], 5⟩, false) := by decide
example : runHistory resetFixed [.asyncFail 1 5, .ok 1 0, .hostFail 2 3] Stack.base = Stack.base := by decide
example : runHistory resetFixed [.okIO, .asyncFail 1 5, .okIO] Stack.base = ⟨[0], 2⟩ := by decide

end GluonModel.Props.C06
