/-
C18 — "The textual rendering of any type … parses back to a type equivalent to the original, at
every line width."

Model: `GluonModel.TypePrint` — `print : Prec → Ty → List Tok` (base/src/types/mod.rs:2503-3017)
and the grammar `pType / pAtomic / … / pTop` (parser/src/grammar.lalrpop:293-550).  The line width
only changes white space; the model prints tokens, so every statement below holds "at every
width" by construction (that the real token stream does not depend on the width is checked by the
correspondence, not proved).

FULL statement (not proved in this generality — and FALSE for the unchanged code, see the
`_fails` theorems):   ∀ t, parseTop (print .top t) = some t.
Proved: the statement for the core fragment (`Core`: holes, constructors, generics, `(->)`,
explicit/implicit functions, `forall`, applications), in the generalised form "every needed
parenthesis is printed" (`parse_print_*_partial`), its corollaries, and universal / concrete
witnesses of the ways the full statement fails.  Records, tuples, variants and effect rows are
covered by the executable model + exact correspondence + oracle only.

Only property theorems live here; lemmas are in `GluonModel.Proofs.TypePrint`.
-/
import GluonModel.TypePrint
import GluonModel.Proofs.TypePrint

namespace GluonModel.Props.C18
open GluonModel.TypePrint GluonModel.Proofs.TypePrint

/-- What may follow a type printed at `Prec::Top` without being absorbed into it: not `.`
    (projection), not the start of an atomic type (application argument), not `->`. -/
def FollowsTop (rest : List Tok) : Prop := NoDot rest ∧ NoAtom rest ∧ NoArrow rest

/-- Top level: the grammar rule `Type` reads `print Top t` back as `t` and stops exactly at the
    end of the rendering, whatever admissible tokens follow. -/
theorem parse_print_top_partial (t : Ty) (hc : Core t) (fuel : Nat) (rest : List Tok)
    (hf : need t ≤ fuel) (hr : FollowsTop rest) :
    pType fuel (print .top t ++ rest) = some (t, rest) :=
  (reads_core t hc).2.2.1 fuel rest hf hr.1 hr.2.1 hr.2.2

/-- Function-argument position (`Prec::Function`): the rendering is an `AppType`, so a `->` may
    follow: the parentheses around function and `forall` arguments are all there. -/
theorem parse_print_function_arg_partial (t : Ty) (hc : Core t) (fuel : Nat) (rest : List Tok)
    (hf : need t ≤ fuel) (hd : NoDot rest) (ha : NoAtom rest) :
    pApp fuel (print .function t ++ rest) = some (t, rest) :=
  (reads_core t hc).2.1 fuel rest hf hd ha

/-- Constructor-argument position (`Prec::Constructor`): the rendering is an `AtomicType`, so
    anything but `.` may follow (further arguments, `->`, …): the parentheses around
    applications, functions and `forall`s in argument position are all there. -/
theorem parse_print_constructor_arg_partial (t : Ty) (hc : Core t) (fuel : Nat) (rest : List Tok)
    (hf : need t ≤ fuel) (hd : NoDot rest) :
    pAtomic fuel (print .constructor t ++ rest) = some (t, rest) :=
  (reads_core t hc).1 fuel rest hf hd

/-- Round trip through the entry point used for `let _ : <type> = …`. -/
theorem roundtrip_annotation_partial (t : Ty) (hc : Core t) : parseAnn (print .top t) = some t := by
  have h := parse_print_top_partial t hc (fuelFor (print .top t)) []
    (by have := (need_le_tokens t hc).1; unfold fuelFor; omega) ⟨trivial, trivial, trivial⟩
  simp only [List.append_nil] at h
  simp [parseAnn, h]

/-- … and through the one used for `type T = <type>` (generated declarations, make_source). -/
theorem roundtrip_type_binding_partial (t : Ty) (hc : Core t) (hnf : ∀ vs b, t ≠ .all vs b) :
    parseTop (print .top t) = some t := by
  have h := parse_print_top_partial t hc (fuelFor (print .top t)) []
    (by have := (need_le_tokens t hc).1; unfold fuelFor; omega) ⟨trivial, trivial, trivial⟩
  simp only [List.append_nil] at h
  have hok : ∀ l, HeadOK l → pTop (fuelFor l) l = pType (fuelFor l) l := by
    intro l hl
    match l, hl with
    | .id s :: ts, _ => simp only [pTop]
    | .lparen :: ts, _ => simp only [pTop]
  have hTop : pTop (fuelFor (print .top t)) (print .top t)
      = pType (fuelFor (print .top t)) (print .top t) := by
    cases hc with
    | all v vs b _ => exact absurd rfl (hnf _ _)
    | fn i a r ha hr =>
      cases i
      · apply hok
        have := headOK_fun a ha ([.arrow] ++ print .top r)
        rw [print_fn, enclose_top _ _ (by decide)]
        simpa using this
      · have e : print .top (.fn true a r)
            = .lbracket :: (print .function a ++ [.rbracket] ++ [.arrow] ++ print .top r) := by
          rw [print_fn, enclose_top _ _ (by decide)]; simp
        rw [e]; simp only [pTop]
    | hole => exact hok _ (by simp [HeadOK])
    | arrow => exact hok _ (by simp [HeadOK])
    | con n _ => exact hok _ (by simp [HeadOK])
    | var n _ => exact hok _ (by simp [HeadOK])
    | app f a hf hlf ha =>
      have := headOK_headLike _ (Core.app f a hf hlf ha) rfl []
      simp only [List.append_nil] at this
      exact hok _ this
  unfold parseTop
  rw [hTop, h]

/-- Hence no two different core types share a rendering. -/
theorem print_injective_partial (t₁ t₂ : Ty) (h₁ : Core t₁) (h₂ : Core t₂)
    (h : print .top t₁ = print .top t₂) : t₁ = t₂ := by
  have e₁ := roundtrip_annotation_partial t₁ h₁
  have e₂ := roundtrip_annotation_partial t₂ h₂
  rw [h, e₂] at e₁
  exact (Option.some.inj e₁).symm

/-- Line width: the model's rendering is a token stream; `width` is not an input of `print`, so
    the round trip holds at every width as soon as the real token stream is width-independent
    (checked by the correspondence at widths 20…200). -/
theorem width_irrelevant_partial (t : Ty) (hc : Core t) (_width : Nat) :
    parseAnn (print .top t) = some t :=
  roundtrip_annotation_partial t hc

/-! ### Where the full statement fails on the unchanged code -/

/-- FINDING `unparsable:variant-not-at-top` (universal form): a rendering that starts with `|`
    is rejected by the rule `Type`, whatever follows — so no type containing a variant anywhere
    but at the very top of a `type` binding can be read back (mod.rs:2671-2734 prints
    `(| A | B)`, grammar.lalrpop:444-509 has no such atomic type). -/
theorem variant_rejected_by_type_rule_fails (fuel : Nat) (ts : List Tok) :
    pType fuel (.pipe :: ts) = none := by
  have h1 : ∀ n, pAtomic n (.pipe :: ts) = none := by intro n; cases n <;> simp [pAtomic]
  have h2 : ∀ n, pApp n (.pipe :: ts) = none := by intro n; cases n <;> simp [pApp, h1]
  have h3 : ∀ n, pFunTail n (.pipe :: ts) = none := by intro n; cases n <;> simp [pFunTail, h2]
  cases fuel <;> simp [pType, h3]

/-- … in particular a variant in constructor-argument position: `Array (| A)`. -/
theorem nested_variant_unparsable_fails :
    parseTop (print .top (.app (.con "Array") (.variant (.rfield "A" .opaque .rnil)))) = none := by
  rw [show print .top (.app (.con "Array") (.variant (.rfield "A" .opaque .rnil)))
      = [.id "Array", .lparen, .pipe, .id "A", .rparen] by simp +decide [print, printTypes, printFields, rowTail, typesLen, fieldsLen, identToks, printVariant, ctorArgs, enclose]]
  decide

/-- … and under a `forall`: printed `forall a . | A a`, the grammar wants `forall a . (| A a)`. -/
theorem forall_variant_unparsable_fails :
    parseTop (print .top (.all ["a"] (.variant (.rfield "A" (.fn false (.var "a") .opaque) .rnil))))
      = none := by
  rw [show print .top (.all ["a"] (.variant (.rfield "A" (.fn false (.var "a") .opaque) .rnil)))
      = [.kwForall, .id "a", .dot, .pipe, .id "A", .id "a"] by simp +decide [print, printTypes, printFields, rowTail, typesLen, fieldsLen, identToks, printVariant, ctorArgs, enclose]]
  decide

/-- FINDING `misread:rec[_0:C;]`: `is_tuple` (mod.rs:2576) also holds for a one-field record
    `{ _0 : Int }`, which is therefore printed `(Int)` and read back as `Int`. -/
theorem tuple1_misread_fails :
    parseAnn (print .top (.record 1 (.rfield "_0" (.con "Int") .rnil))) = some (.con "Int") := by
  rw [show print .top (.record 1 (.rfield "_0" (.con "Int") .rnil))
      = [.lparen, .id "Int", .rparen] by simp +decide [print, printTypes, printFields, rowTail, typesLen, fieldsLen, identToks, printVariant, ctorArgs, enclose]]
  decide

/-- FINDING `unparsable:rec[|C]`: `is_tuple` ignores the row tail, so the open record `{ | r }`
    is printed `( | r)`, which no rule accepts. -/
theorem open_empty_record_unparsable_fails :
    print .top (.record 0 (.var "r")) = [.lparen, .pipe, .id "r", .rparen] ∧
    parseTop (print .top (.record 0 (.var "r"))) = none := by
  have e : print .top (.record 0 (.var "r")) = [.lparen, .pipe, .id "r", .rparen] := by
    simp +decide [print, printTypes, printFields, rowTail, typesLen, fieldsLen, identToks, printVariant, ctorArgs, enclose]
  rw [e]
  exact ⟨rfl, by decide⟩

/-- FINDING `unparsable:record-split-row`: when the row is a chain of two `ExtendRow` nodes
    (here `{x} | {y}`) the comma test `i + 1 != fields.len()` (mod.rs:2931) uses the length of the
    first node only: `{ x : Int y : Int, }`. -/
theorem split_row_unparsable_fails :
    print .top (.record 1 (.rfield "x" (.con "Int") (.rfield "y" (.con "Int") .rnil)))
      = [.lbrace, .id "x", .colon, .id "Int", .id "y", .colon, .id "Int", .comma, .rbrace] ∧
    parseTop (print .top (.record 1 (.rfield "x" (.con "Int") (.rfield "y" (.con "Int") .rnil))))
      = none := by
  have e : print .top (.record 1 (.rfield "x" (.con "Int") (.rfield "y" (.con "Int") .rnil)))
      = [.lbrace, .id "x", .colon, .id "Int", .id "y", .colon, .id "Int", .comma, .rbrace] := by
    simp +decide [print, printTypes, printFields, rowTail, typesLen, fieldsLen, identToks, printVariant, ctorArgs, enclose]
  rw [e]
  exact ⟨rfl, by decide⟩

/-- With the comma test on the total number of fields (`cut = 2`, what `Type::record` builds)
    the same record reads back. -/
theorem unsplit_row_roundtrip_fixed :
    parseAnn (print .top (.record 2 (.rfield "x" (.con "Int") (.rfield "y" (.con "Int") .rnil))))
      = some (.record 2 (.rfield "x" (.con "Int") (.rfield "y" (.con "Int") .rnil))) := by
  rw [show print .top (.record 2 (.rfield "x" (.con "Int") (.rfield "y" (.con "Int") .rnil)))
      = [.lbrace, .id "x", .colon, .id "Int", .comma, .id "y", .colon, .id "Int", .rbrace] by
    simp +decide [print, printTypes, printFields, rowTail, typesLen, fieldsLen, identToks, printVariant, ctorArgs, enclose]]
  decide

/-- What a fixed `is_tuple` (at least two fields, closed row) would print for the one-field
    record reads back as that record. -/
theorem tuple1_braces_roundtrip_fixed :
    parseAnn [.lbrace, .id "_0", .colon, .id "Int", .rbrace]
      = some (.record 1 (.rfield "_0" (.con "Int") .rnil)) := by
  decide

/-! ### Non-vacuity -/

def tInt : Ty := .con "Int"
def tA : Ty := .var "a"

example : Core tInt := Core.con _ (by decide)
example : Core tA := Core.var _ (by decide)

/-- `forall a . (a -> Int) -> [Option a] -> Map (Option a) (forall b . b)` -/
def sample : Ty :=
  Ty.all ["a"]
    (.fn false (.fn false tA tInt)
      (.fn true (.app (.con "Option") tA)
        (.app (.app (.con "Map") (.app (.con "Option") tA)) (.all ["b"] (.var "b")))))

example : Core sample := by
  unfold sample tA tInt
  refine Core.all _ _ _ (Core.fn _ _ _ (Core.fn _ _ _ (Core.var _ (by decide)) (Core.con _ (by decide)))
    (Core.fn _ _ _ (Core.app _ _ (Core.con _ (by decide)) rfl (Core.var _ (by decide)))
      (Core.app _ _ (Core.app _ _ (Core.con _ (by decide)) rfl
        (Core.app _ _ (Core.con _ (by decide)) rfl (Core.var _ (by decide)))) rfl
        (Core.all _ _ _ (Core.var _ (by decide))))))

example : (print .top sample).map Tok.text =
    ["forall", "a", ".", "(", "a", "->", "Int", ")", "->", "[", "Option", "a", "]", "->",
     "Map", "(", "Option", "a", ")", "(", "forall", "b", ".", "b", ")"] := by
  simp +decide [sample, tA, tInt, print, enclose, Tok.text]

example : parseAnn (print .top sample) = some sample :=
  roundtrip_annotation_partial sample (by
    unfold sample tA tInt
    exact Core.all _ _ _ (Core.fn _ _ _ (Core.fn _ _ _ (Core.var _ (by decide)) (Core.con _ (by decide)))
      (Core.fn _ _ _ (Core.app _ _ (Core.con _ (by decide)) rfl (Core.var _ (by decide)))
        (Core.app _ _ (Core.app _ _ (Core.con _ (by decide)) rfl
          (Core.app _ _ (Core.con _ (by decide)) rfl (Core.var _ (by decide)))) rfl
          (Core.all _ _ _ (Core.var _ (by decide)))))))

example : FollowsTop [.rparen] := ⟨trivial, by simp [NoAtom, atomStart], trivial⟩

end GluonModel.Props.C18
