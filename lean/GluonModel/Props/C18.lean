/-
C18 — "The textual rendering of any type … parses back to a type equivalent to the original, at
every line width."

Model: `GluonModel.TypePrint` — `print : Prec → Ty → List Tok` (base/src/types/mod.rs:2503-3017)
and the grammar `pType / pAtomic / … / pTop` (parser/src/grammar.lalrpop:293-550).  The line width
only changes white space; the model prints tokens, so every statement below holds "at every
width" by construction (that the real token stream does not depend on the width is checked by the
correspondence, not proved).

FULL statement (not proved in this generality — and FALSE for the unchanged code, see the
`_fails` theorems):   ∀ t, parseTop (print .top t) = some t.
Proved (`_partial`): the statement for the fragment `Core` — holes, constructors, generics,
`(->)`, explicit/implicit functions, `forall`, applications, records with value fields (operator
names in parentheses; closed or with a row-variable tail; brace syntax or tuple syntax of arity 0
and ≥ 2 as `is_tuple` decides) — in the generalised form "every needed parenthesis is printed"
(`parse_print_*_partial`), its corollaries, and for variants at the top of a type binding
(`roundtrip_variant_top_partial`: simple and GADT-style constructors over `Core`, `.. r` tail);
plus universal / concrete witnesses of the ways the full statement fails.
Still only covered by the executable model + exact correspondence + oracle: type fields in
records, effect rows, projections (`a.b.C`), and everything nested inside them.

Only property theorems live here; lemmas are in `GluonModel.Proofs.TypePrint`.
-/
import GluonModel.TypePrint
import GluonModel.Proofs.TypeRows
import GluonModel.Proofs.TypeVariants

namespace GluonModel.Props.C18
open GluonModel.TypePrint GluonModel.Proofs.TypeRows GluonModel.Proofs.TypeVariants

/-- The fragment for which the round trip is proved (`GluonModel.Proofs.TypeRows.core`): holes,
    constructors, generics, `(->)`, explicit and implicit functions, `forall`, applications with a
    constructor / variable / application head, and records with value fields (any field names
    that do not start upper-case, operators included) whose row is one `ExtendRow` node, closed
    or ending in a row variable — printed with braces or, when `is_tuple` holds, as a tuple. -/
def Core (t : Ty) : Prop := core t

/-- What may follow a type printed at `Prec::Top` without being absorbed into it: not `.`
    (projection), not the start of an atomic type (application argument), not `->`. -/
def FollowsTop (rest : List Tok) : Prop := NoDot rest ∧ NoAtom rest ∧ NoArrow rest

/-- Top level: the grammar rule `Type` reads `print Top t` back as `t` and stops exactly at the
    end of the rendering, whatever admissible tokens follow. -/
theorem parse_print_top_partial (t : Ty) (hc : Core t) (fuel : Nat) (rest : List Tok)
    (hf : need t ≤ fuel) (hr : FollowsTop rest) :
    pType fuel (print .top t ++ rest) = some (t, rest) :=
  (reads_core t hc).2.2.1 fuel rest hf hr.1 hr.2.1 hr.2.2

/-- Function-argument position (`Prec::Function`): the rendering is an `AppType`, so a `->` may
    follow: the parentheses around function and `forall` arguments are all there. -/
theorem parse_print_function_arg_partial (t : Ty) (hc : Core t) (fuel : Nat) (rest : List Tok)
    (hf : need t ≤ fuel) (hd : NoDot rest) (ha : NoAtom rest) :
    pApp fuel (print .function t ++ rest) = some (t, rest) :=
  (reads_core t hc).2.1 fuel rest hf hd ha

/-- Constructor-argument position (`Prec::Constructor`): the rendering is an `AtomicType`, so
    anything but `.` may follow (further arguments, `->`, …): the parentheses around
    applications, functions and `forall`s in argument position are all there. -/
theorem parse_print_constructor_arg_partial (t : Ty) (hc : Core t) (fuel : Nat) (rest : List Tok)
    (hf : need t ≤ fuel) (hd : NoDot rest) :
    pAtomic fuel (print .constructor t ++ rest) = some (t, rest) :=
  (reads_core t hc).1 fuel rest hf hd

/-- Round trip through the entry point used for `let _ : <type> = …`. -/
theorem roundtrip_annotation_partial (t : Ty) (hc : Core t) : parseAnn (print .top t) = some t := by
  have h := parse_print_top_partial t hc (fuelFor (print .top t)) []
    (by have := need_le_tokens t hc; unfold fuelFor; omega) ⟨trivial, trivial, trivial⟩
  simp only [List.append_nil] at h
  simp [parseAnn, h]

/-- … and through the one used for `type T = <type>` (generated declarations, make_source). -/
theorem roundtrip_type_binding_partial (t : Ty) (hc : Core t) (hnf : ∀ vs b, t ≠ .all vs b) :
    parseTop (print .top t) = some t := by
  have h := parse_print_top_partial t hc (fuelFor (print .top t)) []
    (by have := need_le_tokens t hc; unfold fuelFor; omega) ⟨trivial, trivial, trivial⟩
  obtain ⟨tok, ts, e, hs⟩ := head_top_atom t hc hnf []
  simp only [List.append_nil] at h e
  unfold parseTop
  rw [e, pTop_atomStart _ _ _ hs, ← e, h]

/-- A variant with at least one constructor at the top of a type binding (`VariantType` inside
    `TypeTop`): constructors named upper-case, in simple form (`| C a b`, arguments from `Core`,
    printed at `Prec::Constructor`) or GADT form (`| C : type`, a `Core` type whose spine has no
    implicit argument), closed or with a `.. r` tail — reads back. -/
theorem roundtrip_variant_top_partial (row : Ty) (h : vrowOK row)
    (hne : ∃ c t rest, row = .rfield c t rest) :
    parseTop (print .top (.variant row)) = some (.variant row) :=
  parseTop_variant row h hne

/-- … and the variant that is only a row variable, `.. r`. -/
theorem roundtrip_variant_tail_partial (r : String) (h : classify r = .var r) :
    parseTop (print .top (.variant (.var r))) = some (.variant (.var r)) :=
  parseTop_variant_tail r h

/-- Hence no two different core types share a rendering. -/
theorem print_injective_partial (t₁ t₂ : Ty) (h₁ : Core t₁) (h₂ : Core t₂)
    (h : print .top t₁ = print .top t₂) : t₁ = t₂ := by
  have e₁ := roundtrip_annotation_partial t₁ h₁
  have e₂ := roundtrip_annotation_partial t₂ h₂
  rw [h, e₂] at e₁
  exact (Option.some.inj e₁).symm

/-- Line width: the model's rendering is a token stream; `width` is not an input of `print`, so
    the round trip holds at every width as soon as the real token stream is width-independent
    (checked by the correspondence at widths 20…200). -/
theorem width_irrelevant_partial (t : Ty) (hc : Core t) (_width : Nat) :
    parseAnn (print .top t) = some t :=
  roundtrip_annotation_partial t hc

/-! ### Where the full statement fails on the unchanged code -/

/-- FINDING `unparsable:variant-not-at-top` (universal form): a rendering that starts with `|`
    is rejected by the rule `Type`, whatever follows — so no type containing a variant anywhere
    but at the very top of a `type` binding can be read back (mod.rs:2671-2734 prints
    `(| A | B)`, grammar.lalrpop:444-509 has no such atomic type). -/
theorem variant_rejected_by_type_rule_fails (fuel : Nat) (ts : List Tok) :
    pType fuel (.pipe :: ts) = none := by
  have h1 : ∀ n, pAtomic n (.pipe :: ts) = none := by intro n; cases n <;> simp [pAtomic]
  have h2 : ∀ n, pApp n (.pipe :: ts) = none := by intro n; cases n <;> simp [pApp, h1]
  have h3 : ∀ n, pFunTail n (.pipe :: ts) = none := by intro n; cases n <;> simp [pFunTail, h2]
  cases fuel <;> simp [pType, h3]

/-- … in particular a variant in constructor-argument position: `Array (| A)`. -/
theorem nested_variant_unparsable_fails :
    parseTop (print .top (.app (.con "Array") (.variant (.rfield "A" .opaque .rnil)))) = none := by
  rw [show print .top (.app (.con "Array") (.variant (.rfield "A" .opaque .rnil)))
      = [.id "Array", .lparen, .pipe, .id "A", .rparen] by simp +decide [print, printTypes, printFields, rowTail, typesLen, fieldsLen, identToks, printVariant, ctorArgs, enclose]]
  decide

/-- … and under a `forall`: printed `forall a . | A a`, the grammar wants `forall a . (| A a)`. -/
theorem forall_variant_unparsable_fails :
    parseTop (print .top (.all ["a"] (.variant (.rfield "A" (.fn false (.var "a") .opaque) .rnil))))
      = none := by
  rw [show print .top (.all ["a"] (.variant (.rfield "A" (.fn false (.var "a") .opaque) .rnil)))
      = [.kwForall, .id "a", .dot, .pipe, .id "A", .id "a"] by simp +decide [print, printTypes, printFields, rowTail, typesLen, fieldsLen, identToks, printVariant, ctorArgs, enclose]]
  decide

/-- FIXED (commit 35ef2d5, was finding `misread:rec[_0:C;]`): `is_tuple` now requires a field
    count ≠ 1, so the one-field record `{ _0 : Int }` is printed with braces and reads back. -/
theorem tuple1_roundtrip_fixed :
    print .top (.record 1 (.rfield "_0" (.con "Int") .rnil))
      = [.lbrace, .id "_0", .colon, .id "Int", .rbrace] ∧
    parseAnn (print .top (.record 1 (.rfield "_0" (.con "Int") .rnil)))
      = some (.record 1 (.rfield "_0" (.con "Int") .rnil)) := by
  have e : print .top (.record 1 (.rfield "_0" (.con "Int") .rnil))
      = [.lbrace, .id "_0", .colon, .id "Int", .rbrace] := by
    simp +decide [print, printTypes, printFields, rowTail, typesLen, fieldsLen, identToks, printVariant, ctorArgs, enclose]
  rw [e]
  exact ⟨rfl, by decide⟩

/-- Regression: the rule before 35ef2d5 (`isTupleOld`) chose the tuple syntax for this record,
    and `(Int)` reads back as `Int`. -/
theorem tuple1_old_rule_fails :
    isTupleOld (.rfield "_0" (.con "Int") .rnil) = true ∧
    parseAnn [.lparen, .id "Int", .rparen] = some (.con "Int") := by
  decide

/-- FIXED (commit 35ef2d5, was finding `unparsable:rec[|C]`): `is_tuple` now requires the row to
    end in `EmptyRow`, so the open record `{ | r }` is printed with braces and reads back. -/
theorem open_empty_record_roundtrip_fixed :
    print .top (.record 0 (.var "r")) = [.lbrace, .pipe, .id "r", .rbrace] ∧
    parseAnn (print .top (.record 0 (.var "r"))) = some (.record 0 (.var "r")) := by
  have e : print .top (.record 0 (.var "r")) = [.lbrace, .pipe, .id "r", .rbrace] := by
    simp +decide [print, printTypes, printFields, rowTail, typesLen, fieldsLen, identToks, printVariant, ctorArgs, enclose]
  rw [e]
  exact ⟨rfl, by decide⟩

/-- Regression: the old rule chose the tuple syntax, `( | r)`, which no rule accepts. -/
theorem open_empty_record_old_rule_fails :
    isTupleOld (.var "r") = true ∧ parseTop [.lparen, .pipe, .id "r", .rparen] = none := by
  decide

/-- FINDING `misread:gadt-ctor-implicit-arg`: the grammar overwrites the `ArgType` of every arrow
    on a GADT constructor's spine (grammar.lalrpop:401-408, `ctorize`), so `| A : [Int] -> T` is
    printed faithfully but read back as `| A : Int -> T`. -/
theorem gadt_implicit_arg_misread_fails :
    parseTop (print .top (.variant (.rfield "A" (.fn true (.con "Int") (.con "T")) .rnil)))
      = some (.variant (.rfield "A" (.fn false (.con "Int") (.con "T")) .rnil)) := by
  rw [show print .top (.variant (.rfield "A" (.fn true (.con "Int") (.con "T")) .rnil))
      = [.pipe, .id "A", .colon, .lbracket, .id "Int", .rbracket, .arrow, .id "T"] by
    simp +decide [print, printVariant, ctorArgs, enclose, isSimple]]
  decide

/-- FINDING `unparsable:record-split-row`: when the row is a chain of two `ExtendRow` nodes
    (here `{x} | {y}`) the comma test `i + 1 != fields.len()` (mod.rs:2931) uses the length of the
    first node only: `{ x : Int y : Int, }`. -/
theorem split_row_unparsable_fails :
    print .top (.record 1 (.rfield "x" (.con "Int") (.rfield "y" (.con "Int") .rnil)))
      = [.lbrace, .id "x", .colon, .id "Int", .id "y", .colon, .id "Int", .comma, .rbrace] ∧
    parseTop (print .top (.record 1 (.rfield "x" (.con "Int") (.rfield "y" (.con "Int") .rnil))))
      = none := by
  have e : print .top (.record 1 (.rfield "x" (.con "Int") (.rfield "y" (.con "Int") .rnil)))
      = [.lbrace, .id "x", .colon, .id "Int", .id "y", .colon, .id "Int", .comma, .rbrace] := by
    simp +decide [print, printTypes, printFields, rowTail, typesLen, fieldsLen, identToks, printVariant, ctorArgs, enclose]
  rw [e]
  exact ⟨rfl, by decide⟩

/-- With the comma test on the total number of fields (`cut = 2`, what `Type::record` builds)
    the same record reads back. -/
theorem unsplit_row_roundtrip_fixed :
    parseAnn (print .top (.record 2 (.rfield "x" (.con "Int") (.rfield "y" (.con "Int") .rnil))))
      = some (.record 2 (.rfield "x" (.con "Int") (.rfield "y" (.con "Int") .rnil))) := by
  rw [show print .top (.record 2 (.rfield "x" (.con "Int") (.rfield "y" (.con "Int") .rnil)))
      = [.lbrace, .id "x", .colon, .id "Int", .comma, .id "y", .colon, .id "Int", .rbrace] by
    simp +decide [print, printTypes, printFields, rowTail, typesLen, fieldsLen, identToks, printVariant, ctorArgs, enclose]]
  decide

/-! ### Non-vacuity -/

def tInt : Ty := .con "Int"
def tA : Ty := .var "a"

example : Core tInt := by simp +decide [Core, core, tInt]
example : Core tA := by simp +decide [Core, core, tA]

/-- `forall a . (a -> Int) -> [Option a] -> Map (Option a) (forall b . b)` -/
def sample : Ty :=
  Ty.all ["a"]
    (.fn false (.fn false tA tInt)
      (.fn true (.app (.con "Option") tA)
        (.app (.app (.con "Map") (.app (.con "Option") tA)) (.all ["b"] (.var "b")))))

theorem sample_core : Core sample := by
  simp +decide [Core, core, sample, tA, tInt, headLike]

example : (print .top sample).map Tok.text =
    ["forall", "a", ".", "(", "a", "->", "Int", ")", "->", "[", "Option", "a", "]", "->",
     "Map", "(", "Option", "a", ")", "(", "forall", "b", ".", "b", ")"] := by
  simp +decide [sample, tA, tInt, print, enclose, Tok.text]

example : parseAnn (print .top sample) = some sample :=
  roundtrip_annotation_partial sample sample_core

/-- `{ x : Int, (+) : a -> (Int, a, ()) | r } -> { _0 : Int }`: a record with an operator field
    and a row variable, a 3-tuple, the unit type and a one-field `_0` record. -/
def sampleRec : Ty :=
  .fn false
    (.record 2 (.rfield "x" tInt (.rfield "+" (.fn false tA
      (.record 3 (.rfield "_0" tInt (.rfield "_1" tA (.rfield "_2" (.record 0 .rnil) .rnil)))))
      (.var "r"))))
    (.record 1 (.rfield "_0" tInt .rnil))

theorem sampleRec_core : Core sampleRec := by
  simp +decide [Core, core, rowOK, sampleRec, tA, tInt, fieldsLen]

example : (print .top sampleRec).map Tok.text =
    ["{", "x", ":", "Int", ",", "(", "+", ")", ":", "a", "->", "(", "Int", ",", "a", ",", "(", ")", ")",
     "|", "r", "}", "->", "{", "_0", ":", "Int", "}"] := by
  simp +decide [sampleRec, tA, tInt, print, printTypes, printFields, rowTail, typesLen, identToks,
    enclose, Tok.text]

example : parseAnn (print .top sampleRec) = some sampleRec :=
  roundtrip_annotation_partial sampleRec sampleRec_core

/-- `| Some a | None | Mk : forall x . x -> T x .. r` -/
def sampleVariant : Ty :=
  .rfield "Some" (.fn false tA .opaque)
    (.rfield "None" .opaque
      (.rfield "Mk" (.all ["x"] (.fn false (.var "x") (.app (.con "T") (.var "x")))) (.var "r")))

example : parseTop (print .top (.variant sampleVariant)) = some (.variant sampleVariant) :=
  roundtrip_variant_top_partial sampleVariant
    (by simp +decide [sampleVariant, vrowOK, ctorOK, core, ctorize, tA, headLike])
    ⟨_, _, _, rfl⟩

example : (print .top (.variant sampleVariant)).map Tok.text =
    ["|", "Some", "a", "|", "None", "|", "Mk", ":", "forall", "x", ".", "x", "->", "T", "x", "..", "r"] := by
  simp +decide [sampleVariant, tA, print, printVariant, ctorArgs, isSimple, enclose, Tok.text]

example : FollowsTop [.rparen] := ⟨trivial, by simp [NoAtom, atomStart], trivial⟩

end GluonModel.Props.C18
