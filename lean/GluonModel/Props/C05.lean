/-
C05 — "Garbage collection is transparent and never frees a reachable value … Values that are no
longer reachable are reclaimed by a collection."

Model: `GluonModel.GcHeap` (heaps named by their path in the thread tree, `Gc::mark` with the
generation shortcut, root enumeration of `Roots`/`mark_child_roots`, sweep of the collecting heap
and its descendants, the cloner). Only property theorems live here; lemmas are in
`GluonModel.Proofs.GcHeap`.

What the theorems say, for EVERY heap state (any number of threads, objects, edges, cycles):
* `collect_safe`      under the heap invariant (`Inv`: every pointer goes to the same or an ancestor
                      heap; `Homed`: a mutable cell lives in the heap of its `thread`) a collection of
                      any thread heap keeps every object reachable from ANY root (any thread's stack /
                      host handles / child list, the global table) — unchanged;
* `collect_complete`  whatever survives in a swept heap is reachable from a root (memory returns to
                      the reachable baseline), and nothing outside the swept heaps is touched;
* `mark_exact`        the mark phase visits exactly what is reachable without entering an older
                      generation; `mark_total`/`collect_total`: the fuel always suffices;
* `reachable_inv`, `reachable_collect_safe`  the invariant — hence safety — holds in EVERY state
                      reachable by any sequence of alloc / root / unroot / spawn / dropThread /
                      store / transfer / collect from a fresh VM (no promotion of module values);
* `collect_keeps_invariant`, `transfer_keeps_invariant`, `clone_keeps_invariant` the operations
                      maintain `Inv` (and `Homed`) — except the promotion of a module value, which
                      keeps `Inv` but BREAKS `Homed` for cells: `promotion_breaks_homing_fails` and
                      `collect_without_homing_fails` are the defect D1 (module-level lazy/reference).
-/
import GluonModel.GcHeap
import GluonModel.GcMachine
import GluonModel.Proofs.GcHeap
import GluonModel.Proofs.GcHeapTotal
import GluonModel.Proofs.GcMachine
import GluonModel.Proofs.GcIdem
import GluonModel.Proofs.GcPromote
import GluonModel.GcHandles
import GluonModel.Proofs.GcHandles

namespace GluonModel.Props.C05
open GluonModel.GcHeap

/-- Safety: a collection never frees (or changes) a value reachable from any root. -/
theorem collect_safe {s s' : State} {t : HeapId} (hwf : WF s) (hinv : Inv s) (hhomed : Homed s)
    (hg : GRootsGlobal s) (ht : t ≠ []) (hc : collect s t = some s') {p : Nat} {op : Obj}
    (hop : s.obj p = some op) (hr : Reach s (AllRoots s) p) : s'.obj p = some op :=
  collect_safe' hwf hinv hhomed hg ht hc hop hr

/-- Completeness: every object of a swept heap (the collecting thread's or a descendant's) that
    survives was reachable from a root — unreachable values are reclaimed. No invariant needed. -/
theorem collect_complete {s s' : State} {t : HeapId} (hc : collect s t = some s') {p : Nat}
    {op : Obj} (hop : s'.obj p = some op) (hin : t <+: op.owner) : Reach s (AllRoots s) p :=
  collect_complete' hc hop hin

/-- A collection only removes objects, and only from the collecting heap and its descendants. -/
theorem collect_only_frees_in_swept_heaps {s s' : State} {t : HeapId} (hc : collect s t = some s') :
    (∀ p op, s'.obj p = some op → s.obj p = some op) ∧
    (∀ p op, s.obj p = some op → ¬ t <+: op.owner → s'.obj p = some op) :=
  ⟨fun _ _ h => collect_sub hc h, fun _ _ h h' => collect_other_heaps hc h h'⟩

/-- The mark phase computes exactly the set reachable from the collection's roots without
    entering an object of an older generation (gc.rs:1394-1403). -/
theorem mark_exact {s : State} {t : HeapId} {m : List Nat} (h : mark s t = some m) (p : Nat) :
    p ∈ m ↔ ReachNS s t p :=
  mark_spec h p

theorem collect_keeps_invariant {s s' : State} {t : HeapId} (hc : collect s t = some s')
    (hinv : Inv s) (hh : Homed s) : Inv s' ∧ Homed s' :=
  ⟨collect_inv hc hinv, collect_homed hc hh⟩

/-- Moving a value between threads of one VM or between VMs (`re_root`, push, channel send) keeps
    the invariant — for values without arrays of strings (`fixed = false`, the code as it is) or
    for all values with the repaired cloner (`fixed = true`). -/
theorem transfer_keeps_invariant {s s' : State} {sameVm fixed : Bool} {src dst : HeapId}
    {v r : Nat} (hwf : WF s) (hnd : NoDangling s) (hinv : Inv s) (hh : Homed s)
    (hlive : ∃ o, s.obj v = some o) (h0 : ∀ o, s.obj v = some o → o.owner <+: src)
    (hns : ∀ p o, CopyReach s (rgenFor sameVm src dst) v p → s.obj p = some o →
      o.kind = .shallow → fixed = true)
    (hcode : ∀ p o, CopyReach s (rgenFor sameVm src dst) v p → s.obj p = some o →
      o.kind = .code → o.owner = [])
    (h : transfer s sameVm src dst fixed v = some (s', r)) :
    WF s' ∧ Inv s' ∧ Homed s' ∧ OKo s' dst r :=
  transfer_inv' hwf hnd hinv hh hlive h0 hns hcode h

/-- The cloner keeps `Inv` whatever heap it clones into — including the global heap on behalf of
    a thread (`dst = []`, the promotion of module values). -/
theorem clone_keeps_invariant {s0 s' : State} {dst thr : HeapId} {rgen : Option Nat} {fixed : Bool}
    {Rel : Nat → Prop} (ctx : CloneCtx s0 dst rgen fixed Rel) (hnd : NoDangling s0)
    (hinv : Inv s0) (hthr : dst <+: thr) {v r : Nat} (hv : Rel v)
    (h : deepClone s0 dst thr rgen fixed v = some (s', r)) : Inv s' :=
  deepClone_inv ctx hnd hinv hthr hv h

/-! ### Totality: the fuel of the executable `mark` always suffices, so the statements above are
about the fuel-free relation "`collect s t` = the state after the collection". -/

theorem mark_total (s : State) (t : HeapId) (hwf : WF s) : ∃ m, mark s t = some m :=
  mark_total' s t hwf

theorem collect_total (s : State) (t : HeapId) (hwf : WF s) : ∃ s', collect s t = some s' :=
  collect_total' s t hwf

/-! ### The invariant holds in EVERY reachable state of the operation machine
(`GluonModel.GcMachine`: `alloc`, `root`, `unroot`, `spawn`, `dropThread`, `store` into a mutable
cell, `transfer`, `collect`, in any order, any number of times, from a fresh VM) — as long as no
module value is promoted into the global heap (`promote`, the D1 operation). `fixed = false` is
the cloner as it is (then `alloc` refuses arrays of strings, the other known cloner defect);
`fixed = true` the repaired one (no restriction). -/

/-- One step keeps the machine invariant (`Good` = `WF ∧ Inv ∧ NoDangling ∧` every object homed /
    bytecode global / string arrays only when repaired `∧` global roots in the global heap). -/
theorem step_keeps_invariant {fixed : Bool} {s : State} (g : Good fixed s) (op : Op)
    (hop : op.isPromote = false) : Good fixed (step fixed s op) :=
  step_good g op hop

theorem reachable_inv (fixed : Bool) (ops : List Op) (h : ∀ op ∈ ops, op.isPromote = false) :
    WF (run fixed init ops) ∧ Inv (run fixed init ops) ∧ Homed (run fixed init ops) ∧
      NoDangling (run fixed init ops) :=
  let g := run_good ops init (init_good fixed) h
  ⟨g.wf, g.inv, g.homed, g.nd⟩

/-- **Safety in every reachable state**: after any history without promotion, a collection of any
    thread heap terminates and leaves every object reachable from any root unchanged. -/
theorem reachable_collect_safe (fixed : Bool) (ops : List Op)
    (h : ∀ op ∈ ops, op.isPromote = false) (t : HeapId) (ht : t ≠ []) :
    ∃ s', collect (run fixed init ops) t = some s' ∧
      ∀ p op, (run fixed init ops).obj p = some op →
        Reach (run fixed init ops) (AllRoots (run fixed init ops)) p → s'.obj p = some op :=
  let g := run_good ops init (init_good fixed) h
  let ⟨s', hs'⟩ := collect_total' _ t g.wf
  ⟨s', hs', fun _ _ hop hr => collect_safe' g.wf g.inv g.homed g.grootsGlobal ht hs' hop hr⟩

/-! ### Mark bits. `Gc::mark` treats an object whose mark bit is set as visited and does not look
inside it, so the safety of a collection depends on the PREVIOUS collections having cleared the bits
of everything they marked. `collectM` is the collection with the bits as explicit state
(`collect = collectM` started from clean bits). -/

/-- A collection leaves no mark bit in any heap it swept (the collecting heap and all descendants). -/
theorem collect_resets_marks {s s' : State} {t : HeapId} {marked marked' : List Nat}
    (h : collectM s t marked = some (s', marked')) : ∀ i ∈ marked', inSwept s t i = false :=
  collectM_resets_swept h

/-- Under the machine invariant a collection started with clean bits marks nothing outside the
    heaps it sweeps: it equals the bit-free `collect` and ends with ALL bits clean. -/
theorem collect_keeps_marks_clean {fixed : Bool} {s : State} (g : Good fixed s) (t : HeapId) :
    ∃ s', collect s t = some s' ∧ collectM s t [] = some (s', []) :=
  collectM_clean g t

/-- Hence in every reachable state of a history (any operations, any number of collections, no
    promotion) all mark bits are clear: the machine with explicit mark bits and the bit-free one
    agree, and `reachable_collect_safe` applies to every collection of the history. -/
theorem reachable_marks_clean (fixed : Bool) (ops : List Op)
    (h : ∀ op ∈ ops, op.isPromote = false) :
    runM fixed (init, []) ops = (run fixed init ops, []) :=
  runM_clean ops init (init_good fixed) h

/-- Why it matters: the same heap with ONE stale mark bit (on the cell 1, e.g. left by an ancestor's
    collection that did not sweep this heap) — the collection frees the value 2 the cell points to,
    although it is reachable; with clean bits it frees nothing. -/
def staleDemo : State := State.ofList [
  ⟨[], [0], .thread, [1]⟩,
  ⟨[0], [0], .cell, [2]⟩,
  ⟨[0], [0], .plain, []⟩ ]

theorem stale_mark_bit_breaks_safety_fails :
    freedByM staleDemo [0] [1] = some [2] ∧ freedByM staleDemo [0] [] = some [] ∧
    freedBy staleDemo [0] = some [] := by
  decide

/-! ### Host-held value handles (wave 2)

A `RootedValue` the host holds is one entry of `rooted_values` of its thread; `clone` adds an entry
for the same object, `drop` removes ONE entry of that OBJECT (identity, `Value::obj_eq`) and
nothing else. The host roots of a thread are therefore a multiset keyed by object identity —
never by what the value looks like: two distinct objects with equal contents are different keys. -/

/-- Creating / cloning a handle adds exactly one occurrence of exactly that object to the root list
    of the handle's thread. -/
theorem host_root_adds_exactly_one {fixed : Bool} {s : State} {t : HeapId} {r i : Nat}
    (hh : holds s t r = true) (hi : isThreadOf s i t) (x : Nat) :
    rootCount (step fixed s (.root t r)) i x = rootCount s i x + (if x = r then 1 else 0) :=
  root_count hh hi x

/-- Dropping a handle removes exactly one occurrence of exactly that object — the count of every
    OTHER object in the thread's root list is unchanged (whatever its contents), and further
    handles to the same object keep it rooted. -/
theorem host_unroot_removes_exactly_one {fixed : Bool} {s : State} {t : HeapId} {r i : Nat}
    (hr : isThreadObj s r = false) (hi : isThreadOf s i t) (x : Nat) :
    rootCount (step fixed s (.unroot t r)) i x = rootCount s i x - (if x = r then 1 else 0) :=
  unroot_count hr hi x

/-- Neither operation touches any other object: not the heap, not another thread's root list. -/
theorem host_root_ops_touch_nothing_else {fixed : Bool} {s : State} {t : HeapId} {r i : Nat}
    (hi : ¬ isThreadOf s i t) :
    (step fixed s (.root t r)).obj i = s.obj i ∧ (step fixed s (.unroot t r)).obj i = s.obj i :=
  ⟨root_other hi, unroot_other hi⟩

/-- "A value handle held by the host keeps its value alive": in every reachable state, an object
    with at least one entry in some thread's root list — and everything below it — is unchanged by
    a collection of ANY thread. -/
theorem held_handle_keeps_its_value (fixed : Bool) (ops : List Op)
    (h : ∀ op ∈ ops, op.isPromote = false) (t : HeapId) (ht : t ≠ []) {i r : Nat}
    (hroot : 0 < rootCount (run fixed init ops) i r)
    (hthr : ∃ o, (run fixed init ops).obj i = some o ∧ o.kind = .thread) :
    ∃ s', collect (run fixed init ops) t = some s' ∧
      ∀ p op, Reach (run fixed init ops) (fun x => x = r) p →
        (run fixed init ops).obj p = some op → s'.obj p = some op := by
  let g := run_good ops init (init_good fixed) h
  obtain ⟨s', hs'⟩ := collect_total' _ t g.wf
  obtain ⟨o, ho, hk⟩ := hthr
  have hmem : r ∈ o.edges := by
    have : 0 < o.edges.count r := by simpa [rootCount, ho] using hroot
    exact List.count_pos_iff.mp this
  exact ⟨s', hs', fun p op hp hop =>
    held_value_survives g.wf g.inv g.homed g.grootsGlobal ht (Or.inl ⟨i, o, ho, hk, hmem⟩) hs' hp hop⟩

/-- "… exactly its value": an object of a swept heap that no root reaches any more (its last
    handle was dropped and nothing else points to it) is reclaimed by the collection. -/
theorem unheld_value_is_reclaimed {s s' : State} {t : HeapId} (hc : collect s t = some s')
    {p : Nat} {op : Obj} (hop : s.obj p = some op) (hin : t <+: op.owner)
    (hun : ¬ Reach s (AllRoots s) p) : s'.obj p = none :=
  collect_frees_unreachable hc hop hin hun

/-- Handles are keyed by identity, not by looks (kernel-evaluated on the machine): two values of
    the same shape built one after the other (objects 1 and 2, indistinguishable to the model but
    for their identity) — dropping the FIRST handle frees exactly object 1, dropping the SECOND
    exactly object 2; three handles to one object keep it until the last one is dropped, in any
    drop order; a handle to a field keeps the field and not the record. -/
theorem handles_keyed_by_identity :
    aliveIn (hrun (hinit []) [.mk [0] 0, .mk [0] 0, .drop 0, .collect [0]]).s [0] = [2] ∧
    aliveIn (hrun (hinit []) [.mk [0] 0, .mk [0] 0, .drop 1, .collect [0]]).s [0] = [1] ∧
    hostRoots (hrun (hinit []) [.mk [0] 0, .mk [0] 0, .clone 0, .drop 0]).s [0] = [1, 2] ∧
    aliveIn (hrun (hinit []) [.mk [0] 0, .clone 0, .clone 1, .drop 1, .drop 0, .collect [0]]).s [0] = [1] ∧
    aliveIn (hrun (hinit []) [.mk [0] 0, .clone 0, .clone 1, .drop 1, .drop 0, .drop 2, .collect [0]]).s [0] = [] ∧
    aliveIn (hrun (hinit []) [.mk [0] 2, .field 0 1, .drop 0, .collect [0]]).s [0] = [2] := by
  decide

example : isThreadOf (hrun (hinit []) [.mk [0] 0, .mk [0] 0]).s 0 [0] :=
  ⟨⟨[], [0], .thread, [2, 1]⟩, by decide, rfl, rfl⟩
example : rootCount (hrun (hinit []) [.mk [0] 0, .clone 0, .clone 1]).s 0 1 = 3 := by decide
example : rootCount (hrun (hinit []) [.mk [0] 0, .clone 0, .clone 1, .drop 1]).s 0 1 = 2 := by decide

/-! ### Transparency: how often collections run does not matter -/

/-- A collection is idempotent: collecting the same heap again with nothing done in between frees
    nothing more and changes nothing. (`ThreadObjsMarked`: every `Thread` object of the swept heaps
    is itself marked — it sits in its parent's child list.) No invariant is needed. -/
theorem collect_idempotent {s s1 s2 : State} {t : HeapId} (hwf : WF s)
    (hT : ThreadObjsMarked s t) (h1 : collect s t = some s1) (h2 : collect s1 t = some s2) :
    ∀ p, s2.obj p = s1.obj p :=
  collect_idempotent' hwf hT h1 h2

/-! ### Promotion of module values WITHOUT mutable cells is harmless

`reachable_inv` excluded `promote` altogether. In fact only the promotion of a value with a mutable
cell below it breaks the invariant (D1): for histories in which every promoted value is cell-free at
the time of its promotion (`HistOK`) the invariant, and the safety of every collection, still hold. -/

theorem promote_cellfree_keeps_invariant {fixed : Bool} {s s' : State} {thr : HeapId} {v r : Nat}
    (g : Good fixed s) (hlive : ∃ o, s.obj v = some o) (hok : PromoteOK fixed s v)
    (h : promoteGlobal s thr fixed v = some (s', r)) : Good fixed s' :=
  good_promote g hlive hok h

theorem reachable_inv_cellfree_promotion (fixed : Bool) (ops : List Op)
    (h : HistOK fixed init ops) :
    WF (run fixed init ops) ∧ Inv (run fixed init ops) ∧ Homed (run fixed init ops) ∧
      NoDangling (run fixed init ops) :=
  let g := run_good' ops init (init_good fixed) h
  ⟨g.wf, g.inv, g.homed, g.nd⟩

theorem reachable_collect_safe_cellfree_promotion (fixed : Bool) (ops : List Op)
    (h : HistOK fixed init ops) (t : HeapId) (ht : t ≠ []) :
    ∃ s', collect (run fixed init ops) t = some s' ∧
      ∀ p op, (run fixed init ops).obj p = some op →
        Reach (run fixed init ops) (AllRoots (run fixed init ops)) p → s'.obj p = some op :=
  let g := run_good' ops init (init_good fixed) h
  let ⟨s', hs'⟩ := collect_total' _ t g.wf
  ⟨s', hs', fun _ _ hop hr => collect_safe' g.wf g.inv g.homed g.grootsGlobal ht hs' hop hr⟩

/-- The history of D1 on the machine: a thread builds a cell, the module value is promoted, the
    thread stores a fresh value into the promoted cell and drops its own handle to the value. -/
def opsD1 : List Op :=
  [.alloc [0] .plain [], .alloc [0] .cell [1], .root [0] 2, .promote [0] 2,
   .alloc [0] .plain [], .root [0] 5, .store [0] 4 5, .unroot [0] 5]

/-- With the promotion the reachable state has a global root (4) pointing at a thread-heap value
    (5) that the thread's next collection frees. -/
theorem reachable_with_promotion_fails :
    (run false init opsD1).groots = [4] ∧
    ((run false init opsD1).obj 4).map (fun o => (o.owner, o.home, o.edges)) = some ([], [0], [5]) ∧
    freedBy (run false init opsD1) [0] = some [5] := by
  decide

/-- The third sentence of the property ("values that are no longer reachable are reclaimed") FAILS
    for threads: a spawned thread that has finished and that nobody references stays in its
    parent's child list for the lifetime of the VM (thread.rs:382), so neither its `Thread` object
    nor its heap is ever reclaimed. Here: spawn, the child finishes, the host drops its handle,
    the parent collects — object 1 (the child `Thread`) is still there. -/
theorem spawned_thread_never_reclaimed_fails :
    ((run false init [.spawn [0] 0, .dropThread [0, 0], .unroot [0] 1, .collect [0]]).obj 1).map
      (fun o => (o.kind, o.home)) = some (Kind.thread, [0, 0]) ∧
    freedBy (run false init [.spawn [0] 0, .dropThread [0, 0], .unroot [0] 1]) [0] = some [] := by
  decide

/-! ### D1: a module-level cell is promoted into the global heap but keeps `thread` = the importing
thread; the next store puts the value into that thread's heap; the thread's collection neither
traces the global table nor enters generation-0 objects, so the value is freed while reachable. -/

/-- root thread object · a lazy/reference cell built by the module in the root thread's heap ·
    its thunk. -/
def beforePromotion : State := State.ofList [
  ⟨[], [0], .thread, [1]⟩,
  ⟨[0], [0], .cell, [2]⟩,
  ⟨[0], [0], .plain, []⟩ ]

/-- After `promoteGlobal` (query.rs:757) the copy of the cell is OWNED by the global heap but its
    home is still the importing thread's heap. -/
theorem promotion_breaks_homing_fails :
    (promoteGlobal beforePromotion [0] false 1).map
      (fun x => (x.2, (x.1.obj x.2).map fun o => (o.owner, o.home, o.kind))) =
      some (4, some ([], [0], Kind.cell)) := by
  decide

/-- The heap after promotion + a store of a fresh value from the root thread (object 3). -/
def d1State : State := State.ofList [
  ⟨[], [0], .thread, []⟩,
  ⟨[], [], .plain, []⟩,
  ⟨[], [0], .cell, [3]⟩,
  ⟨[0], [0], .plain, []⟩ ] [2]

theorem d1_wf : WF d1State := by
  intro i hi
  simp only [d1State, State.ofList] at hi ⊢
  exact List.getElem?_eq_none hi

theorem d1_inv : Inv d1State := by
  intro q oq p op hq he hp
  simp only [d1State, State.ofList] at hq hp
  match q, hq with
  | 0, hq => simp at hq; subst hq; simp at he
  | 1, hq => simp at hq; subst hq; simp at he
  | 2, hq =>
    simp at hq; subst hq; simp at he; subst he
    simp at hp; subst hp; decide
  | 3, hq => simp at hq; subst hq; simp at he
  | n + 4, hq => simp at hq

/-- The full statement of safety is FALSE without `Homed`: the state is well formed, satisfies
    `Inv`, the value 3 is reachable from the global table, and collecting the root thread frees it. -/
theorem collect_without_homing_fails :
    WF d1State ∧ Inv d1State ∧ GRootsGlobal d1State ∧ ¬ Homed d1State ∧
    Reach d1State (AllRoots d1State) 3 ∧ freedBy d1State [0] = some [3] := by
  refine ⟨d1_wf, d1_inv, ?_, ?_, ?_, by decide⟩
  · intro p op hp ho
    simp only [d1State, State.ofList, List.mem_singleton] at hp ho
    subst hp; simp at ho; subst ho; rfl
  · intro h
    have := h 2 ⟨[], [0], .cell, [3]⟩ (by simp [d1State, State.ofList]) (by simp)
    simp at this
  · exact Reach.step (q := 2) (o := ⟨[], [0], .cell, [3]⟩) (Reach.root (Or.inr (by simp [d1State, State.ofList])))
      (by simp [d1State, State.ofList]) (by simp)

/-! Non-vacuity: a three-thread heap meeting every hypothesis of `collect_safe`, with garbage. -/
def demo : State := State.ofList [
  ⟨[], [0], .thread, [1, 2]⟩,        -- root thread: holds child thread object 1 and value 2
  ⟨[0], [0, 0], .thread, [3]⟩,       -- child thread: holds 3
  ⟨[0], [0], .plain, [2]⟩,           -- self-cycle in the root heap
  ⟨[0, 0], [0, 0], .plain, [2, 4]⟩,  -- child value pointing up into the root heap and to 4
  ⟨[0, 0], [0, 0], .plain, [3]⟩,     -- cycle 3 ↔ 4
  ⟨[0, 0], [0, 0], .plain, [2]⟩,     -- garbage in the child heap
  ⟨[0], [0], .plain, [5]⟩ ]          -- garbage in the root heap pointing at child garbage

example : freedBy demo [0] = some [5, 6] := by decide
example : freedBy demo [0, 0] = some [5] := by decide
example : mark demo [0, 0] = some [4, 3] := by decide

/-- idempotence on `demo`: the second collection frees nothing -/
example : (collect demo [0]).bind (fun s1 => freedBy s1 [0]) = some [] := by decide
example : (collect demo [0, 0]).bind (fun s1 => freedBy s1 [0, 0]) = some [] := by decide

/-- the hypothesis of `collect_idempotent` holds on `demo`: its only inner `Thread` object (1) is in
    the root thread's child list -/
example : ThreadObjsMarked demo [0] := by
  intro i o ho hk hin
  simp only [demo, State.ofList] at ho
  match i, ho with
  | 0, ho => simp at ho; subst ho; simp at hin
  | 1, ho =>
    refine ReachNS.root (mem_rootsOf.mpr ⟨0, ⟨[], [0], .thread, [1, 2]⟩, by decide, by decide, rfl,
      List.prefix_refl _, by simp⟩) (by decide)
  | 2, ho => simp at ho; subst ho; simp at hk
  | 3, ho => simp at ho; subst ho; simp at hk
  | 4, ho => simp at ho; subst ho; simp at hk
  | 5, ho => simp at ho; subst ho; simp at hk
  | 6, ho => simp at ho; subst ho; simp at hk
  | n + 7, ho => simp at ho

/-- a history with a cell-free promotion satisfies `HistOK`: the promoted record 1 has no cell below -/
example : HistOK false init [.alloc [0] .plain [], .promote [0] 1, .collect [0]] := by
  refine ⟨trivial, ?_, trivial, trivial⟩
  intro p o hp ho
  have hleaf : ∀ q, CopyReach (step false init (.alloc [0] .plain [])) (some 0) 1 q → q = 1 := by
    intro q hq
    induction hq with
    | root => rfl
    | @step q p o _ ho _ he ih =>
      subst ih
      have : (step false init (.alloc [0] .plain [])).obj 1 = some ⟨[0], [0], .plain, []⟩ := by decide
      rw [this] at ho; cases ho
      simp at he
  have := hleaf p hp
  subst this
  have h1 : (step false init (.alloc [0] .plain [])).obj 1 = some ⟨[0], [0], .plain, []⟩ := by decide
  rw [h1] at ho; cases ho
  exact ⟨by simp, by simp⟩

end GluonModel.Props.C05
