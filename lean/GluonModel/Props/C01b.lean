/-
C01 (part b) — the code that actually runs programs: core IR → bytecode compiler → VM.

Models: `GluonModel.Core` (core IR of vm/src/core/mod.rs and its strict semantics `evalCore`),
`GluonModel.Compile` (vm/src/compiler.rs `compile_`), `GluonModel.Bytecode` (vm/src/types.rs
`Instruction`, interpreter loop of vm/src/thread.rs). Tie to /repo (harness/src/bin/c01b.rs):
for every generated program, `evalCore(real core IR)` = real outcome, `compileModule(real core
IR)` = real `CompiledModule` instruction for instruction, `runModule(real bytecode)` = real
outcome.

The full compiler-correctness statement, for the whole core language, is

    compile_correct : WellScoped e → run (compile e) σ = evalCore e ρ        (σ represents ρ)

i.e. `compile_correct_F1` below without the hypothesis `inF1 e`. What is proved is
`compile_correct_partial` (= the highest complete rung of the ladder, F1; of F2 the machine half
`call_return_exact_F2` / `call_compiled_function_F2` is proved). Missing cases, in the order
they would be added: record patterns through `Split` (small records) and `GetField` (open rows)
— the `GetOffset` prologue of `compile_let_pattern` is covered —, float and string literal
patterns, `Call`/`TailCall` with frames (F2),
`Named::Recursive`
closures (`NewClosure`/`CloseClosure`, F3), partial application and excess arguments (F4).
Beyond the proved rung the claim rests on the exact-bytecode and run correspondences above.
-/
import GluonModel.Core
import GluonModel.Bytecode
import GluonModel.Compile
import GluonModel.Generated.InstrTable
import GluonModel.Proofs.Compile

namespace GluonModel.Props.C01b
open GluonModel.Core GluonModel.Bytecode GluonModel.Compile GluonModel.Proofs.Compile

/-! ### The instruction table is the one of vm/src/types.rs -/

/-- The hand-written `Instr` has exactly the variants of the Rust `enum Instruction`, in
    declaration order, with the same names and operand counts (table generated from the Rust
    source by translate/instr_table.py on every run). -/
theorem instr_table_agrees :
    Instr.samples.map Instr.gname = Generated.InstrName.all ∧
    Instr.samples.map (fun i => (i.name, i.operands.length)) =
      Generated.instrTable.map (fun p => (p.1, p.2.length)) := by
  constructor
  · decide
  · rfl

/-- every instruction has the operand count of its Rust variant -/
theorem instr_operand_count (i : Instr) : i.operands.length = i.gname.arity := by
  cases i <;> rfl

/-- `Instr.adjust` (used by the model compiler for `stack_size`) is `Instruction::adjust` as
    generated from the Rust `match`. -/
theorem instr_adjust_agrees (i : Instr) : Generated.adjustGen i.gname i.operands = i.adjust := by
  cases i <;> simp [Generated.adjustGen, Instr.gname, Instr.operands, Instr.adjust]

example : (Instr.constructVariant 3 2).adjust = -1 := by decide
example : Generated.adjustGen .slide [4] = -4 := by decide

/-! ### Compiler correctness -/

mutual
/-- no `&&`, `||`, and no `Match` other than a record projection / record `let`: the code never
    branches (the only jump goes to the next instruction) -/
def noBranch : Expr → Bool
  | .const _ => true
  | .ident _ => true
  | .cast e => noBranch e
  | .letE _ e₁ body => noBranch e₁ && noBranch body
  | .call f args =>
    (match headOf f args.length with
     | .and_ => false
     | .or_ => false
     | _ => true) && noBranch f && noBranchs args
  | .data _ args => noBranchs args
  | .letRec _ _ => false
  | .match_ s alts =>
    -- a record pattern as the only alternative has no test: straight-line code
    match alts with
    | [(p, e)] => isRec p && noBranch s && noBranch e
    | _ => false
def noBranchs : List Expr → Bool
  | [] => true
  | e :: es => noBranch e && noBranchs es
end

/-- F1: constants (the string table included), identifiers (stack slots and upvalues), `Cast`,
    non-recursive `Let`, primitive binary operators, `Data` (variants, arrays, records with the
    record-map table), `&&`, `||`, `Match` over constructor / identifier / int, char, byte
    literal patterns (so also `if`), and `Match` with a single record-pattern alternative on a
    closed row that the compiler turns into `GetOffset`s (record projection `e.f`, `let {…} = e`
    on records with more than four fields, or binding no field). -/
def inF1 (e : Expr) : Bool := inF e

/-- F0: the straight-line part of F1 (Const, Ident, Cast, Let, primitive binops, Data, record
    projection by `GetOffset`). -/
def inF0 (e : Expr) : Bool := inF e && noBranch e

/-- **F1.** The code the model compiler emits for `e` at index `b` (`compile`, i.e. with the
    final `Slide`), placed anywhere in a function's instruction list (`SegAt`: the code is
    `pre ++ compile e pre.length ++ post`, jump targets are absolute), started on a frame-local
    stack `stk` in which every variable of the environment sits in the slot the compiler
    recorded for it — or, if it is not a stack variable of this function, in the upvalue of
    that name (`Agree`) — in a function whose string / record tables and upvalue list extend
    the compiler's (`Tables`), runs to the end of the segment and leaves exactly `stk ++ [v]` when the
    semantics gives `v`; when the semantics gives the arithmetic error (overflow, division by
    zero) the machine stops with that error. Holds for every `tail` flag, start index, compiler
    state and heap; nothing below the top of `stk` changes. (`evalCore` answers `wrong …` for
    ill-scoped / ill-typed programs and for a `Match` none of whose alternatives applies — the
    translator adds a default alternative — so those are outside the statement.) -/
theorem compile_correct_F1 (seIdx : Nat) (e : Expr) (hF : inF1 e = true)
    (tail : Bool) (b : Nat) (st : FState) (fn : Fn) (upv : List Val) (fv : List Sym) (h : Heap)
    (fuel : Nat) (ρ : Env) (stk : List Val)
    (hseg : SegAt fn.instrs b (compileE seIdx e tail b st).1)
    (htab : Tables (compileE seIdx e tail b st).2 fn fv)
    (hlen : stk.length = st.stackSize) (hag : Agree fv upv st.scopes ρ stk)
    (hdum : lookup ρ dummySym = none) :
    (∀ v, evalCore fuel ρ e = .ok v →
      Exec fn upv h b stk (b + (compileE seIdx e tail b st).1.length) (stk ++ [v])) ∧
    (evalCore fuel ρ e = .error .arith → ExecErr fn upv h b stk .arith) :=
  ((wrap_of_body (body_spec seIdx e hF)) tail b st).2.2.2 fn upv fv h fuel ρ stk hseg htab hlen hag
    hdum

/-- **F0** (straight-line code: Const, Ident, Let, primitive binop, Data, record projection by
    `GetOffset`, Slide): the first rung, a special case of F1. -/
theorem compile_correct_F0 (seIdx : Nat) (e : Expr) (hF : inF0 e = true)
    (tail : Bool) (b : Nat) (st : FState) (fn : Fn) (upv : List Val) (fv : List Sym) (h : Heap)
    (fuel : Nat) (ρ : Env) (stk : List Val)
    (hseg : SegAt fn.instrs b (compileE seIdx e tail b st).1)
    (htab : Tables (compileE seIdx e tail b st).2 fn fv)
    (hlen : stk.length = st.stackSize) (hag : Agree fv upv st.scopes ρ stk)
    (hdum : lookup ρ dummySym = none) :
    (∀ v, evalCore fuel ρ e = .ok v →
      Exec fn upv h b stk (b + (compileE seIdx e tail b st).1.length) (stk ++ [v])) ∧
    (evalCore fuel ρ e = .error .arith → ExecErr fn upv h b stk .arith) :=
  compile_correct_F1 seIdx e (by simp only [inF0, Bool.and_eq_true] at hF; exact hF.1)
    tail b st fn upv fv h fuel ρ stk hseg htab hlen hag hdum

/-- The compiler's own model of the stack is right: after the code of `e` the compile-time
    `stack_size` has grown by exactly one, the scopes are as before, and the function's tables
    (upvalue names, string constants, record maps) have only been extended, so indices handed
    out earlier stay valid. -/
theorem compile_stack_discipline_F1 (seIdx : Nat) (e : Expr) (hF : inF1 e = true)
    (tail : Bool) (b : Nat) (st : FState) :
    (compileE seIdx e tail b st).2.scopes = st.scopes ∧
    (compileE seIdx e tail b st).2.stackSize = st.stackSize + 1 ∧
    Ext st (compileE seIdx e tail b st).2 :=
  ⟨((wrap_of_body (body_spec seIdx e hF)) tail b st).1,
   ((wrap_of_body (body_spec seIdx e hF)) tail b st).2.1,
   ((wrap_of_body (body_spec seIdx e hF)) tail b st).2.2.1⟩

/-- Whole modules: the function `compile_expr` builds for an F1 expression whose only free
    variables are globals, run from its first instruction on an empty frame with the globals'
    values as upvalues (vm.rs:66 `new_bytecode`), reaches its `Return` with the value of the
    semantics as the only thing on the stack, or fails with the arithmetic error. -/
theorem compile_correct_F1_module (seIdx : Nat) (e : Expr) (hF : inF1 e = true)
    (upv : List Val) (h : Heap) (fuel : Nat) (ρ : Env) (hdum : lookup ρ dummySym = none)
    (hglob : ∀ x v, lookup ρ x = some v →
      ∃ k, indexOfSym (compileModule seIdx e).1 x = some k ∧ upv[k]? = some v) :
    let fn := (compileModule seIdx e).2.1
    (∀ v, evalCore fuel ρ e = .ok v →
      ∃ pc, Exec fn upv h 0 [] pc [v] ∧ fn.instrs[pc]? = some .ret) ∧
    (evalCore fuel ρ e = .error .arith → ExecErr fn upv h 0 [] .arith) := by
  intro fn
  have hseg : SegAt fn.instrs 0 (compileE seIdx e true 0 FState.empty).1 := by
    intro k hk
    show ((compileE seIdx e true 0 FState.empty).1 ++ [Instr.ret])[0 + k]? = _
    rw [Nat.zero_add, List.getElem?_append_left hk]
  have htab : Tables (compileE seIdx e true 0 FState.empty).2 fn (compileModule seIdx e).1 :=
    ⟨List.prefix_refl _, List.prefix_refl _, List.prefix_refl _⟩
  have hag : Agree (compileModule seIdx e).1 upv FState.empty.scopes ρ [] := by
    intro x v hx
    exact Or.inr ⟨rfl, hglob x v hx⟩
  obtain ⟨hok, herr⟩ := compile_correct_F1 seIdx e hF true 0 FState.empty fn upv
    (compileModule seIdx e).1 h fuel ρ [] hseg htab rfl hag hdum
  refine ⟨fun v hv => ⟨(compileE seIdx e true 0 FState.empty).1.length, ?_, ?_⟩, herr⟩
  · simpa using hok v hv
  · show ((compileE seIdx e true 0 FState.empty).1 ++ [Instr.ret])[_]? = _
    simp

/-- **End to end, on the whole machine** (value stack, frames, heap; `Bytecode.run` is the
    model the `runbc` correspondence validates against the real VM): for an F1 module whose free
    variables are globals, `run (compile e)` *is* `evalCore e` — the model VM started by
    `call_thunk` on the compiled module with the globals' values as upvalues answers the value
    the semantics assigns (with the heap it started with), or the arithmetic failure the
    semantics assigns, for every sufficiently large step budget. -/
theorem compile_correct_F1_run (seIdx : Nat) (e : Expr) (hF : inF1 e = true)
    (globals : List Val) (fuel : Nat) (ρ : Env) (hdum : lookup ρ dummySym = none)
    (hglob : ∀ x v, lookup ρ x = some v →
      ∃ k, indexOfSym (compileModule seIdx e).1 x = some k ∧ globals[k]? = some v) :
    let fn := (compileModule seIdx e).2.1
    (∀ v, evalCore fuel ρ e = .ok v →
      ∃ n, ∀ m, runModule (n + m) fn globals = .ok (v, { clos := [(fn, globals)], data := [] })) ∧
    (evalCore fuel ρ e = .error .arith →
      ∃ n, ∀ m, runModule (n + m) fn globals = .error .arith) := by
  intro fn
  obtain ⟨hok, herr⟩ := compile_correct_F1_module seIdx e hF globals
    { clos := [(fn, globals)], data := [] } fuel ρ hdum hglob
  refine ⟨fun v hv => ?_, fun he => runModule_of_execErr (herr he)⟩
  obtain ⟨pc, hex, hret⟩ := hok v hv
  exact runModule_of_exec hex hret

/-! ### Rung F2 (partial): calls of exact arity, with frames -/

/-- **F2, the machine half: `Call` / `Return` with frames, exact arity.** On the whole machine
    (`Bytecode.step`: thread.rs `Call` :2183, `do_call` :2752, `call_function_with_upvars`
    `Ordering::Equal` :2711, `Return` :2527): if the callee's code, started at 0 on its
    arguments in its own frame, runs to a `Return` with `args ++ [v]`, then a `Call n` in the
    caller replaces function and arguments by `v`; everything below (the caller's locals, the
    rest of the value stack, the other frames) and the heap are untouched, and the caller
    resumes at the next instruction. -/
theorem call_return_exact_F2 {fn g : Fn} {upv gupv : List Val} {h : Heap} {pc pcR id n : Nat}
    {below stk args : List Val} {v : Val} {fr : Frame} {rest : List Frame}
    (ho : fr.offset = below.length) (hpc : fr.pc = pc)
    (hc : h.clos[fr.clos]? = some (fn, upv)) (hi : fn.instrs[pc]? = some (.call n))
    (hg : h.clos[id]? = some (g, gupv)) (hn : g.args = n) (hargs : args.length = n)
    (hbody : Exec g gupv h 0 args pcR (args ++ [v])) (hret : g.instrs[pcR]? = some .ret) :
    ∃ k, ∀ m,
      run (k + m) { stack := below ++ (stk ++ [.cref id] ++ args), frames := fr :: rest, heap := h } =
      run m { stack := below ++ (stk ++ [v]), frames := { fr with pc := pc + 1 } :: rest, heap := h } :=
  call_return_exact ho hpc hc hi hg hn hargs hbody hret

/-- **F2 for compiled functions with an F1 body.** Take the function `compile_lambda` builds
    for `\params -> body` (`body` in F1), held by a closure `id` whose upvalues carry the closure's
    environment `ρc`. A `Call` with exactly `params.length` arguments, anywhere in any caller,
    yields the value `evalCore` assigns to `body` under `params ↦ args` — on the whole machine,
    with the caller's frame, the stack below and the heap untouched. (What is *not* proved here is
    the other half of F2–F3: that the code the compiler emits for a `Call` expression and for
    `Named::Recursive` puts exactly such a closure and such arguments on the stack; that needs
    a relation between `evalCore` closures and heap closures.) -/
theorem call_compiled_function_F2 (seIdx : Nat) (params : List Sym) (body : Expr)
    (hF : inF1 body = true) (hnd : params.contains dummySym = false)
    {fn : Fn} {upv gupv : List Val} {h : Heap} {pc id : Nat}
    {below stk args : List Val} {fr : Frame} {rest : List Frame}
    (fuel : Nat) (ρc : Env) (v : Val)
    (ho : fr.offset = below.length) (hpc : fr.pc = pc)
    (hc : h.clos[fr.clos]? = some (fn, upv)) (hi : fn.instrs[pc]? = some (.call params.length))
    (hg : h.clos[id]? = some
      (mkFn params.length (compileE seIdx body true 0 (innerStart params)).1
        (compileE seIdx body true 0 (innerStart params)).2, gupv))
    (hargs : params.length = args.length) (hdum : lookup ρc dummySym = none)
    (hup : ∀ x w, lookup ρc x = some w →
      ∃ k, indexOfSym (compileE seIdx body true 0 (innerStart params)).2.freeVars x = some k ∧
        gupv[k]? = some w)
    (hev : evalCore fuel (bindAll params args ρc) body = .ok v) :
    ∃ k, ∀ m,
      run (k + m) { stack := below ++ (stk ++ [.cref id] ++ args), frames := fr :: rest, heap := h } =
      run m { stack := below ++ (stk ++ [v]), frames := { fr with pc := pc + 1 } :: rest, heap := h } := by
  obtain ⟨pcR, hex, hret⟩ := lambda_body_exec seIdx params body hF hnd gupv h fuel ρc args v hargs
    hdum hup hev
  exact call_return_exact ho hpc hc hi hg rfl hargs.symm hex hret

/-- `Exec` (used in the statements above) is a statement about `runLocal`, the iteration of the
    interpreter loop: it computes exactly that transition. -/
theorem exec_is_runLocal (fn : Fn) (upv : List Val) (h : Heap) (pc : Nat) (s : List Val)
    (pc' : Nat) (s' : List Val) (a : Exec fn upv h pc s pc' s') :
    ∃ n, ∀ m, runLocal fn upv (n + m) pc s h = runLocal fn upv m pc' s' h :=
  a.runLocal

/-! Non-vacuity -/
def exX : Sym := ⟨"x", 1⟩
/-- `let x = 2 * 3 in C1 (x + 1) [x]` -/
def exProg : Expr :=
  .letE exX (.call (.ident ⟨"#Int*", 2⟩) [.const (.int 2), .const (.int 3)])
    (.data (.variant (some 1))
      [.call (.ident ⟨"#Int+", 3⟩) [.ident exX, .const (.int 1)], .data .array [.ident exX]])
example : inF0 exProg = true := by rfl
example : evalCore 10 [] exProg = .ok (.data 1 [.int 7, .arr [.int 6]] []) := by rfl
example : (compileModule 5 exProg).2.1.instrs =
    [.pushInt 2, .pushInt 3, .multiplyInt, .push 0, .pushInt 1, .addInt, .push 0,
     .constructArray 1, .constructVariant 1 2, .slide 1, .ret] := by rfl
def exOverflow : Expr :=
  .call (.ident ⟨"#Int+", 2⟩) [.const (.int 9223372036854775807), .const (.int 1)]
example : inF0 exOverflow = true := by rfl
example : evalCore 10 [] exOverflow = .error .arith := by rfl
def exY : Sym := ⟨"y", 2⟩
/-- `let x = C1 5 in match x with | C0 -> 0 | C1 y -> if y < 3 || 4 < y then y else 0` -/
def exBranch : Expr :=
  .letE exX (.data (.variant (some 1)) [.const (.int 5)])
    (.match_ (.ident exX)
      [(.ctor (some 0) [], .const (.int 0)),
       (.ctor (some 1) [exY],
         .match_ (.call (.ident ⟨"||", 3⟩)
             [.call (.ident ⟨"#Int<", 4⟩) [.ident exY, .const (.int 3)],
              .call (.ident ⟨"#Int<", 4⟩) [.const (.int 4), .ident exY]])
           [(.ctor (some 1) [], .ident exY), (.ctor (some 0) [], .const (.int 0))])])
example : inF1 exBranch = true := by rfl
example : inF0 exBranch = false := by rfl
example : evalCore 20 [] exBranch = .ok (.int 5) := by rfl
example : (runModule 100 (compileModule 5 exBranch).2.1 []).map (·.1) = .ok (.int 5) := by rfl
example : (compileModule 5 exBranch).2.1.instrs =
    [.pushInt 5, .constructVariant 1 1, .push 0, .testTag 0, .cJump 7, .testTag 1, .cJump 10,
     .split, .pushInt 0, .jump 32, .split, .push 1, .pushInt 3, .intLT, .cJump 19, .pushInt 4,
     .push 1, .intLT, .jump 20, .constructVariant 1 0, .testTag 1, .cJump 24, .testTag 0,
     .cJump 27, .split, .push 1, .jump 30, .split, .pushInt 0, .jump 30, .slide 1, .jump 32,
     .slide 1, .ret] := by rfl

/-- `{ a = "s", b = g }` with a global `g` -/
def exRec : Expr :=
  .data (.record [⟨"a", 5⟩, ⟨"b", 6⟩]) [.const (.str "s"), .ident ⟨"@g", 0⟩]
example : inF1 exRec = true := by rfl
example : evalCore 10 [(⟨"@g", 0⟩, .int 7)] exRec = .ok (.data 0 [.str "s", .int 7] ["a", "b"]) := by
  rfl
example : (compileModule 5 exRec).1 = [⟨"@g", 0⟩] ∧
    (compileModule 5 exRec).2.1.instrs =
      [.pushString 0, .pushUpVar 0, .constructRecord 0 2, .ret] ∧
    (compileModule 5 exRec).2.1.strings = ["s"] ∧
    (compileModule 5 exRec).2.1.records = [[⟨"a", 5⟩, ⟨"b", 6⟩]] := ⟨rfl, rfl, rfl, rfl⟩

/-- `let f x y = x + y in f 1 2`: a closure (`NewClosure`/`CloseClosure`), a tail call of exact
    arity; outside F1 as a whole, its function body `x + y` is inside -/
def exF : Sym := ⟨"f", 7⟩
def exCall : Expr :=
  .letRec [(exF, [exX, exY], .call (.ident ⟨"#Int+", 3⟩) [.ident exX, .ident exY])]
    (.call (.ident exF) [.const (.int 1), .const (.int 2)])
example : inF1 exCall = false := by rfl
example : inF1 (.call (.ident ⟨"#Int+", 3⟩) [.ident exX, .ident exY]) = true := by rfl
example : evalCore 20 [] exCall = .ok (.int 3) := by rfl
example : (compileModule 5 exCall).2.1.instrs =
    [.newClosure 0 0, .push 0, .closeClosure 0, .push 0, .pushInt 1, .pushInt 2, .tailCall 2,
     .slide 1, .ret] := by rfl
example : ((compileModule 5 exCall).2.1.inner.map (·.instrs)) =
    [[.push 0, .push 1, .addInt, .ret]] := by rfl
example : (runModule 100 (compileModule 5 exCall).2.1 []).map (·.1) = .ok (.int 3) := by rfl

/-- `{ a = 1, b = 2, c = 3, d = 4, e = 5 }.d`: record projection by `GetOffset` -/
def exProj : Expr :=
  .match_ (.data (.record [⟨"a", 1⟩, ⟨"b", 2⟩, ⟨"c", 3⟩, ⟨"d", 4⟩, ⟨"e", 5⟩])
      [.const (.int 1), .const (.int 2), .const (.int 3), .const (.int 4), .const (.int 5)])
    [(.record 5 false [⟨"d", some 3, ⟨"d", 9⟩⟩] [none, none, none, some ⟨"d", 9⟩, none],
      .ident ⟨"d", 9⟩)]
example : inF1 exProj = true := by rfl
example : inF0 exProj = true := by rfl
example : evalCore 20 [] exProj = .ok (.int 4) := by rfl
example : (compileModule 5 exProj).2.1.instrs =
    [.pushInt 1, .pushInt 2, .pushInt 3, .pushInt 4, .pushInt 5, .constructRecord 0 5,
     .push 0, .getOffset 3, .push 1, .slide 2, .jump 11, .ret] := by rfl

/-- What is proved of the full statement `compile_correct` (see the header): the highest rung. -/
theorem compile_correct_partial (seIdx : Nat) (e : Expr) (hF : inF1 e = true)
    (tail : Bool) (b : Nat) (st : FState) (fn : Fn) (upv : List Val) (fv : List Sym) (h : Heap)
    (fuel : Nat) (ρ : Env) (stk : List Val)
    (hseg : SegAt fn.instrs b (compileE seIdx e tail b st).1)
    (htab : Tables (compileE seIdx e tail b st).2 fn fv)
    (hlen : stk.length = st.stackSize) (hag : Agree fv upv st.scopes ρ stk)
    (hdum : lookup ρ dummySym = none) :
    (∀ v, evalCore fuel ρ e = .ok v →
      Exec fn upv h b stk (b + (compileE seIdx e tail b st).1.length) (stk ++ [v])) ∧
    (evalCore fuel ρ e = .error .arith → ExecErr fn upv h b stk .arith) :=
  compile_correct_F1 seIdx e hF tail b st fn upv fv h fuel ρ stk hseg htab hlen hag hdum

end GluonModel.Props.C01b
