/-
C01 (part b) — the code that actually runs programs: core IR → bytecode compiler → VM.

Models: `GluonModel.Core` (core IR of vm/src/core/mod.rs and its strict semantics `evalCore`),
`GluonModel.Compile` (vm/src/compiler.rs `compile_`), `GluonModel.Bytecode` (vm/src/types.rs
`Instruction`, interpreter loop of vm/src/thread.rs). Tie to /repo (harness/src/bin/c01b.rs):
for every generated program, `evalCore(real core IR)` = real outcome, `compileModule(real core
IR)` = real `CompiledModule` instruction for instruction, `runModule(real bytecode)` = real
outcome.

The full compiler-correctness statement, for the whole core language, is

    compile_correct : WellScoped e → run (compile e) σ = evalCore e ρ        (σ represents ρ)

What is proved is `compile_correct_partial` (= `compile_correct_F2`, the highest rung reached):

* F0/F1 completely (straight-line code; `&&`, `||`, `Match` incl. both record-pattern paths),
  end to end on the whole machine for modules (`compile_correct_F1_run`);
* F2 for calls (tail or not) of exact arity on *known* closures: variables bound to closures
  that are `CloRel`-related to heap closures (`compile_correct_F2`), with `closure_correct_F2`
  showing that the function `compile_lambda` builds for a closure is so related (so the theorem
  composes through call chains), `exec_is_run` / `returns_is_run` giving the frame-level meaning
  (`Call`, `TailCall`, `Return` on `Bytecode.run`);
* of F3 the semantic half: recursive groups are related at every fuel (`rec_group_correct_F3`).

* of F3 also the creation code, partially (`compile_correct_F3_partial`): chains of single lambda
  bindings `let f ps = body in …` (`NewClosure; Push; loads; CloseClosure`; self-recursion and
  captured variables allowed, bodies in F2) and plain `let`s in front of an F2 expression, run in
  phases over a growing heap (`ExecH`, `HExt`), with the Kripke lemmas `heap_extension_monotone`.

  Single-record-alternative `match` (the two prelude wrappers of every program) is inside F3.
  The machine side of F4 (`vm_call_partial`, `vm_call_pap`, `vm_call_excess`, `vm_return_excess`)
  characterises under- and over-application in the model VM exactly.

Still missing, precisely: (i) lambda bindings under a `match` with several alternatives, the
creation code of multi-member `Named::Recursive` groups, lambdas inside function bodies (the
heap would change during a call: `Returns` keeps one heap); (ii) closures as *values* (returned,
passed, stored in data; partial application and excess arguments of F4 produce `pap`/closure
results): results are then related, not equal, values, so `Agree`/`Done` need a value relation
instead of equality and "which variables hold closures" stops being syntactic (`Φ`) and needs
types; (iii) float/string literal patterns, `GetField` record patterns on open rows, extern calls
(`error`). Beyond the proved rung the claim rests on the exact-bytecode and run correspondences
above.
-/
import GluonModel.Core
import GluonModel.Bytecode
import GluonModel.Compile
import GluonModel.Generated.InstrTable
import GluonModel.Proofs.Compile
import GluonModel.Proofs.CompileHeap
import GluonModel.Proofs.CompileInner
import GluonModel.Proofs.CompileLambda
import GluonModel.Proofs.CompileApply

namespace GluonModel.Props.C01b
open GluonModel.Core GluonModel.Bytecode GluonModel.Compile GluonModel.Proofs.Compile

/-! ### The instruction table is the one of vm/src/types.rs -/

/-- The hand-written `Instr` has exactly the variants of the Rust `enum Instruction`, in
    declaration order, with the same names and operand counts (table generated from the Rust
    source by translate/instr_table.py on every run). -/
theorem instr_table_agrees :
    Instr.samples.map Instr.gname = Generated.InstrName.all ∧
    Instr.samples.map (fun i => (i.name, i.operands.length)) =
      Generated.instrTable.map (fun p => (p.1, p.2.length)) := by
  constructor
  · decide
  · rfl

/-- every instruction has the operand count of its Rust variant -/
theorem instr_operand_count (i : Instr) : i.operands.length = i.gname.arity := by
  cases i <;> rfl

/-- `Instr.adjust` (used by the model compiler for `stack_size`) is `Instruction::adjust` as
    generated from the Rust `match`. -/
theorem instr_adjust_agrees (i : Instr) : Generated.adjustGen i.gname i.operands = i.adjust := by
  cases i <;> simp [Generated.adjustGen, Instr.gname, Instr.operands, Instr.adjust]

example : (Instr.constructVariant 3 2).adjust = -1 := by decide
example : Generated.adjustGen .slide [4] = -4 := by decide

/-! ### Compiler correctness -/

mutual
/-- no `&&`, `||`, and no `Match` other than a record projection / record `let`: the code never
    branches (the only jump goes to the next instruction) -/
def noBranch : Expr → Bool
  | .const _ => true
  | .ident _ => true
  | .cast e => noBranch e
  | .letE _ e₁ body => noBranch e₁ && noBranch body
  | .call f args =>
    (match headOf f args.length with
     | .and_ => false
     | .or_ => false
     | _ => true) && noBranch f && noBranchs args
  | .data _ args => noBranchs args
  | .letRec _ _ => false
  | .match_ s alts =>
    -- a record pattern as the only alternative has no test: straight-line code
    match alts with
    | [(p, e)] => isRec p && noBranch s && noBranch e
    | _ => false
def noBranchs : List Expr → Bool
  | [] => true
  | e :: es => noBranch e && noBranchs es
end

/-- F2 relative to the function variables `Φ` (variables that hold closures, with their arity):
    F1 plus calls `f a₁ … aₙ`, in tail position or not, of a function variable with exactly its
    arity. Function variables occur only as heads of such calls and are never rebound. -/
def inF2 (Φ : List (Sym × Nat)) (e : Expr) : Bool := inF Φ e

/-- F1: constants (the string table included), identifiers (stack slots and upvalues), `Cast`,
    non-recursive `Let`, primitive binary operators, `Data` (variants, arrays, records with the
    record-map table), `&&`, `||`, `Match` over constructor / identifier / int, char, byte
    literal patterns (so also `if`), and `Match` with a single record-pattern alternative on a
    closed row — through `GetOffset`s (projection, `let {…} = e` on large records) or through
    `Split` (small records, tuples). F1 is F2 without function variables. -/
def inF1 (e : Expr) : Bool := inF [] e

/-- F0: the straight-line part of F1 (Const, Ident, Cast, Let, primitive binops, Data, record
    projection). -/
def inF0 (e : Expr) : Bool := inF [] e && noBranch e

/-- **F2 (calls on known closures).** As F1 (below), for expressions that also call function
    variables: every `(f, n) ∈ Φ` is bound in the environment to an `evalCore` closure that the
    machine represents by a `CloRel`-related heap closure (a stack slot or upvalue holding
    `cref id`, `Agree`). The code of `e`, run as a segment, ends with `stk ++ [v]` where
    `evalCore … = ok v` — or, when compiled in tail position, leaves the frame by a `TailCall`
    whose callee returns `v` to the frame's caller (`Done`); calls are whole-machine calls:
    `Exec`/`Returns` derivations are runs of `Bytecode.run` with frames (`exec_is_run`,
    `returns_is_run`). Arithmetic failures, also inside callees, are reproduced. `K` is the fuel
    up to which the function variables are known to be related (`CloRel K`); evaluations with
    fuel `≤ K + 1` are covered, so closures related at every `K` (`rec_group_correct_F3`) give the
    statement for every fuel. -/
theorem compile_correct_F2 (seIdx : Nat) (Φ : List (Sym × Nat)) (e : Expr) (hF : inF2 Φ e = true)
    (tail : Bool) (b : Nat) (st : FState) (fn : Fn) (upv : List Val) (fv : List Sym) (h : Heap)
    (K fuel : Nat) (hK : fuel ≤ K + 1) (ρ : Env) (stk : List Val)
    (hseg : SegAt fn.instrs b (compileE seIdx e tail b st).1)
    (htab : Tables (compileE seIdx e tail b st).2 fn fv)
    (hlen : stk.length = st.stackSize) (hag : Agree K h Φ fv upv st.scopes ρ stk)
    (hdum : lookup ρ dummySym = none) :
    (∀ v, evalCore fuel ρ e = .ok v →
      Done fn upv h tail b stk (b + (compileE seIdx e tail b st).1.length) stk v) ∧
    (evalCore fuel ρ e = .error .arith → ExecErr fn upv h b stk .arith) :=
  ((wrap_of_body (body_spec seIdx Φ e hF)) tail b st).2.2.2 K fuel hK fn upv fv h ρ stk hseg htab hlen
    hag hdum

/-- **F2: the function `compile_lambda` builds for a closure is that closure** (`CloRel`): for a
    member `(nm, params, body)` of a group with `body` in F2, a heap closure holding the compiled
    function and upvalues that represent the body's free variables returns, when entered with
    `params.length` arguments, what `evalCore` assigns to the body — so it can in turn be a
    function variable of its callers (`compile_correct_F2` composes). -/
theorem closure_correct_F2 (seIdx : Nat) (Φ : List (Sym × Nat)) (cs : Closures) (idx : Nat)
    (env : Env) (nm : Sym) (params : List Sym) (body : Expr)
    (hcs : cs[idx]? = some (nm, params, body))
    (hF : inF2 Φ body = true) (hp0 : params.length ≠ 0)
    (hnd : params.contains dummySym = false) (hpf : ∀ a ∈ params, lookupScope Φ a = none)
    (K : Nat) (h : Heap) (id : Nat) (gupv : List Val)
    (hg : h.clos[id]? = some (mkFn params.length (compileE seIdx body true 0 (innerStart params)).1
      (compileE seIdx body true 0 (innerStart params)).2, gupv))
    (hdum : lookup (recEnv cs env) dummySym = none)
    (hup : ∀ x w, lookup (recEnv cs env) x = some w →
      ∀ k, indexOfSym (compileE seIdx body true 0 (innerStart params)).2.freeVars x = some k →
        ∃ v', gupv[k]? = some v' ∧ RV K h Φ x w v') :
    CloRel (K + 1) h params.length (.clos cs idx env) (.cref id) :=
  closure_correct seIdx Φ cs idx env nm params body hcs hF hp0 hnd hpf K h id gupv hg hdum hup

/-- **F3, the `evalCore` side of recursive groups.** Let every member `i` of a
    `Named::Recursive` group `cs` over `env` have a heap closure `ids i` holding the function
    `compile_lambda` builds for it, with upvalues that represent the free variables of its body —
    the members of the group by each other's heap closures (what `NewClosure … CloseClosure` set
    up), the others as `hup` says. If all bodies are in F2 relative to a `Φ` listing the members
    with their arities, every member is `CloRel`-related to its heap closure at every fuel, by
    induction on the fuel: a (mutually) recursive call at fuel `K + 1` needs the relation at `K`
    only. So recursive and mutually recursive functions can be function variables of
    `compile_correct_F2`, at every fuel. -/
theorem rec_group_correct_F3 (seIdx : Nat) (Φ : List (Sym × Nat)) (cs : Closures) (env : Env)
    (h : Heap) (ids : Nat → Nat) (ups : Nat → List Val)
    (hmem : ∀ i nm params body, cs[i]? = some (nm, params, body) →
      inF2 Φ body = true ∧ params.length ≠ 0 ∧ params.contains dummySym = false ∧
      (∀ a ∈ params, lookupScope Φ a = none) ∧
      h.clos[ids i]? = some (mkFn params.length (compileE seIdx body true 0 (innerStart params)).1
        (compileE seIdx body true 0 (innerStart params)).2, ups i))
    (hdum : lookup (recEnv cs env) dummySym = none)
    (hup : ∀ (K : Nat), (∀ i nm params body, cs[i]? = some (nm, params, body) →
        CloRel K h params.length (.clos cs i env) (.cref (ids i))) →
      ∀ i nm params body, cs[i]? = some (nm, params, body) →
      ∀ x w, lookup (recEnv cs env) x = some w →
      ∀ k, indexOfSym (compileE seIdx body true 0 (innerStart params)).2.freeVars x = some k →
        ∃ v', (ups i)[k]? = some v' ∧ RV K h Φ x w v') :
    ∀ (K : Nat) i nm params body, cs[i]? = some (nm, params, body) →
      CloRel K h params.length (.clos cs i env) (.cref (ids i)) :=
  rec_group_correct seIdx Φ cs env h ids ups hmem hdum hup

/-- `Exec` derivations (turns of the interpreter loop and whole calls) are runs of the whole
    machine `Bytecode.run`, in any frame of a closure of that function. -/
theorem exec_is_run {fn : Fn} {upv : List Val} {h : Heap} {pc : Nat} {stk : List Val} {pc' : Nat}
    {stk' : List Val} (a : Exec fn upv h pc stk pc' stk')
    (below : List Val) (fr : Frame) (rest : List Frame) (ho : fr.offset = below.length)
    (hc : h.clos[fr.clos]? = some (fn, upv)) :
    ∃ n, ∀ m,
      run (n + m) ⟨below ++ stk, ({ fr with pc := pc } : Frame) :: rest, h⟩ =
      run m ⟨below ++ stk', ({ fr with pc := pc' } : Frame) :: rest, h⟩ :=
  run_of_exec a below fr rest ho hc

/-- `Returns` derivations are runs of the whole machine from the callee's fresh frame (`Call` /
    `TailCall` of exact arity have just pushed it) to the moment its caller has the result in
    place of function and arguments (`Return`, thread.rs :2527; `TailCall`, :2188). -/
theorem returns_is_run {g : Fn} {gupv : List Val} {h : Heap} {args : List Val} {v : Val}
    (a : Returns g gupv h args v) (below : List Val) (id : Nat) (frames : List Frame)
    (hg : h.clos[id]? = some (g, gupv)) :
    ∃ n, ∀ m,
      run (n + m) ⟨below ++ [Val.cref id] ++ args,
          (⟨(below ++ [Val.cref id]).length, false, id, 0⟩ : Frame) :: frames, h⟩ =
      run m ⟨below ++ [v], frames, h⟩ :=
  run_of_returns a below id frames hg

/-- without function variables the fuel index of `Agree` is immaterial -/
theorem agree_nil {K K' : Nat} {h : Heap} {fv : List Sym} {upv : List Val}
    {sc : List (List (Sym × Nat))} {ρ : Env} {stk : List Val}
    (a : Agree K h [] fv upv sc ρ stk) : Agree K' h [] fv upv sc ρ stk := by
  intro x v hx
  rcases a x v hx with ⟨i, v', hi, hv, hr⟩ | ⟨hn, hr⟩
  · exact Or.inl ⟨i, v', hi, hv, by simpa [RV, lookupScope] using hr⟩
  · refine Or.inr ⟨hn, fun k hk => ?_⟩
    obtain ⟨v', hu, hr'⟩ := hr k hk
    exact ⟨v', hu, by simpa [RV, lookupScope] using hr'⟩

/-- **F1.** The code the model compiler emits for `e` at index `b` (`compile`, i.e. with the
    final `Slide`), placed anywhere in a function's instruction list (`SegAt`: the code is
    `pre ++ compile e pre.length ++ post`, jump targets are absolute), started on a frame-local
    stack `stk` in which every variable of the environment sits in the slot the compiler
    recorded for it — or, if it is not a stack variable of this function, in the upvalue of
    that name (`Agree`) — in a function whose string / record tables and upvalue list extend
    the compiler's (`Tables`), runs to the end of the segment and leaves exactly `stk ++ [v]` when
    the semantics gives `v`; when the semantics gives the arithmetic error (overflow, division
    by zero) the machine stops with that error. Holds for every `tail` flag, start index,
    compiler state and heap; nothing below the top of `stk` changes. (`evalCore` answers
    `wrong …` for ill-scoped / ill-typed programs and for a `Match` none of whose alternatives
    applies — the translator adds a default alternative — so those are outside the statement.
    F1 code contains no call, so the second disjunct of `Done` never arises; it is kept because
    this theorem is `compile_correct_F2` at `Φ = []`.) -/
theorem compile_correct_F1 (seIdx : Nat) (e : Expr) (hF : inF1 e = true)
    (tail : Bool) (b : Nat) (st : FState) (fn : Fn) (upv : List Val) (fv : List Sym) (h : Heap)
    (fuel : Nat) (ρ : Env) (stk : List Val)
    (hseg : SegAt fn.instrs b (compileE seIdx e tail b st).1)
    (htab : Tables (compileE seIdx e tail b st).2 fn fv)
    (hlen : stk.length = st.stackSize) (hag : Agree 0 h [] fv upv st.scopes ρ stk)
    (hdum : lookup ρ dummySym = none) :
    (∀ v, evalCore fuel ρ e = .ok v →
      Done fn upv h tail b stk (b + (compileE seIdx e tail b st).1.length) stk v) ∧
    (evalCore fuel ρ e = .error .arith → ExecErr fn upv h b stk .arith) :=
  compile_correct_F2 seIdx [] e hF tail b st fn upv fv h fuel fuel (Nat.le_succ _) ρ stk hseg htab
    hlen (agree_nil hag) hdum

/-- **F0** (straight-line code: Const, Ident, Let, primitive binop, Data, record projection,
    Slide): the first rung, a special case of F1. -/
theorem compile_correct_F0 (seIdx : Nat) (e : Expr) (hF : inF0 e = true)
    (tail : Bool) (b : Nat) (st : FState) (fn : Fn) (upv : List Val) (fv : List Sym) (h : Heap)
    (fuel : Nat) (ρ : Env) (stk : List Val)
    (hseg : SegAt fn.instrs b (compileE seIdx e tail b st).1)
    (htab : Tables (compileE seIdx e tail b st).2 fn fv)
    (hlen : stk.length = st.stackSize) (hag : Agree 0 h [] fv upv st.scopes ρ stk)
    (hdum : lookup ρ dummySym = none) :
    (∀ v, evalCore fuel ρ e = .ok v →
      Done fn upv h tail b stk (b + (compileE seIdx e tail b st).1.length) stk v) ∧
    (evalCore fuel ρ e = .error .arith → ExecErr fn upv h b stk .arith) :=
  compile_correct_F1 seIdx e (by simp only [inF0, Bool.and_eq_true] at hF; exact hF.1)
    tail b st fn upv fv h fuel ρ stk hseg htab hlen hag hdum

/-- The compiler's own model of the stack is right: after the code of `e` the compile-time
    `stack_size` has grown by exactly one, the scopes are as before, and the function's tables
    (upvalue names, string constants, record maps) have only been extended, so indices handed
    out earlier stay valid. -/
theorem compile_stack_discipline_F2 (seIdx : Nat) (Φ : List (Sym × Nat)) (e : Expr)
    (hF : inF2 Φ e = true) (tail : Bool) (b : Nat) (st : FState) :
    (compileE seIdx e tail b st).2.scopes = st.scopes ∧
    (compileE seIdx e tail b st).2.stackSize = st.stackSize + 1 ∧
    Ext st (compileE seIdx e tail b st).2 :=
  ⟨((wrap_of_body (body_spec seIdx Φ e hF)) tail b st).1,
   ((wrap_of_body (body_spec seIdx Φ e hF)) tail b st).2.1,
   ((wrap_of_body (body_spec seIdx Φ e hF)) tail b st).2.2.1⟩

/-- Whole modules: the function `compile_expr` builds for an F1 expression whose only free
    variables are globals, entered with no arguments and the globals' values as upvalues
    (vm.rs:66 `new_bytecode`), returns the value of the semantics to its caller, or fails with
    the arithmetic error. -/
theorem compile_correct_F1_module (seIdx : Nat) (e : Expr) (hF : inF1 e = true)
    (upv : List Val) (h : Heap) (fuel : Nat) (ρ : Env) (hdum : lookup ρ dummySym = none)
    (hglob : ∀ x v, lookup ρ x = some v →
      ∀ k, indexOfSym (compileModule seIdx e).1 x = some k → upv[k]? = some v) :
    let fn := (compileModule seIdx e).2.1
    (∀ v, evalCore fuel ρ e = .ok v → Returns fn upv h [] v) ∧
    (evalCore fuel ρ e = .error .arith → ExecErr fn upv h 0 [] .arith) := by
  intro fn
  have hseg : SegAt fn.instrs 0 (compileE seIdx e true 0 FState.empty).1 := by
    intro k hk
    show ((compileE seIdx e true 0 FState.empty).1 ++ [Instr.ret])[0 + k]? = _
    rw [Nat.zero_add, List.getElem?_append_left hk]
  have htab : Tables (compileE seIdx e true 0 FState.empty).2 fn (compileModule seIdx e).1 :=
    ⟨List.prefix_refl _, List.prefix_refl _, List.prefix_refl _⟩
  have hag : Agree 0 h [] (compileModule seIdx e).1 upv FState.empty.scopes ρ [] := by
    intro x v hx
    exact Or.inr ⟨rfl, fun k hk => ⟨v, hglob x v hx k hk, rfl⟩⟩
  obtain ⟨hok, herr⟩ := compile_correct_F1 seIdx e hF true 0 FState.empty fn upv
    (compileModule seIdx e).1 h fuel ρ [] hseg htab rfl hag hdum
  refine ⟨fun v hv => ?_, herr⟩
  rcases hok v hv with ex | ⟨_, pc', s, id', args', g', gupv', hex, hi, hg', hn', hret⟩
  · refine Returns.ret (s := []) (by simpa using ex) ?_
    show ((compileE seIdx e true 0 FState.empty).1 ++ [Instr.ret])[_]? = _
    simp
  · exact Returns.tail hex hi hg' hn' hret

/-- **End to end, on the whole machine** (value stack, frames, heap; `Bytecode.run` is the
    model the `runbc` correspondence validates against the real VM): for an F1 module whose free
    variables are globals, `run (compile e)` *is* `evalCore e` — the model VM started by
    `call_thunk` on the compiled module with the globals' values as upvalues answers the value
    the semantics assigns (with the heap it started with), or the arithmetic failure the
    semantics assigns, for every sufficiently large step budget. -/
theorem compile_correct_F1_run (seIdx : Nat) (e : Expr) (hF : inF1 e = true)
    (globals : List Val) (fuel : Nat) (ρ : Env) (hdum : lookup ρ dummySym = none)
    (hglob : ∀ x v, lookup ρ x = some v →
      ∀ k, indexOfSym (compileModule seIdx e).1 x = some k → globals[k]? = some v) :
    let fn := (compileModule seIdx e).2.1
    (∀ v, evalCore fuel ρ e = .ok v →
      ∃ n, ∀ m, runModule (n + m) fn globals = .ok (v, { clos := [(fn, globals)], data := [] })) ∧
    (evalCore fuel ρ e = .error .arith →
      ∃ n, ∀ m, runModule (n + m) fn globals = .error .arith) := by
  intro fn
  obtain ⟨hok, herr⟩ := compile_correct_F1_module seIdx e hF globals
    { clos := [(fn, globals)], data := [] } fuel ρ hdum hglob
  exact ⟨fun v hv => runModule_of_returns (hok v hv), fun he => runModule_of_execErr (herr he)⟩

/-! Non-vacuity -/
def exX : Sym := ⟨"x", 1⟩
/-- `let x = 2 * 3 in C1 (x + 1) [x]` -/
def exProg : Expr :=
  .letE exX (.call (.ident ⟨"#Int*", 2⟩) [.const (.int 2), .const (.int 3)])
    (.data (.variant (some 1))
      [.call (.ident ⟨"#Int+", 3⟩) [.ident exX, .const (.int 1)], .data .array [.ident exX]])
example : inF0 exProg = true := by rfl
example : evalCore 10 [] exProg = .ok (.data 1 [.int 7, .arr [.int 6]] []) := by rfl
example : (compileModule 5 exProg).2.1.instrs =
    [.pushInt 2, .pushInt 3, .multiplyInt, .push 0, .pushInt 1, .addInt, .push 0,
     .constructArray 1, .constructVariant 1 2, .slide 1, .ret] := by rfl
def exOverflow : Expr :=
  .call (.ident ⟨"#Int+", 2⟩) [.const (.int 9223372036854775807), .const (.int 1)]
example : inF0 exOverflow = true := by rfl
example : evalCore 10 [] exOverflow = .error .arith := by rfl
def exY : Sym := ⟨"y", 2⟩
/-- `let x = C1 5 in match x with | C0 -> 0 | C1 y -> if y < 3 || 4 < y then y else 0` -/
def exBranch : Expr :=
  .letE exX (.data (.variant (some 1)) [.const (.int 5)])
    (.match_ (.ident exX)
      [(.ctor (some 0) [], .const (.int 0)),
       (.ctor (some 1) [exY],
         .match_ (.call (.ident ⟨"||", 3⟩)
             [.call (.ident ⟨"#Int<", 4⟩) [.ident exY, .const (.int 3)],
              .call (.ident ⟨"#Int<", 4⟩) [.const (.int 4), .ident exY]])
           [(.ctor (some 1) [], .ident exY), (.ctor (some 0) [], .const (.int 0))])])
example : inF1 exBranch = true := by rfl
example : inF0 exBranch = false := by rfl
example : evalCore 20 [] exBranch = .ok (.int 5) := by rfl
example : (runModule 100 (compileModule 5 exBranch).2.1 []).map (·.1) = .ok (.int 5) := by rfl
example : (compileModule 5 exBranch).2.1.instrs =
    [.pushInt 5, .constructVariant 1 1, .push 0, .testTag 0, .cJump 7, .testTag 1, .cJump 10,
     .split, .pushInt 0, .jump 32, .split, .push 1, .pushInt 3, .intLT, .cJump 19, .pushInt 4,
     .push 1, .intLT, .jump 20, .constructVariant 1 0, .testTag 1, .cJump 24, .testTag 0,
     .cJump 27, .split, .push 1, .jump 30, .split, .pushInt 0, .jump 30, .slide 1, .jump 32,
     .slide 1, .ret] := by rfl

/-- `{ a = "s", b = g }` with a global `g` -/
def exRec : Expr :=
  .data (.record [⟨"a", 5⟩, ⟨"b", 6⟩]) [.const (.str "s"), .ident ⟨"@g", 0⟩]
example : inF1 exRec = true := by rfl
example : evalCore 10 [(⟨"@g", 0⟩, .int 7)] exRec = .ok (.data 0 [.str "s", .int 7] ["a", "b"]) := by
  rfl
example : (compileModule 5 exRec).1 = [⟨"@g", 0⟩] ∧
    (compileModule 5 exRec).2.1.instrs =
      [.pushString 0, .pushUpVar 0, .constructRecord 0 2, .ret] ∧
    (compileModule 5 exRec).2.1.strings = ["s"] ∧
    (compileModule 5 exRec).2.1.records = [[⟨"a", 5⟩, ⟨"b", 6⟩]] := ⟨rfl, rfl, rfl, rfl⟩

/-- `let f x y = x + y in f 1 2`: a closure (`NewClosure`/`CloseClosure`), a tail call of exact
    arity; outside F1 as a whole, its function body `x + y` is inside -/
def exF : Sym := ⟨"f", 7⟩
def exCall : Expr :=
  .letRec [(exF, [exX, exY], .call (.ident ⟨"#Int+", 3⟩) [.ident exX, .ident exY])]
    (.call (.ident exF) [.const (.int 1), .const (.int 2)])
example : inF1 exCall = false := by rfl
example : inF1 (.call (.ident ⟨"#Int+", 3⟩) [.ident exX, .ident exY]) = true := by rfl
/-- with `f` known to be a closure of arity 2 the call is inside F2 -/
example : inF2 [(exF, 2)] (.call (.ident exF) [.const (.int 1), .const (.int 2)]) = true := by rfl
example : evalCore 20 [] exCall = .ok (.int 3) := by rfl
example : (compileModule 5 exCall).2.1.instrs =
    [.newClosure 0 0, .push 0, .closeClosure 0, .push 0, .pushInt 1, .pushInt 2, .tailCall 2,
     .slide 1, .ret] := by rfl
example : ((compileModule 5 exCall).2.1.inner.map (·.instrs)) =
    [[.push 0, .push 1, .addInt, .ret]] := by rfl
example : (runModule 100 (compileModule 5 exCall).2.1 []).map (·.1) = .ok (.int 3) := by rfl

/-- `{ a = 1, b = 2, c = 3, d = 4, e = 5 }.d`: record projection by `GetOffset` -/
def exProj : Expr :=
  .match_ (.data (.record [⟨"a", 1⟩, ⟨"b", 2⟩, ⟨"c", 3⟩, ⟨"d", 4⟩, ⟨"e", 5⟩])
      [.const (.int 1), .const (.int 2), .const (.int 3), .const (.int 4), .const (.int 5)])
    [(.record 5 false [⟨"d", some 3, ⟨"d", 9⟩⟩] [none, none, none, some ⟨"d", 9⟩, none],
      .ident ⟨"d", 9⟩)]
example : inF1 exProj = true := by rfl
example : inF0 exProj = true := by rfl
example : evalCore 20 [] exProj = .ok (.int 4) := by rfl
example : (compileModule 5 exProj).2.1.instrs =
    [.pushInt 1, .pushInt 2, .pushInt 3, .pushInt 4, .pushInt 5, .constructRecord 0 5,
     .push 0, .getOffset 3, .push 1, .slide 2, .jump 11, .ret] := by rfl

/-- `match (1, 2) with (a, b) -> b`: a tuple pattern through `Split` -/
def exSplit : Expr :=
  .match_ (.data (.record [⟨"_0", 1⟩, ⟨"_1", 2⟩]) [.const (.int 1), .const (.int 2)])
    [(.record 2 false [⟨"_0", some 0, ⟨"a", 8⟩⟩, ⟨"_1", some 1, ⟨"b", 9⟩⟩]
        [some ⟨"a", 8⟩, some ⟨"b", 9⟩], .ident ⟨"b", 9⟩)]
example : inF1 exSplit = true := by rfl
example : evalCore 20 [] exSplit = .ok (.int 2) := by rfl
example : (compileModule 5 exSplit).2.1.instrs =
    [.pushInt 1, .pushInt 2, .constructRecord 0 2, .split, .push 1, .slide 2, .jump 7, .ret] := by rfl

/-- the hypotheses of `closure_correct_F2` are satisfiable: the heap closure holding the function
    compiled for `\x y -> x + y` (no upvalues) is related, at every fuel, to the `evalCore` closure -/
example (K : Nat) :
    CloRel (K + 1)
      { clos := [(mkFn 2 (compileE 5 (.call (.ident ⟨"#Int+", 3⟩) [.ident exX, .ident exY]) true 0
                    (innerStart [exX, exY])).1
                  (compileE 5 (.call (.ident ⟨"#Int+", 3⟩) [.ident exX, .ident exY]) true 0
                    (innerStart [exX, exY])).2, [])], data := [] }
      2 (.clos [(exF, [exX, exY], .call (.ident ⟨"#Int+", 3⟩) [.ident exX, .ident exY])] 0 [])
      (.cref 0) := by
  refine closure_correct_F2 5 [] _ 0 [] exF [exX, exY] _ rfl rfl (by decide) rfl
    (by intro a ha; rfl) K _ 0 [] rfl rfl ?_
  intro x w _ k hk
  have : (compileE 5 (.call (.ident ⟨"#Int+", 3⟩) [.ident exX, .ident exY]) true 0
      (innerStart [exX, exY])).2.freeVars = [] := by rfl
  rw [this] at hk
  simp [indexOfSym] at hk

/-! ### F3 (partial): closure creation -/

/-- **Kripke monotonicity.** `NewClosure`/`CloseClosure` only append closures to the heap; every
    judgment established over a heap `h` — runs of a frame (`Exec`), whole calls (`Returns`),
    arithmetic failures (`ExecErr`), the closure relation (`CloRel`) and the agreement of a frame
    with an environment (`Agree`) — holds over every heap that extends `h` by further closures. -/
theorem heap_extension_monotone {h h' : Heap} (hx : HExt h h') :
    (∀ {fn upv pc stk pc' stk'}, Exec fn upv h pc stk pc' stk' → Exec fn upv h' pc stk pc' stk') ∧
    (∀ {g gupv args v}, Returns g gupv h args v → Returns g gupv h' args v) ∧
    (∀ {fn upv pc stk}, ExecErr fn upv h pc stk .arith → ExecErr fn upv h' pc stk .arith) ∧
    (∀ {K n v v'}, CloRel K h n v v' → CloRel K h' n v v') ∧
    (∀ {K Φ fv upv sc ρ stk}, Agree K h Φ fv upv sc ρ stk → Agree K h' Φ fv upv sc ρ stk) :=
  ⟨fun a => a.hext hx, fun a => a.hext hx, fun a => a.hext hx, fun a => a.hext hx,
   fun a => a.hext hx⟩

example : HExt { clos := [], data := [] } { clos := [(default, [.int 1])], data := [] } :=
  ⟨rfl, List.nil_prefix⟩

/-- **F2 code never touches the inner-function table** (so the index a `NewClosure` refers to
    stays valid while later code of the same function is compiled). -/
theorem compile_inner_functions_F2 (seIdx : Nat) (Φ : List (Sym × Nat)) (e : Expr)
    (hF : inF2 Φ e = true) (tail : Bool) (b : Nat) (st : FState) :
    (compileE seIdx e tail b st).2.inner = st.inner :=
  inner_E seIdx Φ e hF tail b st

example : (compileE 5 exBranch true 0 FState.empty).2.inner = [] := by rfl

/-- **F3 (partial): compiler correctness with closure creation.** `inF3 seIdx e Φ dom`: `e` is an
    F2 expression preceded by any chain of

    * lambda bindings `let f ps = body in …` — the one-element `Named::Recursive` the core
      translator produces for every `let`-bound function and every lambda: at least one
      parameter, `body` in F2 relative to the function variables in scope **and `f` itself** (so
      `body` may call `f` recursively, and the earlier functions of the chain, with exact arity,
      in tail position or not), capturing any variables in scope (`dom`);
    * plain bindings `let x = e₁ in …` with `e₁` in F2 (so `e₁` may call the functions bound
      before it);
    * `match s with | {record pattern} -> …` with a single closed-row record alternative and
      `s` in F2 (`let { … } = s in …`, and the two wrappers `match @std.types with {} -> match
      @std.prim with { error } -> …` every program compiled without the implicit prelude starts
      with), the alternative's body continuing in F3.

    The code `compile e` — `NewClosure; Push f; <load every captured variable>; CloseClosure`
    for each lambda, then the rest — placed at any index of any function whose tables extend the
    compiler's (`SegAt`, `Tables`, and the inner-function table `hinner`), started on a frame that
    agrees with the environment over heap `h`, runs in phases (`ExecH`: `Exec` phases and the
    heap-changing turns of closure creation) to a heap `h'` that extends `h` by exactly the
    created closures (`HExt`), over which it ends as `Done` says with the value `evalCore`
    assigns; when `evalCore` gives the arithmetic error the machine fails with it (possibly
    after creating closures). Each created heap closure is `CloRel`-related to the `evalCore`
    closure at every fuel `≤ K` (induction on the fuel, for self-recursion), which is what makes
    the calls in the rest of the chain correct by `compile_correct_F2`.

    Missing for the full F3/F4: groups of several mutually recursive lambdas created by one
    `Named::Recursive` (the semantic half is `rec_group_correct_F3`), lambdas *inside* function
    bodies or under a `match` with several alternatives (the heap would change during a call: `Returns` keeps one heap),
    closures as values (returned, passed, stored), partial and excess application. -/
theorem compile_correct_F3_partial (seIdx : Nat) (Φ : List (Sym × Nat)) (dom : List Sym) (e : Expr)
    (hF : inF3 seIdx e Φ dom = true)
    (tail : Bool) (b : Nat) (st : FState) (fn : Fn) (upv : List Val) (fv : List Sym) (h : Heap)
    (K fuel : Nat) (hK : fuel ≤ K + 1) (ρ : Env) (stk : List Val)
    (hseg : SegAt fn.instrs b (compileE seIdx e tail b st).1)
    (htab : Tables (compileE seIdx e tail b st).2 fn fv)
    (hinner : (compileE seIdx e tail b st).2.inner <+: fn.inner)
    (hlen : stk.length = st.stackSize) (hag : Agree K h Φ fv upv st.scopes ρ stk)
    (hdum : lookup ρ dummySym = none) (hdom : ∀ x ∈ dom, (lookup ρ x).isSome = true) :
    (∀ v, evalCore fuel ρ e = .ok v →
      ∃ h', HExt h h' ∧
        DoneH fn upv h tail b stk (b + (compileE seIdx e tail b st).1.length) stk v h') ∧
    (evalCore fuel ρ e = .error .arith → ErrH fn upv h b stk) :=
  (wrap_spec3 (body_spec3 seIdx (inF3_sound seIdx e Φ dom hF)) tail b st).2.2.2.2 K fuel hK fn upv fv h
    ρ stk hseg htab hinner hlen hag hdum hdom

/-- the compile-time side of F3: `stack_size` +1, scopes restored, tables only extended — the
    inner-function table included -/
theorem compile_stack_discipline_F3 (seIdx : Nat) (Φ : List (Sym × Nat)) (dom : List Sym) (e : Expr)
    (hF : inF3 seIdx e Φ dom = true) (tail : Bool) (b : Nat) (st : FState) :
    (compileE seIdx e tail b st).2.scopes = st.scopes ∧
    (compileE seIdx e tail b st).2.stackSize = st.stackSize + 1 ∧
    Ext st (compileE seIdx e tail b st).2 ∧
    st.inner <+: (compileE seIdx e tail b st).2.inner :=
  ⟨(wrap_spec3 (body_spec3 seIdx (inF3_sound seIdx e Φ dom hF)) tail b st).1,
   (wrap_spec3 (body_spec3 seIdx (inF3_sound seIdx e Φ dom hF)) tail b st).2.1,
   (wrap_spec3 (body_spec3 seIdx (inF3_sound seIdx e Φ dom hF)) tail b st).2.2.1,
   (wrap_spec3 (body_spec3 seIdx (inF3_sound seIdx e Φ dom hF)) tail b st).2.2.2.1⟩

/-- **F3 modules.** The function `compile_expr` builds for an F3 program whose free variables
    are globals (`dom`, all bound in `ρ`), entered with no arguments and the globals' values as
    upvalues: its frame runs, creating its closures, to a heap `h'` over which it ends with the
    value of the semantics on top at the final `Return` or leaves by a tail call whose callee
    returns that value; or it fails with the arithmetic error of the semantics. -/
theorem compile_correct_F3_module (seIdx : Nat) (dom : List Sym) (e : Expr)
    (hF : inF3 seIdx e [] dom = true)
    (upv : List Val) (h : Heap) (fuel : Nat) (ρ : Env) (hdum : lookup ρ dummySym = none)
    (hdom : ∀ x ∈ dom, (lookup ρ x).isSome = true)
    (hglob : ∀ x v, lookup ρ x = some v →
      ∀ k, indexOfSym (compileModule seIdx e).1 x = some k → upv[k]? = some v) :
    let fn := (compileModule seIdx e).2.1
    (∀ v, evalCore fuel ρ e = .ok v →
      ∃ h', HExt h h' ∧ DoneH fn upv h true 0 [] (fn.instrs.length - 1) [] v h') ∧
    (evalCore fuel ρ e = .error .arith → ErrH fn upv h 0 []) := by
  intro fn
  have hseg : SegAt fn.instrs 0 (compileE seIdx e true 0 FState.empty).1 := by
    intro k hk
    show ((compileE seIdx e true 0 FState.empty).1 ++ [Instr.ret])[0 + k]? = _
    rw [Nat.zero_add, List.getElem?_append_left hk]
  have htab : Tables (compileE seIdx e true 0 FState.empty).2 fn (compileModule seIdx e).1 :=
    ⟨List.prefix_refl _, List.prefix_refl _, List.prefix_refl _⟩
  have hag : Agree fuel h [] (compileModule seIdx e).1 upv FState.empty.scopes ρ [] := by
    intro x v hx
    exact Or.inr ⟨rfl, fun k hk => ⟨v, hglob x v hx k hk, rfl⟩⟩
  have hlen : fn.instrs.length - 1 = 0 + (compileE seIdx e true 0 FState.empty).1.length := by
    show ((compileE seIdx e true 0 FState.empty).1 ++ [Instr.ret]).length - 1 = _
    simp
  rw [hlen]
  exact compile_correct_F3_partial seIdx [] dom e hF true 0 FState.empty fn upv
    (compileModule seIdx e).1 h fuel fuel (Nat.le_succ _) ρ [] hseg htab (List.prefix_refl _) rfl hag
    hdum hdom

/-! Non-vacuity of F3 -/
/-- `let f x y = x + y in f 1 2` (above): the whole program is in F3 -/
example : inF3 5 exCall [] [] = true := by rfl
def exN : Sym := ⟨"n", 11⟩
def exAcc : Sym := ⟨"acc", 12⟩
def exLoop : Sym := ⟨"loop", 13⟩
def exK : Sym := ⟨"k", 14⟩
/-- `let k = 10 in let rec loop n acc = if n < 1 then acc + k else loop (n - 1) (acc + n) in loop 3 0`:
    a self-recursive tail loop that captures `k` -/
def exLoopProg : Expr :=
  .letE exK (.const (.int 10))
    (.letRec [(exLoop, [exN, exAcc],
        .match_ (.call (.ident ⟨"#Int<", 4⟩) [.ident exN, .const (.int 1)])
          [(.ctor (some 1) [], .call (.ident ⟨"#Int+", 3⟩) [.ident exAcc, .ident exK]),
           (.ctor (some 0) [],
             .call (.ident exLoop)
               [.call (.ident ⟨"#Int-", 5⟩) [.ident exN, .const (.int 1)],
                .call (.ident ⟨"#Int+", 3⟩) [.ident exAcc, .ident exN]])])]
      (.call (.ident exLoop) [.const (.int 3), .const (.int 0)]))
example : inF3 5 exLoopProg [] [] = true := by rfl
example : inF1 exLoopProg = false := by rfl
example : evalCore 50 [] exLoopProg = .ok (.int 16) := by rfl
example : (runModule 1000 (compileModule 5 exLoopProg).2.1 []).map (·.1) = .ok (.int 16) := by rfl
example : (compileModule 5 exLoopProg).2.1.instrs =
    [.pushInt 10, .newClosure 0 2, .push 1, .push 0, .push 1, .closeClosure 2, .push 1, .pushInt 3,
     .pushInt 0, .tailCall 2, .slide 2, .ret] := by rfl

/-- the prelude-off wrapper of every generated program, around the recursive loop above:
    `match @std.prim with { error } -> let k = 10 in let rec loop … in loop 3 0` -/
def exWrapped : Expr :=
  .match_ (.ident ⟨"@std.prim", 0⟩)
    [(.record 2 false [⟨"error", some 1, ⟨"error", 20⟩⟩] [none, some ⟨"error", 20⟩], exLoopProg)]
example : inF3 5 exWrapped [] [⟨"@std.prim", 0⟩] = true := by rfl
example : inF2 [] exWrapped = false := by rfl
example : evalCore 50 [(⟨"@std.prim", 0⟩, .data 0 [.int 0, .int 1] ["a", "error"])] exWrapped =
    .ok (.int 16) := by rfl

/-! ### F4, the machine side: under- and over-application in the model VM -/

/-- **`Call n` with too few arguments** (thread.rs :2712): one step of the machine replaces
    function and arguments by a `PartialApplication` holding them; the frame goes on. -/
theorem vm_call_partial {fn g : Fn} {upv gupv : List Val} {h : Heap} {pc id : Nat}
    {below stk args : List Val} {fr : Frame} {rest : List Frame} (ho : fr.offset = below.length)
    (hc : h.clos[fr.clos]? = some (fn, upv)) (hi : fn.instrs[pc]? = some (.call args.length))
    (hg : h.clos[id]? = some (g, gupv)) (hlt : args.length < g.args) :
    step ⟨below ++ (stk ++ [Val.cref id] ++ args), ({ fr with pc := pc } : Frame) :: rest, h⟩ =
      .running ⟨below ++ stk ++ [Val.pap (.cref id) args], ({ fr with pc := pc + 1 } : Frame) :: rest, h⟩ :=
  step_call_partial ho hc hi hg hlt

/-- **Calling a `PartialApplication` with the missing arguments** (thread.rs :2777): the stored
    arguments are inserted before the new ones and the closure's frame is entered. -/
theorem vm_call_pap {frames : List Frame} {h : Heap} {id : Nat} {g : Fn} {gupv : List Val}
    {below args₀ args : List Val} (hg : h.clos[id]? = some (g, gupv))
    (hn : g.args = args₀.length + args.length) :
    doCall ⟨below ++ [Val.pap (.cref id) args₀] ++ args, frames, h⟩ args.length =
      .running ⟨below ++ [Val.pap (.cref id) args₀] ++ args₀ ++ args,
        ⟨(below ++ [Val.pap (.cref id) args₀]).length, false, id, 0⟩ :: frames, h⟩ :=
  doCall_pap_exact hg hn

/-- **`Call n` with too many arguments** (thread.rs :2722): the surplus is packed into a data
    value stored below the function slot; the callee is entered on exactly its own arguments
    with `excess = true`. -/
theorem vm_call_excess {fn g : Fn} {upv gupv : List Val} {h : Heap} {pc id : Nat}
    {below stk need extra : List Val} {fr : Frame} {rest : List Frame} (ho : fr.offset = below.length)
    (hc : h.clos[fr.clos]? = some (fn, upv))
    (hi : fn.instrs[pc]? = some (.call (need ++ extra).length))
    (hg : h.clos[id]? = some (g, gupv)) (hn : g.args = need.length) (hx : extra ≠ []) :
    step ⟨below ++ (stk ++ [Val.cref id] ++ (need ++ extra)), ({ fr with pc := pc } : Frame) :: rest, h⟩ =
      .running ⟨below ++ stk ++ [Val.data 0 extra []] ++ [Val.cref id] ++ need,
        ⟨(below ++ stk ++ [Val.data 0 extra []] ++ [Val.cref id]).length, true, id, 0⟩ ::
          ({ fr with pc := pc + 1 } : Frame) :: rest, h⟩ :=
  step_call_excess ho hc hi hg hn hx

/-- **`Return` from a frame entered with excess arguments** (thread.rs :2527): the result takes
    the place of frame, function slot and packed surplus, the surplus is unpacked after it, and
    the *result is called* with it. -/
theorem vm_return_excess {g : Fn} {gupv : List Val} {h : Heap} {pcR id : Nat}
    {below s extra : List Val} {v : Val} {frames : List Frame}
    (hg : h.clos[id]? = some (g, gupv)) (hret : g.instrs[pcR]? = some .ret) :
    step ⟨below ++ [Val.data 0 extra []] ++ [Val.cref id] ++ (s ++ [v]),
        ⟨(below ++ [Val.data 0 extra []] ++ [Val.cref id]).length, true, id, pcR⟩ :: frames, h⟩ =
      doCall ⟨below ++ [v] ++ extra, frames, h⟩ extra.length :=
  step_ret_excess hg hret

/-- `let f x y = x + y in (f 1) 2` (partial application, then the `pap` is called) and
    `let i x = x in let g y = y + 1 in i g 5` (excess argument: `i`'s result is called) -/
def exPartial : Expr :=
  .letRec [(exF, [exX, exY], .call (.ident ⟨"#Int+", 3⟩) [.ident exX, .ident exY])]
    (.call (.call (.ident exF) [.const (.int 1)]) [.const (.int 2)])
def exG : Sym := ⟨"g", 21⟩
def exI : Sym := ⟨"i", 22⟩
def exExcess : Expr :=
  .letRec [(exI, [exX], .ident exX)]
    (.letRec [(exG, [exY], .call (.ident ⟨"#Int+", 3⟩) [.ident exY, .const (.int 1)])]
      (.call (.ident exI) [.ident exG, .const (.int 5)]))
example : evalCore 20 [] exPartial = .ok (.int 3) := by rfl
example : (runModule 100 (compileModule 5 exPartial).2.1 []).map (·.1) = .ok (.int 3) := by rfl
example : evalCore 20 [] exExcess = .ok (.int 6) := by rfl
example : (runModule 100 (compileModule 5 exExcess).2.1 []).map (·.1) = .ok (.int 6) := by rfl
def exHeap : Heap := { clos := [((compileModule 5 exPartial).2.1.inner.headD default, [])], data := [] }
example : doCall ⟨[] ++ [Val.cref 0] ++ [Val.int 1], [], exHeap⟩ 1 =
    .running ⟨[] ++ [Val.pap (.cref 0) [.int 1]], [], exHeap⟩ :=
  doCall_partial (args := [Val.int 1]) rfl (by decide)

/-- What is proved of the full statement `compile_correct` (see the header): the highest rung
    reached, F2 on known closures. -/
theorem compile_correct_partial (seIdx : Nat) (Φ : List (Sym × Nat)) (e : Expr)
    (hF : inF2 Φ e = true)
    (tail : Bool) (b : Nat) (st : FState) (fn : Fn) (upv : List Val) (fv : List Sym) (h : Heap)
    (K fuel : Nat) (hK : fuel ≤ K + 1) (ρ : Env) (stk : List Val)
    (hseg : SegAt fn.instrs b (compileE seIdx e tail b st).1)
    (htab : Tables (compileE seIdx e tail b st).2 fn fv)
    (hlen : stk.length = st.stackSize) (hag : Agree K h Φ fv upv st.scopes ρ stk)
    (hdum : lookup ρ dummySym = none) :
    (∀ v, evalCore fuel ρ e = .ok v →
      Done fn upv h tail b stk (b + (compileE seIdx e tail b st).1.length) stk v) ∧
    (evalCore fuel ρ e = .error .arith → ExecErr fn upv h b stk .arith) :=
  compile_correct_F2 seIdx Φ e hF tail b st fn upv fv h K fuel hK ρ stk hseg htab hlen hag hdum

end GluonModel.Props.C01b
