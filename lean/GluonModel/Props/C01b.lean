/-
C01 (part b) — the code that actually runs programs: core IR → bytecode compiler → VM.

Models: `GluonModel.Core` (core IR of vm/src/core/mod.rs and its strict semantics `evalCore`),
`GluonModel.Compile` (vm/src/compiler.rs `compile_`), `GluonModel.Bytecode` (vm/src/types.rs
`Instruction`, interpreter loop of vm/src/thread.rs). Tie to /repo (harness/src/bin/c01b.rs):
for every generated program, `evalCore(real core IR)` = real outcome, `compileModule(real core
IR)` = real `CompiledModule` instruction for instruction, `runModule(real bytecode)` = real
outcome.

The full compiler-correctness statement, for the whole core language, is

    compile_correct : WellScoped e → run (compile e) σ = evalCore e ρ        (σ represents ρ)

i.e. `compile_correct_F1` below without the hypothesis `inF1 e`. What is proved is
`compile_correct_partial` (= the highest rung of the ladder, F1). Missing cases, in the order
they would be added: string constants, record construction and record patterns (need the
monotonicity of the per-function string / record tables; the `Split` / `GetOffset` prologues of
`compile_let_pattern`), upvalues, `Call`/`TailCall` with frames (F2), `Named::Recursive`
closures (`NewClosure`/`CloseClosure`, F3), partial application and excess arguments (F4).
Beyond the proved rung the claim rests on the exact-bytecode and run correspondences above.
-/
import GluonModel.Core
import GluonModel.Bytecode
import GluonModel.Compile
import GluonModel.Generated.InstrTable
import GluonModel.Proofs.Compile

namespace GluonModel.Props.C01b
open GluonModel.Core GluonModel.Bytecode GluonModel.Compile GluonModel.Proofs.Compile

/-! ### The instruction table is the one of vm/src/types.rs -/

/-- The hand-written `Instr` has exactly the variants of the Rust `enum Instruction`, in
    declaration order, with the same names and operand counts (table generated from the Rust
    source by translate/instr_table.py on every run). -/
theorem instr_table_agrees :
    Instr.samples.map Instr.gname = Generated.InstrName.all ∧
    Instr.samples.map (fun i => (i.name, i.operands.length)) =
      Generated.instrTable.map (fun p => (p.1, p.2.length)) := by
  constructor
  · decide
  · rfl

/-- every instruction has the operand count of its Rust variant -/
theorem instr_operand_count (i : Instr) : i.operands.length = i.gname.arity := by
  cases i <;> rfl

/-- `Instr.adjust` (used by the model compiler for `stack_size`) is `Instruction::adjust` as
    generated from the Rust `match`. -/
theorem instr_adjust_agrees (i : Instr) : Generated.adjustGen i.gname i.operands = i.adjust := by
  cases i <;> simp [Generated.adjustGen, Instr.gname, Instr.operands, Instr.adjust]

example : (Instr.constructVariant 3 2).adjust = -1 := by decide
example : Generated.adjustGen .slide [4] = -4 := by decide

/-! ### Compiler correctness -/

mutual
/-- no `&&`, `||`, `Match` anywhere: the code has no jump -/
def noBranch : Expr → Bool
  | .const _ => true
  | .ident _ => true
  | .cast e => noBranch e
  | .letE _ e₁ body => noBranch e₁ && noBranch body
  | .call f args =>
    (match headOf f args.length with
     | .and_ => false
     | .or_ => false
     | _ => true) && noBranch f && noBranchs args
  | .data _ args => noBranchs args
  | .letRec _ _ => false
  | .match_ _ _ => false
def noBranchs : List Expr → Bool
  | [] => true
  | e :: es => noBranch e && noBranchs es
end

/-- F1: constants (not strings), identifiers on the stack, `Cast`, non-recursive `Let`,
    primitive binary operators, `Data` (variants, arrays), `&&`, `||`, `Match` over
    constructor / identifier / int, char, byte literal patterns (so also `if`). -/
def inF1 (e : Expr) : Bool := inF e

/-- F0: the straight-line part of F1. -/
def inF0 (e : Expr) : Bool := inF e && noBranch e

/-- **F1.** The code the model compiler emits for `e` at index `b` (`compile`, i.e. with the
    final `Slide`), placed anywhere in a function's instruction list (`SegAt`: the code is
    `pre ++ compile e pre.length ++ post`, jump targets are absolute), started on a frame-local
    stack `stk` in which every variable of the environment sits in the slot the compiler
    recorded for it, runs to the end of the segment and leaves exactly `stk ++ [v]` when the
    semantics gives `v`; when the semantics gives the arithmetic error (overflow, division by
    zero) the machine stops with that error. Holds for every `tail` flag, start index, compiler
    state and heap; nothing below the top of `stk` changes. (`evalCore` answers `wrong …` for
    ill-scoped / ill-typed programs and for a `Match` none of whose alternatives applies — the
    translator adds a default alternative — so those are outside the statement.) -/
theorem compile_correct_F1 (seIdx : Nat) (e : Expr) (hF : inF1 e = true)
    (tail : Bool) (b : Nat) (st : FState) (fn : Fn) (upv : List Val) (h : Heap) (fuel : Nat)
    (ρ : Env) (stk : List Val)
    (hseg : SegAt fn.instrs b (compileE seIdx e tail b st).1)
    (hlen : stk.length = st.stackSize) (hag : Agree st.scopes ρ stk)
    (hdum : lookup ρ dummySym = none) :
    (∀ v, evalCore fuel ρ e = .ok v →
      Exec fn upv h b stk (b + (compileE seIdx e tail b st).1.length) (stk ++ [v])) ∧
    (evalCore fuel ρ e = .error .arith → ExecErr fn upv h b stk .arith) :=
  ((wrap_of_body (body_spec seIdx e hF)) tail b st).2.2 fn upv h fuel ρ stk hseg hlen hag hdum

/-- **F0** (straight-line code: Const, Ident on the stack, Let, primitive binop, Data, Slide):
    the first rung, a special case of F1. -/
theorem compile_correct_F0 (seIdx : Nat) (e : Expr) (hF : inF0 e = true)
    (tail : Bool) (b : Nat) (st : FState) (fn : Fn) (upv : List Val) (h : Heap) (fuel : Nat)
    (ρ : Env) (stk : List Val)
    (hseg : SegAt fn.instrs b (compileE seIdx e tail b st).1)
    (hlen : stk.length = st.stackSize) (hag : Agree st.scopes ρ stk)
    (hdum : lookup ρ dummySym = none) :
    (∀ v, evalCore fuel ρ e = .ok v →
      Exec fn upv h b stk (b + (compileE seIdx e tail b st).1.length) (stk ++ [v])) ∧
    (evalCore fuel ρ e = .error .arith → ExecErr fn upv h b stk .arith) :=
  compile_correct_F1 seIdx e (by simp only [inF0, Bool.and_eq_true] at hF; exact hF.1)
    tail b st fn upv h fuel ρ stk hseg hlen hag hdum

/-- The compiler's own model of the stack is right: after the code of `e` the compile-time
    `stack_size` has grown by exactly one and the scopes are as before. -/
theorem compile_stack_discipline_F1 (seIdx : Nat) (e : Expr) (hF : inF1 e = true)
    (tail : Bool) (b : Nat) (st : FState) :
    (compileE seIdx e tail b st).2.scopes = st.scopes ∧
    (compileE seIdx e tail b st).2.stackSize = st.stackSize + 1 :=
  ⟨((wrap_of_body (body_spec seIdx e hF)) tail b st).1,
   ((wrap_of_body (body_spec seIdx e hF)) tail b st).2.1⟩

/-- Closed programs: the function `compile_expr` builds for a closed F1 expression, run from
    its first instruction on an empty frame, reaches its `Return` with the value of the
    semantics as the only thing on the stack, or fails with the arithmetic error. -/
theorem compile_correct_F1_closed (seIdx : Nat) (e : Expr) (hF : inF1 e = true)
    (upv : List Val) (h : Heap) (fuel : Nat) :
    let fn := (compileModule seIdx e).2.1
    (∀ v, evalCore fuel [] e = .ok v →
      ∃ pc, Exec fn upv h 0 [] pc [v] ∧ fn.instrs[pc]? = some .ret) ∧
    (evalCore fuel [] e = .error .arith → ExecErr fn upv h 0 [] .arith) := by
  intro fn
  have hseg : SegAt fn.instrs 0 (compileE seIdx e true 0 FState.empty).1 := by
    intro k hk
    show ((compileE seIdx e true 0 FState.empty).1 ++ [Instr.ret])[0 + k]? = _
    rw [Nat.zero_add, List.getElem?_append_left hk]
  have hag : Agree FState.empty.scopes [] [] := by
    intro x v hx; simp [lookup] at hx
  obtain ⟨hok, herr⟩ := compile_correct_F1 seIdx e hF true 0 FState.empty fn upv h fuel [] []
    hseg rfl hag rfl
  refine ⟨fun v hv => ⟨(compileE seIdx e true 0 FState.empty).1.length, ?_, ?_⟩, herr⟩
  · simpa using hok v hv
  · show ((compileE seIdx e true 0 FState.empty).1 ++ [Instr.ret])[_]? = _
    simp

/-! Non-vacuity -/
def exX : Sym := ⟨"x", 1⟩
/-- `let x = 2 * 3 in C1 (x + 1) [x]` -/
def exProg : Expr :=
  .letE exX (.call (.ident ⟨"#Int*", 2⟩) [.const (.int 2), .const (.int 3)])
    (.data (.variant (some 1))
      [.call (.ident ⟨"#Int+", 3⟩) [.ident exX, .const (.int 1)], .data .array [.ident exX]])
example : inF0 exProg = true := by rfl
example : evalCore 10 [] exProg = .ok (.data 1 [.int 7, .arr [.int 6]] []) := by rfl
example : (compileModule 5 exProg).2.1.instrs =
    [.pushInt 2, .pushInt 3, .multiplyInt, .push 0, .pushInt 1, .addInt, .push 0,
     .constructArray 1, .constructVariant 1 2, .slide 1, .ret] := by rfl
def exOverflow : Expr :=
  .call (.ident ⟨"#Int+", 2⟩) [.const (.int 9223372036854775807), .const (.int 1)]
example : inF0 exOverflow = true := by rfl
example : evalCore 10 [] exOverflow = .error .arith := by rfl
def exY : Sym := ⟨"y", 2⟩
/-- `let x = C1 5 in match x with | C0 -> 0 | C1 y -> if y < 3 || 4 < y then y else 0` -/
def exBranch : Expr :=
  .letE exX (.data (.variant (some 1)) [.const (.int 5)])
    (.match_ (.ident exX)
      [(.ctor (some 0) [], .const (.int 0)),
       (.ctor (some 1) [exY],
         .match_ (.call (.ident ⟨"||", 3⟩)
             [.call (.ident ⟨"#Int<", 4⟩) [.ident exY, .const (.int 3)],
              .call (.ident ⟨"#Int<", 4⟩) [.const (.int 4), .ident exY]])
           [(.ctor (some 1) [], .ident exY), (.ctor (some 0) [], .const (.int 0))])])
example : inF1 exBranch = true := by rfl
example : inF0 exBranch = false := by rfl
example : evalCore 20 [] exBranch = .ok (.int 5) := by rfl
example : (compileModule 5 exBranch).2.1.instrs =
    [.pushInt 5, .constructVariant 1 1, .push 0, .testTag 0, .cJump 7, .testTag 1, .cJump 10,
     .split, .pushInt 0, .jump 32, .split, .push 1, .pushInt 3, .intLT, .cJump 19, .pushInt 4,
     .push 1, .intLT, .jump 20, .constructVariant 1 0, .testTag 1, .cJump 24, .testTag 0,
     .cJump 27, .split, .push 1, .jump 30, .split, .pushInt 0, .jump 30, .slide 1, .jump 32,
     .slide 1, .ret] := by rfl

/-- What is proved of the full statement `compile_correct` (see the header): the highest rung. -/
theorem compile_correct_partial (seIdx : Nat) (e : Expr) (hF : inF1 e = true)
    (tail : Bool) (b : Nat) (st : FState) (fn : Fn) (upv : List Val) (h : Heap) (fuel : Nat)
    (ρ : Env) (stk : List Val)
    (hseg : SegAt fn.instrs b (compileE seIdx e tail b st).1)
    (hlen : stk.length = st.stackSize) (hag : Agree st.scopes ρ stk)
    (hdum : lookup ρ dummySym = none) :
    (∀ v, evalCore fuel ρ e = .ok v →
      Exec fn upv h b stk (b + (compileE seIdx e tail b st).1.length) (stk ++ [v])) ∧
    (evalCore fuel ρ e = .error .arith → ExecErr fn upv h b stk .arith) :=
  compile_correct_F1 seIdx e hF tail b st fn upv h fuel ρ stk hseg hlen hag hdum

end GluonModel.Props.C01b
