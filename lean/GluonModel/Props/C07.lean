/-
C07 — "With a memory limit or a stack-size limit configured, a program either completes within the
limit or fails with the corresponding out-of-memory or stack-overflow error: memory accounted to
the thread never exceeds the limit, and the host's native stack is never exhausted whatever the
recursion depth. Calls in tail position run in constant VM stack space, and an interrupt request
stops a running program promptly."

Models (transcriptions of the code as it is, file:line in the model files):
  `GluonModel.GcAccount`   vm/src/gc.rs   allocation accounting and the limit check
  `GluonModel.StackVerify` vm/src/thread.rs `execute_` — frame height of bytecode vs `max_stack_size`
  `GluonModel.CallStack`   vm/src/stack.rs / thread.rs — frames across call / tail call / return,
                           the `execute` loop's interrupt poll
  `GluonModel.MarkDepth`   vm/src/gc.rs `GcPtr::trace` — native recursion depth of marking
  `GluonModel.Generated.AllocSites` every use of `alloc_ignore_limit`, the comparisons of the checks
  `GluonModel.TailPos`     vm/src/compiler.rs `compile_`/`compile_primitive` — which calls become `TailCall`
  `GluonModel.Generated.TailContexts` how every construct hands `tail_position` on, extracted from the source
Only property theorems live here; lemmas are in `GluonModel.Proofs.*`.
-/
import GluonModel.GcAccount
import GluonModel.StackVerify
import GluonModel.CallStack
import GluonModel.MarkDepth
import GluonModel.Generated.AllocSites
import GluonModel.Generated.TailContexts
import GluonModel.TailPos
import GluonModel.Proofs.TailPos
import GluonModel.Proofs.GcAccount
import GluonModel.Proofs.StackVerify
import GluonModel.Proofs.CallStack
import GluonModel.Proofs.MarkDepth

namespace GluonModel.Props.C07

/-! ## Memory limit -/
section Memory
open GluonModel.GcAccount

/-- FULL STATEMENT (memory): for every sequence of heap operations the thread's accounted memory
    never exceeds the configured limit.  Proved for every sequence of the accounted operations
    (`alloc_owned`, `alloc_and_collect`, `collect`); false once `alloc_ignore_limit` is used (see
    `primitive_oom_report_exceeds_fails`), for which the overrun is bounded instead. -/
theorem alloc_within_limit (g : Gc) (ops : List Op) (hops : ∀ op ∈ ops, op.accounted = true)
    (h : g.allocated ≤ g.limit) :
    (run g ops).allocated ≤ g.limit ∧ (run g ops).limit = g.limit :=
  Proofs.run_within g ops hops h

example : (run (Gc.new 40 300) [.alloc 100, .alloc 100, .alloc 100, .collect [false, true], .alloc 60]).allocated = 240 := by
  decide

/-- An allocation succeeds exactly when `allocated + header + size < limit`, and then the new total
    is that sum — strictly below the limit. -/
theorem alloc_ok_iff (g : Gc) (n : Nat) :
    (alloc g n).2 = .ok ↔ g.allocated + g.hdr + n < g.limit :=
  Proofs.alloc_ok_iff g n

theorem alloc_ok_strict (g : Gc) (n : Nat) (h : (alloc g n).2 = .ok) :
    (alloc g n).1.allocated < g.limit ∧ (alloc g n).1.allocated = g.allocated + g.hdr + n :=
  Proofs.alloc_ok_strict g n h

/-- A refused allocation reports `OutOfMemory { limit, needed }` and leaves the heap untouched. -/
theorem alloc_oom_unchanged (g : Gc) (n : Nat) (h : g.allocated + g.hdr + n ≥ g.limit) :
    alloc g n = (g, .oom g.limit (g.allocated + g.hdr + n)) :=
  Proofs.alloc_oom g n h

example : alloc (Gc.new 40 100) 60 = (Gc.new 40 100, .oom 100 100) := by decide

/-- `allocated_memory` is exactly the sum of the sizes of the linked objects, after any sequence of
    any operations (no allocation or free path forgets the counter). -/
theorem accounting_exact (g : Gc) (ops : List Op) (h : g.allocated = g.objs.sum) :
    (run g ops).allocated = (run g ops).objs.sum :=
  Proofs.sumInv_run g ops h

example : (Gc.new 40 1000).allocated = (Gc.new 40 1000).objs.sum := by decide

/-- Regression witness for defect D4 (fixed in /repo by `fix: include the GC header in the memory
    limit check`): with the header left out of the check a successful allocation ends above the
    limit. -/
theorem alloc_old_rule_exceeds :
    ∃ g n, g.allocated ≤ g.limit ∧ (allocOld g n).2 = .ok ∧ (allocOld g n).1.allocated > g.limit :=
  ⟨Gc.new 40 100, 70, by decide, by decide, by decide⟩

/-- With the escape hatch in play the overrun is bounded by the bytes allocated through it. -/
theorem ignore_limit_overrun_bounded (g : Gc) (ops : List Op)
    (hops : ∀ op ∈ ops, Proofs.Op.keepsLimit op = true) (h : g.allocated ≤ g.limit) :
    (run g ops).allocated ≤ g.limit + Proofs.ignoreBytes g.hdr ops :=
  (Proofs.run_ignore_bounded g ops 0 hops (by simpa using h)).1

/-- DEFECT (reproduced on the real code, fingerprint `mem:over-limit:err:oom-as-panic`): when an
    extern primitive cannot allocate its result, `status_push` allocates the error text with
    `alloc_ignore_limit`; the thread then holds more than its limit. -/
theorem primitive_oom_report_exceeds_fails :
    ∃ g size msg, g.allocated ≤ g.limit ∧ (allocOrReport g size msg).2 ≠ .ok ∧
      (allocOrReport g size msg).1.allocated > g.limit :=
  ⟨⟨[90], 90, 100, 100, 40⟩, 8, 50, by decide, by decide, by decide⟩

/-- What does hold for the code as it is: the overrun is at most the header plus the error text. -/
theorem primitive_oom_report_partial (g : Gc) (size msg : Nat) (h : g.allocated ≤ g.limit) :
    (allocOrReport g size msg).1.allocated ≤ g.limit + g.hdr + msg := by
  by_cases hok : g.allocated + g.hdr + size ≥ g.limit
  · rw [allocOrReport, Proofs.alloc_oom g size hok]
    simp [allocIgnore]; omega
  · have : alloc g size = (allocIgnore g size, .ok) := by
      unfold alloc; simp only []; rw [if_neg hok]
    rw [allocOrReport, this]
    simp [allocIgnore]; omega

/-- With the error carried out of band the limit holds on this path too. -/
theorem primitive_oom_report_fixed (g : Gc) (size msg : Nat) (h : g.allocated ≤ g.limit) :
    (allocOrReportFixed g size msg).1.allocated ≤ g.limit :=
  Proofs.alloc_le g size h

/-- The `needed` value reported under a limit is the first of the trace's `needed` values that
    reaches it; no limit above all of them fails (threshold semantics of `>=`). -/
theorem firstOom_none_iff (limit : Nat) (ns : List Nat) :
    firstOom limit ns = none ↔ ∀ n ∈ ns, n < limit :=
  Proofs.firstOom_none_iff limit ns

theorem firstOom_some (limit : Nat) (ns : List Nat) (n : Nat) (h : firstOom limit ns = some n) :
    n ∈ ns ∧ n ≥ limit :=
  Proofs.firstOom_some limit ns n h

example : firstOom 100 [40, 99, 100, 120] = some 100 := by decide

/-- Every *use* of the limit-bypassing allocation in gluon, by (file, enclosing function): the
    definitions' own forwarding calls, three unit tests of stack.rs, and the two error-report paths
    modelled by `allocOrReport`.  A new unaccounted allocation site changes the generated table. -/
theorem alloc_ignore_sites_enumerated :
    Generated.AllocSites.useKeys =
      [("vm/src/gc.rs", "alloc_owned"), ("vm/src/gc.rs", "alloc_ignore_limit"),
       ("vm/src/stack.rs", "attempt_take_locked_range"), ("vm/src/stack.rs", "attempt_pop_locked"),
       ("vm/src/stack.rs", "lock_unlock"), ("vm/src/thread.rs", "alloc_ignore_limit"),
       ("vm/src/api/mod.rs", "async_status_push"), ("vm/src/api/mod.rs", "status_push")] := by
  rfl

/-- The comparisons of the two limit checks and the position of the interrupt poll, as extracted
    from the source on every run, are the ones the models use. -/
theorem limit_checks_shape :
    Generated.AllocSites.memLimitCmp = ">=" ∧ Generated.AllocSites.memNeededIncludesHeader = true ∧
    Generated.AllocSites.stackLimitCmp = ">" ∧ Generated.AllocSites.interruptPolledFirst = true := by
  refine ⟨rfl, rfl, rfl, rfl⟩

end Memory

/-! ## The static frame-height bound -/
section Static
open GluonModel.StackVerify

/-- For ANY bytecode function that passes `verify` (not only compiler output): in every execution
    of an activation the frame height stays within `max_stack_size` before and after every
    instruction, and no instruction reaches below the frame. -/
theorem verify_sound (f : Fn) (hv : verify f = true) (pc h : Nat) (hr : Reach f pc h) :
    h ≤ f.max ∧ ∃ i, f.code[pc]? = some i ∧ i.okAt h = true ∧ i.after h ≤ f.max :=
  Proofs.verify_sound f hv pc h hr

/-- … and the height is a function of the program point. -/
theorem verify_heights_unique (f : Fn) (hv : verify f = true) (pc h₁ h₂ : Nat)
    (r₁ : Reach f pc h₁) (r₂ : Reach f pc h₂) : h₁ = h₂ :=
  Proofs.verify_unique f hv pc h₁ h₂ r₁ r₂

/-- The real bytecode of `rec let f n = if n #Int== 0 then 0 else 1 #Int+ f (n #Int- 1)`. -/
def exampleFn : Fn := ⟨1, 5,
  [.push 0, .pushc, .binop, .test, .cjump 7, .test, .cjump 10, .split 0, .pushc, .jump 19, .split 0,
   .pushc, .pushc, .push 0, .pushc, .binop, .call 1, .binop, .jump 19, .ret]⟩

example : verify exampleFn = true := by decide
example : verify { exampleFn with max := 4 } = false := by decide
example : Reach exampleFn 1 2 := Reach.step (i := .push 0) Reach.entry rfl (by simp [Instr.succs])

/-- Jumps only go forward ⇒ an activation executes at most `code.length` instructions before it
    leaves the function: the interrupt flag is polled again after boundedly many instructions. -/
theorem forward_steps_bounded (f : Fn) (hf : forward f = true) (pc pc' n : Nat)
    (hs : Steps f pc pc' n) : n ≤ f.code.length - pc :=
  Proofs.forward_steps_bounded f hf pc pc' n hs

example : forward exampleFn = true := by decide

end Static

/-! ## Stack limit, tail calls, recursion depth -/
section Frames
open GluonModel.CallStack

/-- FULL STATEMENT (stack): from the thread at rest, after any sequence of pushes, pops, calls
    (exact, partial and over-application), tail calls and returns that the model accepts, the value
    stack is no longer than the configured limit — given that function bodies respect their declared
    `max_stack_size` (what `verify_sound` establishes; the model's `push` checks it) and that every
    function's arguments fit in its bound. -/
theorem stack_limit_enforced (tbl : Tbl) (limit : Nat) (host : FnInfo)
    (htbl : Proofs.TblOk tbl) (h0 : tbl[0]? = some host) (hl : host.max ≤ limit)
    (evs : List Ev) (s' : St) (h : run tbl limit St.base evs = .ok s') :
    s'.values ≤ limit ∧ s'.frames.length ≤ limit + 1 :=
  have hinv := Proofs.run_inv tbl limit htbl evs St.base s' (Proofs.base_inv tbl limit host h0 hl) h
  ⟨Proofs.inv_values_le tbl limit s' hinv, Proofs.depth_bounded tbl limit s' hinv⟩

/-- … and from any consistent state. -/
theorem stack_limit_invariant (tbl : Tbl) (limit : Nat) (htbl : Proofs.TblOk tbl) (evs : List Ev)
    (s s' : St) (hinv : Proofs.Inv tbl limit s) (h : run tbl limit s evs = .ok s') :
    Proofs.Inv tbl limit s' ∧ s'.values ≤ limit :=
  have h' := Proofs.run_inv tbl limit htbl evs s s' hinv h
  ⟨h', Proofs.inv_values_le tbl limit s' h'⟩

/-- The table of `exampleFn`'s program: host frame, module function, `f`. -/
def exampleTbl : Tbl := [⟨0, 1⟩, ⟨0, 3⟩, ⟨1, 5⟩]

example : Proofs.TblOk exampleTbl := by
  intro i info h
  match i with
  | 0 => simp [exampleTbl] at h; subst h; decide
  | 1 => simp [exampleTbl] at h; subst h; decide
  | 2 => simp [exampleTbl] at h; subst h; decide
  | i + 3 => simp [exampleTbl] at h

/-- `f 2`, limit 13: completes; limit 12: the innermost call is refused. -/
example : run exampleTbl 13 St.base
    [.push 1, .call ⟨1, 0⟩ 0, .push 3, .tailcall ⟨2, 0⟩ 1, .push 3, .call ⟨2, 0⟩ 1, .push 3, .call ⟨2, 0⟩ 1,
     .push 1, .ret none, .pop 1, .ret none, .pop 1, .ret none, .pop 1] = .ok St.base := by rfl
example : run exampleTbl 12 St.base
    [.push 1, .call ⟨1, 0⟩ 0, .push 3, .tailcall ⟨2, 0⟩ 1, .push 3, .call ⟨2, 0⟩ 1, .push 3, .call ⟨2, 0⟩ 1]
    = .error .stackOverflow := by rfl

/-- `TailCall(n)` of a closure with exactly `n` parameters reuses the frame: same number of frames,
    the new frame at the caller's offset, only the arguments on top of it. -/
theorem tailcall_constant (tbl : Tbl) (limit : Nat) (s s' : St) (fr p : Frame) (rest : List Frame)
    (g n : Nat) (gi : FnInfo) (hfr : s.frames = fr :: p :: rest) (hex : fr.excess = 0)
    (hg : tbl[g]? = some gi) (hn : gi.args = n)
    (h : step tbl limit s (.tailcall ⟨g, 0⟩ n) = .ok s') :
    s'.frames = ⟨fr.offset, g, 0⟩ :: p :: rest ∧ s'.values = fr.offset + n :=
  Proofs.tailcall_exact tbl limit s s' fr p rest g n gi hfr hex hg hn h

/-- Any chain of such tail calls — self, mutual, through closure values — of ANY length leaves the
    frame stack exactly as deep as it was, with the running frame at the same offset. -/
theorem tail_chain_constant (tbl : Tbl) (limit : Nat) (segs : List Proofs.TailSeg)
    (hs : ∀ t ∈ segs, Proofs.SegOk tbl t) (s s' : St) (fr p : Frame) (rest : List Frame)
    (hfr : s.frames = fr :: p :: rest) (hex : fr.excess = 0)
    (h : run tbl limit s (segs.flatMap Proofs.TailSeg.evs) = .ok s') :
    ∃ fn', s'.frames = ⟨fr.offset, fn', 0⟩ :: p :: rest :=
  Proofs.tail_chain_constant tbl limit segs hs s s' fr p rest hfr hex h

/-- A self-tail-recursive loop: if ONE iteration (any body of pushes and pops, then the tail call)
    runs from the state right after the function was entered, then it ends in that very state, and
    hence N iterations run for every N — in the space of one. -/
theorem tail_loop_any_length (tbl : Tbl) (limit : Nat) (f : Nat) (fi : FnInfo)
    (hf : tbl[f]? = some fi) (o : Nat) (p : Frame) (rest : List Frame) (body : List Ev)
    (hb : ∀ e ∈ body, Proofs.isBody e = true) (s1 : St)
    (h : run tbl limit ⟨o + fi.args, ⟨o, f, 0⟩ :: p :: rest⟩ (body ++ [.tailcall ⟨f, 0⟩ fi.args]) = .ok s1)
    (N : Nat) :
    run tbl limit ⟨o + fi.args, ⟨o, f, 0⟩ :: p :: rest⟩
      (List.replicate N (body ++ [.tailcall ⟨f, 0⟩ fi.args])).flatten
      = .ok ⟨o + fi.args, ⟨o, f, 0⟩ :: p :: rest⟩ := by
  have hs := Proofs.tail_self_iteration_returns tbl limit f fi hf o p rest body hb s1 h
  rw [hs] at h
  exact Proofs.tail_loop_any_length tbl limit _ _ h N

/-- the loop `rec let loop n acc = if n #Int== 0 then acc else loop (n #Int- 1) (acc #Int+ 1)`:
    table (host, module, loop) and one iteration from the entry state. -/
example : run [⟨0, 1⟩, ⟨0, 4⟩, ⟨2, 6⟩] 9 ⟨3, [⟨1, 2, 0⟩, ⟨0, 0, 0⟩]⟩ ([.push 3] ++ [.tailcall ⟨2, 0⟩ 2])
    = .ok ⟨3, [⟨1, 2, 0⟩, ⟨0, 0, 0⟩]⟩ := by rfl

/-- A non-tail call of a closure with exactly `n` parameters adds a frame and keeps every value. -/
theorem nontail_grows (tbl : Tbl) (limit : Nat) (s s' : St) (g n : Nat) (gi : FnInfo)
    (hg : tbl[g]? = some gi) (hn : gi.args = n)
    (h : step tbl limit s (.call ⟨g, 0⟩ n) = .ok s') :
    s'.frames.length = s.frames.length + 1 ∧ s'.values = s.values :=
  Proofs.call_adds_frame tbl limit s s' g n gi hg hn h

/-- Hence recursion depth is bounded by the limit: a consistent state never has more than
    `limit + 1` frames (every frame owns at least its function slot). -/
theorem depth_bounded (tbl : Tbl) (limit : Nat) (s : St) (h : Proofs.Inv tbl limit s) :
    s.frames.length ≤ limit + 1 :=
  Proofs.depth_bounded tbl limit s h

/-- … and when such a call does not go through, it is the stack-overflow error, raised exactly when
    `len + max_stack_size > limit`. -/
theorem call_fails_only_overflow (tbl : Tbl) (limit : Nat) (s : St) (fr : Frame) (rest : List Frame)
    (g n : Nat) (gi : FnInfo) (hfr : s.frames = fr :: rest) (hroom : fr.offset + n + 1 ≤ s.values)
    (hg : tbl[g]? = some gi) (hn : gi.args = n) (e : Err)
    (h : step tbl limit s (.call ⟨g, 0⟩ n) = .error e) :
    e = .stackOverflow ∧ s.values + gi.max > limit :=
  Proofs.call_fails_only_overflow tbl limit s fr rest g n gi hfr hroom hg hn e h

/-- Interrupt: once the flag is set by the time of poll `i + k`, at most `k` more activation
    segments run (each at most `code.length` instructions, `forward_steps_bounded`) … -/
theorem interrupt_prompt (flag : Nat → Bool) (i segs k : Nat) (hk : flag (i + k) = true) :
    (execute flag i segs).1 ≤ k :=
  Proofs.execute_prompt flag i segs k hk

/-- … the run ends with `Interrupted` if it had not finished by then … -/
theorem interrupt_delivered (flag : Nat → Bool) (i segs k : Nat) (hk : flag (i + k) = true)
    (hlt : k < segs) : (execute flag i segs).2 = .interrupted :=
  Proofs.execute_interrupted flag i segs k hk hlt

/-- … and without a request nothing is interrupted. -/
theorem interrupt_unrequested (flag : Nat → Bool) (hf : ∀ j, flag j = false) (i segs : Nat) :
    execute flag i segs = (segs, .finished) :=
  Proofs.execute_unrequested flag hf i segs

example : execute (fun i => decide (3 ≤ i)) 0 10 = (3, .interrupted) := by decide

end Frames

/-! ## Which calls are tail calls -/
section TailPositions
open GluonModel.TailPos

/-- The compiler's propagation of `tail_position` (model `flags`, transcribed from `compile_` /
    `compile_primitive`) marks a call `TailCall` EXACTLY when every step from the function body down
    to the call goes through a tail context of the language — body of `let` (incl. `rec` groups),
    alternative of `match`/`if`, right operand of `&&` / `||`, a cast — for every expression shape. -/
theorem tail_flags_characterised (e : E) :
    bodyFlags e = (paths e).map isTailPath := by
  have hg : Proofs.g true = isTailPath := by funext p; simp [Proofs.g]
  rw [bodyFlags, Proofs.flags_eq true e, hg]

/-- A sub-expression compiled outside tail position never contains a `TailCall`: no frame is
    dropped while its caller still needs it. -/
theorem non_tail_context_never_tail_calls (e : E) : ∀ b ∈ flags false e, b = false :=
  Proofs.flags_false_all_false e

/-- The tail contexts, exhaustively. -/
theorem tail_context_inherits_iff (c : Ctx) :
    c.inherits = true ↔ c ∈ [Ctx.letBody, Ctx.recBody, Ctx.andR, Ctx.orR, Ctx.alt, Ctx.cast] := by
  cases c <;> decide

/-- What vm/src/compiler.rs does per construct, as extracted on every run: exactly `let` body,
    `match` alternatives, `&&` rhs, `||` rhs, casts (and the hand-over to `compile_primitive` /
    `emit_call`) inherit `tail_position`; every other operand is compiled with `false`; function
    and module bodies start with `true`; `emit_call` selects `TailCall` on the flag.  A construct
    that stops (or starts) handing the flag on changes the generated table. -/
theorem tail_contexts_documented :
    Generated.TailContexts.table =
      [("let", "bind_expr", "false"), ("let", "closure.expr", "false"), ("let", "return:body", "tail_position"),
       ("call", "compile_primitive", "tail_position"), ("call", "arg", "false"), ("call", "func", "false"),
       ("call", "arg", "false"), ("call", "emit_call", "tail_position"),
       ("match", "scrutinee", "false"), ("match", "Call(2)", "false"), ("match", "alt.expr", "tail_position"),
       ("data", "expr", "false"), ("cast", "return:expr", "tail_position"),
       ("and", "lhs", "false"), ("and", "rhs", "tail_position"),
       ("or", "lhs", "false"), ("or", "rhs", "tail_position"),
       ("binop", "Call(2)", "false"), ("binop", "lhs", "false"), ("binop", "rhs", "false"),
       ("lambda", "body", "true"), ("module", "expr", "true")] ∧
    Generated.TailContexts.emitCallSelectsOnFlag = true := by
  exact ⟨rfl, rfl⟩

/-- `rec let search i n = i #Int== n || search (i #Int+ 1) n`: the recursive call in the right
    operand of `||` is a tail call … -/
example : bodyFlags (.orE (.binE .atom .atom) (.call .atom (.cons (.binE .atom .atom) (.cons .atom .nil)))) = [true] := by
  decide
/-- … and the same call as the LEFT operand, or as an argument, is not. -/
example : bodyFlags (.orE (.call .atom (.cons .atom .nil)) .atom) = [false] := by decide
example : bodyFlags (.call .atom (.cons (.call .atom (.cons .atom .nil)) .nil)) = [false, true] := by decide
example : bodyFlags (.matchE (.call .atom .nil) (.cons true (.call .atom .nil) (.cons false (.letE (.call .atom .nil) (.andE .atom (.call .atom .nil))) .nil)))
    = [false, false, true, false, true] := by decide

end TailPositions

/-! ## Native stack -/
section Native
open GluonModel.MarkDepth

/-- DEFECT (reproduced on the real code, fingerprint `native-stack-exhausted:deep-list-tail`):
    the collector's mark phase recurses on the host stack once per object along a path, so for
    every native stack budget there is a value (a list built by a tail-recursive gluon loop) whose
    marking exceeds it — the process aborts. -/
theorem mark_recursion_unbounded_fails (budget : Nat) : ∃ v, traceDepth v > budget :=
  ⟨chain budget, by rw [Proofs.traceDepth_chain]; omega⟩

theorem mark_depth_of_list (n : Nat) : traceDepth (chain n) = n + 1 :=
  Proofs.traceDepth_chain n

/-- The repair: marking with an explicit work list is a loop (constant native depth) and visits
    every object. -/
theorem mark_worklist_fixed (v : V) : markIter (size v) [v] 0 = size v := by
  have := Proofs.markIter_all (size v) [v] 0 (by simp [sizes])
  simpa [sizes] using this

example : traceDepth (chain 3) = 4 := by decide
example : markIter (size (chain 3)) [chain 3] 0 = 7 := by decide

end Native

end GluonModel.Props.C07
