/-
C20 — "For every program and every cursor position in it, completion, type-at-position, symbol
lookup, signature help and metadata queries return without panicking; the type reported at an
identifier is the type the checker inferred for it, and every suggested name is in scope at
that position."

Model: `GluonModel.FindPos` (transcription of base/src/pos.rs:180-234 and of the position search
`FindVisitor` of completion/src/lib.rs:232-726, with the `Suggest` stack). Every query of the
completion crate starts with this search (`complete_at`, lib.rs:785), so its totality is the
totality of the queries, and the node it returns is the node whose stored type is reported.
Only property theorems live here; lemmas are in `GluonModel.Proofs.FindPos`.
-/
import GluonModel.FindPos
import GluonModel.Proofs.FindPos

namespace GluonModel.Props.C20
open GluonModel.FindPos

/-- A span as the parser produces it. -/
def WfSpan (s : Span) : Prop := s.lo ≤ s.hi

/-- `containment` decides exactly one of: before the span, inside it (both ends inclusive),
    after it. -/
theorem containment_trichotomy (s : Span) (p : Nat) (h : WfSpan s) :
    (s.containment p = .lt ↔ p < s.lo) ∧
    (s.containment p = .eq ↔ s.lo ≤ p ∧ p ≤ s.hi) ∧
    (s.containment p = .gt ↔ s.hi < p) := by
  unfold WfSpan at h
  rw [Proofs.containment_lt_iff, Proofs.containment_eq_iff, Proofs.containment_gt_iff]
  omega

/-- The same without any assumption on the span (error recovery can produce `hi < lo`): the
    three answers are still mutually exclusive and exhaustive, characterised as follows. -/
theorem containment_total (s : Span) (p : Nat) :
    (s.containment p = .eq ↔ p = s.lo ∨ p = s.hi ∨ (s.lo < p ∧ p < s.hi)) ∧
    (s.containment p = .lt ↔ p < s.lo ∧ p ≠ s.hi) ∧
    (s.containment p = .gt ↔ s.lo < p ∧ s.hi < p) :=
  ⟨Proofs.containment_eq_iff s p, Proofs.containment_lt_iff s p, Proofs.containment_gt_iff s p⟩

/-- `containment` agrees with `contains_pos`. -/
theorem containment_eq_iff_containsPos (s : Span) (p : Nat) (h : WfSpan s) :
    s.containment p = .eq ↔ s.containsPos p = true := by
  unfold WfSpan at h
  rw [Proofs.containment_eq_iff]
  simp only [Span.containsPos, Bool.and_eq_true, decide_eq_true_eq]
  omega

/-- `containment_exclusive` differs from `containment` exactly at the end of the span. -/
theorem containmentExclusive_spec (s : Span) (p : Nat) (h : WfSpan s) :
    s.containmentExclusive p = .eq ↔ s.lo ≤ p ∧ p < s.hi := by
  unfold WfSpan at h
  unfold Span.containmentExclusive
  split
  · simp; omega
  · rw [Proofs.containment_eq_iff]; omega

/-- The excluded case of `select_total`: on an empty child list nothing is selected — the
    `unwrap()` of lib.rs:343 would fail (every caller guards against the empty list). -/
theorem select_empty_none {α : Type} (span : α → Span) (pos : Nat) :
    selectSpanned span pos ([] : List α) = (true, none) := rfl

/-- On a non-empty child list `select_spanned` always selects something: `visit_one`'s
    `unwrap()` is safe exactly when the child list is non-empty. -/
theorem select_total {α : Type} (span : α → Span) (pos : Nat) (xs : List α) (h : xs ≠ []) :
    (selectSpanned span pos xs).2 ≠ none :=
  Proofs.select_total span pos xs h

/-- What is selected is one of the children. -/
theorem select_mem {α : Type} (span : α → Span) (pos : Nat) (xs : List α) (y : α)
    (h : (selectSpanned span pos xs).2 = some y) : y ∈ xs :=
  Proofs.select_mem span pos xs y h

/-- The flag is `false` ("not on whitespace") only if the selected child contains `pos` … -/
theorem select_flag_false {α : Type} (span : α → Span) (pos : Nat) (xs : List α) (r : Option α)
    (h : selectSpanned span pos xs = (false, r)) :
    ∃ y, r = some y ∧ y ∈ xs ∧ (span y).containment pos = .eq :=
  Proofs.selectGo_false span pos xs none r h

/-- … and `true` only if it does not (a neighbour was picked, or nothing). -/
theorem select_flag_true {α : Type} (span : α → Span) (pos : Nat) (xs : List α) (r : Option α)
    (h : selectSpanned span pos xs = (true, r)) :
    ∀ y, r = some y → (span y).containment pos ≠ .eq :=
  Proofs.selectGo_true span pos xs none r (by simp) h

/-- Children sorted by start with well-formed spans, and some child contains `pos`: the FIRST
    child containing `pos` is selected and the flag is `false`.  (No disjointness is needed;
    any list order, any lengths.) -/
theorem select_correct {α : Type} (span : α → Span) (pos : Nat) (xs : List α)
    (hs : xs.Pairwise (fun a b => (span a).lo ≤ (span b).lo))
    (hw : ∀ x ∈ xs, WfSpan (span x))
    (hex : ∃ x ∈ xs, (span x).containment pos = .eq) :
    selectSpanned span pos xs = (false, xs.find? (fun x => (span x).containment pos == .eq)) :=
  Proofs.selectGo_correct span pos xs hs hw hex none

/-- Hence below a `visit_one` node (application, if, array, tuple, block) with sorted children the
    search continues in the first child that contains the position: with `select_flag_false` this
    is why the node reported at an identifier is that identifier. -/
theorem visit_one_descends (pos fuel : Nat) (sp : Span) (cs : List Expr) (st : St)
    (hs : cs.Pairwise (fun a b => a.span.lo ≤ b.span.lo))
    (hw : ∀ x ∈ cs, WfSpan x.span)
    (hex : ∃ x ∈ cs, x.span.containment pos = .eq) :
    ∃ c, cs.find? (fun x => x.span.containment pos == .eq) = some c ∧
      c.span.containment pos = .eq ∧
      visitExpr pos (fuel + 1) (.one sp cs) st
        = visitExpr pos fuel c (enter (Expr.one sp cs).m pos st) := by
  have h := select_correct Expr.span pos cs hs hw hex
  obtain ⟨y, hy, _, hyc⟩ := select_flag_false Expr.span pos cs _ h
  refine ⟨y, hy, hyc, ?_⟩
  simp only [visitExpr, h, hy]

/-- The position search never panics: for EVERY span tree whose `visit_one` nodes have a child
    (an invariant of the AST constructors: `App` has `func`, `IfElse` three children,
    `Array`/`Tuple`/`Block` are guarded by `is_empty()`) — arbitrary spans (ill-nested, empty,
    reversed), arbitrary patterns (including the unit pattern `()`), `Annotated` nodes anywhere,
    arbitrary positions (before/after the text), arbitrary fuel.  This is the statement the
    fixes 53580fe (unit pattern) and 97c12b9 (`Annotated`) make true; before them it needed the
    extra hypothesis "no unit pattern, no `Annotated`". -/
theorem find_total (pos fuel : Nat) (e : Expr) (h : e.ok = true) :
    complete pos fuel e ≠ .panic :=
  (Proofs.no_panic pos fuel).2.2 e _ h

/-- … from any visitor state, and patterns need no hypothesis at all. -/
theorem find_total_from (pos fuel : Nat) (e : Expr) (st : St)
    (h : e.ok = true) : visitExpr pos fuel e st ≠ .panic :=
  (Proofs.no_panic pos fuel).2.2 e st h

theorem find_pattern_total (pos fuel : Nat) (p : Pat) (st : St) :
    visitPat pos fuel p st ≠ .panic :=
  (Proofs.no_panic pos fuel).1 p st

/-- `let () = () in 1` (spans as the parser gives them). -/
def unitLet : Expr :=
  .letb ⟨1, 17⟩ false [.mk (.tuple ⟨5, 7⟩ []) [] (.emptyNode ⟨10, 12⟩)] (.leaf ⟨16, 17⟩)

/-- Regression, the OLD rule (`self.visit_pattern(field.unwrap())`, before 53580fe): on the unit
    pattern the selection is `None` at every position, so the `unwrap()` failed wherever the
    search reached the pattern (`let () = () in 1`, offsets 5..8; corpus/C20/d12_unit_pattern.glu). -/
theorem find_old_rule_unit_pattern_unwrap_fails (pos : Nat) :
    (selectSpanned Pat.span pos ([] : List Pat)).2 = none := rfl

/-- The code as it is now: the unit pattern is found like a leaf pattern. -/
example : complete 5 100 unitLet =
    .ok ⟨.found ⟨.pattern, ⟨5, 7⟩, .plain⟩,
      [⟨.pattern, ⟨5, 7⟩, .plain⟩, ⟨.expr, ⟨1, 17⟩, .plain⟩, ⟨.expr, ⟨1, 17⟩, .plain⟩], [], []⟩ := by rfl
example : complete 9 100 unitLet ≠ .panic := find_total 9 100 unitLet (by decide)

/-- `[2, \g -> g, let x = True in 561]` with the body of the `let` wrapped in `Annotated` by the
    checker (corpus/C20/d13_annotated.glu): the search now descends into the wrapped node. -/
def annotatedArr : Expr :=
  .one ⟨1, 34⟩ [.leaf ⟨2, 3⟩, .lambda ⟨5, 12⟩ [⟨⟨6, 7⟩, 0⟩] (.leaf ⟨11, 12⟩),
    .letb ⟨14, 33⟩ false [.mk (.leaf ⟨18, 19⟩ (some 1)) [] (.leaf ⟨22, 26⟩)]
      (.annotated ⟨30, 33⟩ (.leaf ⟨30, 33⟩))]
example : annotatedArr.ok = true := by decide
example : ∃ st, complete 31 100 annotatedArr = .ok st ∧ st.found = .found ⟨.expr, ⟨30, 33⟩, .plain⟩ :=
  ⟨_, rfl, rfl⟩

/-- `let a = 1 in let b = 2 in b`. -/
def nestedLet : Expr :=
  .letb ⟨1, 28⟩ false [.mk (.leaf ⟨5, 6⟩ (some 0)) [] (.leaf ⟨9, 10⟩)]
    (.letb ⟨14, 28⟩ false [.mk (.leaf ⟨18, 19⟩ (some 1)) [] (.leaf ⟨22, 23⟩)] (.leaf ⟨27, 28⟩))

/-- FULL STATEMENT (false for the code as it is): "every suggested symbol is bound by a construct
    whose span contains the position".  Witness: with the cursor on the first `let` keyword
    (offset 1) the search falls through both binding lists into the innermost body
    (lib.rs:599-606) and suggests `b` (symbol 1), whose `let` spans 14..28 (known finding
    `suggest-out-of-scope:let:before`). -/
theorem suggest_in_scope_fails :
    ∃ st, complete 1 100 nestedLet = .ok st ∧ 1 ∈ st.scope ∧
      (Span.mk 14 28).containment 1 ≠ .eq :=
  ⟨_, rfl, by decide, by decide⟩

/-! Non-vacuity: concrete instances meeting the hypotheses. -/

/-- `f (g 1) x` : spans sorted, well formed. -/
def app : Expr := .one ⟨1, 10⟩ [.leaf ⟨1, 2⟩, .one ⟨4, 7⟩ [.leaf ⟨4, 5⟩, .leaf ⟨6, 7⟩], .leaf ⟨9, 10⟩]

example : app.ok = true := by decide
example : unitLet.ok = true := by decide
example : nestedLet.ok = true := by decide
example : [Span.mk 1 2, ⟨4, 7⟩, ⟨9, 10⟩].Pairwise (fun a b => a.lo ≤ b.lo) := by decide
example : selectSpanned id 5 [Span.mk 1 2, ⟨4, 7⟩, ⟨9, 10⟩] = (false, some ⟨4, 7⟩) := by decide
-- between two children: the previous one, flagged as whitespace
example : selectSpanned id 8 [Span.mk 1 2, ⟨4, 7⟩, ⟨9, 10⟩] = (true, some ⟨4, 7⟩) := by decide
-- before the first child: the first one
example : selectSpanned id 0 [Span.mk 3 4, ⟨6, 7⟩] = (true, some ⟨3, 4⟩) := by decide
example : (Span.mk 5 8).containment 8 = .eq ∧ (Span.mk 5 8).containmentExclusive 8 = .gt := by decide
example : complete 6 100 app =
    .ok ⟨.found ⟨.expr, ⟨6, 7⟩, .plain⟩,
      [⟨.expr, ⟨6, 7⟩, .plain⟩, ⟨.expr, ⟨4, 7⟩, .plain⟩, ⟨.expr, ⟨1, 10⟩, .plain⟩, ⟨.expr, ⟨1, 10⟩, .plain⟩],
      [], []⟩ := by rfl

end GluonModel.Props.C20
