/-
C20 — "For every program and every cursor position in it, completion, type-at-position, symbol
lookup, signature help and metadata queries return without panicking; the type reported at an
identifier is the type the checker inferred for it, and every suggested name is in scope at
that position."

Model: `GluonModel.FindPos` (transcription of base/src/pos.rs:180-234 and of the position search
`FindVisitor` of completion/src/lib.rs:232-726, with the `Suggest` stack). Every query of the
completion crate starts with this search (`complete_at`, lib.rs:785), so its totality is the
totality of the queries, and the node it returns is the node whose stored type is reported.
Only property theorems live here; lemmas are in `GluonModel.Proofs.FindPos`.
-/
import GluonModel.FindPos
import GluonModel.FindSpec
import GluonModel.Proofs.FindPos
import GluonModel.Proofs.FindFuel
import GluonModel.Proofs.FindScope
import GluonModel.Proofs.FindSpec
import GluonModel.Proofs.FindLeak

namespace GluonModel.Props.C20
open GluonModel.FindPos

/-- A span as the parser produces it. -/
def WfSpan (s : Span) : Prop := s.lo ≤ s.hi

/-- `containment` decides exactly one of: before the span, inside it (both ends inclusive),
    after it. -/
theorem containment_trichotomy (s : Span) (p : Nat) (h : WfSpan s) :
    (s.containment p = .lt ↔ p < s.lo) ∧
    (s.containment p = .eq ↔ s.lo ≤ p ∧ p ≤ s.hi) ∧
    (s.containment p = .gt ↔ s.hi < p) := by
  unfold WfSpan at h
  rw [Proofs.containment_lt_iff, Proofs.containment_eq_iff, Proofs.containment_gt_iff]
  omega

/-- The same without any assumption on the span (error recovery can produce `hi < lo`): the
    three answers are still mutually exclusive and exhaustive, characterised as follows. -/
theorem containment_total (s : Span) (p : Nat) :
    (s.containment p = .eq ↔ p = s.lo ∨ p = s.hi ∨ (s.lo < p ∧ p < s.hi)) ∧
    (s.containment p = .lt ↔ p < s.lo ∧ p ≠ s.hi) ∧
    (s.containment p = .gt ↔ s.lo < p ∧ s.hi < p) :=
  ⟨Proofs.containment_eq_iff s p, Proofs.containment_lt_iff s p, Proofs.containment_gt_iff s p⟩

/-- `containment` agrees with `contains_pos`. -/
theorem containment_eq_iff_containsPos (s : Span) (p : Nat) (h : WfSpan s) :
    s.containment p = .eq ↔ s.containsPos p = true := by
  unfold WfSpan at h
  rw [Proofs.containment_eq_iff]
  simp only [Span.containsPos, Bool.and_eq_true, decide_eq_true_eq]
  omega

/-- `containment_exclusive` differs from `containment` exactly at the end of the span. -/
theorem containmentExclusive_spec (s : Span) (p : Nat) (h : WfSpan s) :
    s.containmentExclusive p = .eq ↔ s.lo ≤ p ∧ p < s.hi := by
  unfold WfSpan at h
  unfold Span.containmentExclusive
  split
  · simp; omega
  · rw [Proofs.containment_eq_iff]; omega

/-- The excluded case of `select_total`: on an empty child list nothing is selected — the
    `unwrap()` of lib.rs:343 would fail (every caller guards against the empty list). -/
theorem select_empty_none {α : Type} (span : α → Span) (pos : Nat) :
    selectSpanned span pos ([] : List α) = (true, none) := rfl

/-- On a non-empty child list `select_spanned` always selects something: `visit_one`'s
    `unwrap()` is safe exactly when the child list is non-empty. -/
theorem select_total {α : Type} (span : α → Span) (pos : Nat) (xs : List α) (h : xs ≠ []) :
    (selectSpanned span pos xs).2 ≠ none :=
  Proofs.select_total span pos xs h

/-- What is selected is one of the children. -/
theorem select_mem {α : Type} (span : α → Span) (pos : Nat) (xs : List α) (y : α)
    (h : (selectSpanned span pos xs).2 = some y) : y ∈ xs :=
  Proofs.select_mem span pos xs y h

/-- The flag is `false` ("not on whitespace") only if the selected child contains `pos` … -/
theorem select_flag_false {α : Type} (span : α → Span) (pos : Nat) (xs : List α) (r : Option α)
    (h : selectSpanned span pos xs = (false, r)) :
    ∃ y, r = some y ∧ y ∈ xs ∧ (span y).containment pos = .eq :=
  Proofs.selectGo_false span pos xs none r h

/-- … and `true` only if it does not (a neighbour was picked, or nothing). -/
theorem select_flag_true {α : Type} (span : α → Span) (pos : Nat) (xs : List α) (r : Option α)
    (h : selectSpanned span pos xs = (true, r)) :
    ∀ y, r = some y → (span y).containment pos ≠ .eq :=
  Proofs.selectGo_true span pos xs none r (by simp) h

/-- Children sorted by start with well-formed spans, and some child contains `pos`: the FIRST
    child containing `pos` is selected and the flag is `false`.  (No disjointness is needed;
    any list order, any lengths.) -/
theorem select_correct {α : Type} (span : α → Span) (pos : Nat) (xs : List α)
    (hs : xs.Pairwise (fun a b => (span a).lo ≤ (span b).lo))
    (hw : ∀ x ∈ xs, WfSpan (span x))
    (hex : ∃ x ∈ xs, (span x).containment pos = .eq) :
    selectSpanned span pos xs = (false, xs.find? (fun x => (span x).containment pos == .eq)) :=
  Proofs.selectGo_correct span pos xs hs hw hex none

/-- Hence below a `visit_one` node (application, if, array, tuple, block) with sorted children the
    search continues in the first child that contains the position. -/
theorem visit_one_descends (fx : Bool) (pos : Nat) (sp : Span) (cs : List Expr) (st : St)
    (hs : cs.Pairwise (fun a b => a.span.lo ≤ b.span.lo))
    (hw : ∀ x ∈ cs, WfSpan x.span)
    (hex : ∃ x ∈ cs, x.span.containment pos = .eq) :
    ∃ c, cs.find? (fun x => x.span.containment pos == .eq) = some c ∧
      c.span.containment pos = .eq ∧
      step fx pos (.expr (.one sp cs)) st = .go (.expr c) (enter (Expr.one sp cs).m pos st) := by
  have h := select_correct Expr.span pos cs hs hw hex
  obtain ⟨y, hy, _, hyc⟩ := select_flag_false Expr.span pos cs _ h
  refine ⟨y, hy, hyc, ?_⟩
  simp only [step, h, hy]

/-! ### Fuel: the search is a function of the tree -/

/-- Fuel ≥ height of the tree is always enough, and then the answer does not depend on the
    fuel: `findWith fx pos e` (fuel = height) IS the search. -/
theorem fuel_sufficient (fx : Bool) (pos fuel : Nat) (e : Expr) (h : e.height ≤ fuel) :
    completeWith fx pos fuel e = findWith fx pos e ∧ findWith fx pos e ≠ .fuel :=
  ⟨Proofs.fuel_irrelevant fx pos fuel (.expr e) _ h,
   Proofs.fuel_sufficient fx pos e.height (.expr e) _ (Nat.le_refl _)⟩

/-! ### Totality -/

/-- The position search never panics and always answers: for EVERY span tree whose `visit_one`
    nodes have a child (an invariant of the AST constructors: `App` has `func`, `IfElse` three
    children, `Array`/`Tuple`/`Block` are guarded by `is_empty()`) — arbitrary spans (ill-nested,
    empty, reversed), arbitrary patterns (including the unit pattern `()`), `Annotated` nodes
    anywhere, arbitrary positions (before/after the text) — the fuel-free search returns a
    state.  Holds for the code as it is (`fx = false`) and for the repaired hook rule. -/
theorem find_total (fx : Bool) (pos : Nat) (e : Expr) (h : e.ok = true) :
    ∃ st, findWith fx pos e = .ok st := by
  have h1 : findWith fx pos e ≠ .panic := Proofs.run_no_panic fx pos _ (.expr e) _ h
  have h2 := (fuel_sufficient fx pos e.height e (Nat.le_refl _)).2
  cases hr : findWith fx pos e with
  | ok st => exact ⟨st, rfl⟩
  | panic => exact absurd hr h1
  | fuel => exact absurd hr h2

/-- … with any fuel and from any visitor state there is no panic … -/
theorem find_total_from (fx : Bool) (pos fuel : Nat) (e : Expr) (st : St)
    (h : e.ok = true) : visitExpr fx pos fuel e st ≠ .panic :=
  (Proofs.no_panic fx pos fuel).2.2 e st h

/-- … and patterns need no hypothesis at all. -/
theorem find_pattern_total (fx : Bool) (pos fuel : Nat) (p : Pat) (st : St) :
    visitPat fx pos fuel p st ≠ .panic :=
  (Proofs.no_panic fx pos fuel).1 p st

/-- `let () = () in 1` (spans as the parser gives them). -/
def unitLet : Expr :=
  .letb ⟨1, 17⟩ false [.mk (.tuple ⟨5, 7⟩ []) [] (.emptyNode ⟨10, 12⟩)] (.leaf ⟨16, 17⟩)

/-- Regression, the OLD rule (`self.visit_pattern(field.unwrap())`, before the unit-pattern fix):
    on the unit pattern the selection is `None` at every position, so the `unwrap()` failed wherever
    the search reached the pattern (`let () = () in 1`, offsets 5..8; corpus/C20/d12_unit_pattern.glu). -/
theorem find_old_rule_unit_pattern_unwrap_fails (pos : Nat) :
    (selectSpanned Pat.span pos ([] : List Pat)).2 = none := rfl

/-- The code as it is now: the unit pattern is found like a leaf pattern. -/
example : ∃ st, findAt 5 unitLet = .ok st ∧ st.found = .found ⟨.pattern, ⟨5, 7⟩, .plain⟩ := ⟨_, rfl, rfl⟩

/-- `[2, \g -> g, let x = True in 561]` with the body of the `let` wrapped in `Annotated` by the
    checker (corpus/C20/d13_annotated.glu): the search descends into the wrapped node. -/
def annotatedArr : Expr :=
  .one ⟨1, 34⟩ [.leaf ⟨2, 3⟩, .lambda ⟨5, 12⟩ [⟨⟨6, 7⟩, 0⟩] (.leaf ⟨11, 12⟩),
    .letb ⟨14, 33⟩ false [.mk (.leaf ⟨18, 19⟩ (some 1)) [] (.leaf ⟨22, 26⟩)]
      (.annotated ⟨30, 33⟩ (.leaf ⟨30, 33⟩))]
example : annotatedArr.ok = true := by decide
example : ∃ st, findAt 31 annotatedArr = .ok st ∧ st.found = .found ⟨.expr, ⟨30, 33⟩, .plain⟩ :=
  ⟨_, rfl, rfl⟩

/-! ### The node found is the innermost one -/

/-- MAIN: on a well-nested tree (`Expr.wn`: spans well formed; the children every node searches
    among sorted, strictly disjoint, inside the parent) what the search reports AT the position
    (`hitOf`: the match, provided its span contains `pos`) is exactly `Expr.spec pos e`: the
    terminal reached by descending, from the root, into the child that contains `pos` for as
    long as there is one.  All node kinds of the model (11 expression, 4 pattern kinds, the
    `visit_any` lists of `let` bindings and records), any position, both hook rules. -/
theorem find_innermost (fx : Bool) (pos : Nat) (e : Expr) (st : St)
    (hw : e.wn = true) (h : findWith fx pos e = .ok st) :
    hitOf pos st = e.spec pos :=
  Proofs.run_spec fx pos _ (.expr e) _ st hw rfl h

/-- … so: cursor on a terminal `m` ⇒ the search reports `m`, and `m` contains the cursor … -/
theorem find_reports_terminal (fx : Bool) (pos : Nat) (e : Expr) (m : M)
    (hok : e.ok = true) (hw : e.wn = true) (hs : e.spec pos = some m) :
    ∃ st, findWith fx pos e = .ok st ∧ st.found = .found m ∧ m.span.containment pos = .eq := by
  obtain ⟨st, hst⟩ := find_total fx pos e hok
  have := find_innermost fx pos e st hw hst
  rw [hs] at this
  refine ⟨st, hst, ?_⟩
  unfold hitOf at this
  split at this
  · rename_i m' hm'
    split at this
    · rename_i hat
      simp at this; subst this
      exact ⟨hm', by simpa [isAt] using hat⟩
    · cases this
  · cases this

/-- … and: cursor in a gap (inside no terminal) ⇒ whatever match is reported does not contain
    the cursor (it is the neighbour `select_spanned` resolved the gap to). -/
theorem find_gap (fx : Bool) (pos : Nat) (e : Expr) (st : St) (m : M)
    (hw : e.wn = true) (hs : e.spec pos = none)
    (h : findWith fx pos e = .ok st) (hm : st.found = .found m) :
    m.span.containment pos ≠ .eq := by
  have := find_innermost fx pos e st hw h
  rw [hs] at this
  unfold hitOf at this
  rw [hm] at this
  intro hc
  simp [isAt, hc] at this

/-! ### The suggestion stack -/

/-- Record patterns (`Suggest::on_pattern`, lib.rs:167-195): a RENAMING field `{ name = p }`
    contributes exactly the binders of `p` — never `name`; the shorthand `{ name }` contributes
    `name`; a record pattern contributes what its fields contribute, in order. -/
theorem record_pattern_binders (sp nsp : Span) (b : Nat) (v f : Pat) (fs : List Pat) :
    (Pat.fieldVal nsp v).binders = v.binders ∧
    (Pat.fieldShort nsp b).binders = [b] ∧
    (Pat.record sp (f :: fs)).binders = f.binders ++ (Pat.record sp fs).binders ∧
    (Pat.record sp []).binders = [] :=
  ⟨rfl, rfl, rfl, rfl⟩

/-- Hence a symbol is registered by a record pattern iff one of its fields registers it, and by
    a renaming field iff the inner pattern registers it. -/
theorem record_pattern_binder_iff (sp : Span) (fs : List Pat) (x : Nat) :
    x ∈ (Pat.record sp fs).binders ↔ ∃ f ∈ fs, x ∈ f.binders := by
  induction fs with
  | nil => simp [Pat.binders, Pat.binders.bindersList]
  | cons f fs ih =>
    have : (Pat.record sp (f :: fs)).binders = f.binders ++ (Pat.record sp fs).binders := rfl
    rw [this, List.mem_append, ih]
    simp

/-- `let { width = w, height } = r in w` (symbols: 0 = `w`, 1 = `height`; `width` is not a
    symbol of the tree at all). -/
def recordLet : Expr :=
  .letb ⟨1, 35⟩ false
    [.mk (.record ⟨5, 26⟩ [.fieldVal ⟨7, 12⟩ (.leaf ⟨15, 16⟩ (some 0)), .fieldShort ⟨18, 24⟩ 1]) []
      (.leaf ⟨29, 30⟩)]
    (.leaf ⟨34, 35⟩)

/-- In the body exactly `w` and `height` are on the stack. -/
example : ∃ st, findAt 34 recordLet = .ok st ∧ st.scope.map Prod.fst = [1, 0] := ⟨_, rfl, rfl⟩
-- on the field name of the renaming field the search reports that name; inside it, the pattern
example : ∃ st, findAt 9 recordLet = .ok st ∧ st.found = .found ⟨.ident, ⟨7, 12⟩, .plain⟩ := ⟨_, rfl, rfl⟩
example : ∃ st, findAt 15 recordLet = .ok st ∧ st.found = .found ⟨.pattern, ⟨15, 16⟩, .plain⟩ := ⟨_, rfl, rfl⟩

/-- `let a = 1 in let b = 2 in b`. -/
def nestedLet : Expr :=
  .letb ⟨1, 28⟩ false [.mk (.leaf ⟨5, 6⟩ (some 0)) [] (.leaf ⟨9, 10⟩)]
    (.letb ⟨14, 28⟩ false [.mk (.leaf ⟨18, 19⟩ (some 1)) [] (.leaf ⟨22, 23⟩)] (.leaf ⟨27, 28⟩))

/-- FULL STATEMENT (false for the code as it is): "every suggested symbol is registered by a
    construct whose span contains the position".  Witness: with the cursor on the first `let`
    keyword (offset 1) the search falls through both binding lists into the innermost body
    (lib.rs:599-606) and registers `b` (symbol 1), whose `let` spans 14..28 (known finding
    `suggest-out-of-scope:let:before`). -/
theorem suggest_in_scope_fails :
    ∃ st, findAt 1 nestedLet = .ok st ∧ (1, Span.mk 14 28) ∈ st.scope ∧
      (Span.mk 14 28).containment 1 ≠ .eq :=
  ⟨_, rfl, by decide, by decide⟩

/-- EXACT characterisation of the leak, for every tree and position: run the code as it is
    (`findAt`) and the repaired rule (`findWith true`: a construct registers its binders only if
    its span contains the position). Both answer, with the same match, the same enclosing and
    near matches; and an entry `(symbol, construct span)` of the unrepaired stack survives the
    repair iff the construct contains the position.  So a binder is leaked exactly when the
    search passes through (descends into) its construct although the construct does not contain
    the cursor — and nothing else distinguishes the two rules. -/
theorem suggest_leak_iff (pos : Nat) (e : Expr) (su : St) (h : findAt pos e = .ok su) :
    ∃ sf, findWith true pos e = .ok sf ∧
      sf.found = su.found ∧ sf.enclosing = su.enclosing ∧ sf.near = su.near ∧
      ∀ x, x ∈ sf.scope ↔ (x ∈ su.scope ∧ x.2.containment pos = .eq) := by
  have hp := Proofs.run_proj pos e.height (.expr e) ⟨.notFound, [e.m], [], []⟩
  have h' : run false pos e.height (.expr e) ⟨.notFound, [e.m], [], []⟩ = .ok su := h
  rw [h'] at hp
  refine ⟨Proofs.proj pos su, hp, rfl, rfl, rfl, ?_⟩
  intro x
  simp [Proofs.proj, Proofs.inScope, List.mem_filter]

/-- The repaired rule is sound: every registered binder's construct contains the position. -/
theorem suggest_in_scope_fixed (pos : Nat) (e : Expr) (sf : St) (hok : e.ok = true)
    (h : findWith true pos e = .ok sf) :
    ∀ x ∈ sf.scope, x.2.containment pos = .eq := by
  obtain ⟨su, hsu⟩ := find_total false pos e hok
  obtain ⟨sf', hsf', _, _, _, hiff⟩ := suggest_leak_iff pos e su hsu
  rw [h] at hsf'
  cases hsf'
  intro x hx
  exact ((hiff x).mp hx).2

/-- WHERE the code as it is can leak: on a well-nested tree, with the cursor on a terminal
    (identifier, literal, operator, argument, field, … : `spec pos e = some m`) every construct
    the search passes through contains the cursor, so every registered binder is registered by
    a containing construct — also under the unrepaired rule. -/
theorem suggest_in_scope_on_terminal (fx : Bool) (pos : Nat) (e : Expr) (m : M) (st : St)
    (hw : e.wn = true) (hs : e.spec pos = some m) (h : findWith fx pos e = .ok st) :
    ∀ x ∈ st.scope, x.2.containment pos = .eq := by
  intro x hx
  have := Proofs.run_scope_at fx pos _ (.expr e) _ st hw rfl (by simp [Node.spec, hs]) h x hx
  rcases this with h' | h'
  · simp at h'
  · exact h'

/-- Contrapositive: a leaked binder (registered by a construct that does not contain the
    cursor) occurs only when the cursor is in a gap — on a keyword, in whitespace, on a bracket
    or separator: inside no terminal of the tree. -/
theorem suggest_leak_only_in_gaps (pos : Nat) (e : Expr) (st : St)
    (hw : e.wn = true) (h : findAt pos e = .ok st)
    (hleak : ∃ x ∈ st.scope, x.2.containment pos ≠ .eq) : e.spec pos = none := by
  cases hs : e.spec pos with
  | none => rfl
  | some m =>
    obtain ⟨x, hx, hne⟩ := hleak
    exact absurd (suggest_in_scope_on_terminal false pos e m st hw hs h x hx) hne

/-! Non-vacuity: concrete instances meeting the hypotheses. -/

/-- `f (g 1) x` : spans sorted, well formed. -/
def app : Expr := .one ⟨1, 10⟩ [.leaf ⟨1, 2⟩, .one ⟨4, 7⟩ [.leaf ⟨4, 5⟩, .leaf ⟨6, 7⟩], .leaf ⟨9, 10⟩]

example : app.ok = true := by decide
example : app.wn = true := by decide
example : unitLet.ok = true ∧ unitLet.wn = true := by decide
example : nestedLet.ok = true ∧ nestedLet.wn = true := by decide
example : recordLet.ok = true ∧ recordLet.wn = true := by decide
example : annotatedArr.wn = true := by decide
example : app.spec 6 = some ⟨.expr, ⟨6, 7⟩, .plain⟩ := by decide
-- a gap: between `(g 1)` and `x`
example : app.spec 8 = none := by decide
example : nestedLet.spec 27 = some ⟨.expr, ⟨27, 28⟩, .plain⟩ := by decide
-- the leak witness sits in a gap (the `let` keyword)
example : nestedLet.spec 1 = none := by decide
example : [Span.mk 1 2, ⟨4, 7⟩, ⟨9, 10⟩].Pairwise (fun a b => a.lo ≤ b.lo) := by decide
example : selectSpanned id 5 [Span.mk 1 2, ⟨4, 7⟩, ⟨9, 10⟩] = (false, some ⟨4, 7⟩) := by decide
-- between two children: the previous one, flagged as whitespace
example : selectSpanned id 8 [Span.mk 1 2, ⟨4, 7⟩, ⟨9, 10⟩] = (true, some ⟨4, 7⟩) := by decide
-- before the first child: the first one
example : selectSpanned id 0 [Span.mk 3 4, ⟨6, 7⟩] = (true, some ⟨3, 4⟩) := by decide
example : (Span.mk 5 8).containment 8 = .eq ∧ (Span.mk 5 8).containmentExclusive 8 = .gt := by decide
example : findAt 6 app =
    .ok ⟨.found ⟨.expr, ⟨6, 7⟩, .plain⟩,
      [⟨.expr, ⟨6, 7⟩, .plain⟩, ⟨.expr, ⟨4, 7⟩, .plain⟩, ⟨.expr, ⟨1, 10⟩, .plain⟩, ⟨.expr, ⟨1, 10⟩, .plain⟩],
      [], []⟩ := by rfl
-- the repaired rule on the leak witness: at offset 1 only `a` (outer `let`, which contains the
-- offset) is registered, `b` is not
example : ∃ st, findWith true 1 nestedLet = .ok st ∧ st.scope = [(0, ⟨1, 28⟩)] := ⟨_, rfl, rfl⟩

end GluonModel.Props.C20
