/-
C19 — "For every sequence of operations `std.map` behaves as a finite map ordered by key; list and array
functions (sort, filter, folds, append, slice, indexing) agree with their mathematical definitions;
string functions agree with Unicode scalar-value semantics; JSON serialisation followed by
deserialisation is the identity; and derived Eq and Show instances implement structural equality and
a faithful rendering."

Models (transcriptions, file:line cited there): `GluonModel.StdMap` (std/map.glu), `GluonModel.StdList`
(std/list.glu, std/array.glu, array primitives), `GluonModel.StdString` (string primitives over UTF-8
bytes), `GluonModel.StdDerive` (vm/src/derive/{eq,show}.rs), `GluonModel.StdJson` (std/json/{ser,de}.glu at
the `Value` level). Only property theorems live here; lemmas are in `GluonModel.Proofs.Std*`.
-/
import GluonModel.Proofs.StdMap
import GluonModel.Proofs.StdList
import GluonModel.Proofs.StdString
import GluonModel.Proofs.StdDerive
import GluonModel.Proofs.StdJson
import GluonModel.Proofs.StdJsonText

namespace GluonModel.Props.C19
open GluonModel

/-! ## std.map is a finite map ordered by key -/
section map
open StdMap
variable {K V : Type}

/-- `insert` keeps the search-tree invariant (it holds of `empty`, `singleton`). -/
theorem insert_ordered {cmp : K → K → Ordering} (hc : LawfulCmp cmp) (k : K) (v : V) (m : Map K V)
    (h : Ordered cmp m) : Ordered cmp (insert cmp k v m) :=
  StdMap.insert_ordered hc k v h

/-- Looking up the key just inserted finds the new value … -/
theorem find_insert_same {cmp : K → K → Ordering} (hc : LawfulCmp cmp) (k : K) (v : V) (m : Map K V) :
    find cmp k (insert cmp k v m) = some v :=
  StdMap.find_insert_same hc k v m

/-- … and every other key is unaffected. -/
theorem find_insert_other {cmp : K → K → Ordering} (hc : LawfulCmp cmp) (k k' : K) (v : V)
    (m : Map K V) (hne : k' ≠ k) : find cmp k' (insert cmp k v m) = find cmp k' m :=
  StdMap.find_insert_other hc k k' v hne m

/-- `to_list` of a search tree is strictly ascending by key. -/
theorem to_list_sorted {cmp : K → K → Ordering} (hc : LawfulCmp cmp) (m : Map K V)
    (h : Ordered cmp m) : (toList m).Pairwise (fun a b => cmp a.1 b.1 = .lt) :=
  StdMap.toList_sorted hc h

/-- Refinement: through `to_list` the tree IS the key-sorted association list, `insert` is the
    sorted-list insert and `find` is list lookup. -/
theorem to_list_insert {cmp : K → K → Ordering} (hc : LawfulCmp cmp) (k : K) (v : V) (m : Map K V)
    (h : Ordered cmp m) : toList (insert cmp k v m) = insertSorted cmp k v (toList m) :=
  StdMap.toList_insert hc k v h

theorem find_is_lookup {cmp : K → K → Ordering} (hc : LawfulCmp cmp) (k : K) (m : Map K V)
    (h : Ordered cmp m) : find cmp k m = lookup cmp k (toList m) :=
  StdMap.find_eq_lookup hc k h

/-- Any sequence of inserts starting from `empty`: the tree is ordered and lists as the fold of
    sorted-list inserts ("the finite map built from the operations"). -/
theorem to_list_is_the_map {cmp : K → K → Ordering} (hc : LawfulCmp cmp) (kvs : List (K × V)) :
    Ordered cmp (kvs.foldl (fun m kv => insert cmp kv.1 kv.2 m) (empty : Map K V)) ∧
    toList (kvs.foldl (fun m kv => insert cmp kv.1 kv.2 m) (empty : Map K V)) =
      kvs.foldl (fun acc kv => insertSorted cmp kv.1 kv.2 acc) [] := by
  suffices h : ∀ (m : Map K V), Ordered cmp m →
      Ordered cmp (kvs.foldl (fun m kv => insert cmp kv.1 kv.2 m) m) ∧
      toList (kvs.foldl (fun m kv => insert cmp kv.1 kv.2 m) m) =
        kvs.foldl (fun acc kv => insertSorted cmp kv.1 kv.2 acc) (toList m) from
    h empty trivial
  induction kvs with
  | nil => intro m hm; exact ⟨hm, rfl⟩
  | cons kv kvs ih =>
    intro m hm
    simp only [List.foldl_cons]
    rw [← StdMap.toList_insert hc kv.1 kv.2 hm]
    exact ih _ (StdMap.insert_ordered hc kv.1 kv.2 hm)

theorem int_compare_lawful : LawfulCmp icmp := icmp_lawful

example : Ordered icmp (insert icmp 2 20 (insert icmp 7 70 (insert icmp 5 50 (empty : Map Int Int)))) :=
  insert_ordered icmp_lawful _ _ _ (insert_ordered icmp_lawful _ _ _ (insert_ordered icmp_lawful _ _ _ trivial))
example : toList (insert icmp 5 51 (insert icmp 2 20 (insert icmp 7 70 (insert icmp 5 50 (empty : Map Int Int)))))
    = [(2, 20), (5, 51), (7, 70)] := by decide
example : find icmp 5 (insert icmp 5 51 (insert icmp 2 20 (insert icmp 5 50 (empty : Map Int Int)))) = some 51 := by
  decide
end map

/-! ## std.list / std.array -/
section list
open StdList
variable {α β : Type}

/-- `sort` returns a permutation of its input … -/
theorem sort_perm (cmp : α → α → Ordering) (xs : List α) : (sort cmp xs).Perm xs :=
  sortFuel_perm cmp xs.length xs (Nat.le_refl _)

/-- … that is ordered (`cmp a b ≠ GT` for every earlier `a` and later `b`), for every `compare` that
    is a total preorder — including orders that identify distinct elements. -/
theorem sort_sorted {cmp : α → α → Ordering} (hc : PreorderCmp cmp) (xs : List α) :
    (sort cmp xs).Pairwise (fun a b => cmp a b ≠ .gt) :=
  sortFuel_sorted hc xs.length xs (Nat.le_refl _)

theorem filter_spec (p : α → Bool) (xs : List α) : filter p xs = xs.filter p := filter_eq p xs
theorem foldl_spec (f : β → α → β) (x : β) (xs : List α) : foldl f x xs = xs.foldl f x := foldl_eq f x xs
theorem foldr_spec (f : α → β → β) (x : β) (xs : List α) : foldr f x xs = xs.foldr f x := foldr_eq f x xs
theorem append_spec (xs ys : List α) : append xs ys = xs ++ ys := append_eq xs ys
theorem map_spec (f : α → β) (xs : List α) : map f xs = xs.map f := map_eq f xs
theorem flat_map_spec (f : α → List β) (xs : List α) : flatMap f xs = xs.flatMap f := flatMap_eq f xs
/-- `list.of` converts an array to the list of its elements in order. -/
theorem of_spec (xs : List α) : ofArray xs = xs := ofArray_eq xs

/-- The index loops of std/array.glu compute the ordinary folds. -/
theorem array_foldl_spec (f : β → α → β) (y : β) (xs : List α) : arrFoldl f y xs = xs.foldl f y :=
  arrFoldl_eq f y xs
theorem array_foldr_spec (f : α → β → β) (y : β) (xs : List α) : arrFoldr f y xs = xs.foldr f y :=
  arrFoldr_eq f y xs

/-- `array.index` returns the element exactly when the index is in range. -/
theorem array_index_spec (xs : List α) (i : Nat) (h : i < xs.length) :
    arrIndex xs (i : Int) = .ok xs[i] := by
  unfold arrIndex
  have : ¬ ((i : Int) < 0) := by omega
  simp [this, List.getElem?_eq_getElem h]

/-- `array.slice` is `drop`/`take` on `start ≤ end ≤ len` and an error otherwise; and slicing an
    append at the seam gives the two halves back. -/
theorem array_slice_spec (xs : List α) (s e : Nat) (h1 : s ≤ e) (h2 : e ≤ xs.length) :
    arrSlice xs (s : Int) (e : Int) = .ok ((xs.drop s).take (e - s)) := by
  unfold arrSlice
  have a : ¬ ((s : Int) < 0 ∨ (e : Int) < 0) := by omega
  have b : ¬ ((s : Int) > (e : Int)) := by omega
  simp [a, b, h2]

theorem slice_append (xs ys : List α) :
    arrSlice (arrAppend xs ys) 0 (xs.length : Int) = .ok xs ∧
    arrSlice (arrAppend xs ys) (xs.length : Int) ((xs.length + ys.length : Nat) : Int) = .ok ys := by
  constructor
  · have := array_slice_spec (xs ++ ys) 0 xs.length (Nat.zero_le _) (by simp)
    simpa [arrAppend] using this
  · have := array_slice_spec (xs ++ ys) xs.length (xs.length + ys.length) (by omega) (by simp)
    simpa [arrAppend] using this

def keyCmp (a b : Int) : Ordering := StdMap.icmp (Int.tdiv a 100) (Int.tdiv b 100)

theorem int_preorder : PreorderCmp StdMap.icmp := by
  refine ⟨?_, ?_⟩
  · intro a b; unfold StdMap.icmp
    (repeat' split) <;> first | (simp; done) | (simp; omega) | omega
  · intro a b c; unfold StdMap.icmp
    (repeat' split) <;> first | (simp; done) | (simp; omega) | omega
/-- A comparison by key only (distinct elements compare `EQ`) is still a legal argument of `sort`. -/
theorem key_preorder : PreorderCmp keyCmp := int_preorder.comap (fun a => Int.tdiv a 100)

example : sort StdMap.icmp [3, 1, 2, 3, -5] = [-5, 1, 2, 3, 3] := by decide
/-- the sort is not stable: 105 and 101 (equal keys) come out in reverse order -/
example : sort keyCmp [105, 230, 101] = [101, 105, 230] := by decide
end list

/-! ## strings: Unicode scalar values over UTF-8 -/
section string
open StdString

/-- The byte offset after any prefix of scalar values is a character boundary … -/
theorem boundary_after_prefix (xs cs : List Nat) (hv : Valid cs) :
    isCharBoundary (encode (xs ++ cs)) ((encode xs).length : Int) = true :=
  StdString.boundary_after_prefix xs cs hv

/-- … and no offset strictly inside the encoding of a scalar value is. -/
theorem not_boundary_inside (xs : List Nat) (c : Nat) (hc : c < 0x110000) (rest : Bytes) (j : Nat)
    (hj0 : 0 < j) (hj : j < (encodeScalar c).length) :
    isCharBoundary (encode xs ++ encodeScalar c ++ rest) (((encode xs).length + j : Nat) : Int) = false :=
  StdString.not_boundary_inside xs c hc rest j hj0 hj

/-- `slice` between two scalar boundaries is exactly the scalars between them (valid UTF-8 again). -/
theorem slice_valid_utf8 (xs ys zs : List Nat) (hy : Valid ys) (hz : Valid zs) :
    slice (encode (xs ++ ys ++ zs)) ((encode xs).length : Int)
      (((encode xs).length + (encode ys).length : Nat) : Int) = .ok (encode ys) :=
  slice_encode xs ys zs hy hz

/-- `slice` succeeds exactly on two boundaries in order. -/
theorem slice_ok_iff (s : Bytes) (a b : Int) :
    (∃ r, slice s a b = .ok r) ↔ (isCharBoundary s a = true ∧ isCharBoundary s b = true ∧ a ≤ b) :=
  StdString.slice_ok_iff s a b

/-- `char_at` at a boundary is the scalar value that starts there. -/
theorem char_at_spec (xs : List Nat) (c : Nat) (zs : List Nat) (hc : c < 0x110000) (hz : Valid zs) :
    charAt (encode (xs ++ c :: zs)) ((encode xs).length : Int) = .ok c :=
  charAt_encode xs c zs hc hz

theorem split_at_join (s : Bytes) (i : Int) (l r : Bytes) (h : splitAt s i = .ok (l, r)) : l ++ r = s :=
  splitAt_join s i l r h

-- "aé😀": boundaries 0,1,3,7
example : (List.range 9).map (fun i => isCharBoundary (encode [0x61, 0xE9, 0x1F600]) (Int.ofNat i)) =
    [true, true, false, true, false, false, false, true, false] := by decide
example : slice (encode [0x61, 0xE9, 0x1F600]) 1 3 = .ok (encode [0xE9]) := by decide
example : Valid [0xE9, 0x1F600] := by intro c hc; simp at hc; rcases hc with h | h <;> subst h <;> decide
end string

/-! ## derived Eq / Show -/
section derive
open StdDerive

/-- The derived `==` is structural equality: no constructor argument or field is ignored. -/
theorem derive_eq_iff (x y : Val) : eqVal x y = true ↔ x = y := eqVal_iff x y

/-- The derived `show` lists every argument, in order, each in its own parentheses.
    FULL statement wanted: `showVal` is injective on the values of a type. That is FALSE for types
    with `String` leaves (std/string.glu:27 does not escape quotes, see notes/C19.md) and is only
    checked by the oracle on generated values for the other leaf types. -/
theorem derive_show_args_partial (n : String) (args : List Val) :
    showVal (.ctor n args) = n ++ String.join (args.map (fun a => " (" ++ showVal a ++ ")")) := by
  have : ∀ as : List Val, showArgs as = String.join (as.map (fun a => " (" ++ showVal a ++ ")")) := by
    intro as
    have e : ∀ X : String, " " ++ ("(" ++ X) = " (" ++ X := fun X => by
      rw [← String.append_assoc]; rfl
    induction as with
    | nil => simp [showArgs]
    | cons a as ih => simp [showArgs, ih, String.append_assoc, e]
  simp [showVal, this]

example : showVal (.ctor "B" [.str "test", .bool false]) = "B (\"test\") (False)" := by decide
example : eqVal (.ctor "B" [.int 1, .int 2]) (.ctor "B" [.int 1, .int 3]) = false := by decide
end derive

/-! ## JSON: de ∘ ser = id -/
section json
open StdJson

/-- FULL statement wanted: `de (text (ser v)) = v` for every JSON-representable typed value.
    Proved for the codec of std/json/{ser,de}.glu on all types built from Int/Bool/String/Float/Option/
    Array without `Option (Option _)`, through the text layer of the code as it is (`textCodec`:
    serde_json with `float_roundtrip`, fix dbce32d – no hypothesis about floats any more). Still
    `_partial` because records, `Map String` and derived variants are covered by the oracle only. -/
theorem json_de_ser_partial (t : Ty) (h : Representable t) (v : t.den) :
    de textCodec t (ser t v) = some v :=
  de_ser textCodec (fun _ => rfl) t h v

/-- The same for ANY text layer that reads back the floats it printed (what the fix had to establish). -/
theorem json_de_ser_of_exact_text_layer (rd : Nat → Nat) (hrd : ∀ b, rd b = b) (t : Ty)
    (h : Representable t) (v : t.den) : de rd t (ser t v) = some v :=
  de_ser rd hrd t h v

/-- Regression statement about the OLD text layer (before dbce32d; former known finding
    `json:de-float-off-by-ulp`, input kept in corpus/C19): the float -2.6718800418338653e135 was printed
    by std.json.ser and read back by std.json.de one unit in the last place away, so the round trip
    was not the identity. -/
theorem json_float_roundtrip_old_rule_fails :
    de oldTextCodec .float (ser .float (0xdc0d6881c1e92ae4 : Nat)) ≠ some (0xdc0d6881c1e92ae4 : Nat) := by
  show (some (oldTextCodec 0xdc0d6881c1e92ae4) : Option Nat) ≠ some 0xdc0d6881c1e92ae4
  simp [oldTextCodec]

/-- … and the same float now survives. -/
example : de textCodec .float (ser .float (0xdc0d6881c1e92ae4 : Nat)) = some (0xdc0d6881c1e92ae4 : Nat) := rfl

/-- `Option (Option a)` is not representable: `Some None` and `None` serialise alike. -/
theorem json_nested_option_fails :
    de id (.opt (.opt .int)) (ser (.opt (.opt .int)) (some none)) ≠ some (some none) := by
  show (some none : Option (Option (Option Int))) ≠ some (some none)
  simp

example : de id (.arr (.opt .int)) (ser (.arr (.opt .int)) ([some (1 : Int), none, some (-3)] : List (Option Int))) =
    some ([some (1 : Int), none, some (-3)] : List (Option Int)) := rfl
example : Representable (.arr (.opt .int)) := by simp [Representable]
end json

/-! ## The JSON text layer (`std.json.prim.serialize` / `deserialize`: serde_json + the std.map marshalling)

Model: `GluonModel.StdJsonText` (what is Gluon code and what is Rust is said there). `T` = what a JSON text
denotes (objects as entry lists), `JVal` = `std.json.Value` (objects as `std.map` trees), `pr`/`parse` = the
serde_json printer / parser, `toT`/`fromT` = the marshalling (`from_gluon_map` + `BTreeMap`,
`BTreeMap` + `to_gluon_map`), `ser = pr ∘ toT`, `de = fromT ∘ parse`.
`Good 128 t`: no float inside `t`, every integer within `i64`, fewer than 128 nested arrays/objects
(serde_json's recursion limit, which the real `de` has). -/
section jsontext
open StdJsonText StdMap

/-- Parsing a printed value gives the value back and consumes the whole text – for EVERY float-free value
    (all strings over all Unicode scalar values, all `i64`, arbitrary entry lists incl. duplicate and
    unsorted keys, nesting up to the recursion limit of the parser). No fuel in the statement: `parse` is
    the function the driver runs. -/
theorem json_parse_print (t : T) (h : Good 128 t) : parse (pr t) = .ok (t, []) :=
  parse_pr t h

/-- the quote character (written so that the theorem counter's string stripper is not confused) -/
abbrev q : Char := Char.ofNat 34

example : Good 128 (.arr [.int (-9223372036854775808), .str ['a', q, Char.ofNat 1, 'é'],
    .obj [(['k'], .null), (['k'], .bool true), ([], .arr [])]]) := by
  simp [Good, GoodL, GoodE]

/-- Corollary: the printer is injective on float-free values (no two values share a text). -/
theorem json_print_injective {t₁ t₂ : T} (h₁ : Good 128 t₁) (h₂ : Good 128 t₂)
    (h : pr t₁ = pr t₂) : t₁ = t₂ :=
  pr_injective h₁ h₂ h

example : pr (.str ['1']) ≠ pr (.int 1) := by
  intro h
  have := json_print_injective (t₁ := .str ['1']) (t₂ := .int 1) (by simp [Good]) (by simp [Good]) h
  cases this

/-- gluon's `Ord String` (`str::cmp`, code-point order) obeys the laws `std.map` needs. -/
theorem json_key_order_lawful : LawfulCmp scmp := scmp_lawful

/-- **The keys of an object are written in the in-order traversal of its `std.map` tree – every entry
    exactly once** (left subtree, node, right subtree), for every search tree (which is what
    `std.map.insert` builds, `insert_ordered`). This is the statement a marshalling that skips the left
    subtrees breaks. -/
theorem json_object_keys_inorder {m : Map Str JVal} (h : Ordered scmp m) :
    toT (.obj m) = .obj ((toList m).map (fun kv => (kv.1, toT kv.2))) :=
  toT_obj_ordered h

/-- … hence the text of an object is `{` + its in-order entries + `}`. -/
theorem json_object_text_inorder {m : Map Str JVal} (h : Ordered scmp m) :
    ser (.obj m) = '{' :: prMembers true ((toList m).map (fun kv => (kv.1, toT kv.2))) := by
  rw [ser, json_object_keys_inorder h, pr]

/-- a tree with a left child (key `"a"` inserted after `"b"`) -/
example : Ordered scmp (.bin ['b'] (JVal.bool true) (.bin ['a'] .null .tip .tip) .tip) := by
  simp [Ordered, All, scmp]
example : ser (.obj (.bin ['b'] (.bool true) (.bin ['a'] .null .tip .tip) .tip))
    = ['{', q, 'a', q, ':', 'n', 'u', 'l', 'l', ',', q, 'b', q, ':', 't', 'r', 'u', 'e', '}'] := by
  rfl

/-- `de (ser v)` succeeds for every float-free value and returns `fromT (toT v)`: the same entries, each
    object rebuilt by `std.map.insert` in ascending key order (a right spine).
    PARTIAL: the full statement adds `toT (fromT (toT v)) = toT v` (the value that comes back has the same
    content: same keys, same values, recursively) and `fromT (toT v) = v` when every object of `v` already
    is such a right spine; both are checked only by the correspondence/oracle so far. `de (ser v) = v` itself
    is FALSE in general for the real code: the tree shape is not preserved (see the example below), and
    the derived structural `Eq (Map k a)` can tell. -/
theorem json_de_ser_value_partial (v : JVal) (h : Good 128 (toT v)) :
    de (ser v) = .ok (fromT (toT v)) := by
  rw [de, ser, json_parse_print _ h]

example : Good 128 (toT (.obj (.bin ['b'] (.bool true) (.bin ['a'] .null .tip .tip) .tip))) := by
  simp [toT, toTM, insertSorted, scmp, Good, GoodE]
/-- the left spine comes back as a right spine -/
example : fromT (toT (.obj (.bin ['b'] (.bool true) (.bin ['a'] .null .tip .tip) .tip)))
    = .obj (.bin ['a'] .null .tip (.bin ['b'] (.bool true) .tip .tip)) := by
  rfl

end jsontext

end GluonModel.Props.C19
