/-
C17 — "A channel delivers every sent value exactly once and in sending order, and reports emptiness
rather than blocking; a reference always yields the most recently stored value; a lazy value runs its
computation at most once and every force returns that same value, while a self-dependent or failing
computation makes every force - from any thread - report an error rather than hang."

Model: `GluonModel.Chan` (transcription of vm/src/channel.rs, reference.rs, lazy.rs; coroutines of
channel.rs `spawn/resume/yield`). Statements are over `runTrace`: ANY finite sequence of primitive calls
`(thread, op)` — i.e. every interleaving any scheduler can produce — from any/the initial state.
Helper lemmas: `GluonModel.Proofs.Chan`.

The last clause is FALSE for the code as it is (defect D8, vm/src/lazy.rs:146: a failed thunk leaves
`Blackhole(owner)`): `lazy_failure_errors_fails` is the witness, `lazy_failure_errors_partial` the part
that holds (same thread), `lazy_failure_other_thread_waits` the exact extent of the defect, and
`lazy_failure_errors_fixed` the full statement for the repaired `force`.
-/
import GluonModel.Chan
import GluonModel.Proofs.Chan

namespace GluonModel.Props.C17
open GluonModel.Chan

/-! ## Channels -/

/-- FIFO, exactly once: at any moment, (values sent on `c`) = (values delivered from `c`) ++ (queue),
    all three in order. No value is lost, duplicated or reordered, whatever threads did the calls. -/
theorem chan_fifo (d : Decls) (cells : Nat → Int) (c : Nat) (tr : List (Nat × POp)) :
    sentVals c tr =
      gotVals c (hist d tr (PState.init cells)) ++ (runTrace d tr (PState.init cells)).1.chans c := by
  have := chan_fifo_gen d c tr (PState.init cells)
  simpa [PState.init] using this

/-- Hence what was received so far is a prefix of what was sent. -/
theorem chan_received_prefix_of_sent (d : Decls) (cells : Nat → Int) (c : Nat) (tr : List (Nat × POp)) :
    gotVals c (hist d tr (PState.init cells)) <+: sentVals c tr :=
  ⟨_, (chan_fifo d cells c tr).symm⟩

/-- `recv` never blocks (it is a total function) and answers "empty" exactly when every value sent so
    far has already been delivered. -/
theorem recv_empty_iff_all_delivered (d : Decls) (cells : Nat → Int) (c tid : Nat)
    (pre : List (Nat × POp)) :
    (pstep d tid (.recv c) (runTrace d pre (PState.init cells)).1).2 = .empty ↔
      gotVals c (hist d pre (PState.init cells)) = sentVals c pre := by
  have hf := chan_fifo d cells c pre
  cases hq : (runTrace d pre (PState.init cells)).1.chans c with
  | nil => rw [hq] at hf; simp [pstep, hq, hf]
  | cons v q =>
    rw [hq] at hf
    simp [pstep, hq]
    intro h
    rw [h] at hf
    have := List.self_eq_append_right.mp hf
    cases this

/-- And a non-empty answer is the oldest undelivered value. -/
theorem recv_delivers_oldest (d : Decls) (cells : Nat → Int) (c tid : Nat) (pre : List (Nat × POp))
    (v : Int) (h : (pstep d tid (.recv c) (runTrace d pre (PState.init cells)).1).2 = .got v) :
    sentVals c pre = gotVals c (hist d pre (PState.init cells)) ++
      v :: (pstep d tid (.recv c) (runTrace d pre (PState.init cells)).1).1.chans c := by
  have hf := chan_fifo d cells c pre
  cases hq : (runTrace d pre (PState.init cells)).1.chans c with
  | nil => simp [pstep, hq] at h
  | cons v' q =>
    rw [hq] at hf
    simp [pstep, hq] at h ⊢
    subst h
    exact hf

/-! ## References -/

/-- After ANY sequence of calls by any threads, `load r` yields the value most recently stored into
    `r` (the initial value if there was no store). -/
theorem ref_last_write (d : Decls) (s : PState) (r tid : Nat) (pre : List (Nat × POp)) :
    (pstep d tid (.load r) (runTrace d pre s).1).2 = .loaded (lastStore r (s.cells r) pre) := by
  simp [pstep, cells_after]

/-! ## Lazy values -/

/-- The computation of a lazy value is started at most once, whatever is forced by whichever threads. -/
theorem lazy_runs_at_most_once (d : Decls) (cells : Nat → Int) (k : Nat) (tr : List (Nat × POp)) :
    (runTrace d tr (PState.init cells)).1.lz.runs.count k ≤ 1 := by
  have h0 : RunsInv (PState.init cells).lz := by intro k; simp [PState.init]
  have := trace_runsInv d tr (PState.init cells) h0 k
  omega

/-- Every successful force of `k` returns the same value — the one stored in the cell. -/
theorem lazy_forces_agree (d : Decls) (s : PState) (k : Nat) (tr : List (Nat × POp)) (v₁ v₂ : Int)
    (h₁ : v₁ ∈ okForces k (hist d tr s)) (h₂ : v₂ ∈ okForces k (hist d tr s)) : v₁ = v₂ := by
  have e₁ := okForces_final d tr s k v₁ h₁
  have e₂ := okForces_final d tr s k v₂ h₂
  rw [e₁] at e₂
  cases e₂
  rfl

/-- A force inside its own thunk reports `<<loop>>` (lazy.rs:151-157). -/
theorem lazy_self_dependency_errors (d : Decls) (k : Nat) (n : Int) (hd : d k = .add k n)
    (fuel tid : Nat) (s : LS) (hk : s.st k = .thunk) :
    (force d (fuel + 2) tid k s).2 = .err .loop := by
  have hin := force_on_blackhole d fuel tid k
    { st := upd s.st k (.blackhole tid false), runs := k :: s.runs } tid false (by simp [upd])
  simp at hin
  unfold force
  simp only [hk, hd]
  rw [finishAdd_not_ok _ _ _ (by rw [hin]; simp)]
  exact hin

/-- A self-dependent lazy never yields a value: every force of it, at any point of any trace, by any
    thread, is `<<loop>>` or — for a thread other than the one that ran the thunk — an endless wait
    (that second alternative is defect D8 again).
    FULL STATEMENT WANTED: `… = .forced (.err .loop)` for every thread; false, see `lazy_failure_errors_fails`. -/
theorem lazy_self_dependency_never_value_partial (d : Decls) (cells : Nat → Int) (k : Nat) (n : Int)
    (hd : d k = .add k n) (pre : List (Nat × POp)) (tid : Nat) :
    (pstep d tid (.force k) (runTrace d pre (PState.init cells)).1).2 = .forced (.err .loop) ∨
    (pstep d tid (.force k) (runTrace d pre (PState.init cells)).1).2 = .forced .pending := by
  have h0 : ∀ v, (PState.init cells).lz.st k ≠ .value v := by intro v; simp [PState.init]
  have hnv := trace_selfdep_never_value d k n hd pre (PState.init cells) h0
  have := force_selfdep_result d k n hd 6 tid (runTrace d pre (PState.init cells)).1.lz hnv
  simpa [pstep, forceFuel] using this

/-- THE PROPERTY'S LAST CLAUSE FAILS ON THE CODE (D8): thread 0 forces a failing lazy (error `boom`),
    then thread 1 forces it: no error, the force waits forever. -/
theorem lazy_failure_errors_fails :
    (runTrace (fun _ => .boom) [(0, .force 0), (1, .force 0)] (PState.init (fun _ => 0))).2 =
      [.forced (.err .boom), .forced .pending] := by
  decide

/-- What does hold: after a force of `k` by thread `tid` reported an error, every later force of `k` BY
    THE SAME THREAD reports an error (`<<loop>>`), whatever any threads did in between.
    FULL STATEMENT WANTED: the same for every forcing thread `tid'`. -/
theorem lazy_failure_errors_partial (d : Decls) (s : PState) (tid k : Nat) (e : FErr)
    (post : List (Nat × POp))
    (h : (pstep d tid (.force k) s).2 = .forced (.err e)) :
    (pstep d tid (.force k) (runTrace d post (pstep d tid (.force k) s).1).1).2 = .forced (.err .loop) := by
  have herr : (force d forceFuel tid k s.lz).2 = .err e := by simpa [pstep] using h
  have hbh := force_err_leaves_blackhole d forceFuel tid k s.lz e herr
  have hst := trace_blackhole_stable d post (pstep d tid (.force k) s).1 k tid (by simpa [pstep] using hbh)
  obtain ⟨w, hw⟩ := hst
  have := force_on_blackhole d 7 tid k _ tid w hw
  simp at this
  simpa [pstep, forceFuel] using this

/-- The exact extent of D8: after a force of `k` by `tid` reported an error, a force by any OTHER thread
    waits forever, at any later time. -/
theorem lazy_failure_other_thread_waits (d : Decls) (s : PState) (tid tid' k : Nat) (e : FErr)
    (post : List (Nat × POp)) (hne : tid' ≠ tid)
    (h : (pstep d tid (.force k) s).2 = .forced (.err e)) :
    (pstep d tid' (.force k) (runTrace d post (pstep d tid (.force k) s).1).1).2 = .forced .pending := by
  have herr : (force d forceFuel tid k s.lz).2 = .err e := by simpa [pstep] using h
  have hbh := force_err_leaves_blackhole d forceFuel tid k s.lz e herr
  have hst := trace_blackhole_stable d post (pstep d tid (.force k) s).1 k tid (by simpa [pstep] using hbh)
  obtain ⟨w, hw⟩ := hst
  have := force_on_blackhole d 7 tid' k _ tid w hw
  have hne' : ¬ tid = tid' := fun x => hne x.symm
  simp [hne'] at this
  simpa [pstep, forceFuel] using this

/-- With the repaired `force` (`forceFixed`: the failure branch stores `failed e` instead of leaving the
    blackhole) the clause holds in full: once the computation of `k` has failed, every later force of
    `k`, from ANY thread, after any further forces by any threads, reports that error. -/
theorem lazy_failure_errors_fixed (d : Decls) (s : LSF) (tid tid' k : Nat) (e : FErr)
    (post : List (Nat × Nat)) (hk : s.st k = .thunk)
    (h : (forceFixed d forceFuel tid k s).2 = .err e) :
    (forceFixed d forceFuel tid' k (runForcesF d post (forceFixed d forceFuel tid k s).1)).2 = .err e := by
  have hf := forceFixed_thunk_err d forceFuel tid k s e hk h
  have hst := runForcesF_failed_stable d post _ k e hf
  exact forceFixed_on_failed d 7 tid' k _ e hst

/-! ## Non-vacuity: concrete instances -/

def exDecls : Decls := fun k => if k = 0 then .val 42 else if k = 1 then .boom else .add 2 1

-- two threads interleave sends and receives on channel 0; a force in between
def exTrace : List (Nat × POp) :=
  [(0, .send 0 11), (1, .send 0 12), (1, .recv 0), (0, .force 0), (0, .recv 0), (2, .recv 0),
   (1, .store 1 5), (0, .load 1), (1, .force 0), (0, .force 2), (0, .force 2), (1, .force 1), (1, .force 1)]

example : (runTrace exDecls exTrace (PState.init (fun _ => 7))).2 =
    [.sent, .sent, .got 11, .forced (.ok 42), .got 12, .empty, .stored, .loaded 5, .forced (.ok 42),
     .forced (.err .loop), .forced (.err .loop), .forced (.err .boom), .forced (.err .loop)] := by
  decide
example : sentVals 0 exTrace = [11, 12] := by decide
example : gotVals 0 (hist exDecls exTrace (PState.init (fun _ => 7))) = [11, 12] := by decide
example : okForces 0 (hist exDecls exTrace (PState.init (fun _ => 7))) = [42, 42] := by decide
example : (runTrace exDecls exTrace (PState.init (fun _ => 7))).1.lz.runs = [1, 2, 0] := by decide
example : exDecls 2 = .add 2 1 := by decide
-- hypothesis of `lazy_failure_errors_partial` / `_other_thread_waits`
example : (pstep exDecls 0 (.force 1) (PState.init (fun _ => 7))).2 = .forced (.err .boom) := by decide
-- hypotheses of `lazy_failure_errors_fixed`, and its conclusion on the witness of `_fails`
example : (forceFixed (fun _ => .boom) forceFuel 0 0 ⟨fun _ => .thunk, []⟩).2 = .err .boom := by decide
example : (forceFixed (fun _ => .boom) forceFuel 1 0
    (forceFixed (fun _ => .boom) forceFuel 0 0 ⟨fun _ => .thunk, []⟩).1).2 = .err .boom := by decide

end GluonModel.Props.C17
