/-
C17 — "A channel delivers every sent value exactly once and in sending order, and reports emptiness
rather than blocking; a reference always yields the most recently stored value; a lazy value runs its
computation at most once and every force returns that same value, while a self-dependent or failing
computation makes every force - from any thread - report an error rather than hang."

Model: `GluonModel.Chan` (transcription of vm/src/channel.rs, reference.rs, lazy.rs; coroutines of
channel.rs `spawn/resume/yield`). Statements are over `runTrace`: ANY finite sequence of primitive calls
`(thread, op)` — i.e. every interleaving any scheduler can produce — from any/the initial state.
Helper lemmas: `GluonModel.Proofs.Chan`.

The last clause was false for the code before /repo commit b4f59e3 (defect D8: a failed thunk left
`Blackhole(owner)`); since that fix it holds: `lazy_failure_errors` (main theorem), `lazy_force_never_hangs`,
`lazy_self_dependency_always_errors`. The old rule is kept as `forceOld` with the regression theorems
`lazy_failure_errors_old_rule_fails` / `…_old_rule_waits`.
-/
import GluonModel.Chan
import GluonModel.Proofs.Chan
import GluonModel.Proofs.ChanThreads
import GluonModel.Proofs.ChanProgram
import GluonModel.Proofs.ChanLink

namespace GluonModel.Props.C17
open GluonModel.Chan

/-! ## Channels -/

/-- FIFO, exactly once: at any moment, (values sent on `c`) = (values delivered from `c`) ++ (queue),
    all three in order. No value is lost, duplicated or reordered, whatever threads did the calls. -/
theorem chan_fifo (d : Decls) (cells : Nat → Int) (c : Nat) (tr : List (Nat × POp)) :
    sentVals c tr =
      gotVals c (hist d tr (PState.init cells)) ++ (runTrace d tr (PState.init cells)).1.chans c := by
  have := chan_fifo_gen d c tr (PState.init cells)
  simpa [PState.init] using this

/-- Hence what was received so far is a prefix of what was sent. -/
theorem chan_received_prefix_of_sent (d : Decls) (cells : Nat → Int) (c : Nat) (tr : List (Nat × POp)) :
    gotVals c (hist d tr (PState.init cells)) <+: sentVals c tr :=
  ⟨_, (chan_fifo d cells c tr).symm⟩

/-- `recv` never blocks (it is a total function) and answers "empty" exactly when every value sent so
    far has already been delivered. -/
theorem recv_empty_iff_all_delivered (d : Decls) (cells : Nat → Int) (c tid : Nat)
    (pre : List (Nat × POp)) :
    (pstep d tid (.recv c) (runTrace d pre (PState.init cells)).1).2 = .empty ↔
      gotVals c (hist d pre (PState.init cells)) = sentVals c pre := by
  have hf := chan_fifo d cells c pre
  cases hq : (runTrace d pre (PState.init cells)).1.chans c with
  | nil => rw [hq] at hf; simp [pstep, hq, hf]
  | cons v q =>
    rw [hq] at hf
    simp [pstep, hq]
    intro h
    rw [h] at hf
    have := List.self_eq_append_right.mp hf
    cases this

/-- And a non-empty answer is the oldest undelivered value. -/
theorem recv_delivers_oldest (d : Decls) (cells : Nat → Int) (c tid : Nat) (pre : List (Nat × POp))
    (v : Int) (h : (pstep d tid (.recv c) (runTrace d pre (PState.init cells)).1).2 = .got v) :
    sentVals c pre = gotVals c (hist d pre (PState.init cells)) ++
      v :: (pstep d tid (.recv c) (runTrace d pre (PState.init cells)).1).1.chans c := by
  have hf := chan_fifo d cells c pre
  cases hq : (runTrace d pre (PState.init cells)).1.chans c with
  | nil => simp [pstep, hq] at h
  | cons v' q =>
    rw [hq] at hf
    simp [pstep, hq] at h ⊢
    subst h
    exact hf

/-! ## References -/

/-- After ANY sequence of calls by any threads, `load r` yields the value most recently stored into
    `r` (the initial value if there was no store). -/
theorem ref_last_write (d : Decls) (s : PState) (r tid : Nat) (pre : List (Nat × POp)) :
    (pstep d tid (.load r) (runTrace d pre s).1).2 = .loaded (lastStore r (s.cells r) pre) := by
  simp [pstep, cells_after]

/-! ## Lazy values -/

/-- The computation of a lazy value is started at most once, whatever is forced by whichever threads. -/
theorem lazy_runs_at_most_once (d : Decls) (cells : Nat → Int) (k : Nat) (tr : List (Nat × POp)) :
    (runTrace d tr (PState.init cells)).1.lz.runs.count k ≤ 1 := by
  have h0 : RunsInv (PState.init cells).lz := by intro k; simp [PState.init]
  have := trace_runsInv d tr (PState.init cells) h0 k
  omega

/-- Every successful force of `k` returns the same value — the one stored in the cell. -/
theorem lazy_forces_agree (d : Decls) (s : PState) (k : Nat) (tr : List (Nat × POp)) (v₁ v₂ : Int)
    (h₁ : v₁ ∈ okForces k (hist d tr s)) (h₂ : v₂ ∈ okForces k (hist d tr s)) : v₁ = v₂ := by
  have e₁ := okForces_final d tr s k v₁ h₁
  have e₂ := okForces_final d tr s k v₂ h₂
  rw [e₁] at e₂
  cases e₂
  rfl

/-- Hypotheses under which the explicit fuel of the model is immaterial: only the lazies `0 … n-1` have
    bodies that force another lazy, and `n + 2 ≤ forceFuel` (generated programs: n = 3, fuel 8). -/
def FuelOk (d : Decls) (n : Nat) : Prop := Bounded d n ∧ n + 2 ≤ forceFuel

/-- "rather than hang": at any point of any trace (from the initial state), a force by any thread
    neither waits for another thread nor exhausts the model's fuel — it answers with a value or an
    error. (Forces are atomic between coroutine switches, so no blackhole survives a force.) -/
theorem lazy_force_never_hangs (d : Decls) (n : Nat) (hf : FuelOk d n) (cells : Nat → Int)
    (pre : List (Nat × POp)) (tid k : Nat) :
    (∃ v, (pstep d tid (.force k) (runTrace d pre (PState.init cells)).1).2 = .forced (.ok v)) ∨
    (∃ e, (pstep d tid (.force k) (runTrace d pre (PState.init cells)).1).2 = .forced (.err e)) := by
  have hno := trace_noBH d n hf.1 hf.2 pre (PState.init cells) (init_noBH cells)
  obtain ⟨h1, h2, _⟩ := force_top d n hf.1 hf.2 tid k _ hno
  cases hr : (force d forceFuel tid k (runTrace d pre (PState.init cells)).1.lz).2 with
  | ok v => left; exact ⟨v, by simp [pstep, hr]⟩
  | err e => right; exact ⟨e, by simp [pstep, hr]⟩
  | pending => exact absurd hr h2
  | nofuel => exact absurd hr h1

/-- THE LAST CLAUSE, in full (true since /repo commit b4f59e3): once a force of `k` has reported an
    error — the computation failed or depended on itself — EVERY later force of `k`, from ANY thread,
    after any further calls by any threads, reports an error (the same recorded one), never a value,
    never a wait. -/
theorem lazy_failure_errors (d : Decls) (n : Nat) (hf : FuelOk d n) (cells : Nat → Int)
    (pre post : List (Nat × POp)) (tid tid' k : Nat) (e : FErr)
    (h : (pstep d tid (.force k) (runTrace d pre (PState.init cells)).1).2 = .forced (.err e)) :
    (pstep d tid' (.force k)
      (runTrace d post (pstep d tid (.force k) (runTrace d pre (PState.init cells)).1).1).1).2
      = .forced (.err e) := by
  have hno := trace_noBH d n hf.1 hf.2 pre (PState.init cells) (init_noBH cells)
  have herr : (force d forceFuel tid k (runTrace d pre (PState.init cells)).1.lz).2 = .err e := by
    simpa [pstep] using h
  have hrec := force_top_err_records d tid k _ hno e herr
  have hst := trace_failed_stable d post (pstep d tid (.force k) (runTrace d pre (PState.init cells)).1).1 k e
    (by simpa [pstep] using hrec)
  have hfin := congrArg Prod.snd (force_on_failed d 7 tid' k _ e hst)
  simpa [pstep, forceFuel] using hfin

/-- A force inside its own thunk reports `<<loop>>` (lazy.rs:159-165, then `fail`). -/
theorem lazy_self_dependency_errors (d : Decls) (k : Nat) (n : Int) (hd : d k = .add k n)
    (fuel tid : Nat) (s : LS) (hk : s.st k = .thunk) :
    (force d (fuel + 2) tid k s).2 = .err .loop :=
  force_selfdep_thunk d k n hd fuel tid s hk

/-- A self-dependent lazy: EVERY force of it, at any point of any trace, by any thread, reports
    `<<loop>>` (the first one from the inner force, the later ones from the recorded failure). -/
theorem lazy_self_dependency_always_errors (d : Decls) (m : Nat) (hf : FuelOk d m) (cells : Nat → Int)
    (k : Nat) (n : Int) (hd : d k = .add k n) (pre : List (Nat × POp)) (tid : Nat) :
    (pstep d tid (.force k) (runTrace d pre (PState.init cells)).1).2 = .forced (.err .loop) := by
  have hno := trace_noBH d m hf.1 hf.2 pre (PState.init cells) (init_noBH cells)
  have hinv := trace_selfdep_inv d k n hd pre (PState.init cells) (Or.inl (by simp [PState.init]))
  rcases hinv with h | h | h
  · have := force_selfdep_thunk d k n hd 6 tid _ h
    simpa [pstep, forceFuel] using this
  · have hfin := congrArg Prod.snd (force_on_failed d 7 tid k _ _ h)
    simpa [pstep, forceFuel] using hfin
  · exact absurd h (hno k)

/-! ### Regression: the OLD rule (lazy.rs before b4f59e3, defect D8) did not have the last clause -/

/-- Under the old rule: thread 0 forces a failing lazy (error `boom`), then thread 1 forces it: no
    error, the force waits forever. -/
theorem lazy_failure_errors_old_rule_fails :
    (forceOld (fun _ => .boom) forceFuel 1 0
      (forceOld (fun _ => .boom) forceFuel 0 0 ⟨fun _ => .thunk, []⟩).1).2 = .pending ∧
    (forceOld (fun _ => .boom) forceFuel 0 0 ⟨fun _ => .thunk, []⟩).2 = .err .boom := by
  decide

/-- Under the old rule, universally: after a force of `k` by `tid` reported an error, a force by any
    OTHER thread waits forever, at any later time; the owner itself gets `<<loop>>`. -/
theorem lazy_failure_errors_old_rule_waits (d : Decls) (s : LSOld) (tid tid' k : Nat) (e : FErr)
    (post : List (Nat × Nat))
    (h : (forceOld d forceFuel tid k s).2 = .err e) :
    (forceOld d forceFuel tid' k (runForcesOld d post (forceOld d forceFuel tid k s).1)).2 =
      if tid = tid' then .err .loop else .pending := by
  have hbh := forceOld_err_leaves_blackhole d forceFuel tid k s e h
  obtain ⟨w, hw⟩ := runForcesOld_blackhole_stable d post _ k tid hbh
  exact forceOld_on_blackhole d 7 tid' k _ tid w hw

/-! ## Coroutines (`runOps`): spawn / resume / yield -/

/-- A finished thread is reported dead: `resume` logs `Err` (kind 12) and nothing else happens. -/
theorem thread_finished_reported_dead (d : Decls) (fuel tid t : Nat) (rest : List Op) (s : St)
    (h : s.th t = .done) :
    runOps d (fuel + 1) tid (.resume t :: rest) s = runOps d fuel tid rest (s.emit ⟨tid, 12, t, 0⟩) := by
  simp [runOps, h]

/-- … and it stays finished whatever any thread runs afterwards, so every later `resume` says dead. -/
theorem thread_finished_stays_dead (d : Decls) (t fuel tid : Nat) (ops : List Op) (s : St)
    (h : s.th t = .done) : (runOps d fuel tid ops s).1.th t = .done :=
  done_stable d t fuel tid ops s h

/-- `resume` of a thread whose remaining operations run to the end marks it finished and answers Ok. -/
theorem resume_runs_to_completion (d : Decls) (fuel tid t : Nat) (ops rest : List Op) (s s1 : St)
    (h : s.th t = .ready ops) (hrun : runOps d fuel t ops s = (s1, .fin)) :
    runOps d (fuel + 1) tid (.resume t :: rest) s =
      runOps d fuel tid rest ({ s1 with th := upd s1.th t .done }.emit ⟨tid, 11, t, 0⟩) := by
  simp [runOps, h, hrun, afterChild]

/-- `resume` of a suspended thread runs its saved operations; if that run stops at a `yield`, what is
    saved for the next `resume` is exactly what follows that `yield` — so the next `resume` continues
    right after the last `yield`, nothing is skipped or repeated. -/
theorem resume_continues_after_last_yield (d : Decls) (fuel tid t : Nat) (ops rest r : List Op)
    (s s1 : St) (h : s.th t = .ready ops) (hrun : runOps d fuel t ops s = (s1, .yielded r)) :
    (∃ pre, ops = pre ++ .yield :: r) ∧
    runOps d (fuel + 1) tid (.resume t :: rest) s =
      runOps d fuel tid rest ({ s1 with th := upd s1.th t (.ready r) }.emit ⟨tid, 11, t, 0⟩) := by
  refine ⟨yield_saves_suffix d fuel t ops s s1 r hrun, ?_⟩
  simp [runOps, h, hrun, afterChild]

/-- `spawn` does not run anything and `yield` on the main thread does not suspend it. -/
theorem yield_on_main_continues (d : Decls) (fuel : Nat) (rest : List Op) (s : St) :
    runOps d (fuel + 1) 0 (.yield :: rest) s = runOps d fuel 0 rest (s.emit ⟨0, 14, 0, 0⟩) := by
  simp [runOps]

/-- Values pass between threads through channels in order: in the observation log of ANY program
    (any thread bodies, any resume/yield schedule, any fuel), at the end and at every intermediate
    state, the values received from channel `c` followed by those still queued are exactly the values
    sent on `c`, in sending order. -/
theorem program_chan_fifo (d : Decls) (cells : Nat → Int) (th : Nat → TSt) (fuel tid : Nat)
    (ops : List Op) (c : Nat) :
    let s := (runOps d fuel tid ops { p := PState.init cells, th := th, log := [] }).1
    sentLog c s.log = gotLog c s.log ++ s.p.chans c := by
  have h0 : ChanInv { p := PState.init cells, th := th, log := [] } := by
    intro c; simp [PState.init]
  have := runOps_chanInv d fuel tid ops _ h0 c
  simp only [sentLog, gotLog]
  rw [this]
  simp

/-- In the observation log of ANY program (any thread bodies and schedule) every logged `load` of cell
    `r` shows the value of the latest `store` into `r` logged before it (the initial value if none),
    whichever threads did the two. -/
theorem program_ref_last_write (d : Decls) (cells : Nat → Int) (th : Nat → TSt) (fuel tid : Nat)
    (ops : List Op) (r : Nat) :
    let s := (runOps d fuel tid ops { p := PState.init cells, th := th, log := [] }).1
    LoadsOk r (cells r) s.log ∧ s.p.cells r = lastStoreLog r (cells r) s.log := by
  have h0 : RefInv cells { p := PState.init cells, th := th, log := [] } := by
    intro r; simp [PState.init, lastStoreLog, LoadsOk]
  have := runOps_refInv d cells fuel tid ops _ h0 r
  exact ⟨this.2, this.1⟩

/-- In the observation log of ANY program, all values reported by forces of the same lazy agree. -/
theorem program_forces_agree (d : Decls) (cells : Nat → Int) (th : Nat → TSt) (fuel tid : Nat)
    (ops : List Op) (k : Nat) (e₁ e₂ : Ev)
    (h₁ : e₁ ∈ (runOps d fuel tid ops { p := PState.init cells, th := th, log := [] }).1.log)
    (h₂ : e₂ ∈ (runOps d fuel tid ops { p := PState.init cells, th := th, log := [] }).1.log)
    (k₁ : e₁.kind = 8) (k₂ : e₂.kind = 8) (a₁ : e₁.a = (k : Int)) (a₂ : e₂.a = (k : Int)) :
    e₁.b = e₂.b := by
  have h0 : ForcesInv { p := PState.init cells, th := th, log := [] } := by
    intro e he; simp at he
  have hi := runOps_forcesInv d fuel tid ops _ h0
  have v₁ := hi e₁ h₁ k₁ k a₁
  have v₂ := hi e₂ h₂ k₂ k a₂
  rw [v₁] at v₂
  exact (LState.value.inj v₂)

/-- In the observation log of ANY program the computation of lazy `k` is started at most once. -/
theorem program_lazy_runs_at_most_once (d : Decls) (cells : Nat → Int) (th : Nat → TSt) (fuel tid : Nat)
    (ops : List Op) (k : Nat) :
    (runOps d fuel tid ops { p := PState.init cells, th := th, log := [] }).1.log.countP (isRun k) ≤ 1 := by
  have h0 : RunsLogInv { p := PState.init cells, th := th, log := [] } := by
    refine ⟨by intro k; simp [PState.init], by intro k; simp [PState.init]⟩
  have hi := runOps_runsLogInv d fuel tid ops _ h0
  have := hi.1 k
  rw [hi.2 k]
  omega

/-! ## The link `runOps` ⇒ `runTrace`, and what it transfers -/

/-- EVERY program is a trace: whatever the thread bodies, the resume/yield schedule and the fuel, the
    primitive calls the program made form one list `steps` of `(thread, caught?, op)` such that the
    primitives' state is `runTrace`'s final state on it and the result events of the observation log
    (kinds 1–6, 8, 9, oldest first) are exactly the result events of that trace. Hence every state
    invariant of traces holds between any two operations of any program. -/
theorem program_is_trace (d : Decls) (cells : Nat → Int) (th : Nat → TSt) (fuel tid : Nat) (ops : List Op) :
    let s := (runOps d fuel tid ops { p := PState.init cells, th := th, log := [] }).1
    ∃ steps : List Step,
      s.p = (runTrace d (stepsTrace steps) (PState.init cells)).1 ∧
      (s.log.filter isPrimKind).reverse = traceEvents d steps (PState.init cells) := by
  have h0 : Linked d (PState.init cells) { p := PState.init cells, th := th, log := [] } :=
    ⟨[], by simp [stepsTrace, runTrace], by simp [traceEvents]⟩
  exact runOps_linked d _ fuel tid ops _ h0

/-- Transfer of `trace_noBH` / `lazy_force_never_hangs` to programs: no program ever blocks in a force —
    the run of any thread never ends `blocked` (the main thread: no hang) and no coroutine is ever left
    waiting inside a force. -/
theorem program_force_never_blocks (d : Decls) (n : Nat) (hf : FuelOk d n) (cells : Nat → Int)
    (th : Nat → TSt) (hth : ∀ t, th t ≠ .blocked) (fuel tid : Nat) (ops : List Op) :
    (runOps d fuel tid ops { p := PState.init cells, th := th, log := [] }).2 ≠ .blocked ∧
    ∀ t, (runOps d fuel tid ops { p := PState.init cells, th := th, log := [] }).1.th t ≠ .blocked := by
  have h0 : Linked d (PState.init cells) { p := PState.init cells, th := th, log := [] } :=
    ⟨[], by simp [stepsTrace, runTrace], by simp [traceEvents]⟩
  exact runOps_never_blocked d n hf.1 hf.2 cells fuel tid ops _ h0 hth

/-- … and a force inside `catch` is answered at once: the newest log entry after the call is its value
    (kind 8) or its error (kind 9), at any point of any program. -/
theorem program_force_is_answered (d : Decls) (n : Nat) (hf : FuelOk d n) (cells : Nat → Int)
    (th : Nat → TSt) (fuel tid : Nat) (ops : List Op) (tid' k : Nat) :
    let s := (runOps d fuel tid ops { p := PState.init cells, th := th, log := [] }).1
    ∃ e rest, (doPrim d tid' true (.force k) s).1.log = e :: rest ∧ e.tid = tid' ∧ e.a = (k : Int) ∧
      (e.kind = 8 ∨ e.kind = 9) := by
  have h0 : Linked d (PState.init cells) { p := PState.init cells, th := th, log := [] } :=
    ⟨[], by simp [stepsTrace, runTrace], by simp [traceEvents]⟩
  have hl := runOps_linked d _ fuel tid ops _ h0
  have hno := linked_noBH d n hf.1 hf.2 cells _ hl
  obtain ⟨h1, h2, _⟩ := force_top d n hf.1 hf.2 tid' k _ hno
  exact doPrim_force_answered d tid' k _ h1 h2

/-- THE FAILURE CLAUSE ON THE PROGRAM LOG: in the observation log of ANY program, once some force of
    lazy `k` is logged as an error, no force of `k` by any thread is logged with a value, and every
    logged error of `k` carries the same error class — whichever threads forced, in whatever order. -/
theorem program_lazy_failure_errors (d : Decls) (n : Nat) (hf : FuelOk d n) (cells : Nat → Int)
    (th : Nat → TSt) (fuel tid : Nat) (ops : List Op) (k : Nat) (e₁ e₂ : Ev)
    (h₁ : e₁ ∈ (runOps d fuel tid ops { p := PState.init cells, th := th, log := [] }).1.log)
    (h₂ : e₂ ∈ (runOps d fuel tid ops { p := PState.init cells, th := th, log := [] }).1.log)
    (k₁ : e₁.kind = 9) (a₁ : e₁.a = (k : Int)) (a₂ : e₂.a = (k : Int)) :
    e₂.kind ≠ 8 ∧ (e₂.kind = 9 → e₂.b = e₁.b) := by
  have h0 : LinkFail d cells { p := PState.init cells, th := th, log := [] } :=
    ⟨⟨[], by simp [stepsTrace, runTrace], by simp [traceEvents]⟩, by intro e he; simp at he⟩
  have hi := (runOps_linkFail d n hf.1 hf.2 cells fuel tid ops _ h0).2
  have hv : ForcesInv { p := PState.init cells, th := th, log := ([] : List Ev) } := by
    intro e he; simp at he
  have hvi := runOps_forcesInv d fuel tid ops _ hv
  obtain ⟨err₁, c₁, f₁⟩ := hi e₁ h₁ k₁ k a₁
  refine ⟨?_, ?_⟩
  · intro k8
    have := hvi e₂ h₂ k8 k a₂
    rw [f₁] at this
    cases this
  · intro k9
    obtain ⟨err₂, c₂, f₂⟩ := hi e₂ h₂ k9 k a₂
    rw [f₁] at f₂
    cases f₂
    rw [← c₁, ← c₂]

/-! ## Non-vacuity: concrete instances -/

def exDecls : Decls := fun k => if k = 0 then .val 42 else if k = 1 then .boom else if k = 2 then .add 2 1 else .val 0

-- two threads interleave sends and receives on channel 0; a force in between
def exTrace : List (Nat × POp) :=
  [(0, .send 0 11), (1, .send 0 12), (1, .recv 0), (0, .force 0), (0, .recv 0), (2, .recv 0),
   (1, .store 1 5), (0, .load 1), (1, .force 0), (0, .force 2), (0, .force 2), (1, .force 1), (1, .force 1)]

example : (runTrace exDecls exTrace (PState.init (fun _ => 7))).2 =
    [.sent, .sent, .got 11, .forced (.ok 42), .got 12, .empty, .stored, .loaded 5, .forced (.ok 42),
     .forced (.err .loop), .forced (.err .loop), .forced (.err .boom), .forced (.err .boom)] := by
  decide
example : sentVals 0 exTrace = [11, 12] := by decide
example : gotVals 0 (hist exDecls exTrace (PState.init (fun _ => 7))) = [11, 12] := by decide
example : okForces 0 (hist exDecls exTrace (PState.init (fun _ => 7))) = [42, 42] := by decide
example : (runTrace exDecls exTrace (PState.init (fun _ => 7))).1.lz.runs = [1, 2, 0] := by decide
example : exDecls 2 = .add 2 1 := by decide
-- hypotheses of `lazy_failure_errors` / `lazy_force_never_hangs` / `lazy_self_dependency_always_errors`
example : FuelOk exDecls 3 := by
  refine ⟨?_, by decide⟩
  intro k hk j m h
  have h0 : k ≠ 0 := by omega
  have h1 : k ≠ 1 := by omega
  have h2 : k ≠ 2 := by omega
  simp [exDecls, h0, h1, h2] at h
example : (pstep exDecls 0 (.force 1) (PState.init (fun _ => 7))).2 = .forced (.err .boom) := by decide
-- the old witness now errors on both threads
example : (runTrace (fun _ => .boom) [(0, .force 0), (1, .force 0)] (PState.init (fun _ => 0))).2 =
    [.forced (.err .boom), .forced (.err .boom)] := by decide

-- coroutines: thread 1 sends, yields, sends; main resumes twice with receives in between, a third resume says dead
def exProg : St :=
  (runOps exDecls 100 0
    [.resume 1, .prim (.recv 0), .prim (.recv 0), .resume 1, .prim (.recv 0), .resume 1]
    { p := PState.init (fun _ => 0),
      th := fun t => if t = 1 then .ready [.prim (.send 0 11), .yield, .prim (.send 0 12)] else .done,
      log := [] }).1
example : exProg.log.reverse.map (fun e => (e.tid, e.kind, e.a, e.b)) =
    [(1, 1, 0, 11), (1, 14, 0, 0), (0, 11, 1, 0), (0, 3, 0, 11), (0, 4, 0, 0),
     (1, 1, 0, 12), (0, 11, 1, 0), (0, 3, 0, 12), (0, 12, 1, 0)] := by decide
example : sentLog 0 exProg.log = [11, 12] ∧ gotLog 0 exProg.log = [11, 12] := by decide
example : exProg.log.countP (isRun 0) = 0 := by decide
-- hypothesis of `resume_continues_after_last_yield`
example : (runOps exDecls 99 1 [.prim (.send 0 11), .yield, .prim (.send 0 12)]
    { p := PState.init (fun _ => 0), th := fun _ => .done, log := [] }).2 matches .yielded [.prim (.send 0 12)] := by
  decide

-- the link on `exProg`: its five primitive calls, in the order the schedule made them
example : (exProg.log.filter isPrimKind).reverse =
    traceEvents exDecls [(1, true, .send 0 11), (0, true, .recv 0), (0, true, .recv 0), (1, true, .send 0 12),
      (0, true, .recv 0)] (PState.init (fun _ => 0)) := by decide
-- failure on the program log: coroutine 1 forces the failing lazy 1 inside `catch`, then main does: both
-- are answered with the same error class (under the old rule main would have hung)
def exFail : St × Out :=
  runOps exDecls 100 0 [.resume 1, .prim (.force 1), .prim (.force 0)]
    { p := PState.init (fun _ => 0), th := fun t => if t = 1 then .ready [.prim (.force 1)] else .done, log := [] }
example : exFail.1.log.reverse.map (fun e => (e.tid, e.kind, e.a, e.b)) =
    [(1, 7, 1, 0), (9, 10, 1, 0), (1, 9, 1, 2), (0, 11, 1, 0), (0, 7, 1, 0), (0, 9, 1, 2),
     (0, 7, 0, 0), (9, 10, 0, 0), (0, 8, 0, 42)] := by decide
example : exFail.2 matches .fin := by decide
example : (⟨1, 9, 1, 2⟩ : Ev) ∈ exFail.1.log ∧ (⟨0, 9, 1, 2⟩ : Ev) ∈ exFail.1.log := by decide

/- Open statements (not proved):
   * that the real VM switches coroutines as `runOps` says (checked by correspondence only);
   * the death of a thread by an UNCAUGHT failing force (event 13 of the resumer) is not tied to the
     lazy in the log, so `program_lazy_failure_errors` speaks about forces inside `catch` (events 8/9);
   * payloads other than `Int`; real OS threads. -/

end GluonModel.Props.C17
