/-
C07 model, part (iv): how deep the *native* stack goes while the collector marks a value.

vm/src/gc.rs:1128-1147 `impl Trace for GcPtr<T>`: `trace` marks the object and, when it was not
marked yet, calls `(**self).trace(gc)`, which calls `trace` on every `GcPtr` inside the object
(the `Trace` impls of `DataStruct`, `ClosureData`, … in vm/src/value.rs) — a recursion on the host
stack, one level per object along a path of the heap graph.

A value is a binary tree here (a `Cons x tail` cell is `node leaf tail`); only the nesting matters.
-/
namespace GluonModel.MarkDepth

inductive V where
  | leaf
  | node (l r : V)
  deriving Repr, DecidableEq, Inhabited

/-- Native recursion depth of `GcPtr::trace` on an unmarked value. -/
def traceDepth : V → Nat
  | .leaf => 1
  | .node l r => 1 + max (traceDepth l) (traceDepth r)

def size : V → Nat
  | .leaf => 1
  | .node l r => 1 + size l + size r

/-- The list `Cons 1 (Cons 2 (… Nil))` of length `n`. -/
def chain : Nat → V
  | 0 => .leaf
  | n + 1 => .node .leaf (chain n)

/-- Marking with an explicit work list (the repair): a loop, constant native depth; returns the
    number of objects visited. -/
def markIter : Nat → List V → Nat → Nat
  | 0, _, acc => acc
  | _ + 1, [], acc => acc
  | fuel + 1, .leaf :: todo, acc => markIter fuel todo (acc + 1)
  | fuel + 1, .node l r :: todo, acc => markIter fuel (l :: r :: todo) (acc + 1)

def sizes : List V → Nat
  | [] => 0
  | v :: vs => size v + sizes vs

end GluonModel.MarkDepth
