/-
Models for C16 "compilation and evaluation are deterministic": the places where the gluon
implementation goes through state that depends on *history* (type-variable ids, hash-map bucket
order, absolute positions in the VM-wide code map) on its way to observable text.

  1. `gen` / `generalizeTop` — naming of type variables at generalisation
     (check/src/typecheck/generalize.rs:98-131, 139-230, 233-295)
  2. `groupsImpl`            — grouping of match arms through a hash map + `group_order`
     (vm/src/core/mod.rs:1748-1769 and 1885-1906), and the pattern-match compiler around it
     (`translate`, vm/src/core/mod.rs:1997-2094, 1742-1945; `fixup`, 863-880)
  3. `fileStart` / `implicitPos` — the name of the `?` binding of a record pattern
     (parser/src/grammar.lalrpop:597, base/src/source.rs:82-92)

No imports: the driver is linked natively.
-/
namespace GluonModel.Determinism

/-! ## 1. Type-variable naming -/

/-- Types of the fragment: unification variables carry the *id* handed out by the substitution
    (check/src/substitution.rs `new_var`); records are right-nested rows. -/
inductive Ty where
  | var (id : Nat)
  | int
  | fn (a b : Ty)
  | rnil
  | rcons (name : String) (t rest : Ty)
  deriving Repr, DecidableEq, Inhabited

/-- Renumbering of the variable ids (what a different checking history does to a type). -/
def Ty.mapVars (ρ : Nat → Nat) : Ty → Ty
  | .var v => .var (ρ v)
  | .int => .int
  | .fn a b => .fn (a.mapVars ρ) (b.mapVars ρ)
  | .rnil => .rnil
  | .rcons n t r => .rcons n (t.mapVars ρ) (r.mapVars ρ)

/-- `unbound_variables` of `TypeGeneralizer` (generalize.rs:13) seen as the list of its entries in
    insertion order: variable id ↦ number of the generated name. -/
abbrev Subst := List (Nat × Nat)

def lookupVar : Subst → Nat → Option Nat
  | [], _ => none
  | (w, k) :: r, v => if w = v then some k else lookupVar r v

/-- generalize.rs:139 `generalize_type` on a type without bound names in scope: every variable at
    or above the level is replaced by the generic made for it at its *first* occurrence
    (`unbound_variables.entry(var.id).or_insert_with(next_variable)`, line 160); function types
    are walked argument first, rows field by field.  The result uses `var k` for "the k-th
    generated name". -/
def gen : Ty → Subst → Ty × Subst
  | .var v, σ =>
    match lookupVar σ v with
    | some k => (.var k, σ)
    | none => (.var σ.length, σ ++ [(v, σ.length)])
  | .int, σ => (.int, σ)
  | .fn a b, σ =>
    let r₁ := gen a σ
    let r₂ := gen b r₁.2
    (.fn r₁.1 r₂.1, r₂.2)
  | .rnil, σ => (.rnil, σ)
  | .rcons n t r, σ =>
    let r₁ := gen t σ
    let r₂ := gen r r₁.2
    (.rcons n r₁.1 r₂.1, r₂.2)

/-- `TypeVariableGenerator::next_variable` (generalize.rs:268-294) with nothing in scope: the
    first call yields `a` (and leaves `self.name = "a"`), call number k+1 yields `a<k>`.
    Names are kept as byte codes; `nameStr` is the text. -/
def nameCodes (k : Nat) : List Nat :=
  if k = 0 then [97] else 97 :: (Nat.toDigits 10 (k - 1)).map Char.toNat

def nameStr (k : Nat) : String := String.ofList ((nameCodes k).map Char.ofNat)

/-- `str::cmp` on the declared names (generalize.rs:123): bytewise lexicographic. -/
def leLex : List Nat → List Nat → Bool
  | [], _ => true
  | _ :: _, [] => false
  | a :: as, b :: bs => if a < b then true else if b < a then false else leLex as bs

/-- generalize.rs:123 `params.sort_unstable_by(|l, r| l.id.declared_name().cmp(..))`. -/
def sortNames (ns : List (List Nat)) : List (List Nat) := ns.mergeSort leLex

/-- generalize.rs:98 `generalize_type_top`: the parameters of the `forall` are the drained
    entries of `unbound_variables` sorted by name; here they are drained in insertion order
    (`forall_params_order_independent` shows the drain order is irrelevant). -/
def generalizeTop (t : Ty) : List (List Nat) × Ty :=
  let r := gen t []
  (sortNames (r.2.map (fun p => nameCodes p.2)), r.1)

/-! ## 2. Grouping of match arms -/

section Groups
variable {α κ : Type} [DecidableEq κ]

/-- The hash map `groups` (core/mod.rs:1749) as a list of buckets in *iteration order*. -/
abbrev Buckets (α κ : Type) := List (κ × List α)

def lookupB (m : Buckets α κ) (k : κ) : List α :=
  match m.find? (fun p => decide (p.1 = k)) with
  | some p => p.2
  | none => []

def pushTo (m : Buckets α κ) (k : κ) (x : α) : Buckets α κ :=
  m.map (fun p => if p.1 = k then (p.1, p.2 ++ [x]) else p)

/-- Where a new key lands in the iteration order is up to the hasher: `pos k n` is any function
    of the key and the current number of buckets. -/
def insertAt (m : Buckets α κ) (i : Nat) (e : κ × List α) : Buckets α κ :=
  m.take i ++ e :: m.drop i

/-- One iteration of the loop at core/mod.rs:1751-1769: `groups.entry(k).or_insert_with(|| {
    group_order.push(k); Vec::new() }).push(equation)`. -/
def groupStep (pos : κ → Nat → Nat) (key : α → κ) (st : List κ × Buckets α κ) (x : α) :
    List κ × Buckets α κ :=
  if st.2.any (fun p => decide (p.1 = key x)) then (st.1, pushTo st.2 (key x) x)
  else (st.1 ++ [key x], insertAt st.2 (pos (key x) st.2.length) (key x, [x]))

/-- core/mod.rs:1792 / 1913: the alternatives are produced by walking `group_order` and looking
    every key up in the map. -/
def groupsImpl (pos : κ → Nat → Nat) (key : α → κ) (xs : List α) : List (κ × List α) :=
  let st := xs.foldl (groupStep pos key) ([], [])
  st.1.map (fun k => (k, lookupB st.2 k))

/-- Specification: keys in order of first occurrence, each with its members in source order. -/
def groupsSpec (key : α → κ) (xs : List α) : List (κ × List α) :=
  ((xs.map key).eraseDups).map (fun k => (k, xs.filter (fun x => decide (key x = k))))

end Groups

/-! ### The pattern-match compiler around the grouping (fragment: constructor, integer literal
and variable patterns) -/

inductive Pat where
  | var
  | lit (n : Int)
  | ctor (name : String) (args : List Pat)
  deriving Inhabited

/-- `Equation` (core/mod.rs:1559): the patterns still to be matched and the arm's result (the
    index of the arm). -/
structure Eqn where
  pats : List Pat
  result : Nat
  deriving Inhabited

inductive Key where
  | ctor (name : String) (arity : Nat)
  | lit (n : Int)
  | any
  deriving DecidableEq, Inhabited

inductive Tree where
  | leaf (r : Nat)
  | fail
  | sw (alts : List (Key × Tree))
  deriving Inhabited

/-- `CType` (core/mod.rs:1576) without `Record`. -/
inductive Kind where
  | constructor | variable | literal
  deriving DecidableEq, Inhabited

def firstKind (e : Eqn) : Kind :=
  match e.pats with
  | .ctor _ _ :: _ => .constructor
  | .lit _ :: _ => .literal
  | _ => .variable

/-- itertools `chunk_by` (core/mod.rs:2021): maximal runs of consecutive equal keys. -/
def chunkBy {α : Type} (f : α → Kind) : List α → List (Kind × List α)
  | [] => []
  | x :: xs =>
    match chunkBy f xs with
    | (k, g) :: rest => if f x = k then (k, x :: g) :: rest else (f x, [x]) :: (k, g) :: rest
    | [] => [(f x, [x])]

def dropFirst (e : Eqn) : Eqn := { e with pats := e.pats.drop 1 }

/-- core/mod.rs:1803-1818: the constructor's sub-patterns are put in front of the rest. -/
def expandCtor (e : Eqn) : Eqn :=
  match e.pats with
  | .ctor _ args :: rest => { e with pats := args ++ rest }
  | _ => e

def ctorName (e : Eqn) : String :=
  match e.pats with
  | .ctor n _ :: _ => n
  | _ => ""

def ctorArity (e : Eqn) : Nat :=
  match e.pats with
  | .ctor _ args :: _ => args.length
  | _ => 0

def litOf (e : Eqn) : Int :=
  match e.pats with
  | .lit n :: _ => n
  | _ => 0

/-- `PatternTranslator::translate` (core/mod.rs:1997) with `compile_constructor` (1742),
    `compile_literal` (1879) and `compile_variable` (1841); `nCons` is the number of constructors
    of the matched variant type (the `complete` test, 1773-1778); `fuel` bounds the recursion
    (the real recursion is on the total size of the patterns). -/
def translate (nCons : Nat) (pos : String → Nat → Nat) (posI : Int → Nat → Nat) :
    Nat → Tree → Nat → List Eqn → Tree
  | 0, d, _, _ => d
  | _ + 1, d, 0, eqs =>
    match eqs with
    | [] => d
    | e :: _ => .leaf e.result
  | fuel + 1, d, n + 1, eqs =>
    (chunkBy firstKind eqs).foldr (fun c dflt =>
      match c.1 with
      | .variable =>
        .sw [(.any, translate nCons pos posI fuel dflt n (c.2.map dropFirst))]
      | .literal =>
        let groups := groupsImpl posI litOf c.2
        .sw (groups.map (fun g =>
              (Key.lit g.1, translate nCons pos posI fuel dflt n (g.2.map dropFirst)))
            ++ [(.any, dflt)])
      | .constructor =>
        let groups := groupsImpl pos ctorName c.2
        let alts := groups.map (fun g =>
          let arity := (g.2.map ctorArity).foldl max 0
          (Key.ctor g.1 arity,
            translate nCons pos posI fuel dflt (arity + n) (g.2.map expandCtor)))
        .sw (if groups.length = nCons then alts else alts ++ [(.any, dflt)])) d

/-- `FixupMatches` (core/mod.rs:863-880): `match x with | y -> e` becomes `e`. -/
def fixup : Nat → Tree → Tree
  | 0, t => t
  | fuel + 1, .sw [(.any, t)] => fixup fuel t
  | fuel + 1, .sw alts => .sw (alts.map (fun a => (a.1, fixup fuel a.2)))
  | _ + 1, t => t

/-- `translate_top` (core/mod.rs:1966) for a `match` on an identifier: one variable, default
    "Unmatched pattern", then the fix-up pass. -/
def compileMatch (nCons : Nat) (pos : String → Nat → Nat) (posI : Int → Nat → Nat)
    (arms : List Pat) : Tree :=
  let eqs := (List.range arms.length).zip arms |>.map (fun p => { pats := [p.2], result := p.1 : Eqn })
  fixup 256 (translate nCons pos posI 256 .fail 1 eqs)

/-! ## 3. The name of a record pattern's `?` binding -/

/-- base/src/source.rs:82 `CodeMap::add_filemap`: a file starts one past the end of the previous
    one, the first at 1; `history` = lengths of the sources added before. -/
def fileStart (history : List Nat) : Nat := history.foldl (fun s len => s + len + 1) 1

/-- parser/src/grammar.lalrpop:597: the binding is called `implicit?<absolute start of the ?>`;
    `rel` is the offset of the `?` in its own file. -/
def implicitPos (history : List Nat) (rel : Nat) : Nat := fileStart history + rel

def implicitName (history : List Nat) (rel : Nat) : String :=
  "implicit?" ++ toString (implicitPos history rel)

/-- The suggested fix: name the binding after the offset inside its own file. -/
def implicitPosFixed (_history : List Nat) (rel : Nat) : Nat := rel

/-! ## 4. Collecting the errors of concurrently running macro expansions

vm/src/macros.rs `MacroExpander::expand` (lines 472-523): the expansions of one module run
concurrently in a `FuturesUnordered`; each future is tagged with its *source index* before it
is put into the unordered set (`.enumerate().map(|(index, future)| future.map(move |x| (index,
x)))`, 495-499); results arrive in completion order, failures are pushed as `(index, error)`
(505) and finally `unordered_errors.sort_by_key(|&(index, _)| index)` (514) — a stable sort. -/

/-- The futures as they are put into the `FuturesUnordered`: result (`none` = the expansion
    succeeded) paired with its source index. -/
def tagTasks {ε : Type} (results : List (Option ε)) : List (Option ε × Nat) := results.zipIdx

/-- `unordered_errors` after the `while let Some(..) = stream.next().await` loop, for the
    arrival order `arrived`. -/
def collectErrors {ε : Type} (arrived : List (Option ε × Nat)) : List (Nat × ε) :=
  arrived.filterMap (fun p => p.1.map (fun e => (p.2, e)))

def leIdx {ε : Type} (a b : Nat × ε) : Bool := decide (a.1 ≤ b.1)

/-- macros.rs:514-516: sort by index, drop the index. -/
def reportErrors {ε : Type} (arrived : List (Option ε × Nat)) : List ε :=
  ((collectErrors arrived).mergeSort leIdx).map (fun p => p.2)

/-- The variant that numbers the results *after* collection (`.collect::<FuturesUnordered<_>>()
    .enumerate()`): the index is the completion rank, `arrived` carries no tags. -/
def reportErrorsLateNumbering {ε : Type} (arrived : List (Option ε)) : List ε :=
  reportErrors arrived.zipIdx

end GluonModel.Determinism
